//! C11 correspondence scenario: RRDP files, rsync tree and retained deltas of the real
//! `RepositoryManager` on a disk repository directory.
//!
//! (a) Histories, in-process: publishers publish / update / withdraw, `update_rrdp_if_needed`,
//!     `rrdp_session_reset`, under a grid of retention configurations (one `RepositoryManager` per
//!     configuration on the same storage). Around every request the stored `RepositoryContent`
//!     (session, serial, snapshot, retained deltas with times, staged elements) is read through a
//!     second `WalStore`; around every call that writes the repository the complete directory
//!     tree under `repo_dir` is read and parsed (`rpki::rrdp` parsers) and the file-system probe
//!     (`krill::commons::storage::verif`) records the sequence of mutations. A simulated client per
//!     earlier serial of the session (holding what the snapshot file of that serial contained) is
//!     part of the case; what it must reach is `get_publisher_details` of all publishers.
//! (b) Cut points, in worker subprocesses (re-exec with `--worker`): a prepared server directory
//!     is copied per cut; the worker aborts right before file-system mutation n of one
//!     `update_rrdp_if_needed`; the surviving directory is read; a fresh runtime then publishes
//!     and updates again. The cuts extend over the rsync part of the write (`--rsynccut 0` leaves
//!     that part out); before commit e1f99c61 the cut between the second rename and the removal
//!     of rsync/old left every later write failing (finding F11c, fixed).
//! (c) On by default (see lib/props.d/C11.py): `--f11a 1` applies the property's unconditional
//!     "never more than max_nr deltas" to every update (an exceedance is tagged with whether the
//!     configured minimums explain it: the rest of finding F11a); `--f11b 1` runs a worker with
//!     `rrdp_delta_files_max_nr = 0` (no panic since 5d8ba60d); `--candidates 1` replays three
//!     scripted scenarios: URIs differing in module-name case (finding F11e), an object URI that
//!     is a directory prefix of another (finding F11h), and - as a regression check - a stale
//!     rsync/tmp-<serial> after a session reset (F11f, fixed by e2447e97).
//!
//! Abstraction (trusted): as in c10.rs for URIs / handles / contents; session ids, random path
//! components and unknown names are interned; a hash is named by the parsed content of the file
//! it is the SHA-256 of; times are microseconds since the start of the run.
use std::collections::{BTreeMap, BTreeSet, HashMap};
use std::io::Write;
use std::path::{Path, PathBuf};
use std::str::FromStr;
use std::sync::atomic::{AtomicBool, AtomicU64, Ordering};
use std::sync::{Arc, Mutex};

use bytes::Bytes;
use krill::api::admin::PublicationServerUris;
use krill::commons::actor::Actor;
use krill::commons::eventsourcing::WalStore;
use krill::commons::storage::verif::{set_probe, Event, Probe};
use krill::commons::storage::{StorageSystem, StorageUri};
use krill::config::Config;
use krill::constants::PUBSERVER_CONTENT_NS;
use krill::server::pubd::{RepositoryContent, RepositoryManager};
use krill::server::runtime::KrillRuntime;
use rpki::ca::idexchange::{Handle, MyHandle, PublisherHandle, PublisherRequest};
use rpki::ca::publication::{self, Base64, Publish, PublishDelta, Update, Withdraw};
use rpki::uri;
use serde_json::{json, Value};

use kvh::util::{coq_list, write_json, Args, CaseWriter, Rng};

const HEADER: &str = "From KV Require Import base.Tac pubd.Objects pubd.Staged pubd.Access pubd.Content pubd.PubdCheck pubd.Rrdp pubd.Fs pubd.RrdpFiles pubd.Rsync pubd.RrdpCheck.\nOpen Scope N_scope.";
const EVALS: [&str; 8] = ["agrees", "ok_serial", "ok_contig", "ok_retention", "ok_snapshot", "ok_files", "ok_write", "ok_client"];
const RRDP_BASE: &str = "https://localhost/repo/rrdp/";
const RSYNC_BASE: &str = "rsync://localhost/repo/";
const SELF_DIR: &str = "/proc/self/cwd";
const HUGE: u64 = 4_000_000;

// ---------------------------------------------------------------- abstraction

#[derive(Clone, Debug, PartialEq, Eq, PartialOrd, Ord)]
struct AUri { scheme: u64, auth: u64, authv: u64, module: u64, modv: u64, path: Vec<u64> }
#[derive(Clone, Debug, PartialEq, Eq, PartialOrd, Ord)]
struct AJail { auth: u64, module: u64, path: Vec<u64> }
#[derive(Clone, Debug, PartialEq, Eq, PartialOrd, Ord)]
enum AElem { Pub(AUri, u64, u64), Upd(AUri, u64, u64, u64), Wdr(AUri, u64) }
#[derive(Clone, Debug, PartialEq, Eq, PartialOrd, Ord)]
enum AName { Rrdp, Rsync, Archive, Notif, NewNotif, Sess(u64), Ser(u64), Rand(u64), Snap, Delta, Current, Old, Tmp(u64), Seg(u64) }

struct Interner {
    segs: HashMap<String, u64>,
    auths: HashMap<String, u64>,
    spellings: HashMap<String, u64>,
    mods: HashMap<String, u64>,
    contents: HashMap<String, u64>, // base64 text -> content id
    hashes: HashMap<String, u64>,   // hex hash -> id (= content id where the content is known)
    sizes: BTreeMap<u64, u64>,      // content id -> Base64::size_approx
    sessions: HashMap<String, u64>,
    randoms: HashMap<String, u64>,
    file_hash: HashMap<String, String>, // hex SHA-256 of a file -> Coq term of its parsed content (fdata)
    unknown_files: HashMap<String, u64>,
    next_unknown: u64,
    t0: chrono::DateTime<chrono::Utc>,
}

impl Interner {
    fn new() -> Self {
        let mut i = Interner { segs: HashMap::new(), auths: HashMap::new(), spellings: HashMap::new(), mods: HashMap::new(),
            contents: HashMap::new(), hashes: HashMap::new(), sizes: BTreeMap::new(), sessions: HashMap::new(), randoms: HashMap::new(),
            file_hash: HashMap::new(), unknown_files: HashMap::new(), next_unknown: 1_000_000,
            t0: chrono::Utc::now() - chrono::Duration::seconds(3600) };
        i.segs.insert("ta".into(), 0);
        i
    }
    fn seg(&mut self, s: &str) -> u64 { let n = self.segs.len() as u64; *self.segs.entry(s.to_string()).or_insert(n) }
    fn spelling(&mut self, s: &str) -> u64 {
        if s == s.to_ascii_lowercase() { return 0 }
        let n = self.spellings.len() as u64 + 1;
        *self.spellings.entry(s.to_string()).or_insert(n)
    }
    fn auth(&mut self, s: &str) -> (u64, u64) {
        let n = self.auths.len() as u64 + 1;
        let id = *self.auths.entry(s.to_ascii_lowercase()).or_insert(n);
        (id, self.spelling(s))
    }
    fn module(&mut self, s: &str) -> (u64, u64) {
        let n = self.mods.len() as u64 + 1;
        let id = *self.mods.entry(s.to_ascii_lowercase()).or_insert(n);
        (id, self.spelling(s))
    }
    fn handle(&mut self, h: &str) -> Vec<u64> { h.split('/').map(|s| self.seg(s)).collect() }
    fn uri(&mut self, s: &str) -> AUri {
        let (scheme, rest) = s.split_once("://").expect("uri scheme");
        let mut it = rest.split('/');
        let (auth, authv) = self.auth(it.next().expect("authority"));
        let (module, modv) = self.module(it.next().expect("module"));
        let path: Vec<u64> = it.filter(|x| !x.is_empty()).map(|x| self.seg(x)).collect();
        let scheme = if scheme == "rsync" { 0 } else { self.spelling(scheme).max(1) };
        AUri { scheme, auth, authv, module, modv, path }
    }
    fn jail(&mut self, s: &str) -> AJail { let u = self.uri(s); AJail { auth: u.auth, module: u.module, path: u.path } }
    fn session(&mut self, s: &str) -> u64 { let n = self.sessions.len() as u64 + 1; *self.sessions.entry(s.to_string()).or_insert(n) }
    fn random(&mut self, s: &str) -> u64 { let n = self.randoms.len() as u64 + 1; *self.randoms.entry(s.to_string()).or_insert(n) }
    fn register_b64(&mut self, b64: &Base64, id: u64) {
        let s = b64.to_string();
        self.sizes.insert(id, ((s.len() >> 2) * 3) as u64);
        self.contents.insert(s, id);
        self.hashes.insert(b64.to_hash().to_string(), id);
    }
    /// (hash id, content id) of a base64 text
    fn content_id(&mut self, b64: &str) -> (u64, u64) {
        if let Some(c) = self.contents.get(b64) { return (*c, *c) }
        let v: Base64 = serde_json::from_value(json!(b64)).expect("base64");
        let hx = v.to_hash().to_string();
        let n = self.next_unknown; self.next_unknown += 1;
        self.contents.insert(b64.to_string(), n);
        self.sizes.insert(n, ((b64.len() >> 2) * 3) as u64);
        let h = *self.hashes.entry(hx).or_insert(n);
        (h, n)
    }
    fn content_of_bytes(&mut self, b: &[u8]) -> (u64, u64) { let s = Base64::from_content(b).to_string(); self.content_id(&s) }
    fn hash_id(&mut self, hex: &str) -> u64 {
        if let Some(h) = self.hashes.get(hex) { return *h }
        let n = self.next_unknown; self.next_unknown += 1;
        self.hashes.insert(hex.to_string(), n);
        n
    }
    fn time_us(&self, rfc3339: &str) -> i64 {
        let t = chrono::DateTime::parse_from_rfc3339(rfc3339).expect("time").with_timezone(&chrono::Utc);
        (t - self.t0).num_microseconds().expect("time range")
    }
}

fn content_bytes(id: u64, pad: usize) -> Bytes { Bytes::from(format!("object content #{id} {}", "x".repeat(pad))) }

fn coq_nlist(v: &[u64]) -> String { format!("[{}]", v.iter().map(|x| x.to_string()).collect::<Vec<_>>().join("; ")) }
fn coq_uri(u: &AUri) -> String { format!("(U {} {} {} {} {} {})", u.scheme, u.auth, u.authv, u.module, u.modv, coq_nlist(&u.path)) }
fn coq_jail(j: &AJail) -> String { format!("(J {} {} {})", j.auth, j.module, coq_nlist(&j.path)) }
fn coq_elem(e: &AElem) -> String {
    match e {
        AElem::Pub(u, h, c) => format!("Pub {} ({}, {})", coq_uri(u), h, c),
        AElem::Upd(u, old, h, c) => format!("Upd {} {} ({}, {})", coq_uri(u), old, h, c),
        AElem::Wdr(u, old) => format!("Wdr {} {}", coq_uri(u), old),
    }
}
fn coq_objects(o: &[(AUri, u64, u64)]) -> String { coq_list(&o.iter().map(|(u, h, c)| format!("({}, ({}, {}))", coq_uri(u), h, c)).collect::<Vec<_>>()) }
fn coq_name(n: &AName) -> String {
    match n {
        AName::Rrdp => "NRrdp".into(), AName::Rsync => "NRsync".into(), AName::Archive => "NArchive".into(),
        AName::Notif => "NNotif".into(), AName::NewNotif => "NNewNotif".into(), AName::Snap => "NSnap".into(), AName::Delta => "NDelta".into(),
        AName::Current => "NCurrent".into(), AName::Old => "NOld".into(),
        AName::Sess(x) => format!("NSess {x}"), AName::Ser(x) => format!("NSer {x}"), AName::Rand(x) => format!("NRand {x}"),
        AName::Tmp(x) => format!("NTmp {x}"), AName::Seg(x) => format!("NSeg {x}"),
    }
}
fn coq_path(p: &[AName]) -> String { coq_list(&p.iter().map(coq_name).collect::<Vec<_>>()) }
fn coq_z(x: i64) -> String { if x < 0 { format!("({})%Z", x) } else { format!("{}%Z", x) } }

fn abs_path(rel: &str, it: &mut Interner) -> Vec<AName> {
    let c: Vec<&str> = rel.split('/').filter(|s| !s.is_empty()).collect();
    let mut out = Vec::new();
    if c.is_empty() { return out }
    let is_num = |s: &str| s.parse::<u64>().map(|n| n.to_string() == s).unwrap_or(false);
    match c[0] {
        "rrdp" | "archive" => {
            out.push(if c[0] == "rrdp" { AName::Rrdp } else { AName::Archive });
            for (i, s) in c.iter().enumerate().skip(1) {
                let n = match i {
                    1 if *s == "notification.xml" && c[0] == "rrdp" => AName::Notif,
                    1 if *s == "new-notification.xml" && c[0] == "rrdp" => AName::NewNotif,
                    1 if uuid::Uuid::parse_str(s).is_ok() => AName::Sess(it.session(s)),
                    2 if is_num(s) => AName::Ser(s.parse().unwrap()),
                    3 => AName::Rand(it.random(s)),
                    4 if *s == "snapshot.xml" => AName::Snap,
                    4 if *s == "delta.xml" => AName::Delta,
                    _ => AName::Seg(it.seg(s)),
                };
                out.push(n);
            }
        }
        "rsync" => {
            out.push(AName::Rsync);
            for (i, s) in c.iter().enumerate().skip(1) {
                let n = match i {
                    1 if *s == "current" => AName::Current,
                    1 if *s == "old" => AName::Old,
                    1 if s.starts_with("tmp-") && is_num(&s[4..]) => AName::Tmp(s[4..].parse().unwrap()),
                    _ => AName::Seg(it.seg(s)),
                };
                out.push(n);
            }
        }
        _ => { for s in c { out.push(AName::Seg(it.seg(s))) } }
    }
    out
}

// ---------------------------------------------------------------- raw observations

#[derive(Clone, Debug)]
struct RawEntry { rel: String, bytes: Option<Vec<u8>> }

fn walk(repo: &Path) -> Vec<RawEntry> {
    fn rec(base: &Path, dir: &Path, out: &mut Vec<RawEntry>) {
        let rd = match std::fs::read_dir(dir) { Ok(r) => r, Err(_) => return };
        for e in rd.flatten() {
            let p = e.path();
            let rel = p.strip_prefix(base).unwrap().to_string_lossy().to_string();
            let md = match std::fs::symlink_metadata(&p) { Ok(m) => m, Err(_) => continue };
            if md.is_dir() { out.push(RawEntry { rel, bytes: None }); rec(base, &p, out); }
            else { out.push(RawEntry { rel, bytes: Some(std::fs::read(&p).unwrap_or_default()) }); }
        }
    }
    let mut out = Vec::new();
    rec(repo, repo, &mut out);
    out.sort_by(|a, b| a.rel.cmp(&b.rel));
    out
}

/// Parsed snapshot / delta / notification contents as model terms. Returns the Coq `fcontent` term.
fn abstract_file(p: &[AName], bytes: &[u8], it: &mut Interner, pass2: bool) -> String {
    if bytes.is_empty() { return "CEmpty".into() }
    let hex = rpki::rrdp::Hash::from_data(bytes).to_string();
    let last = p.last().cloned();
    let in_rsync = matches!(p.first(), Some(AName::Rsync));
    if in_rsync {
        let (_, c) = it.content_of_bytes(bytes);
        return format!("CData (DObj {c})");
    }
    match last {
        Some(AName::Snap) => match rpki::rrdp::Snapshot::parse(bytes) {
            Ok(s) => {
                let sess = it.session(&s.session_id().hyphenated().to_string());
                let objs: Vec<(AUri, u64, u64)> = s.elements().iter().map(|e| { let (h, c) = it.content_of_bytes(e.data()); (it.uri(e.uri().as_str()), h, c) }).collect();
                let d = format!("DSnap {} {} {}", sess, s.serial(), coq_objects(&objs));
                it.file_hash.insert(hex, d.clone());
                format!("CData ({d})")
            }
            Err(_) => "CMix".into(),
        },
        Some(AName::Delta) => match rpki::rrdp::Delta::parse(bytes) {
            Ok(s) => {
                let sess = it.session(&s.session_id().hyphenated().to_string());
                let els: Vec<String> = s.elements().iter().map(|e| match e {
                    rpki::rrdp::DeltaElement::Publish(p) => { let (h, c) = it.content_of_bytes(p.data()); coq_elem(&AElem::Pub(it.uri(p.uri().as_str()), h, c)) }
                    rpki::rrdp::DeltaElement::Update(u) => { let (h, c) = it.content_of_bytes(u.data()); let old = it.hash_id(&u.hash().to_string()); coq_elem(&AElem::Upd(it.uri(u.uri().as_str()), old, h, c)) }
                    rpki::rrdp::DeltaElement::Withdraw(w) => { let old = it.hash_id(&w.hash().to_string()); coq_elem(&AElem::Wdr(it.uri(w.uri().as_str()), old)) }
                }).collect();
                let d = format!("DDelta {} {} {}", sess, s.serial(), coq_list(&els));
                it.file_hash.insert(hex, d.clone());
                format!("CData ({d})")
            }
            Err(_) => "CMix".into(),
        },
        Some(AName::Notif) | Some(AName::NewNotif) => {
            if !pass2 { return String::new() }
            match rpki::rrdp::NotificationFile::parse(bytes) {
                Ok(n) => {
                    let sess = it.session(&n.session_id().hyphenated().to_string());
                    let href = |u: &str, h: String, it: &mut Interner| -> (String, String) {
                        let rel = u.strip_prefix(RRDP_BASE).map(|r| format!("rrdp/{r}")).unwrap_or_else(|| format!("elsewhere/{u}"));
                        let p = abs_path(&rel, it);
                        let d = match it.file_hash.get(&h) { Some(d) => d.clone(), None => { let k = it.unknown_files.len() as u64 + 1; let id = *it.unknown_files.entry(h).or_insert(k); format!("DOther {id}") } };
                        (coq_path(&p), d)
                    };
                    let (sp, sd) = href(n.snapshot().uri().as_str(), n.snapshot().hash().to_string(), it);
                    let ds: Vec<String> = n.deltas().iter().map(|d| { let (p, h) = href(d.uri().as_str(), d.hash().to_string(), it); format!("({}, {}, {})", d.serial(), p, h) }).collect();
                    format!("CNotif (mkNotif {} {} ({}, {}) {})", sess, n.serial(), sp, sd, coq_list(&ds))
                }
                Err(_) => "CMix".into(),
            }
        }
        _ => { let k = it.unknown_files.len() as u64 + 1; let id = *it.unknown_files.entry(hex).or_insert(k); format!("CData (DOther {id})") }
    }
}

/// The directory tree as a Coq `fs` term (files first pass: snapshot/delta, second pass: notifications).
fn coq_fs(raw: &[RawEntry], it: &mut Interner) -> String {
    let paths: Vec<Vec<AName>> = raw.iter().map(|e| abs_path(&e.rel, it)).collect();
    let mut terms: Vec<String> = vec![String::new(); raw.len()];
    for pass2 in [false, true] {
        for (i, e) in raw.iter().enumerate() {
            match &e.bytes {
                None => terms[i] = format!("({}, Dir)", coq_path(&paths[i])),
                Some(b) => {
                    let is_notif = matches!(paths[i].last(), Some(AName::Notif) | Some(AName::NewNotif)) && matches!(paths[i].first(), Some(AName::Rrdp));
                    if is_notif != pass2 { continue }
                    let c = abstract_file(&paths[i], b, it, pass2);
                    terms[i] = format!("({}, File ({}))", coq_path(&paths[i]), c);
                }
            }
        }
    }
    coq_list(&terms)
}

/// The observed server state in model terms.
#[derive(Clone, Debug, PartialEq)]
struct MDelta { serial: u64, time: i64, rnd: u64, elems: Vec<AElem> }
#[derive(Clone, Debug, PartialEq)]
struct MR {
    base: AJail,
    pubs: Vec<(String, AJail)>,
    snap: BTreeMap<String, Vec<(AUri, u64, u64)>>,
    staged: BTreeMap<String, Vec<AElem>>,
    serial: u64,
    session: u64,
    session_str: String,
    snaprnd: u64,
    deltas: Vec<MDelta>,
    /// snapshot objects with their URI strings (for ordering by the trace)
    snap_raw: Vec<(String, AUri, u64, u64)>,
}

fn abstract_state(v: &Value, pubs: Vec<(String, AJail)>, it: &mut Interner) -> MR {
    let rrdp = &v["rrdp"];
    let mut snap = BTreeMap::new();
    let mut snap_raw = Vec::new();
    for (h, objs) in rrdp["snapshot"]["publishers_current_objects"].as_object().expect("snapshot map") {
        let mut l = Vec::new();
        for (u, b64) in objs.as_object().expect("objects") {
            let (hh, c) = it.content_id(b64.as_str().expect("base64"));
            l.push((it.uri(u), hh, c));
            snap_raw.push((u.clone(), it.uri(u), hh, c));
        }
        l.sort();
        snap.insert(h.clone(), l);
    }
    let elem_of = |kind: &str, body: &Value, it: &mut Interner| -> AElem {
        let au = it.uri(body["uri"].as_str().expect("uri"));
        match kind {
            "Publish" => { let (hh, c) = it.content_id(body["base64"].as_str().unwrap()); AElem::Pub(au, hh, c) }
            "Update" => { let (hh, c) = it.content_id(body["base64"].as_str().unwrap()); AElem::Upd(au, it.hash_id(body["hash"].as_str().unwrap()), hh, c) }
            "Withdraw" => AElem::Wdr(au, it.hash_id(body["hash"].as_str().unwrap())),
            other => panic!("unknown element kind {other}"),
        }
    };
    let mut staged = BTreeMap::new();
    if let Some(m) = rrdp["staged_elements"].as_object() {
        for (h, els) in m {
            let mut l = Vec::new();
            for (_key, el) in els.as_object().expect("staged elements") {
                let (kind, body) = el.as_object().expect("element").iter().next().expect("variant");
                l.push(elem_of(kind, body, it));
            }
            l.sort();
            staged.insert(h.clone(), l);
        }
    }
    let mut deltas = Vec::new();
    for d in rrdp["deltas"].as_array().expect("deltas") {
        let mut elems = Vec::new();
        for p in d["elements"]["publishes"].as_array().unwrap() { elems.push(elem_of("Publish", p, it)) }
        for p in d["elements"]["updates"].as_array().unwrap() { elems.push(elem_of("Update", p, it)) }
        for p in d["elements"]["withdraws"].as_array().unwrap() { elems.push(elem_of("Withdraw", p, it)) }
        deltas.push(MDelta { serial: d["serial"].as_u64().unwrap(), time: it.time_us(d["time"].as_str().expect("time string")), rnd: it.random(d["random"].as_str().unwrap()), elems });
    }
    let session_str = rrdp["session"].as_str().expect("session").to_string();
    MR { base: it.jail(RSYNC_BASE), pubs, snap, staged, serial: rrdp["serial"].as_u64().expect("serial"),
         session: it.session(&session_str), session_str, snaprnd: it.random(rrdp["snapshot"]["random"].as_str().expect("snapshot random")), deltas, snap_raw }
}

fn coq_state(s: &MR, it: &mut Interner) -> String {
    let pubs: Vec<String> = s.pubs.iter().map(|(h, j)| format!("({}, {})", coq_nlist(&it.handle(h)), coq_jail(j))).collect();
    let snap: Vec<String> = s.snap.iter().map(|(h, objs)| format!("({}, {})", coq_nlist(&it.handle(h)), coq_objects(objs))).collect();
    let staged: Vec<String> = s.staged.iter().map(|(h, els)| format!("({}, {})", coq_nlist(&it.handle(h)), coq_list(&els.iter().map(coq_elem).collect::<Vec<_>>()))).collect();
    format!("(mkState {} {} {} {} {})", coq_jail(&s.base), coq_list(&pubs), coq_list(&snap), coq_list(&staged), s.serial)
}
fn coq_rrdp(s: &MR, it: &mut Interner) -> String {
    let ds: Vec<String> = s.deltas.iter().map(|d| format!("mkD {} {} {} {}", d.serial, coq_z(d.time), d.rnd, coq_list(&d.elems.iter().map(coq_elem).collect::<Vec<_>>()))).collect();
    format!("(mkR {} {} {} {})", coq_state(s, it), s.session, s.snaprnd, coq_list(&ds))
}

// ---------------------------------------------------------------- retention configurations

#[derive(Clone, Copy, Debug, PartialEq, Eq, PartialOrd, Ord)]
struct RetCfg { min_nr: u64, min_secs: u64, max_nr: u64, max_secs: u64, archive: bool }
impl RetCfg {
    fn toml(&self) -> String {
        format!("rrdp_delta_files_min_nr = {}\nrrdp_delta_files_min_seconds = {}\nrrdp_delta_files_max_nr = {}\nrrdp_delta_files_max_seconds = {}\nrrdp_files_archive = {}\n",
            self.min_nr, self.min_secs, self.max_nr, self.max_secs, self.archive)
    }
    fn coq(&self) -> String { format!("(mkCfg {} {}%Z {} {}%Z {})", self.min_nr, self.min_secs, self.max_nr, self.max_secs, self.archive) }
    fn json(&self) -> Value { json!({"min_nr": self.min_nr, "min_seconds": self.min_secs, "max_nr": self.max_nr, "max_seconds": self.max_secs, "archive": self.archive}) }
    fn has_one_second(&self) -> bool { self.min_secs == 1 || self.max_secs == 1 }
}

fn config_for(dir: &str, storage_uri: &str, rc: &RetCfg) -> Config {
    let toml = format!(
        "admin_token = \"secret\"\nstorage_uri = \"{storage_uri}\"\nrepo_dir = \"{dir}/repo\"\ntls_keys_dir = \"{dir}/ssl\"\npid_file = \"{dir}/krill.pid\"\nlog_type = \"stderr\"\nlog_level = \"off\"\nrrdp_delta_interval_min_seconds = 0\n{}",
        rc.toml());
    let cf = PathBuf::from(dir).join(format!("krill-{}-{}-{}-{}-{}.conf", rc.min_nr, rc.min_secs, rc.max_nr, rc.max_secs, rc.archive));
    std::fs::create_dir_all(dir).expect("mkdir");
    std::fs::write(&cf, toml).expect("write config");
    let mut cfg = Config::read_config(&cf).expect("config");
    cfg.process().expect("config process");
    cfg
}

// ---------------------------------------------------------------- the probe

struct Recorder { on: AtomicBool, events: Mutex<Vec<(String, String)>>, cut: AtomicU64, count: AtomicU64, log: Mutex<Option<std::fs::File>> }
impl Probe for Recorder {
    fn on_event(&self, ev: &Event) -> bool {
        if !self.on.load(Ordering::SeqCst) || !ev.kind.starts_with("fs-") { return true }
        let n = self.count.fetch_add(1, Ordering::SeqCst);
        if n == self.cut.load(Ordering::SeqCst) { std::process::abort() }
        if let Some(f) = self.log.lock().unwrap().as_mut() { let _ = writeln!(f, "{}\t{}", ev.kind, ev.ns); }
        self.events.lock().unwrap().push((ev.kind.to_string(), ev.ns.clone()));
        true
    }
}
fn install_recorder(cut: u64, log: Option<std::fs::File>) -> Arc<Recorder> {
    let r = Arc::new(Recorder { on: AtomicBool::new(false), events: Mutex::new(Vec::new()), cut: AtomicU64::new(cut), count: AtomicU64::new(0), log: Mutex::new(log) });
    set_probe(Some(r.clone()));
    r
}
impl Recorder {
    fn start(&self) { self.events.lock().unwrap().clear(); self.count.store(0, Ordering::SeqCst); self.on.store(true, Ordering::SeqCst); }
    fn stop(&self) -> Vec<(String, String)> { self.on.store(false, Ordering::SeqCst); self.events.lock().unwrap().clone() }
}

/// Makes the first mutation of the given kind whose path contains `needle` fail (injected I/O error).
struct FailOnce { kind: &'static str, needle: String, done: AtomicBool }
impl Probe for FailOnce {
    fn on_event(&self, ev: &Event) -> bool {
        if ev.kind == self.kind && ev.ns.contains(&self.needle) && !self.done.swap(true, Ordering::SeqCst) { return false }
        true
    }
}

fn coq_kind(k: &str) -> &'static str {
    match k { "fs-create-dir" => "KCreateDir", "fs-remove-dir" => "KRemoveDir", "fs-create-file" => "KCreateFile", "fs-write" => "KWrite",
              "fs-remove-file" => "KRemoveFile", "fs-rename" => "KRename", other => panic!("unknown fs event {other}") }
}
/// Splits a trace into the RRDP part and the rsync part (as Coq label lists); paths relative to the repo dir.
fn split_trace(tr: &[(String, String)], repo: &str, it: &mut Interner) -> (Vec<String>, Vec<String>, Vec<Value>) {
    let mut a = Vec::new(); let mut b = Vec::new(); let mut js = Vec::new();
    for (k, p) in tr {
        let rel = p.strip_prefix(repo).unwrap_or(p).trim_start_matches('/').to_string();
        let ap = abs_path(&rel, it);
        let t = format!("({}, {})", coq_kind(k), coq_path(&ap));
        js.push(json!([k, rel]));
        if matches!(ap.first(), Some(AName::Rsync)) { b.push(t) } else { a.push(t) }
    }
    (a, b, js)
}

// ---------------------------------------------------------------- the real server

struct Server {
    krill: KrillRuntime,
    shadow: WalStore<RepositoryContent>,
    id_b64: Base64,
    actor: Actor,
    dir: String,
    storage_uri: String,
    managers: BTreeMap<RetCfg, RepositoryManager>,
}

fn open_server(dir: &str, storage_uri: &str, rc: &RetCfg, init: bool, tokio: &tokio::runtime::Runtime) -> Server {
    try_open_server(dir, storage_uri, rc, init, tokio).expect("repository init")
}

fn try_open_server(dir: &str, storage_uri: &str, rc: &RetCfg, init: bool, tokio: &tokio::runtime::Runtime) -> Result<Server, String> {
    let cfg = config_for(dir, storage_uri, rc);
    let storage = StorageSystem::new(cfg.storage_uri.clone());
    let krill = KrillRuntime::new(cfg, storage, tokio.handle().clone()).expect("runtime");
    if init {
        let uris = PublicationServerUris { rrdp_base_uri: uri::Https::from_str(RRDP_BASE).unwrap(), rsync_jail: uri::Rsync::from_str(RSYNC_BASE).unwrap() };
        krill.repo_manager().init(uris, &krill).map_err(|e| format!("repository init (first write of the empty repository): {e}"))?;
    }
    let id_cert = krill.signer().create_self_signed_id_cert().expect("id cert");
    let id_b64 = krill::api::ca::IdCertInfo::from(id_cert).base64.clone();
    let shadow = WalStore::create(krill.storage(), PUBSERVER_CONTENT_NS).expect("shadow store");
    Ok(Server { krill, shadow, id_b64, actor: krill::constants::ACTOR_DEF_KRILL, dir: dir.to_string(), storage_uri: storage_uri.to_string(), managers: BTreeMap::new() })
}

impl Server {
    fn repo_dir(&self) -> PathBuf { PathBuf::from(&self.dir).join("repo") }
    fn manager(&mut self, rc: &RetCfg) -> &RepositoryManager {
        if !self.managers.contains_key(rc) {
            let cfg = config_for(&self.dir, &self.storage_uri, rc);
            let m = RepositoryManager::new(&cfg, self.krill.storage()).expect("manager");
            self.managers.insert(*rc, m);
        }
        &self.managers[rc]
    }
    fn state_json(&self) -> Value {
        let content = self.shadow.get_latest(&MyHandle::from_str("0").unwrap()).expect("content");
        serde_json::to_value(&*content).expect("content json")
    }
    fn observe(&self, it: &mut Interner) -> MR {
        let repo = self.krill.repo_manager();
        let mut pubs = Vec::new();
        let mut handles: Vec<String> = repo.publishers().expect("publishers").iter().map(|h| h.to_string()).collect();
        handles.sort();
        for h in handles {
            let d = repo.get_publisher_details(PublisherHandle::from_str(&h).unwrap()).expect("details");
            pubs.push((h, it.jail(d.base_uri.as_str())));
        }
        abstract_state(&self.state_json(), pubs, it)
    }
    /// union of `get_publisher_details` of all registered publishers: (uri string, content id)
    fn details_all(&self, it: &mut Interner) -> Vec<(String, u64)> {
        let repo = self.krill.repo_manager();
        let mut out = Vec::new();
        for h in repo.publishers().expect("publishers") {
            let d = repo.get_publisher_details(h).expect("details");
            for f in d.current_files.iter() { out.push((f.uri.to_string(), it.content_id(f.base64.as_str()).1)) }
        }
        out.sort();
        out
    }
    fn create_publisher(&self, h: &str) -> Result<(), String> {
        let req = PublisherRequest::new(self.id_b64.clone(), Handle::from_str(h).unwrap(), None);
        self.krill.repo_manager().create_publisher(req, &self.actor).map_err(|e| e.to_string())
    }
    fn publish(&self, h: &str, els: &[GElem], it: &mut Interner) -> Result<(), String> {
        let mut d = PublishDelta::empty();
        for e in els {
            match e {
                GElem::Pub { uri, content, pad } => { let b = Base64::from_content(&content_bytes(*content, *pad)); it.register_b64(&b, *content); d.add_publish(Publish::new(None, uri::Rsync::from_str(uri).unwrap(), b)) }
                GElem::Upd { uri, old, content, pad } => { let b = Base64::from_content(&content_bytes(*content, *pad)); it.register_b64(&b, *content); d.add_update(Update::new(None, uri::Rsync::from_str(uri).unwrap(), b, old.clone())) }
                GElem::Wdr { uri, old } => d.add_withdraw(Withdraw::new(None, uri::Rsync::from_str(uri).unwrap(), old.clone())),
            }
        }
        match self.krill.repo_manager().rfc8181_message(&PublisherHandle::from_str(h).unwrap(), publication::Query::Delta(d), &self.krill) {
            Ok(publication::Message::Reply(publication::Reply::Success)) => Ok(()),
            Ok(m) => Err(format!("publish: unexpected message {m:?}")),
            Err(e) => Err(format!("publish: {e}")),
        }
    }
    /// current view of a publisher: (uri, hash)
    fn list(&self, h: &str) -> Vec<(String, rpki::rrdp::Hash)> {
        let mut l: Vec<_> = self.krill.repo_manager().list(&PublisherHandle::from_str(h).unwrap()).expect("list").elements().iter().map(|e| (e.uri().to_string(), e.hash().clone())).collect();
        l.sort_by(|a, b| a.0.cmp(&b.0));
        l
    }
}

#[derive(Clone, Debug)]
enum GElem { Pub { uri: String, content: u64, pad: usize }, Upd { uri: String, old: rpki::rrdp::Hash, content: u64, pad: usize }, Wdr { uri: String, old: rpki::rrdp::Hash } }

fn json_elems(els: &[GElem]) -> Value {
    json!(els.iter().map(|e| match e {
        GElem::Pub { uri, content, pad } => json!({"publish": uri, "content": content, "pad": pad}),
        GElem::Upd { uri, content, pad, .. } => json!({"update": uri, "content": content, "pad": pad}),
        GElem::Wdr { uri, .. } => json!({"withdraw": uri}),
    }).collect::<Vec<_>>())
}

struct Gen { next_content: u64, fresh: u64 }
const NAMES: [&str; 6] = ["x.cer", "y.roa", "z.mft", "sub/x.cer", "sub/deep/w.crl", "sub/y.roa"];

/// A valid delta of 1..4 elements for publisher `h` given its current view.
fn gen_delta(g: &mut Gen, rng: &mut Rng, h: &str, view: &[(String, rpki::rrdp::Hash)], small: bool, hostcase: bool) -> Vec<GElem> {
    let jail = format!("{RSYNC_BASE}{h}/");
    let n = rng.range(1, 4) as usize;
    let mut used: BTreeSet<String> = BTreeSet::new();
    let mut els = Vec::new();
    let respell = |u: &str, rng: &mut Rng| -> String { if hostcase && rng.chance(15) { u.replacen("rsync://localhost/", "rsync://LocalHost/", 1) } else { u.to_string() } };
    for _ in 0..n {
        let existing: Vec<&(String, rpki::rrdp::Hash)> = view.iter().filter(|(u, _)| !used.contains(&u.to_ascii_lowercase())).collect();
        let r = rng.below(100);
        let pad = if small || rng.chance(80) { rng.below(12) as usize } else { rng.range(40, 400) as usize };
        if !existing.is_empty() && r < 45 {
            let (u, hsh) = (*rng.pick(&existing)).clone();
            used.insert(u.to_ascii_lowercase());
            g.next_content += 1;
            els.push(GElem::Upd { uri: respell(&u, rng), old: hsh, content: g.next_content, pad });
        } else if !existing.is_empty() && r < 65 {
            let (u, hsh) = (*rng.pick(&existing)).clone();
            used.insert(u.to_ascii_lowercase());
            els.push(GElem::Wdr { uri: respell(&u, rng), old: hsh });
        } else {
            let mut u = String::new();
            for _ in 0..6 { let c = format!("{jail}{}", rng.pick(&NAMES)); if !used.contains(&c.to_ascii_lowercase()) && !view.iter().any(|(v, _)| v.eq_ignore_ascii_case(&c)) { u = c; break } }
            if u.is_empty() { g.fresh += 1; u = format!("{jail}f{}.roa", g.fresh) }
            used.insert(u.to_ascii_lowercase());
            g.next_content += 1;
            els.push(GElem::Pub { uri: respell(&u, rng), content: g.next_content, pad });
        }
    }
    els
}

// ---------------------------------------------------------------- case construction

struct Out {
    w: CaseWriter,
    jsonl: std::fs::File,
    kinds: BTreeMap<String, u64>,
    distinct: BTreeSet<u64>,
    samples: Vec<Value>,
    impl_failures: Vec<Value>,
    stats: BTreeMap<String, u64>,
}
impl Out {
    fn push(&mut self, term: String, mut rec: Value, kind: &str, nontrivial: bool) {
        use std::hash::{Hash, Hasher};
        let index = self.w.total;
        rec["index"] = json!(index);
        rec["case_kind"] = json!(kind);
        *self.kinds.entry(kind.to_string()).or_default() += 1;
        if nontrivial { let mut hs = std::collections::hash_map::DefaultHasher::new(); term.hash(&mut hs); self.distinct.insert(hs.finish()); }
        writeln!(self.jsonl, "{}", rec).unwrap();
        if self.samples.len() < 6 && nontrivial && index % 97 == 5 { let mut s = rec.clone(); if let Some(o) = s.as_object_mut() { o.remove("fs_after"); o.remove("fs_before"); } self.samples.push(s); }
        self.w.push(term);
    }
    fn bump(&mut self, k: &str) { *self.stats.entry(k.to_string()).or_default() += 1; }
}

fn contents_of(s: &MR, acc: &mut BTreeSet<u64>) {
    for v in s.snap.values() { for (_, _, c) in v { acc.insert(*c); } }
    let mut el = |e: &AElem| match e { AElem::Pub(_, _, c) | AElem::Upd(_, _, _, c) => { acc.insert(*c); } AElem::Wdr(..) => {} };
    for v in s.staged.values() { for e in v { el(e) } }
    for d in &s.deltas { for e in &d.elems { el(e) } }
}
fn coq_sizes(it: &Interner, a: &MR, b: &MR) -> String {
    let mut acc = BTreeSet::new(); contents_of(a, &mut acc); contents_of(b, &mut acc);
    coq_list(&acc.iter().map(|c| format!("({c}, {})", it.sizes.get(c).copied().unwrap_or(0))).collect::<Vec<_>>())
}

fn fs_json(raw: &[RawEntry]) -> Value { json!(raw.iter().map(|e| match &e.bytes { None => format!("{}/", e.rel), Some(b) => format!("{} ({} bytes)", e.rel, b.len()) }).collect::<Vec<_>>()) }
fn old_nonempty(raw: &[RawEntry]) -> bool { raw.iter().any(|e| e.rel.starts_with("rsync/old/")) }
fn stale_new_notification(raw: &[RawEntry]) -> bool { raw.iter().any(|e| e.rel == "rrdp/new-notification.xml" && e.bytes.as_ref().map(|b| !b.is_empty()).unwrap_or(false)) }

/// Emits the file-system cases of one repository write: KFiles (RRDP part) and KRsync (rsync part).
/// `cut`: index into the whole trace at which the process was ended (None = the call returned `ok`).
#[allow(clippy::too_many_arguments)]
fn emit_write_cases(out: &mut Out, it: &mut Interner, what: &str, pre_raw: &[RawEntry], post_raw: &[RawEntry], r: &MR, archive: bool,
                    trace: &[(String, String)], repo: &str, cut: Option<usize>, ok: bool, err: &str,
                    olds: &[(u64, Vec<(AUri, u64, u64)>)], expected: Option<&[(String, u64)]>, full_rrdp_len: Option<usize>, extra: Value) {
    let pre = coq_fs(pre_raw, it);
    let post = coq_fs(post_raw, it);
    let rt = coq_rrdp(r, it);
    let (ta, tb, tj) = split_trace(trace, repo, it);
    // where does the cut fall?
    let rrdp_len = full_rrdp_len.unwrap_or(ta.len());
    let (cut_a, cut_b): (Option<usize>, Option<usize>) = match cut { None => (None, None), Some(n) if n < rrdp_len => (Some(n), Some(0)), Some(n) => (None, Some(n - rrdp_len)) };
    let coq_opt = |o: Option<usize>| match o { Some(n) => format!("(Some {n})"), None => "None".to_string() };
    let olds_t = coq_list(&olds.iter().map(|(s, o)| format!("({}, {})", s, coq_objects(o))).collect::<Vec<_>>());
    let exp_t = match expected { Some(l) => { let v: Vec<(AUri, u64, u64)> = l.iter().map(|(u, c)| (it.uri(u), *c, *c)).collect(); format!("(Some {})", coq_objects(&v)) } None => "None".into() };
    let rrdp_started = !ta.is_empty() || cut_a.is_some() || cut.is_none();
    let class = json!({"f11c": old_nonempty(pre_raw), "stale_new_notification": stale_new_notification(pre_raw), "what": what, "cut": cut.is_some()});
    if rrdp_started {
        // the RRDP part returned Ok iff the rsync part was started or the whole call was ok
        let ok_a = ok || !tb.is_empty() || matches!(cut, Some(n) if n >= rrdp_len);
        let term = format!("(KFiles {} {} {} {} {} {} {} {} {})", pre, rt, archive, coq_list(&ta), coq_opt(cut_a), post, ok_a, olds_t, exp_t);
        let rec = json!({"what": what, "part": "rrdp", "cut": cut_a, "ok": ok_a, "error": if ok_a { "" } else { err }, "trace": tj, "class": class,
            "session": r.session_str, "serial": r.serial, "retained_deltas": r.deltas.iter().map(|d| d.serial).collect::<Vec<_>>(),
            "fs_before": fs_json(pre_raw), "fs_after": fs_json(post_raw), "client_serials": olds.iter().map(|(s, _)| *s).collect::<Vec<_>>(), "extra": extra});
        out.push(term, rec, if cut_a.is_some() { "files_cut" } else { "files" }, true);
    }
    if cut_a.is_none() && (ok || !tb.is_empty() || cut_b.is_some()) {
        // the objects in the order in which the trace shows their files being written
        let mut keyed: Vec<(usize, (AUri, u64, u64))> = r.snap_raw.iter().map(|(u, au, h, c)| {
            let rel = u.split_once("://").map(|(_, r)| r.splitn(3, '/').nth(2).unwrap_or("").to_string()).unwrap_or_default();
            let pos = trace.iter().position(|(k, p)| k == "fs-create-file" && p.contains("/rsync/tmp-") && p.ends_with(&format!("/{rel}"))).unwrap_or(usize::MAX);
            (pos, (au.clone(), *h, *c))
        }).collect();
        keyed.sort();
        let objs: Vec<(AUri, u64, u64)> = keyed.into_iter().map(|(_, o)| o).collect();
        let term = format!("(KRsync {} {} {} {} {} {} {} {})", pre, coq_jail(&r.base), r.serial, coq_objects(&objs), coq_list(&tb), coq_opt(cut_b.filter(|_| cut.is_some())), post, ok);
        let rec = json!({"what": what, "part": "rsync", "cut": cut_b.filter(|_| cut.is_some()), "ok": ok, "error": if ok { "" } else { err }, "trace": tj, "class": class,
            "serial": r.serial, "objects": objs.len(), "fs_before": fs_json(pre_raw), "fs_after": fs_json(post_raw), "extra": extra});
        out.push(term, rec, if cut.is_some() { "rsync_cut" } else { "rsync" }, true);
    }
}

/// Snapshot objects as parsed from the snapshot file the notification names (None if unreadable).
fn snapshot_from_files(raw: &[RawEntry], it: &mut Interner) -> Option<(String, u64, Vec<(AUri, u64, u64)>)> {
    let nb = raw.iter().find(|e| e.rel == "rrdp/notification.xml")?.bytes.clone()?;
    let n = rpki::rrdp::NotificationFile::parse(nb.as_slice()).ok()?;
    let rel = format!("rrdp/{}", n.snapshot().uri().as_str().strip_prefix(RRDP_BASE)?);
    let sb = raw.iter().find(|e| e.rel == rel)?.bytes.clone()?;
    let s = rpki::rrdp::Snapshot::parse(sb.as_slice()).ok()?;
    let mut objs: Vec<(AUri, u64, u64)> = s.elements().iter().map(|e| { let (h, c) = it.content_of_bytes(e.data()); (it.uri(e.uri().as_str()), h, c) }).collect();
    objs.sort();
    Some((s.session_id().hyphenated().to_string(), s.serial(), objs))
}

/// Number of delta entries of the notification file on disk (None if absent / unreadable).
fn notification_delta_count(raw: &[RawEntry]) -> Option<usize> {
    let nb = raw.iter().find(|e| e.rel == "rrdp/notification.xml")?.bytes.clone()?;
    rpki::rrdp::NotificationFile::parse(nb.as_slice()).ok().map(|n| n.deltas().len())
}

// ---------------------------------------------------------------- histories (in-process)

/// The boundary of `rrdp_delta_files_max_nr` (scripted, in every run): configurations with a small maximum,
/// min_nr strictly below it (0 and 1 included), min_seconds = 0 and a generous max_seconds - so that no old delta
/// at an index >= max_nr - 1 is protected by a configured minimum and none is too old - plus one configuration
/// with min_nr = max_nr as the contrast (there the minimum explains the excess: rest of finding F11a).
fn boundary_cfgs(thorough: bool) -> Vec<RetCfg> {
    let mut pairs: Vec<(u64, u64)> = vec![(0, 1), (0, 2), (1, 2), (0, 3), (1, 3), (2, 3), (0, 4), (1, 4), (3, 4), (3, 3)];
    if thorough { pairs.extend([(2, 4), (0, 5), (1, 5), (4, 5), (2, 6), (5, 6), (2, 2), (4, 4)]); }
    pairs.into_iter().enumerate().map(|(i, (min_nr, max_nr))| RetCfg { min_nr, min_secs: 0, max_nr, max_secs: if i % 2 == 0 { HUGE } else { 7200 }, archive: false }).collect()
}

/// One history per boundary configuration on one server: a large object is published and a session reset drops the
/// (large) delta that carried it; then max_nr + 3 (thorough: + 6) times one small element and `update_rrdp_if_needed`,
/// i.e. more consecutive RRDP updates in one session than the maximum allows deltas, every delta tiny against the
/// snapshot so that the size rule stays out of the way.
#[allow(clippy::too_many_arguments)]
fn boundary_scenario(out: &mut Out, it: &mut Interner, args: &Args, rec: &Recorder, g: &mut Gen, tokio: &tokio::runtime::Runtime, strict: bool, hist: &mut u64, cfg_hist: &mut BTreeMap<String, u64>) {
    let thorough = args.thorough();
    let mut rng = Rng::new(args.seed ^ 0x11a7_b0d7);
    let cfgs = boundary_cfgs(thorough);
    let dir = args.out.join(format!("srv-{}-boundary", args.seed));
    let _ = std::fs::remove_dir_all(&dir);
    let dirs = dir.to_string_lossy().to_string();
    let mut srv = match try_open_server(&dirs, &format!("memory:{}", args.seed.wrapping_mul(7919).wrapping_add(90_001)), &cfgs[0], true, tokio) {
        Ok(s) => s,
        Err(e) => { out.impl_failures.push(json!({"index": Value::Null, "class": {"kind": "write_failed", "op": "init", "f11c": false}, "what": e, "request": "RepositoryManager::init on an empty repository directory"})); return }
    };
    for h in ["alice", "bob"] { srv.create_publisher(h).expect("create publisher"); }
    for rc in cfgs {
        *hist += 1;
        *cfg_hist.entry(format!("boundary:min_nr={},max_nr={},min_s={},max_s={}", rc.min_nr, rc.max_nr, rc.min_secs, rc.max_secs)).or_default() += 1;
        let mut script: Vec<&'static str> = vec!["reset", "publish_big", "update", "reset"];
        for _ in 0..(rc.max_nr + if thorough { 6 } else { 3 }) { script.push("publish_one"); script.push("update"); }
        if !run_history(out, it, &mut srv, rec, &mut rng, g, rc, *hist, strict, 0, false, Some(script)) { break }
    }
    drop(srv);
    if std::env::var("KV_KEEP").is_err() { let _ = std::fs::remove_dir_all(&dir); }
}

fn grid(rng: &mut Rng, thorough: bool, f11b: bool) -> Vec<RetCfg> {
    let mut all = Vec::new();
    for min_nr in [0u64, 1, 5] { for max_nr in [1u64, 2, 50] { for min_secs in [0u64, 1, HUGE] { for max_secs in [0u64, 1, HUGE] {
        all.push(RetCfg { min_nr, min_secs, max_nr, max_secs, archive: false });
    } } } }
    let _ = f11b;
    if thorough { all.push(RetCfg { min_nr: 0, min_secs: 0, max_nr: 0, max_secs: HUGE, archive: false }); all.push(RetCfg { min_nr: 1, min_secs: 1, max_nr: 0, max_secs: HUGE, archive: false }); return all }
    // quick: a seeded sample that still covers every value of every dimension and the default configuration
    for i in (1..all.len()).rev() { let j = rng.below(i as u64 + 1) as usize; all.swap(i, j) }
    let mut pick: Vec<RetCfg> = all.into_iter().take(14).collect();
    pick.push(RetCfg { min_nr: 5, min_secs: 1200, max_nr: 50, max_secs: 7200, archive: false });
    pick.push(RetCfg { min_nr: 0, min_secs: HUGE, max_nr: 2, max_secs: HUGE, archive: false });
    pick.push(RetCfg { min_nr: 5, min_secs: 0, max_nr: 2, max_secs: 0, archive: false });
    pick.push(RetCfg { min_nr: 0, min_secs: 0, max_nr: 2, max_secs: HUGE, archive: true });
    pick.push(RetCfg { min_nr: 0, min_secs: 0, max_nr: 0, max_secs: HUGE, archive: false });
    pick
}

#[allow(clippy::too_many_arguments)]
fn run_history(out: &mut Out, it: &mut Interner, srv: &mut Server, rec: &Recorder, rng: &mut Rng, g: &mut Gen, rc: RetCfg, hist: u64, strict: bool, steps: u64, hostcase: bool, scripted_only: Option<Vec<&'static str>>) -> bool {
    let pubs = ["alice", "bob", "a/b"];
    // all objects small: the size rule of retention bites (never in a fully scripted history)
    let small = if scripted_only.is_some() { false } else { rng.chance(25) };
    let repo = srv.repo_dir().to_string_lossy().to_string();
    // snapshots of earlier serials of the current session, as read from the files
    let mut olds: Vec<(u64, Vec<(AUri, u64, u64)>)> = Vec::new();
    let mut cur_session = String::new();
    let fully_scripted = scripted_only.is_some();
    let mut script: Vec<&str> = scripted_only.unwrap_or_else(|| vec!["reset", "publish_big", "update"]);
    let mut step = 0u64;
    let mut slept = false;
    loop {
        let scripted = !script.is_empty();
        if !scripted && step >= steps { break }
        let op: &str = if scripted { script.remove(0) } else { match rng.weighted(&[44, 40, 4, 5, 4, 3]) { 0 => "publish", 1 => "update", 2 => "reset", 3 => "publish2", 4 => "remove", _ => "create" } };
        if !scripted { step += 1 }
        let pre = srv.observe(it);
        match op {
            "publish_one" => {
                // one small element for alice: deltas that stay far below the size of the snapshot
                if !pre.pubs.iter().any(|(h, _)| h == "alice") { let _ = srv.create_publisher("alice"); }
                let view = srv.list("alice");
                let mine: Vec<&(String, rpki::rrdp::Hash)> = view.iter().filter(|(u, _)| u.rsplit('/').next().map(|n| n.starts_with("one")).unwrap_or(false)).collect();
                let r = rng.below(100);
                let els = if !mine.is_empty() && r < 35 {
                    let (u, hsh) = (*rng.pick(&mine)).clone(); g.next_content += 1;
                    vec![GElem::Upd { uri: u, old: hsh, content: g.next_content, pad: 0 }]
                } else if mine.len() > 1 && r < 50 {
                    let (u, hsh) = (*rng.pick(&mine)).clone();
                    vec![GElem::Wdr { uri: u, old: hsh }]
                } else {
                    g.fresh += 1; g.next_content += 1;
                    vec![GElem::Pub { uri: format!("{RSYNC_BASE}alice/one{}.roa", g.fresh), content: g.next_content, pad: 0 }]
                };
                if let Err(e) = srv.publish("alice", &els, it) {
                    out.impl_failures.push(json!({"index": Value::Null, "class": {"kind": "unexpected_error", "op": "publish"}, "what": e, "elements": json_elems(&els)}));
                }
                out.bump("publish_one");
            }
            "publish" | "publish2" | "publish_big" => {
                let reg: Vec<String> = pre.pubs.iter().map(|(h, _)| h.clone()).filter(|h| pubs.contains(&h.as_str())).collect();
                if reg.is_empty() { let _ = srv.create_publisher(pubs[0]); continue }
                for _ in 0..(if op == "publish2" { 2 } else { 1 }) {
                    let h = if fully_scripted { "alice".to_string() } else { rng.pick(&reg).clone() };
                    let view = srv.list(&h);
                    // fully scripted: nothing but the large object (published or replaced), so that it is there for the whole history
                    let mut els = if fully_scripted { Vec::new() } else { gen_delta(g, rng, &h, &view, small, hostcase) };
                    if fully_scripted { if let Some((u, hsh)) = view.iter().find(|(u, _)| u.ends_with("big.cer")).cloned() {
                        g.next_content += 1;
                        els.push(GElem::Upd { uri: u, old: hsh, content: g.next_content, pad: 6000 });
                    } }
                    if op == "publish_big" && !small && !view.iter().any(|(u, _)| u.ends_with("big.cer")) {
                        g.next_content += 1;
                        els.push(GElem::Pub { uri: format!("{RSYNC_BASE}{h}/big.cer"), content: g.next_content, pad: 6000 });
                    }
                    if let Err(e) = srv.publish(&h, &els, it) {
                        out.impl_failures.push(json!({"index": Value::Null, "class": {"kind": "unexpected_error", "op": "publish"}, "what": e, "elements": json_elems(&els)}));
                    }
                }
                out.bump("publish");
            }
            "create" => { let h = *rng.pick(&pubs); let _ = srv.create_publisher(h); out.bump("create"); }
            "remove" => {
                let reg: Vec<String> = pre.pubs.iter().map(|(h, _)| h.clone()).collect();
                if reg.len() > 1 { let h = rng.pick(&reg).clone(); let _ = srv.krill.repo_manager().remove_publisher(PublisherHandle::from_str(&h).unwrap(), &srv.actor, &srv.krill); out.bump("remove"); }
            }
            "update" | "reset" => {
                // keep the ages of retained deltas away from a one-second limit
                if rc.has_one_second() {
                    if !slept && step > steps / 2 && !pre.deltas.is_empty() { std::thread::sleep(std::time::Duration::from_millis(1250)); slept = true; out.bump("sleeps_across_one_second"); }
                    for _ in 0..20 {
                        let now = (chrono::Utc::now() - it.t0).num_microseconds().unwrap();
                        if pre.deltas.iter().any(|d| { let age = now - d.time; age > 700_000 && age < 1_150_000 }) { std::thread::sleep(std::time::Duration::from_millis(100)); } else { break }
                    }
                }
                let pre_raw = walk(&srv.repo_dir());
                let staged_nonempty = pre.staged.values().any(|v| !v.is_empty());
                rec.start();
                let res = std::panic::catch_unwind(std::panic::AssertUnwindSafe(|| {
                    if op == "update" { srv.manager(&rc).update_rrdp_if_needed().map(|_| ()).map_err(|e| e.to_string()) }
                    else { srv.manager(&rc).rrdp_session_reset().map_err(|e| e.to_string()) }
                }));
                let trace = rec.stop();
                let (ok, err, panicked) = match &res { Ok(Ok(())) => (true, String::new(), false), Ok(Err(e)) => (false, e.clone(), false),
                    Err(p) => (false, format!("panic: {}", p.downcast_ref::<String>().cloned().or_else(|| p.downcast_ref::<&str>().map(|s| s.to_string())).unwrap_or_default()), true) };
                if panicked {
                    // the storage lock is poisoned now: record the request that panicked and give this server up
                    let orc = format!("(mkOracle {} 0 {} {})", coq_z((chrono::Utc::now() - it.t0).num_microseconds().unwrap()), pre.session, rc.coq());
                    let term = format!("(KTrans {} {} {} {} None {})", coq_sizes(it, &pre, &pre), coq_rrdp(&pre, it), if op == "update" { "OUpdate" } else { "OReset" }, orc, strict);
                    let class = json!({"retained_over_max_nr": false, "protected_by_configured_minimum": false, "cause": "", "max_nr_zero_panic": rc.max_nr == 0, "panicked": true});
                    out.push(term, json!({"history": hist, "config": rc.json(), "request": op, "result": err.clone(), "serial_before": pre.serial,
                        "deltas_before": pre.deltas.iter().map(|d| d.serial).collect::<Vec<_>>(), "class": class}), "trans", true);
                    return false;
                }
                let post_raw = walk(&srv.repo_dir());
                let post = srv.observe(it);
                out.bump(op);
                // the transition
                let newest_time = post.deltas.first().map(|d| d.time).unwrap_or(0);
                let now = if op == "update" && post.serial == pre.serial + 1 { newest_time } else { (chrono::Utc::now() - it.t0).num_microseconds().unwrap() };
                let rnd = if op == "update" { post.deltas.first().map(|d| d.rnd).unwrap_or(0) } else { post.snaprnd };
                let orc = format!("(mkOracle {} {} {} {})", coq_z(now), rnd, post.session, rc.coq());
                let post_t = if panicked { "None".to_string() } else { format!("(Some {})", coq_rrdp(&post, it)) };
                // more deltas than the configured maximum (the new delta itself is always retained) ...
                let limit = rc.max_nr.max(1) as usize;
                let over = op == "update" && post.serial == pre.serial + 1 && post.deltas.len() > limit;
                // ... and whether every old delta retained beyond it is protected by min_nr / min_seconds (the documented
                // priority of the configured minimums: what remains of finding F11a after 5d8ba60d)
                let protected = |i: usize, d: &MDelta| (i as u64) < rc.min_nr || (rc.min_secs > 0 && d.time > now - (rc.min_secs as i64).saturating_mul(1_000_000));
                let explained = over && (limit - 1..post.deltas.len() - 1).all(|i| pre.deltas.get(i).map(|d| protected(i, d)).unwrap_or(false));
                let cause = if !over { "" } else if !explained { "not_protected" } else if rc.min_nr >= rc.max_nr { "min_nr>=max_nr" } else { "younger_than_min_seconds" };
                let term = format!("(KTrans {} {} {} {} {} {})", coq_sizes(it, &pre, &post), coq_rrdp(&pre, it), if op == "update" { "OUpdate" } else { "OReset" }, orc, post_t, strict);
                let recj = json!({"history": hist, "config": rc.json(), "request": op, "result": if ok { "ok".to_string() } else { err.clone() },
                    "serial_before": pre.serial, "serial_after": post.serial, "session_changed": pre.session != post.session, "staged_before": staged_nonempty,
                    "deltas_before": pre.deltas.iter().map(|d| d.serial).collect::<Vec<_>>(), "deltas_after": post.deltas.iter().map(|d| d.serial).collect::<Vec<_>>(),
                    "delta_ages_ms_before": pre.deltas.iter().map(|d| (now - d.time) / 1000).collect::<Vec<_>>(),
                    "scenario": if fully_scripted { "max_nr_boundary" } else { "history" },
                    "deltas_in_notification_file_after": notification_delta_count(&post_raw),
                    "class": {"retained_over_max_nr": over && strict, "protected_by_configured_minimum": explained, "cause": cause, "max_nr_zero_panic": panicked && rc.max_nr == 0, "panicked": panicked}});
                out.push(term, recj, "trans", op == "reset" || staged_nonempty);
                if over { out.bump("transitions_retaining_more_than_max_nr"); }
                if over && !explained { out.bump("transitions_retaining_more_than_max_nr_unprotected"); }
                if fully_scripted && op == "update" && post.serial == pre.serial + 1 {
                    out.bump("boundary_updates");
                    if pre.deltas.len() + 1 > limit { out.bump("boundary_updates_with_more_candidates_than_max_nr"); }
                    if pre.deltas.len() + 1 > limit && post.deltas.len() == limit { out.bump("boundary_updates_cut_to_exactly_max_nr"); }
                    if post.deltas.len() < (pre.deltas.len() + 1).min(limit) { out.bump("boundary_updates_cut_below_max_nr_by_size_or_age"); }
                }
                if !ok && !panicked { out.impl_failures.push(json!({"index": Value::Null, "class": {"kind": "write_failed", "op": op, "f11c": old_nonempty(&pre_raw)}, "what": err.clone()})); }
                // the files
                if op == "reset" || staged_nonempty {
                    if post.session_str != cur_session { cur_session = post.session_str.clone(); olds.clear(); }
                    // get_publisher_details answers published + staged; it is the snapshot only when nothing is staged
                    let details = srv.details_all(it);
                    let nothing_staged = post.staged.values().all(|v| v.is_empty());
                    emit_write_cases(out, it, op, &pre_raw, &post_raw, &post, rc.archive, &trace, &repo, None, ok, &err, &olds, if nothing_staged { Some(&details) } else { None }, None,
                        json!({"history": hist, "config": rc.json()}));
                    if let Some((sess, serial, objs)) = snapshot_from_files(&post_raw, it) {
                        if sess == cur_session && !olds.iter().any(|(s, _)| *s == serial) { olds.push((serial, objs)); }
                    }
                }
            }
            _ => unreachable!(),
        }
        // transitions of the other request kinds: serial, session and deltas must not move
        if !matches!(op, "update" | "reset") {
            let post = srv.observe(it);
            if post.serial != pre.serial || post.session != pre.session || post.deltas != pre.deltas {
                out.impl_failures.push(json!({"index": Value::Null, "class": {"kind": "rrdp_state_moved_without_update", "op": op}, "what": format!("serial {} -> {}, session {} -> {}", pre.serial, post.serial, pre.session_str, post.session_str)}));
            }
        }
    }
    true
}

// ---------------------------------------------------------------- workers (cut points)

fn worker_cfg() -> RetCfg { RetCfg { min_nr: 2, min_secs: 0, max_nr: 4, max_secs: HUGE, archive: false } }

fn worker(args: &Args) {
    let mode = args.extra.get("worker").cloned().unwrap();
    let dir = args.extra.get("dir").cloned().expect("--dir");
    std::env::set_current_dir(&dir).expect("chdir");
    std::panic::set_hook(Box::new(|_| {}));
    krill::constants::enable_test_mode();
    let tokio = tokio::runtime::Runtime::new().expect("tokio");
    let storage_uri = format!("{SELF_DIR}/data/");
    let mut it = Interner::new();
    let mut g = Gen { next_content: args.get_u64("content0", 5000), fresh: args.get_u64("content0", 5000) };
    let mut rng = Rng::new(args.seed ^ args.get_u64("salt", 0));
    let out = |name: &str, v: Value| { std::fs::write(name, serde_json::to_string(&v).unwrap()).unwrap(); };
    match mode.as_str() {
        "prep" => {
            let rc = worker_cfg();
            let mut srv = open_server(SELF_DIR, &storage_uri, &rc, true, &tokio);
            for h in ["alice", "bob"] { srv.create_publisher(h).expect("create"); }
            std::fs::create_dir_all("olds").unwrap();
            let n_updates = args.get_u64("updates", 5);
            for k in 0..n_updates {
                for h in ["alice", "bob"] {
                    if h == "bob" && rng.chance(50) { continue }
                    let view = srv.list(h);
                    let mut els = gen_delta(&mut g, &mut rng, h, &view, false, false);
                    if k == 0 && h == "alice" { g.next_content += 1; els.push(GElem::Pub { uri: format!("{RSYNC_BASE}alice/big.cer"), content: g.next_content, pad: 3000 }); }
                    srv.publish(h, &els, &mut it).expect("publish");
                }
                srv.manager(&rc).update_rrdp_if_needed().expect("update");
                // keep what the snapshot of this serial contained
                let raw = walk(&srv.repo_dir());
                if let Some(nb) = raw.iter().find(|e| e.rel == "rrdp/notification.xml").and_then(|e| e.bytes.clone()) {
                    if let Ok(n) = rpki::rrdp::NotificationFile::parse(nb.as_slice()) {
                        let rel = format!("rrdp/{}", n.snapshot().uri().as_str().strip_prefix(RRDP_BASE).unwrap());
                        if let Some(sb) = raw.iter().find(|e| e.rel == rel).and_then(|e| e.bytes.clone()) { std::fs::write(format!("olds/{}.xml", n.serial()), sb).unwrap(); }
                    }
                }
            }
            // stage the changes of the update that will be cut
            for h in ["alice", "bob"] { let view = srv.list(h); let els = gen_delta(&mut g, &mut rng, h, &view, false, false); srv.publish(h, &els, &mut it).expect("publish"); }
            out("prep.json", json!({"content_next": g.next_content}));
        }
        "exec" | "recover" => {
            let rc = worker_cfg();
            let cut = args.get_u64("cut", u64::MAX);
            let follow = args.extra.get("follow").cloned().unwrap_or_else(|| "update".into());
            let logname = if mode == "exec" { "trace.log" } else { "trace2.log" };
            let log = std::fs::OpenOptions::new().create(true).write(true).truncate(true).open(logname).unwrap();
            let mut srv = open_server(SELF_DIR, &storage_uri, &rc, false, &tokio);
            if mode == "recover" && follow == "update" {
                // a fresh publication after the crash
                let view = srv.list("alice");
                let els = gen_delta(&mut g, &mut rng, "alice", &view, false, false);
                if let Err(e) = srv.publish("alice", &els, &mut it) { out("result2.json", json!({"ok": false, "error": format!("publish after crash: {e}")})); return }
            }
            let rec = install_recorder(cut, Some(log));
            rec.start();
            let r = match follow.as_str() {
                "reset" if mode == "recover" => srv.manager(&rc).rrdp_session_reset().map_err(|e| e.to_string()),
                "write" if mode == "recover" => srv.manager(&rc).write_repository().map_err(|e| e.to_string()),
                _ => srv.manager(&rc).update_rrdp_if_needed().map(|_| ()).map_err(|e| e.to_string()),
            };
            rec.stop();
            set_probe(None);
            let details: Vec<Value> = { let repo = srv.krill.repo_manager(); let mut v = Vec::new(); for h in repo.publishers().unwrap() { let d = repo.get_publisher_details(h).unwrap(); for f in d.current_files.iter() { v.push(json!([f.uri.to_string(), f.base64.to_string()])) } } v };
            out(if mode == "exec" { "result.json" } else { "result2.json" }, json!({"ok": r.is_ok(), "error": r.err().unwrap_or_default(), "details": details, "state": srv.state_json()}));
        }
        "f11b" => {
            // rrdp_delta_files_max_nr = 0: `max_nr - 1` on usize
            let rc = RetCfg { min_nr: 0, min_secs: 0, max_nr: 0, max_secs: HUGE, archive: false };
            let mut srv = open_server(SELF_DIR, &storage_uri, &rc, true, &tokio);
            srv.create_publisher("alice").expect("create");
            let mut log = Vec::new();
            for k in 0..4 {
                let view = srv.list("alice");
                let mut els = gen_delta(&mut g, &mut rng, "alice", &view, false, false);
                if k == 0 { g.next_content += 1; els.push(GElem::Pub { uri: format!("{RSYNC_BASE}alice/big.cer"), content: g.next_content, pad: 3000 }); }
                srv.publish("alice", &els, &mut it).expect("publish");
                let res = std::panic::catch_unwind(std::panic::AssertUnwindSafe(|| srv.manager(&rc).update_rrdp_if_needed().map(|_| ()).map_err(|e| e.to_string())));
                let st = srv.state_json();
                log.push(json!({"update": k + 1, "result": match &res { Ok(Ok(())) => "ok".to_string(), Ok(Err(e)) => format!("error: {e}"), Err(p) => format!("panic: {}", p.downcast_ref::<String>().cloned().or_else(|| p.downcast_ref::<&str>().map(|s| s.to_string())).unwrap_or_default()) },
                    "serial": st["rrdp"]["serial"], "retained_deltas": st["rrdp"]["deltas"].as_array().map(|a| a.len())}));
                if res.is_err() { break }
            }
            out("f11b.json", json!({"config": rc.json(), "overflow_checks": cfg!(debug_assertions), "log": log}));
        }
        other => panic!("unknown worker mode {other}"),
    }
}

fn run_worker(exe: &Path, seed: u64, dir: &Path, extra: &[(&str, String)]) -> (Option<i32>, String) {
    let mut cmd = std::process::Command::new(exe);
    cmd.arg("--seed").arg(seed.to_string()).arg("--out").arg(dir.join("wout")).arg("--dir").arg(dir);
    for (k, v) in extra { cmd.arg(format!("--{k}")).arg(v); }
    let o = cmd.output().expect("spawn worker");
    (o.status.code(), String::from_utf8_lossy(&o.stderr).chars().rev().take(600).collect::<String>().chars().rev().collect())
}
fn copy_dir(src: &Path, dst: &Path) {
    let _ = std::fs::remove_dir_all(dst);
    let st = std::process::Command::new("cp").arg("-r").arg(src).arg(dst).status().expect("cp");
    assert!(st.success(), "cp -r failed");
    for f in ["trace.log", "trace2.log", "result.json", "result2.json"] { let _ = std::fs::remove_file(dst.join(f)); }
}
fn read_json(p: &Path) -> Value { std::fs::read_to_string(p).ok().and_then(|s| serde_json::from_str(&s).ok()).unwrap_or(Value::Null) }
fn read_trace(p: &Path) -> Vec<(String, String)> {
    std::fs::read_to_string(p).unwrap_or_default().lines().filter_map(|l| l.split_once('\t').map(|(a, b)| (a.to_string(), b.to_string()))).collect()
}
fn details_of(v: &Value, it: &mut Interner) -> Vec<(String, u64)> {
    let mut out: Vec<(String, u64)> = v["details"].as_array().map(|a| a.iter().map(|x| (x[0].as_str().unwrap().to_string(), it.content_id(x[1].as_str().unwrap()).1)).collect()).unwrap_or_default();
    out.sort();
    out
}

fn cut_scenario(out: &mut Out, it: &mut Interner, args: &Args, rng: &mut Rng) {
    let exe = std::env::current_exe().unwrap();
    let seed = args.seed;
    let rsynccut = args.get_u64("rsynccut", 1) == 1;
    let stalenotif = args.get_u64("stalenotif", 1) == 1;
    let base = args.out.join("cut");
    let _ = std::fs::remove_dir_all(&base);
    std::fs::create_dir_all(&base).unwrap();
    let prep = base.join("prep");
    std::fs::create_dir_all(&prep).unwrap();
    let (rc, err) = run_worker(&exe, seed, &prep, &[("worker", "prep".into()), ("updates", rng.range(4, 6).to_string())]);
    if rc != Some(0) { out.impl_failures.push(json!({"index": Value::Null, "class": {"kind": "harness"}, "what": format!("prep worker ended with {rc:?}: {err}")})); return }
    let content_next = read_json(&prep.join("prep.json"))["content_next"].as_u64().unwrap_or(6000);
    let repo_str = format!("{SELF_DIR}/repo");
    // snapshots of the earlier serials
    let mut olds: Vec<(u64, Vec<(AUri, u64, u64)>)> = Vec::new();
    if let Ok(rd) = std::fs::read_dir(prep.join("olds")) {
        for e in rd.flatten() {
            if let Ok(s) = rpki::rrdp::Snapshot::parse(std::fs::read(e.path()).unwrap().as_slice()) {
                let mut objs: Vec<(AUri, u64, u64)> = s.elements().iter().map(|x| { let (h, c) = it.content_of_bytes(x.data()); (it.uri(x.uri().as_str()), h, c) }).collect();
                objs.sort();
                olds.push((s.serial(), objs));
            }
        }
    }
    olds.sort();
    let pre_raw = walk(&prep.join("repo"));
    // the crash-free twin gives the trace
    let twin = base.join("twin");
    copy_dir(&prep, &twin);
    let (rc, err) = run_worker(&exe, seed, &twin, &[("worker", "exec".into())]);
    let twin_res = read_json(&twin.join("result.json"));
    if rc != Some(0) || twin_res.is_null() { out.impl_failures.push(json!({"index": Value::Null, "class": {"kind": "harness"}, "what": format!("twin worker ended with {rc:?}: {err}")})); return }
    let trace = read_trace(&twin.join("trace.log"));
    let r_twin = abstract_state(&twin_res["state"], vec![], it);
    let twin_raw = walk(&twin.join("repo"));
    let details = details_of(&twin_res, it);
    emit_write_cases(out, it, "update(twin)", &pre_raw, &twin_raw, &r_twin, false, &trace, &repo_str, None, twin_res["ok"].as_bool().unwrap_or(false), twin_res["error"].as_str().unwrap_or(""), &olds, Some(&details), None, json!({"scenario": "cut"}));
    let (ta, _, _) = split_trace(&trace, &repo_str, it);
    let rrdp_len = ta.len();
    let n_cuts = if rsynccut { trace.len() } else { rrdp_len };
    out.stats.insert("cut_trace_len".into(), trace.len() as u64);
    out.stats.insert("cut_points_run".into(), n_cuts as u64);
    let follows = ["update", "reset", "write"];
    for n in 0..n_cuts {
        let d = base.join(format!("c{n}"));
        copy_dir(&prep, &d);
        let (rc, _err) = run_worker(&exe, seed, &d, &[("worker", "exec".into()), ("cut", n.to_string())]);
        if rc.is_some() { out.impl_failures.push(json!({"index": Value::Null, "class": {"kind": "harness"}, "what": format!("cut worker {n} did not abort: {rc:?}")})); continue }
        let cut_raw = walk(&d.join("repo"));
        let ctrace = read_trace(&d.join("trace.log"));
        // the state the interrupted write was working from is the stored one
        let storage = StorageSystem::new(StorageUri::disk(d.join("data")));
        let sh: WalStore<RepositoryContent> = WalStore::create(&storage, PUBSERVER_CONTENT_NS).expect("store");
        let st = serde_json::to_value(&*sh.get_latest(&MyHandle::from_str("0").unwrap()).expect("content")).unwrap();
        let r_cut = abstract_state(&st, vec![], it);
        emit_write_cases(out, it, "update(cut)", &pre_raw, &cut_raw, &r_cut, false, &ctrace, &repo_str, Some(n), false, "", &olds, None, Some(rrdp_len), json!({"scenario": "cut", "cut": n, "next_mutation": trace.get(n).map(|(k, p)| format!("{k} {p}"))}));
        // a fresh runtime goes on
        // a non-empty new-notification.xml left behind: before commit 861388f0 the next write overwrote it without
        // truncation and a shorter notification (session reset) ended in stale bytes (finding F11g, fixed); the
        // follow-up at that cut is a session reset (--stalenotif 0: any)
        let mut follow = follows[(n + seed as usize) % follows.len()];
        if stale_new_notification(&cut_raw) { follow = if stalenotif { "reset" } else if follow == "reset" { "update" } else { follow }; }
        let (rc2, err2) = run_worker(&exe, seed, &d, &[("worker", "recover".into()), ("follow", follow.into()), ("content0", (content_next + 10 * n as u64 + 10).to_string()), ("salt", (n as u64 + 1).to_string())]);
        let res2 = read_json(&d.join("result2.json"));
        if rc2 != Some(0) || res2.is_null() { out.impl_failures.push(json!({"index": Value::Null, "class": {"kind": "recover_worker_failed", "cut": n}, "what": format!("{rc2:?}: {err2}")})); continue }
        let after_raw = walk(&d.join("repo"));
        let trace2 = read_trace(&d.join("trace2.log"));
        let r2 = abstract_state(&res2["state"], vec![], it);
        let details2 = details_of(&res2, it);
        let ok2 = res2["ok"].as_bool().unwrap_or(false);
        // clients: the earlier serials of the session (none after a reset)
        let mut olds2 = if follow == "reset" { Vec::new() } else { olds.clone() };
        if follow != "reset" { if let Some((_, serial, objs)) = snapshot_from_files(&cut_raw, it) { if !olds2.iter().any(|(s, _)| *s == serial) { olds2.push((serial, objs)); } } }
        emit_write_cases(out, it, &format!("{follow}(after cut)"), &cut_raw, &after_raw, &r2, false, &trace2, &repo_str, None, ok2, res2["error"].as_str().unwrap_or(""), &olds2, Some(&details2), None,
            json!({"scenario": "cut", "after_cut": n, "follow": follow, "cut_before": trace.get(n).map(|(k, p)| format!("{k} {p}"))}));
        if std::env::var("KV_KEEP").is_err() { let _ = std::fs::remove_dir_all(&d); }
    }
}

// ---------------------------------------------------------------- candidate findings replayed on the real code

fn tree_files(dir: &Path) -> Vec<String> {
    walk(dir).into_iter().filter(|e| e.bytes.is_some()).map(|e| e.rel).collect()
}

/// Scripted replays of candidates the model points at; observations only (reported in stats.json).
fn candidate_replays(args: &Args, tokio: &tokio::runtime::Runtime) -> Value {
    let mut it = Interner::new();
    let rc = RetCfg { min_nr: 5, min_secs: 1200, max_nr: 50, max_secs: 7200, archive: false };
    let mut res = serde_json::Map::new();
    let pubd = |tag: &str, els: Vec<GElem>, srv: &Server, it: &mut Interner| -> String { match srv.publish("alice", &els, it) { Ok(()) => format!("{tag}: accepted"), Err(e) => format!("{tag}: {e}") } };
    // F11f: a write that failed after filling rsync/tmp-1 (here: an injected error at the first rename of a session
    // reset); later the serial comes back to 1 after another reset: what was left in tmp-1 ends up in rsync/current
    {
        let dir = args.out.join("cand-f11f"); let _ = std::fs::remove_dir_all(&dir);
        let mut srv = open_server(&dir.to_string_lossy(), "memory:9101", &rc, true, tokio);
        srv.create_publisher("alice").unwrap();
        let mut log = Vec::new();
        log.push(pubd("publish x.cer, y.roa", vec![GElem::Pub { uri: format!("{RSYNC_BASE}alice/x.cer"), content: 9001, pad: 0 }, GElem::Pub { uri: format!("{RSYNC_BASE}alice/y.roa"), content: 9002, pad: 0 }], &srv, &mut it));
        log.push(format!("update: {:?}", srv.manager(&rc).update_rrdp_if_needed().map(|_| ()).map_err(|e| e.to_string())));
        set_probe(Some(Arc::new(FailOnce { kind: "fs-rename", needle: "/rsync/current".into(), done: AtomicBool::new(false) })));
        log.push(format!("session reset with the rename of rsync/current failing: {:?}", srv.manager(&rc).rrdp_session_reset().map_err(|e| e.to_string().chars().take(90).collect::<String>())));
        set_probe(None);
        log.push(format!("left behind: {:?}", tree_files(&srv.repo_dir().join("rsync")).into_iter().filter(|p| p.starts_with("tmp-")).collect::<Vec<_>>()));
        let view = srv.list("alice");
        let yh = view.iter().find(|(u, _)| u.ends_with("y.roa")).map(|(_, h)| h.clone());
        if let Some(h) = yh { log.push(pubd("withdraw y.roa", vec![GElem::Wdr { uri: format!("{RSYNC_BASE}alice/y.roa"), old: h }], &srv, &mut it)); }
        log.push(format!("update: {:?}", srv.manager(&rc).update_rrdp_if_needed().map(|_| ()).map_err(|e| e.to_string())));
        log.push(format!("session reset: {:?}", srv.manager(&rc).rrdp_session_reset().map_err(|e| e.to_string())));
        let cur = tree_files(&srv.repo_dir().join("rsync").join("current"));
        let details: Vec<String> = srv.details_all(&mut it).into_iter().map(|(u, _)| u).collect();
        let stale = cur.iter().any(|p| p.ends_with("y.roa"));
        res.insert("F11f".into(), json!({"log": log, "rsync_current": cur, "published": details, "withdrawn_object_served_by_rsync": stale}));
    }
    // F11e: two URIs that differ only in the case of the module name
    {
        let dir = args.out.join("cand-f11e"); let _ = std::fs::remove_dir_all(&dir);
        let mut srv = open_server(&dir.to_string_lossy(), "memory:9102", &rc, true, tokio);
        srv.create_publisher("alice").unwrap();
        let mut log = Vec::new();
        log.push(pubd("publish rsync://localhost/repo/alice/x.cer", vec![GElem::Pub { uri: "rsync://localhost/repo/alice/x.cer".into(), content: 9011, pad: 0 }], &srv, &mut it));
        log.push(pubd("publish rsync://localhost/REPO/alice/x.cer", vec![GElem::Pub { uri: "rsync://localhost/REPO/alice/x.cer".into(), content: 9012, pad: 0 }], &srv, &mut it));
        log.push(format!("update: {:?}", srv.manager(&rc).update_rrdp_if_needed().map(|_| ()).map_err(|e| e.to_string())));
        let cur = tree_files(&srv.repo_dir().join("rsync").join("current"));
        let details: Vec<String> = srv.details_all(&mut it).into_iter().map(|(u, _)| u).collect();
        res.insert("F11e".into(), json!({"log": log, "rsync_current": cur, "published": details.clone(), "objects_in_snapshot": details.len(), "files_in_rsync": cur.len()}));
    }
    // an object URI that is a directory prefix of another object's URI
    {
        let dir = args.out.join("cand-f11h"); let _ = std::fs::remove_dir_all(&dir);
        let mut srv = open_server(&dir.to_string_lossy(), "memory:9103", &rc, true, tokio);
        srv.create_publisher("alice").unwrap();
        let mut log = Vec::new();
        log.push(pubd("publish alice/a.cer and alice/a.cer/b.roa", vec![GElem::Pub { uri: format!("{RSYNC_BASE}alice/a.cer"), content: 9021, pad: 0 }, GElem::Pub { uri: format!("{RSYNC_BASE}alice/a.cer/b.roa"), content: 9022, pad: 0 }], &srv, &mut it));
        let r1 = srv.manager(&rc).update_rrdp_if_needed().map(|_| ()).map_err(|e| e.to_string().chars().take(160).collect::<String>());
        log.push(format!("update: {r1:?}"));
        log.push(pubd("publish alice/c.cer", vec![GElem::Pub { uri: format!("{RSYNC_BASE}alice/c.cer"), content: 9023, pad: 0 }], &srv, &mut it));
        let r2 = srv.manager(&rc).update_rrdp_if_needed().map(|_| ()).map_err(|e| e.to_string().chars().take(160).collect::<String>());
        log.push(format!("update: {r2:?}"));
        let cur = tree_files(&srv.repo_dir().join("rsync").join("current"));
        let st = srv.state_json();
        res.insert("F11h".into(), json!({"log": log, "rsync_current": cur, "rrdp_serial": st["rrdp"]["serial"], "rsync_writes_fail": r1.is_err() && r2.is_err()}));
    }
    Value::Object(res)
}

// ---------------------------------------------------------------- main

fn main() {
    let args = Args::parse("c11");
    if args.extra.contains_key("worker") { worker(&args); return }
    std::process::exit(run(&args));
}

fn run(args: &Args) -> i32 {
    krill::constants::enable_test_mode();
    let tokio = tokio::runtime::Runtime::new().expect("tokio");
    let mut rng = Rng::new(args.seed);
    let thorough = args.thorough();
    let strict = args.get_u64("f11a", 1) == 1;
    let steps = args.get_u64("steps", if thorough { 22 } else { 11 });
    let rounds = args.get_u64("rounds", if thorough { 6 } else { 1 });
    let footer: String = EVALS.iter().map(|e| format!("Eval vm_compute in (failing {e} base_index cases).")).collect::<Vec<_>>().join("\n");
    let mut out = Out { w: CaseWriter::new(&args.out, HEADER, "list case", &footer, 40), jsonl: std::fs::File::create(args.out.join("cases.jsonl")).expect("jsonl"),
        kinds: BTreeMap::new(), distinct: BTreeSet::new(), samples: Vec::new(), impl_failures: Vec::new(), stats: BTreeMap::new() };
    let mut it = Interner::new();
    let mut g = Gen { next_content: 100, fresh: 0 };
    let rec = install_recorder(u64::MAX, None);
    let mut cfg_hist: BTreeMap<String, u64> = BTreeMap::new();

    let mut hist = 0u64;
    for round in 0..rounds {
        let cfgs = grid(&mut rng, thorough, false);
        // a handful of servers; the histories of one server follow each other, each starting with a session reset
        let per_server = 6usize;
        for (ci, chunk) in cfgs.chunks(per_server).enumerate() {
            let dir = args.out.join(format!("srv-{}-{}-{}", args.seed, round, ci));
            let _ = std::fs::remove_dir_all(&dir);
            let dirs = dir.to_string_lossy().to_string();
            let mut srv = match try_open_server(&dirs, &format!("memory:{}", args.seed.wrapping_mul(7919).wrapping_add(round * 100 + ci as u64)), &chunk[0], true, &tokio) {
                Ok(s) => s,
                Err(e) => { out.impl_failures.push(json!({"index": Value::Null, "class": {"kind": "write_failed", "op": "init", "f11c": false}, "what": e, "request": "RepositoryManager::init on an empty repository directory"})); continue }
            };
            for h in ["alice", "bob"] { srv.create_publisher(h).expect("create publisher"); }
            for rc in chunk {
                hist += 1;
                *cfg_hist.entry(format!("min_nr={},max_nr={},min_s={},max_s={}{}", rc.min_nr, rc.max_nr, rc.min_secs, rc.max_secs, if rc.archive { ",archive" } else { "" })).or_default() += 1;
                if !run_history(&mut out, &mut it, &mut srv, &rec, &mut rng, &mut g, *rc, hist, strict, steps, true, None) { break }
            }
            drop(srv);
            if std::env::var("KV_KEEP").is_err() { let _ = std::fs::remove_dir_all(&dir); }
        }
    }
    let boundary = args.get_u64("maxnr", 1) == 1;
    if boundary { boundary_scenario(&mut out, &mut it, args, &rec, &mut g, &tokio, strict, &mut hist, &mut cfg_hist); }
    set_probe(None);
    if args.get_u64("cuts", 1) == 1 { cut_scenario(&mut out, &mut it, args, &mut rng); }
    let mut f11b = Value::Null;
    if args.get_u64("f11b", 1) == 1 {
        let d = args.out.join("f11b");
        let _ = std::fs::remove_dir_all(&d);
        std::fs::create_dir_all(&d).unwrap();
        let (rc, err) = run_worker(&std::env::current_exe().unwrap(), args.seed, &d, &[("worker", "f11b".into())]);
        f11b = read_json(&d.join("f11b.json"));
        if f11b.is_null() { f11b = json!({"worker_exit": format!("{rc:?}"), "stderr": err}); }
        let panicked = f11b["log"].as_array().map(|a| a.iter().any(|x| x["result"].as_str().unwrap_or("").starts_with("panic"))).unwrap_or(false) || rc.is_none();
        if panicked { out.impl_failures.push(json!({"index": Value::Null, "class": {"kind": "panic", "max_nr_zero_panic": true}, "what": "rrdp_delta_files_max_nr = 0: find_deltas_truncate_age panics (attempt to subtract with overflow) in a build with overflow checks (finding F11b, fixed by 5d8ba60d)", "log": f11b.clone()})); }
    }
    let candidates = if args.get_u64("candidates", 1) == 1 { candidate_replays(args, &tokio) } else { Value::Null };
    if !candidates.is_null() {
        if candidates["F11f"]["withdrawn_object_served_by_rsync"] == json!(true) {
            out.impl_failures.push(json!({"index": Value::Null, "class": {"kind": "regression", "id": "F11f"}, "what": "rsync/tmp-<serial> left by a failed or interrupted write is reused when the serial recurs after a session reset: a withdrawn object is served by rsync (fixed by e2447e97)", "replay": candidates["F11f"].clone()}));
        }
        if candidates["F11e"]["objects_in_snapshot"] != candidates["F11e"]["files_in_rsync"] {
            out.impl_failures.push(json!({"index": Value::Null, "class": {"kind": "candidate", "id": "F11e"}, "what": "two URIs that differ only in the case of the module name are distinct objects in the RRDP snapshot and one file in the rsync tree", "replay": candidates["F11e"].clone()}));
        }
        if candidates["F11h"]["rsync_writes_fail"] == json!(true) {
            out.impl_failures.push(json!({"index": Value::Null, "class": {"kind": "candidate", "id": "F11h"}, "what": "an accepted object URI that is a directory prefix of another accepted object URI makes every rsync write fail (file vs directory) while RRDP goes on", "replay": candidates["F11h"].clone()}));
        }
    }
    out.w.flush();
    let n_fail = out.impl_failures.len();
    write_json(&args.out.join("stats.json"), &json!({
        "scenario": "c11", "seed": args.seed, "tier": args.tier, "histories": hist,
        "evaluations": out.w.total, "distinct_nontrivial": out.distinct.len(),
        "rule": "histories on real RepositoryManager instances with a disk repository directory: each history starts with a session reset and a publication that includes one large object (in 25 % of the histories every object is small so that the size rule of delta retention bites), then 11 (thorough 22) random requests: publish a valid delta of 1-4 elements for alice / bob / a/b (44 %), update_rrdp_if_needed (40 %), two publications before the next update (5 %), session reset (4 %), remove (4 %) / create (3 %) a publisher; host names re-spelled in 15 % of the elements; one retention configuration per history from {min_nr 0,1,5} x {max_nr 1,2,50} x {min_seconds 0,1,huge} x {max_seconds 0,1,huge} (quick: seeded sample of 14 + the defaults + three fixed ones incl. archive mode; thorough: all 81), histories with a one-second limit sleep once across it and keep delta ages away from it. In every run (--maxnr 1) scripted histories at the boundary of the maximum number on one more server: max_nr 1..4 (thorough ..6) with min_nr strictly below it (0 and 1 included; one history with min_nr = max_nr as the contrast), min_seconds 0, max_seconds 7200 / huge; a large object is published, a session reset drops its delta, then max_nr + 3 (thorough + 6) times one small element for alice (publish / update / withdraw) followed by update_rrdp_if_needed - more consecutive updates in one session than max_nr, each delta tiny against the snapshot. Cases: one per update/reset transition (stored RepositoryContent before/after), one per repository write for the RRDP files and one for the rsync tree (directory tree before/after, parsed files, recorded mutation trace, simulated clients at every earlier serial of the session, get_publisher_details), and for EVERY cut index of one update a crash in a worker subprocess (tree after the crash) plus the next write by a fresh runtime (publish+update / session reset / write_repository in turn). Non-trivial = every file case and every transition that changes the state; distinct = distinct case terms",
        "case_kind_distribution": out.kinds, "config_distribution": cfg_hist, "op_distribution": out.stats,
        "strict_max_nr": strict,
        "max_nr_boundary": {"enabled": boundary, "configs": if boundary { boundary_cfgs(thorough).iter().map(|c| c.json()).collect::<Vec<_>>() } else { Vec::new() },
            "updates": out.stats.get("boundary_updates").copied().unwrap_or(0),
            "updates_with_more_candidates_than_max_nr": out.stats.get("boundary_updates_with_more_candidates_than_max_nr").copied().unwrap_or(0),
            "updates_cut_to_exactly_max_nr": out.stats.get("boundary_updates_cut_to_exactly_max_nr").copied().unwrap_or(0),
            "updates_cut_below_max_nr_by_size_or_age": out.stats.get("boundary_updates_cut_below_max_nr_by_size_or_age").copied().unwrap_or(0),
            "transitions_over_max_nr_not_protected_by_a_minimum": out.stats.get("transitions_retaining_more_than_max_nr_unprotected").copied().unwrap_or(0)},
        "rsync_cuts": args.get_u64("rsynccut", 1) == 1, "f11b_replay": f11b, "candidate_replays": candidates,
        "samples": out.samples, "impl_failures": out.impl_failures,
    }));
    println!("c11: {} cases ({:?}) from {} histories; impl failures {}", out.w.total, out.kinds, hist, n_fail);
    0
}
