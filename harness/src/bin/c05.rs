//! C05 correspondence scenario.
//!
//! Part A (bulk): the real `Routes::process_updates` (src/server/ca/roa.rs) called directly on
//! generated states, holdings and deltas. `Routes` lives in a private module and cannot be named,
//! but `CertAuth::get_updated_authorizations` returns one, so values are built from JSON through
//! type inference (`deser_like`) and the `pub fn process_updates` is called on them.
//! Part B (end to end): a live in-process Krill (embedded TA + CA `ca`), commands through
//! `CaManager::{ca_routes_update, ca_aspas_definitions_update, ca_aspas_update_aspa_providers,
//! ca_bgpsec_definitions_update, ca_add_child, ca_child_update}`; configuration read before/after.
//! Every case is written as a Coq `case` term for conf/ConfCheck.v.
use std::collections::{BTreeMap, BTreeSet};
use std::io::Write;
use std::net::{Ipv4Addr, Ipv6Addr};
use std::path::Path;
use std::str::FromStr;

use krill::api::admin::{AddChildRequest, ParentCaReq, PublicationServerUris, RepositoryContact, UpdateChildRequest};
use krill::api::aspa::{AspaDefinition, AspaDefinitionUpdates, AspaProvidersUpdate};
use krill::api::bgpsec::{BgpSecAsnKey, BgpSecDefinition, BgpSecDefinitionUpdates};
use krill::api::roa::{AsNumber, RoaConfiguration, RoaConfigurationUpdates, RoaPayload, TypedPrefix};
use krill::commons::actor::Actor;
use krill::commons::error::Error as KrillError;
use krill::commons::storage::StorageSystem;
use krill::config::Config;
use krill::constants::ta_handle;
use krill::server::ca::{CaManager, CertAuth};
use krill::server::runtime::{KrillRuntime, SlowKrillRuntime};
use rpki::ca::csr::BgpsecCsr;
use rpki::ca::idcert::IdCert;
use rpki::ca::idexchange::{CaHandle, ChildHandle, ParentHandle, PublisherHandle};
use rpki::repository::resources::{Asn, ResourceSet};
use rpki::uri;
use serde_json::{Value, json};

use kvh::util::{Args, CaseWriter, Rng, coq_list, write_json};

// ------------------------------------------------------------------ abstraction to model terms

#[derive(Clone, Debug, PartialEq, Eq, PartialOrd, Ord)]
struct Ranges { asn: Vec<(u128, u128)>, v4: Vec<(u128, u128)>, v6: Vec<(u128, u128)> }

fn ranges_of(rs: &ResourceSet) -> Ranges {
    Ranges {
        asn: rs.asn().iter().map(|b| (b.min().into_u32() as u128, b.max().into_u32() as u128)).collect(),
        v4: rs.ipv4().iter().map(|b| (b.min().to_bits() >> 96, b.max().to_bits() >> 96)).collect(),
        v6: rs.ipv6().iter().map(|b| (b.min().to_bits(), b.max().to_bits())).collect(),
    }
}
/// Large numbers are written in hexadecimal: Coq reads them several times faster than decimal ones.
fn n(x: u128) -> String { if x > 0xFFFF_FFFF { format!("{x:#x}") } else { x.to_string() } }
fn coq_ranges(v: &[(u128, u128)]) -> String { coq_list(&v.iter().map(|(a, b)| format!("({}, {})", n(*a), n(*b))).collect::<Vec<_>>()) }
fn coq_res(r: &Ranges) -> String { format!("(mkRes {} {} {})", coq_ranges(&r.asn), coq_ranges(&r.v4), coq_ranges(&r.v6)) }

fn comment_id(c: &Option<String>) -> Option<u64> { c.as_ref().map(|s| s.trim_start_matches('c').parse().expect("comment id")) }
fn coq_opt(o: Option<u64>) -> String { match o { Some(n) => format!("(Some {n})"), None => "None".into() } }

fn coq_payload(p: &RoaPayload) -> String {
    let (fam, addr): (&str, u128) = match p.prefix {
        TypedPrefix::V4(x) => ("V4", u32::from(x.addr()) as u128),
        TypedPrefix::V6(x) => ("V6", u128::from(x.addr())),
    };
    let asn: u32 = p.asn.to_string().parse().expect("asn number");
    format!("(mkPl {} (mkP {} {} {}) {})", asn, fam, n(addr), p.prefix.addr_len(), coq_opt(p.max_length.map(|m| m as u64)))
}
fn coq_conf(c: &RoaConfiguration) -> String { format!("(mkRC {} {})", coq_payload(&c.payload), coq_opt(comment_id(&c.comment))) }
fn coq_routes(v: &[RoaConfiguration]) -> String {
    let mut v: Vec<&RoaConfiguration> = v.iter().collect();
    v.sort_by_key(|c| c.payload.to_string());
    coq_list(&v.iter().map(|c| format!("({}, {})", coq_payload(&c.payload), coq_opt(comment_id(&c.comment)))).collect::<Vec<_>>())
}
fn coq_delta(u: &RoaConfigurationUpdates) -> String {
    format!("(mkD {} {})", coq_list(&u.added.iter().map(coq_conf).collect::<Vec<_>>()), coq_list(&u.removed.iter().map(coq_payload).collect::<Vec<_>>()))
}
fn coq_errs(e: &Value) -> String {
    let confs = |k: &str| -> Vec<String> {
        e[k].as_array().expect("err list").iter().map(|x| coq_conf(&serde_json::from_value::<RoaConfiguration>(x.clone()).expect("conf"))).collect()
    };
    let unk: Vec<String> = e["unknowns"].as_array().expect("unknowns").iter()
        .map(|x| coq_payload(&serde_json::from_value::<RoaPayload>(x.clone()).expect("payload"))).collect();
    format!("(mkErr {} {} {} {})", coq_list(&confs("duplicates")), coq_list(&confs("notheld")), coq_list(&unk), coq_list(&confs("invalid_length")))
}
fn coq_events(evs: &Value) -> String {
    let items: Vec<String> = evs.as_array().expect("events").iter().map(|e| {
        let auth = RoaPayload::from_str(e["auth"].as_str().expect("auth")).expect("auth payload");
        match e["type"].as_str().expect("type") {
            "route_authorization_added" => format!("EvAdded {}", coq_payload(&auth)),
            "route_authorization_removed" => format!("EvRemoved {}", coq_payload(&auth)),
            "route_authorization_comment" => {
                let c = e.get("comment").and_then(|c| c.as_str()).map(|s| s.to_string());
                format!("EvComment {} {}", coq_payload(&auth), coq_opt(comment_id(&c)))
            }
            other => panic!("unexpected event {other}"),
        }
    }).collect();
    coq_list(&items)
}

/// Builds a value of the same (unnameable) type as the witness from JSON.
fn deser_like<T: serde::de::DeserializeOwned>(_witness: &T, v: Value) -> T { serde_json::from_value(v).expect("deser_like") }

// ------------------------------------------------------------------ generators (ROA)

#[derive(Clone, Copy, Debug)]
struct Block { v6: bool, addr: u128, len: u8 } // a held prefix block (family-native address)

fn alen(v6: bool) -> u8 { if v6 { 128 } else { 32 } }
fn pfx_str(v6: bool, addr: u128, len: u8) -> String {
    if v6 { format!("{}/{}", Ipv6Addr::from(addr), len) } else { format!("{}/{}", Ipv4Addr::from(addr as u32), len) }
}
fn typed(v6: bool, addr: u128, len: u8) -> TypedPrefix { TypedPrefix::from_str(&pfx_str(v6, addr, len)).expect("prefix") }
fn mask(v6: bool, addr: u128, len: u8) -> u128 {
    let w = alen(v6) as u32;
    if len == 0 { 0 } else { addr & (!0u128 >> (128 - w)) & !((1u128 << (w - len as u32)) - 1) }
}

fn gen_blocks(rng: &mut Rng) -> Vec<Block> {
    let mut v = Vec::new();
    let n4 = rng.range(1, 6);
    for _ in 0..n4 {
        let len = rng.range(8, 22) as u8;
        let base = *rng.pick(&[0x0a00_0000u32, 0x0a80_0000, 0xc0a8_0000, 0x2001_0db8, 0xc633_6400, 0x6440_0000]);
        let addr = mask(false, (base as u128) | ((rng.below(4) as u128) << 20), len);
        v.push(Block { v6: false, addr, len });
    }
    let n6 = rng.range(1, 6);
    for _ in 0..n6 {
        let len = rng.range(12, 44) as u8;
        let base = *rng.pick(&[0x2001_0db8u128 << 96, 0x2a00u128 << 112, 0x0a00u128 << 112, 0x2001_0db9u128 << 96]);
        let addr = mask(true, base | ((rng.below(4) as u128) << 84), len);
        v.push(Block { v6: true, addr, len });
    }
    v
}
fn blocks_to_set(bs: &[Block], rng: &mut Rng) -> ResourceSet {
    // some blocks are written as address ranges (two adjacent prefixes) so that merged, non-prefix blocks occur
    let item = |b: &Block, rng: &mut Rng| -> String {
        if rng.chance(20) && b.len >= 9 {
            let w = alen(b.v6) as u32;
            let size = 1u128 << (w - b.len as u32);
            let lo = b.addr; let hi = b.addr + size - 1 + if b.addr + 2 * size - 1 <= (!0u128 >> (128 - w)) { size } else { 0 };
            if b.v6 { format!("{}-{}", Ipv6Addr::from(lo), Ipv6Addr::from(hi)) } else { format!("{}-{}", Ipv4Addr::from(lo as u32), Ipv4Addr::from(hi as u32)) }
        } else { pfx_str(b.v6, b.addr, b.len) }
    };
    let v4: Vec<String> = bs.iter().filter(|b| !b.v6).map(|b| item(b, rng)).collect();
    let v6: Vec<String> = bs.iter().filter(|b| b.v6).map(|b| item(b, rng)).collect();
    ResourceSet::from_strs("AS64496-AS64511, AS65000", &v4.join(", "), &v6.join(", ")).expect("resource set")
}
/// A prefix inside the block, drawn from a small family so that collisions are frequent.
fn sub_prefix(b: &Block, rng: &mut Rng) -> (bool, u128, u8) {
    let extra = rng.below(3) as u8;
    let len = (b.len + extra).min(alen(b.v6));
    let w = alen(b.v6) as u32;
    let idx = if len > b.len { rng.below(1 << (len - b.len).min(2)) as u128 } else { 0 };
    let addr = b.addr + (idx << (w - len as u32));
    (b.v6, addr, len)
}
const ASNS: [u32; 5] = [0, 64496, 64497, 65000, 4200000000];
fn gen_asn(rng: &mut Rng) -> AsNumber { AsNumber::from_u32(if rng.chance(12) { 0 } else { *rng.pick(&ASNS) }) }
fn valid_maxlen(v6: bool, len: u8, rng: &mut Rng) -> Option<u8> {
    match rng.below(10) { 0..=2 => None, 3..=5 => Some(len), _ => Some((len + rng.range(1, 6) as u8).min(alen(v6))) }
}
fn gen_comment(rng: &mut Rng) -> Option<String> { if rng.chance(55) { None } else { Some(format!("c{}", rng.below(3))) } }

#[derive(Default)]
struct Dist(BTreeMap<String, u64>);
impl Dist { fn hit(&mut self, k: &str) { *self.0.entry(k.to_string()).or_default() += 1; } }

struct RoaGen<'a> { blocks: &'a [Block], state: &'a [RoaConfiguration] }

impl RoaGen<'_> {
    fn valid_payload(&self, rng: &mut Rng) -> RoaPayload {
        let (v6, addr, len) = sub_prefix(rng.pick(self.blocks), rng);
        RoaPayload { asn: gen_asn(rng), prefix: typed(v6, addr, len), max_length: valid_maxlen(v6, len, rng) }
    }
    fn not_held_payload(&self, rng: &mut Rng) -> RoaPayload {
        let b = *rng.pick(self.blocks);
        let (v6, addr, len) = match rng.below(3) {
            0 if b.len > 1 => (b.v6, mask(b.v6, b.addr, b.len - 1), b.len - 1),                // covering, less specific
            1 => if rng.chance(50) { (false, 0xac10_0000 + ((rng.below(4) as u128) << 8), 24) } else { (true, (0x2001_0dbau128 << 96) + ((rng.below(4) as u128) << 80), 48) },
            _ => { // next to the block
                let w = alen(b.v6) as u32; let size = 1u128 << (w - b.len as u32);
                let a = b.addr.wrapping_add(2 * size) & (!0u128 >> (128 - w)); (b.v6, mask(b.v6, a, b.len), b.len)
            }
        };
        RoaPayload { asn: gen_asn(rng), prefix: typed(v6, addr, len), max_length: valid_maxlen(v6, len, rng) }
    }
    /// Same leading bits as a held block, other address family.
    fn cross_family_payload(&self, rng: &mut Rng) -> RoaPayload {
        let b = *rng.pick(self.blocks);
        let (v6, addr, len) = if b.v6 {
            let l = b.len.max(8).min(32); (false, mask(false, b.addr >> 96, l), if b.len <= 32 { l.max(b.len) } else { 32 })
        } else {
            let l = b.len + rng.below(3) as u8; (true, mask(true, b.addr << 96, l), l)
        };
        RoaPayload { asn: gen_asn(rng), prefix: typed(v6, addr, len), max_length: valid_maxlen(v6, len, rng) }
    }
    fn gen_delta(&self, rng: &mut Rng, max_entries: u64, dist: &mut Dist, cross: &mut bool) -> RoaConfigurationUpdates {
        let valid_only = rng.chance(70);
        dist.hit(if valid_only { "delta:valid-intent" } else { "delta:mixed" });
        let n_add = rng.below(max_entries + 1).min(rng.below(max_entries + 1) + 1);
        let n_rm = rng.below(max_entries / 2 + 1);
        let mut added: Vec<RoaConfiguration> = Vec::new();
        let mut removed: Vec<RoaPayload> = Vec::new();
        for _ in 0..n_rm {
            let k = if valid_only { 0 } else { rng.weighted(&[70, 12, 8, 10]) };
            match k {
                0 if !self.state.is_empty() => {
                    let p = rng.pick(self.state).payload;
                    if valid_only && removed.contains(&p) { continue }
                    removed.push(p); dist.hit("remove:existing");
                }
                1 => { removed.push(self.valid_payload(rng)); dist.hit("remove:unknown"); }
                2 if !removed.is_empty() => { let p = *rng.pick(&removed); removed.push(p); dist.hit("remove:twice"); }
                3 if !self.state.is_empty() => {
                    // implicit/explicit variant of an existing payload: a different key
                    let mut p = rng.pick(self.state).payload;
                    p.max_length = match p.max_length { None => Some(p.prefix.addr_len()), Some(m) if m == p.prefix.addr_len() => None, Some(m) => Some(m.saturating_sub(1).max(p.prefix.addr_len())) };
                    removed.push(p); dist.hit("remove:maxlen-variant");
                }
                _ => {}
            }
        }
        for _ in 0..n_add {
            let k = if valid_only { rng.weighted(&[60, 20, 0, 0, 0, 0, 8, 0, 12]) } else { rng.weighted(&[30, 8, 14, 7, 7, 10, 10, 5, 9]) };
            match k {
                0 => { added.push(RoaConfiguration { payload: self.valid_payload(rng), comment: gen_comment(rng) }); dist.hit("add:valid"); }
                1 if !self.state.is_empty() => { // same payload, (probably) different comment
                    let c = rng.pick(self.state);
                    let mut n = gen_comment(rng); if n == c.comment { n = Some("c9".into()) }
                    added.push(RoaConfiguration { payload: c.payload, comment: n }); dist.hit("add:comment-change");
                }
                2 => { added.push(RoaConfiguration { payload: self.not_held_payload(rng), comment: gen_comment(rng) }); dist.hit("add:not-held"); }
                3 => { let mut p = self.valid_payload(rng); let l = p.prefix.addr_len(); if l > 0 { p.max_length = Some(l - 1 - (rng.below(2) as u8).min(l - 1)); added.push(RoaConfiguration { payload: p, comment: gen_comment(rng) }); dist.hit("add:maxlen-below"); } }
                4 => { let mut p = if rng.chance(70) { self.valid_payload(rng) } else { self.not_held_payload(rng) }; let a = match p.prefix { TypedPrefix::V4(_) => 32u8, TypedPrefix::V6(_) => 128 }; p.max_length = Some(a + 1 + rng.below(3) as u8); added.push(RoaConfiguration { payload: p, comment: gen_comment(rng) }); dist.hit("add:maxlen-above"); }
                5 if !self.state.is_empty() => { let c = rng.pick(self.state).clone(); added.push(c); dist.hit("add:present-same-comment"); }
                6 if !added.is_empty() => { // repeat an entry of this delta, same or other comment
                    let mut c = rng.pick(&added).clone(); if rng.chance(50) { c.comment = gen_comment(rng) } added.push(c); dist.hit("add:repeat-in-delta");
                }
                7 => { added.push(RoaConfiguration { payload: self.cross_family_payload(rng), comment: gen_comment(rng) }); *cross = true; dist.hit("add:other-family-same-bits"); }
                8 if !self.state.is_empty() => { // remove then add the same payload
                    let c = rng.pick(self.state).clone();
                    if !removed.contains(&c.payload) { removed.push(c.payload); }
                    added.push(RoaConfiguration { payload: c.payload, comment: if rng.chance(50) { c.comment } else { gen_comment(rng) } }); dist.hit("add:remove-then-add");
                }
                _ => {}
            }
        }
        RoaConfigurationUpdates { added, removed }
    }
}

fn strict_held(r: &Ranges, p: &RoaPayload) -> bool {
    let (v6, addr, len) = match p.prefix { TypedPrefix::V4(x) => (false, u32::from(x.addr()) as u128, x.addr_len()), TypedPrefix::V6(x) => (true, u128::from(x.addr()), x.addr_len()) };
    let w = alen(v6) as u32;
    let hi = if len as u32 >= w { addr } else { addr + ((1u128 << (w - len as u32)) - 1) };
    (if v6 { &r.v6 } else { &r.v4 }).iter().any(|(a, b)| *a <= addr && hi <= *b)
}

// ------------------------------------------------------------------ live system

struct Sys { krill: KrillRuntime, slow: SlowKrillRuntime, actor: Actor }

fn write_config(dir: &Path, seed: u64) -> std::path::PathBuf {
    let toml = format!(
        "storage_uri = \"memory://c05-{seed:016x}-{pid}\"\ntls_keys_dir = \"{d}/tls\"\nrepo_dir = \"{d}/repo\"\npid_file = \"{d}/krill.pid\"\n\
         admin_token = \"secret\"\nservice_uri = \"https://localhost:3000/\"\nlog_level = \"error\"\nlog_type = \"stderr\"\n\
         ta_support_enabled = true\nta_signer_enabled = true\nbgp_riswhois_enabled = false\n",
        d = dir.display(), pid = std::process::id());
    let path = dir.join("krill.conf");
    std::fs::write(&path, toml).expect("write config");
    path
}

/// Creates CA `ca` with a repository and makes it a child of `parent` (the TA or another CA) with `res`.
fn add_ca_under(krill: &KrillRuntime, slow: &SlowKrillRuntime, actor: &Actor, ca: &CaHandle, parent_ca: &CaHandle, res: &ResourceSet) -> Result<(), KrillError> {
    let cam = krill.ca_manager();
    cam.init_ca(ca.clone(), krill)?;
    let pub_req = cam.get_ca(ca)?.publisher_request();
    krill.repo_manager().create_publisher(pub_req, actor)?;
    let publisher: PublisherHandle = ca.convert();
    let response = krill.repo_manager().repository_response(&publisher, krill)?;
    let contact = RepositoryContact::try_from_response(response).map_err(KrillError::rfc8183)?;
    cam.update_repo(ca.clone(), contact, false, actor, slow)?;
    let id_cert = cam.get_ca(ca)?.child_request().validate().map_err(KrillError::rfc8183)?;
    let parent: ParentHandle = parent_ca.convert();
    let response = cam.ca_add_child(parent_ca, AddChildRequest { handle: ca.convert(), resources: res.clone(), id_cert }, actor, krill)?;
    cam.ca_parent_add_or_update(ca.clone(), ParentCaReq { handle: parent.clone(), response }, actor, krill)?;
    for _ in 0..4 {
        cam.ca_sync_parent(ca, 0, &parent, actor, slow)?;
        if *parent_ca == ta_handle() { cam.sync_ta_proxy_signer_if_possible(krill)?; }
        if cam.get_ca(ca)?.all_resources() == *res { break }
    }
    cam.cas_repo_sync_single(parent_ca, 0, slow)?;
    cam.cas_repo_sync_single(ca, 0, slow)?;
    Ok(())
}

/// Embedded TA -> CA `mid` (holds `ca_res` for good) -> CA `ca` (the CA under test; `mid` can change what it is entitled to).
fn setup(dir: &Path, seed: u64, mid: &CaHandle, ca: &CaHandle, ca_res: &ResourceSet) -> Result<Sys, KrillError> {
    krill::constants::enable_test_mode();
    let mut cfg = Config::read_config(write_config(dir, seed)).expect("read config");
    cfg.process().expect("process config");
    let storage = StorageSystem::new(cfg.storage_uri.clone());
    let rt = tokio::runtime::Builder::new_multi_thread().worker_threads(2).enable_all().build().expect("tokio");
    let krill = KrillRuntime::new(cfg, storage, rt.handle().clone())?;
    std::mem::forget(rt);
    let slow = SlowKrillRuntime::new(krill.clone());
    let actor = Actor::system("c05");
    krill.repo_manager().init(PublicationServerUris {
        rrdp_base_uri: uri::Https::from_str("https://localhost:3000/rrdp/").unwrap(),
        rsync_jail: uri::Rsync::from_str("rsync://localhost/repo/").unwrap(),
    }, &krill)?;
    krill.ca_manager().ta_init_fully_embedded(
        uri::Rsync::from_str("rsync://localhost/ta/ta.cer").unwrap(),
        vec![uri::Https::from_str("https://localhost:3000/ta/ta.cer").unwrap()], None, &actor, &slow)?;
    add_ca_under(&krill, &slow, &actor, mid, &ta_handle(), ca_res)?;
    add_ca_under(&krill, &slow, &actor, ca, mid, ca_res)?;
    Ok(Sys { krill, slow, actor })
}

/// Changes what `mid` entitles `ca` to and lets `ca` fetch its new certificate. Returns whether `ca` ended up with `target`.
fn resize(sys: &Sys, mid: &CaHandle, ca: &CaHandle, target: &ResourceSet) -> Result<bool, KrillError> {
    let cam = sys.krill.ca_manager();
    let parent: ParentHandle = mid.convert();
    cam.ca_child_update(mid, ca.convert(), UpdateChildRequest::resources(target.clone()), &sys.actor, &sys.krill)?;
    for _ in 0..4 {
        cam.ca_sync_parent(ca, 0, &parent, &sys.actor, &sys.slow)?;
        if cam.get_ca(ca)?.all_resources() == *target { break }
    }
    cam.cas_repo_sync_single(mid, 0, &sys.slow)?;
    cam.cas_repo_sync_single(ca, 0, &sys.slow)?;
    Ok(cam.get_ca(ca)?.all_resources() == *target)
}

/// The CA's whole state except its version counter and command bookkeeping.
fn ca_fingerprint(cam: &CaManager, ca: &CaHandle) -> String {
    let c = cam.get_ca(ca).expect("get ca");
    let mut v = serde_json::to_value(&*c).expect("ca json");
    if let Some(o) = v.as_object_mut() { o.remove("version"); }
    v.to_string()
}

fn roa_state(c: &CertAuth) -> Vec<RoaConfiguration> { c.configured_roas().into_iter().map(|r| r.roa_configuration).collect() }

fn aspa_state(c: &CertAuth) -> Vec<(u32, Vec<u32>)> {
    let mut v: Vec<(u32, Vec<u32>)> = c.aspas_definitions_show().as_slice().iter()
        .map(|d| (d.customer.into_u32(), d.providers.iter().map(|p| p.into_u32()).collect())).collect();
    v.sort();
    v
}
fn coq_nlist(v: &[u32]) -> String { coq_list(&v.iter().map(|x| x.to_string()).collect::<Vec<_>>()) }
fn coq_aspas(v: &[(u32, Vec<u32>)]) -> String { coq_list(&v.iter().map(|(c, ps)| format!("({}, {})", c, coq_nlist(ps))).collect::<Vec<_>>()) }

fn aspa_err(e: &KrillError) -> Option<String> {
    Some(match e {
        KrillError::AspaCustomerUnknown(_, c) => format!("ECustomerUnknown {}", c.into_u32()),
        KrillError::AspaProvidersEmpty(_, c) => format!("EProvidersEmpty {}", c.into_u32()),
        KrillError::AspaCustomerAsProvider(_, c) => format!("ECustomerAsProvider {}", c.into_u32()),
        KrillError::AspaProvidersDuplicates(_, c) => format!("EProvidersDuplicates {}", c.into_u32()),
        KrillError::AspaCustomerAsNotEntitled(_, c) => format!("ENotEntitled {}", c.into_u32()),
        _ => return None,
    })
}

struct Csr { key_ix: u64, csr_ix: u64, csr: BgpsecCsr, sig_ok: bool, b64: String }

fn make_router_csrs() -> Vec<Csr> {
    use openssl::ec::{EcGroup, EcKey};
    use openssl::hash::MessageDigest;
    use openssl::nid::Nid;
    use openssl::pkey::PKey;
    use openssl::stack::Stack;
    use openssl::x509::extension::ExtendedKeyUsage;
    use openssl::x509::{X509NameBuilder, X509ReqBuilder};
    let group = EcGroup::from_curve_name(Nid::X9_62_PRIME256V1).unwrap();
    let mut out = Vec::new();
    let mut csr_ix = 0;
    for key_ix in 0..3u64 {
        let key = PKey::from_ec_key(EcKey::generate(&group).unwrap()).unwrap();
        for variant in 0..3 { // two validly signed requests and a corrupted one per key
            let mut name = X509NameBuilder::new().unwrap();
            name.append_entry_by_nid(Nid::COMMONNAME, &format!("ROUTER-{key_ix:04}{variant:04}")).unwrap();
            let name = name.build();
            let mut req = X509ReqBuilder::new().unwrap();
            req.set_version(0).unwrap();
            req.set_subject_name(&name).unwrap();
            req.set_pubkey(&key).unwrap();
            let mut exts = Stack::new().unwrap();
            exts.push(ExtendedKeyUsage::new().other("1.3.6.1.5.5.7.3.30").build().unwrap()).unwrap();
            req.add_extensions(&exts).unwrap();
            req.sign(&key, MessageDigest::sha256()).unwrap();
            let mut der = req.build().to_der().unwrap();
            let sig_ok = variant < 2;
            if !sig_ok { if let Some(pos) = der.windows(7).position(|w| w == b"ROUTER-") { der[pos + 8] ^= 0x01; } }
            let csr = BgpsecCsr::decode(der.as_slice()).expect("decode CSR");
            assert_eq!(csr.verify_signature().is_ok(), sig_ok, "CSR signature status");
            let b64 = serde_json::to_value(&csr).expect("csr json").as_str().unwrap_or_default().to_string();
            out.push(Csr { key_ix, csr_ix, csr, sig_ok, b64 });
            csr_ix += 1;
        }
    }
    out
}

fn res_set(asn: &str, v4: &str, v6: &str) -> ResourceSet { ResourceSet::from_strs(asn, v4, v6).expect("resources") }

// ------------------------------------------------------------------ main

fn main() {
    let args = &Args::parse("c05");
    std::process::exit(run(args));
}

struct Out { w: CaseWriter, jsonl: std::fs::File, distinct: BTreeSet<String>, samples: Vec<Value>, kinds: Dist, results: Dist, impl_failures: Vec<Value> }
impl Out {
    fn push(&mut self, term: String, nontrivial: bool, mut rec: Value) {
        rec["index"] = json!(self.w.total);
        if nontrivial { self.distinct.insert(term.clone()); }
        writeln!(self.jsonl, "{}", rec).unwrap();
        if self.samples.len() < 8 && (self.w.total % 331 == 7 || rec["kind"] != "roa_direct" && self.w.total % 37 == 0) { self.samples.push(rec); }
        self.w.push(term);
    }
}

fn run(args: &Args) -> i32 {
    let mut rng = Rng::new(args.seed);
    let n_direct = args.get_u64("direct", if args.thorough() { 100_000 } else { 2000 });
    let n_e2e = args.get_u64("e2e", if args.thorough() { 600 } else { 150 });
    let header = "From KV Require Import base.Tac conf.AMap conf.Roa conf.Aspa conf.Bgpsec conf.Child conf.ConfCheck.\nOpen Scope N_scope.";
    let footer = "Eval vm_compute in (failing agrees base_index cases).\nEval vm_compute in (failing c05_ok base_index cases).\nEval vm_compute in (failing c05_strict base_index cases).";
    let mut out = Out {
        w: CaseWriter::new(&args.out, header, "list case", footer, 250),
        jsonl: std::fs::File::create(args.out.join("cases.jsonl")).expect("jsonl"),
        distinct: BTreeSet::new(), samples: Vec::new(), kinds: Dist::default(), results: Dist::default(), impl_failures: Vec::new(),
    };
    let mut gen_dist = Dist::default();

    let dir = args.out.join(format!("krill-{}", std::process::id()));
    std::fs::create_dir_all(&dir).expect("mkdir");
    let ca = CaHandle::from_str("ca").unwrap();
    let ca_res = res_set("AS64512-AS64600", "10.0.0.0/8, 192.168.0.0/16", "2001:db8::/32");
    let t0 = std::time::Instant::now();
    let mid = CaHandle::from_str("mid").unwrap();
    let sys = match setup(&dir, args.seed, &mid, &ca, &ca_res) { Ok(s) => s, Err(e) => { println!("c05: set-up failed: {e:?}"); return 3 } };
    let setup_ms = t0.elapsed().as_millis();
    let cam = sys.krill.ca_manager();

    // ---------------------------------------------------------------- Part A: Routes::process_updates directly
    let witness = cam.get_ca(&ca).expect("ca").get_updated_authorizations(&RoaConfigurationUpdates { added: vec![], removed: vec![] }).expect("witness");
    let handle = CaHandle::from_str("model").unwrap();
    let t_a = std::time::Instant::now();
    for _ in 0..n_direct {
        let blocks = gen_blocks(&mut rng);
        let held = blocks_to_set(&blocks, &mut rng);
        let ranges = ranges_of(&held);
        // state: mostly payloads that are held now, some that are not (resources may have shrunk since)
        let n_state = rng.below(41).min(rng.below(41) + 3);
        let mut state: BTreeMap<String, RoaConfiguration> = BTreeMap::new();
        {
            let g = RoaGen { blocks: &blocks, state: &[] };
            for _ in 0..n_state {
                let p = if rng.chance(90) { g.valid_payload(&mut rng) } else { g.not_held_payload(&mut rng) };
                state.insert(p.to_string(), RoaConfiguration { payload: p, comment: gen_comment(&mut rng) });
            }
        }
        let state: Vec<RoaConfiguration> = state.into_values().collect();
        let mut map = serde_json::Map::new();
        for c in &state {
            let mut info = json!({"since": "2024-01-01T00:00:00Z"});
            if let Some(cm) = &c.comment { info["comment"] = json!(cm); }
            map.insert(c.payload.to_string(), info);
        }
        let routes = deser_like(&witness, json!({"map": map}));
        assert_eq!(routes.len(), state.len(), "state round trip");
        let mut cross = false;
        let updates = RoaGen { blocks: &blocks, state: &state }.gen_delta(&mut rng, 12, &mut gen_dist, &mut cross);
        let result = routes.process_updates(&handle, &held, &updates);
        let (out_term, outcome, accepted) = match &result {
            Ok((after, events)) => {
                let evs = serde_json::to_value(events).expect("events json");
                (format!("(RoaOk {} {})", coq_routes(&after.roa_configurations()), coq_events(&evs)), json!({"ok": true, "events": evs}), true)
            }
            Err(KrillError::RoaDeltaError(_, e)) => {
                let ej = serde_json::to_value(e).expect("err json");
                (format!("(RoaErr {})", coq_errs(&ej)), json!({"ok": false, "error": ej}), false)
            }
            Err(e) => { println!("c05: unexpected error {e:?}"); return 3 }
        };
        // accepted although some added prefix is not covered by a block of its own family
        let cross_accept = accepted && updates.added.iter().any(|c| !strict_held(&ranges, &c.payload));
        let term = format!("CRoa {} {} {} {}", coq_res(&ranges), coq_routes(&state), coq_delta(&updates), out_term);
        out.kinds.hit("roa_direct"); out.results.hit(if accepted { "roa_direct:accepted" } else { "roa_direct:refused" });
        let rec = json!({"kind": "roa_direct", "class": {"kind": "roa_direct", "accepted_prefix_of_other_family": cross_accept},
            "held": serde_json::to_value(&held).unwrap(), "state": state.iter().map(|c| c.to_string()).collect::<Vec<_>>(),
            "delta": updates.to_string(), "observed": outcome});
        out.push(term, !(updates.added.is_empty() && updates.removed.is_empty()), rec);
    }
    let part_a_ms = t_a.elapsed().as_millis();

    // ---------------------------------------------------------------- Part B: end to end on the live CA
    let mut live_ranges: Ranges;
    // The CA's entitlement is switched between the full and a reduced set (at its parent, followed by the
    // synchronisation that gives it a new certificate): configured definitions and children survive a shrink,
    // so requests meet ROAs, ASPA customers, router keys and child entitlements that are no longer backed.
    let reduced_res = res_set("AS64512, AS64514-AS64519, AS64531-AS64600", "10.0.0.0/14, 10.64.0.0/10, 192.168.0.0/16", "2001:db8::/33");
    let mut reduced_now = false;
    let mut resizes = 0u64;
    let resize_every = args.get_u64("resize_every", 45);
    let live_blocks = [Block { v6: false, addr: 0x0a00_0000, len: 8 }, Block { v6: false, addr: 0xc0a8_0000, len: 16 }, Block { v6: true, addr: 0x2001_0db8u128 << 96, len: 32 },
                       Block { v6: false, addr: 0x0a40_0000, len: 12 }, Block { v6: true, addr: (0x2001_0db8u128 << 96) | (7u128 << 80), len: 48 }];
    let (krill, actor) = (&sys.krill, &sys.actor);
    let t_b = std::time::Instant::now();
    let csrs = make_router_csrs();
    let id_cert = IdCert::decode(bytes::Bytes::from(std::fs::read("/repo/test-resources/oob/id_publisher_ta.cer").expect("id cert file"))).expect("id cert");
    let kids: Vec<ChildHandle> = (0..4).map(|i| ChildHandle::from_str(&format!("k{i}")).unwrap()).collect();
    let child_sets: Vec<ResourceSet> = vec![
        res_set("", "", ""), res_set("AS64512", "", ""), res_set("AS64520-AS64530", "10.5.0.0/16", ""), res_set("", "10.0.0.0/8", "2001:db8:5::/48"),
        res_set("AS65000", "10.5.0.0/16", ""), res_set("", "11.0.0.0/24", ""), res_set("", "192.168.0.0/16, 10.1.0.0/16", ""), res_set("AS64512", "", "2001:db9::/32"),
        res_set("", "10.255.0.0-11.0.0.255", ""), res_set("AS64512-AS64600", "10.0.0.0/8, 192.168.0.0/16", "2001:db8::/32"),
        res_set("AS64520-AS64525", "10.5.0.0/17", ""), res_set("AS64513-AS64519", "10.0.0.0/12", "2001:db8::/32"), res_set("", "10.0.0.0/14, 10.64.0.0/12", "2001:db8::/34"),
        res_set("AS64531-AS64540", "192.168.0.0/16", ""),
    ];
    let read_children = |cam: &CaManager| -> Vec<(u64, Ranges)> {
        let c = cam.get_ca(&ca).expect("ca");
        let mut v: Vec<(u64, Ranges)> = c.children().map(|h| {
            let ix = h.as_str()[1..].parse::<u64>().expect("child index");
            (ix, ranges_of(&cam.ca_show_child(&ca, h).expect("child").entitled_resources))
        }).collect();
        v.sort(); v
    };
    let coq_children = |v: &[(u64, Ranges)]| coq_list(&v.iter().map(|(i, r)| format!("({}, {})", i, coq_res(r))).collect::<Vec<_>>());
    let read_bview = |c: &CertAuth| -> Vec<((u32, u64), u64)> {
        let j = serde_json::to_value(c.bgpsec_definitions_show()).expect("bgpsec json");
        let mut v: Vec<((u32, u64), u64)> = j.as_array().expect("bgpsec list").iter().map(|d| {
            let b64 = d["csr"].as_str().expect("csr b64");
            let k = csrs.iter().find(|c| c.b64 == b64).expect("known csr");
            ((d["asn"].as_u64().expect("asn") as u32, k.key_ix), k.csr_ix)
        }).collect();
        v.sort(); v
    };
    let coq_bview = |v: &[((u32, u64), u64)]| coq_list(&v.iter().map(|((a, k), c)| format!("(({a}, {k}), {c})")).collect::<Vec<_>>());
    let customers = [64512u32, 64513, 64514, 65010, 65011];
    let providers = [65000u32, 65001, 65002, 65003, 64100, 64101];

    for i in 0..n_e2e {
        if i > 0 && i % resize_every == resize_every / 2 {
            let target = if reduced_now { &ca_res } else { &reduced_res };
            match resize(&sys, &mid, &ca, target) {
                Ok(true) => { reduced_now = !reduced_now; resizes += 1; }
                Ok(false) => { out.impl_failures.push(json!({"index": out.w.total, "class": {"kind": "resize", "not_converged": true}, "what": "the CA did not receive the changed resources after the synchronisation rounds"})); }
                Err(e) => { out.impl_failures.push(json!({"index": out.w.total, "class": {"kind": "resize", "error": true}, "what": format!("changing the CA's resources failed: {e:?}")})); }
            }
        }
        let kind = if i + 1 == n_e2e { 6 } else { rng.weighted(&[24, 24, 16, 13, 23]) };
        let before = ca_fingerprint(cam, &ca);
        let pre_ca = cam.get_ca(&ca).expect("ca");
        live_ranges = ranges_of(&pre_ca.all_resources());
        let live_ranges = &live_ranges;
        let mut unexpected: Option<String> = None;
        let (term, rec, refused): (String, Value, bool) = match kind {
            0 | 6 => {
                let state = roa_state(&pre_ca);
                let mut cross = false;
                let updates = if kind == 6 {
                    // the last case: IPv6 a00::/8 against the IPv4 holding 10.0.0.0/8, through the whole command path
                    // (regression case of finding F05a: must be refused as not held)
                    RoaConfigurationUpdates { added: vec![RoaConfiguration::from_str("a00::/8 => 64512").unwrap()], removed: vec![] }
                } else {
                    let mut d = Dist::default();
                    let u = RoaGen { blocks: &live_blocks, state: &state }.gen_delta(&mut rng, 3, &mut d, &mut cross);
                    for (k, v) in d.0 { *gen_dist.0.entry(format!("e2e-{k}")).or_default() += v; }
                    u
                };
                let r = cam.ca_routes_update(ca.clone(), updates.clone(), actor, krill);
                let post = roa_state(&cam.get_ca(&ca).expect("ca"));
                let (o, oj, refused) = match &r {
                    Ok(()) => (format!("(RoaCmdOk {})", coq_routes(&post)), json!({"ok": true}), false),
                    Err(KrillError::RoaDeltaError(_, e)) => { let ej = serde_json::to_value(e).unwrap(); (format!("(RoaCmdErr {} {})", coq_errs(&ej), coq_routes(&post)), json!({"ok": false, "error": ej}), true) }
                    Err(e) => { unexpected = Some(format!("{e:?}")); (format!("(RoaCmdOk {})", coq_routes(&post)), json!({"ok": false, "other_error": format!("{e:?}")}), false) }
                };
                let cross_accept = !refused && updates.added.iter().any(|c| !strict_held(&live_ranges, &c.payload));
                let issued: Vec<Value> = if cross_accept {
                    cam.get_ca(&ca).expect("ca").configured_roas().iter().filter(|r| !strict_held(&live_ranges, &r.roa_configuration.payload))
                        .map(|r| json!({"configuration": r.roa_configuration.to_string(), "roa_objects": r.roa_objects.iter().map(|o| o.uri.to_string()).collect::<Vec<_>>()})).collect()
                } else { vec![] };
                (format!("CRoaCmd {} {} {} {}", coq_res(&live_ranges), coq_routes(&state), coq_delta(&updates), o),
                 json!({"kind": "roa_command", "class": {"kind": "roa_command", "accepted_prefix_of_other_family": cross_accept},
                        "state": state.iter().map(|c| c.to_string()).collect::<Vec<_>>(), "delta": updates.to_string(), "observed": oj,
                        "after": post.iter().map(|c| c.to_string()).collect::<Vec<_>>(), "objects_issued_for_prefixes_not_held": issued}), refused)
            }
            1 => {
                let state = aspa_state(&pre_ca);
                let mut add: Vec<(u32, Vec<u32>)> = Vec::new();
                let mut remove: Vec<u32> = Vec::new();
                let gen_provs = |rng: &mut Rng, cust: u32| -> Vec<u32> {
                    let mut ps: Vec<u32> = Vec::new();
                    match rng.weighted(&[58, 7, 16, 19]) {
                        0 => { for p in providers { if rng.chance(45) { ps.push(p) } } if ps.is_empty() { ps.push(65000) } if rng.chance(30) { ps.reverse() } if rng.chance(20) && ps.len() > 2 { ps.swap(0, 1) } }
                        1 => {}
                        2 => { // the customer among 1-4 providers in arbitrary (unsorted) order, at any position
                            let mut pool: Vec<u32> = providers.to_vec();
                            for _ in 0..rng.range(1, 4) { let j = rng.below(pool.len() as u64) as usize; ps.push(pool.remove(j)); }
                            let at = rng.below(ps.len() as u64 + 1) as usize; ps.insert(at, cust);
                        }
                        _ => { // a repeated provider: adjacent, or with one or two others in between, at either end
                            let p = *rng.pick(&providers);
                            let others: Vec<u32> = providers.iter().cloned().filter(|q| *q != p).collect();
                            match rng.below(4) {
                                0 => { ps.push(p); ps.push(p); ps.push(*rng.pick(&others)); }
                                1 => { ps.push(p); ps.push(*rng.pick(&others)); ps.push(p); }
                                2 => { ps.push(others[0]); ps.push(p); ps.push(others[1]); ps.push(p); }
                                _ => { ps.push(p); ps.push(others[0]); ps.push(others[1]); ps.push(p); }
                            }
                        }
                    }
                    ps
                };
                for _ in 0..rng.range(0, 2) {
                    let c = if rng.chance(85) { *rng.pick(&customers[..3]) } else { *rng.pick(&customers[3..]) };
                    add.push((c, gen_provs(&mut rng, c)));
                }
                for _ in 0..rng.below(3) {
                    match rng.weighted(&[75, 15, 10]) {
                        0 if !state.is_empty() => { let c = rng.pick(&state).0; if !remove.contains(&c) { remove.push(c) } }
                        1 => remove.push(*rng.pick(&customers)),
                        2 if !remove.is_empty() => { let c = remove[0]; remove.push(c) }
                        _ => {}
                    }
                }
                if rng.chance(12) && !state.is_empty() { // remove and define the same customer in one update
                    let c = rng.pick(&state).0; if !remove.contains(&c) { remove.push(c) } add.push((c, gen_provs(&mut rng, c)));
                }
                if rng.chance(6) && !add.is_empty() { let c = add[0].0; add.push((c, gen_provs(&mut rng, c))); }
                let upd = AspaDefinitionUpdates {
                    add_or_replace: add.iter().map(|(c, ps)| AspaDefinition { customer: Asn::from_u32(*c), providers: ps.iter().map(|p| Asn::from_u32(*p)).collect() }).collect(),
                    remove: remove.iter().map(|c| Asn::from_u32(*c)).collect(),
                };
                let r = cam.ca_aspas_definitions_update(ca.clone(), upd, actor, krill);
                let post = aspa_state(&cam.get_ca(&ca).expect("ca"));
                let (o, oj, refused) = match &r {
                    Ok(()) => (format!("(AspaOk {})", coq_aspas(&post)), json!({"ok": true}), false),
                    Err(e) => match aspa_err(e) {
                        Some(t) => (format!("(AspaErr ({}) {})", t, coq_aspas(&post)), json!({"ok": false, "error": t}), true),
                        None => { unexpected = Some(format!("{e:?}")); (format!("(AspaOk {})", coq_aspas(&post)), json!({"ok": false, "other_error": format!("{e:?}")}), false) }
                    }
                };
                let same_cust = add.iter().any(|(c, _)| remove.contains(c));
                let twice = { let mut cs: Vec<u32> = add.iter().map(|(c, _)| *c).collect(); cs.sort(); cs.windows(2).any(|w| w[0] == w[1]) };
                let adds: Vec<String> = add.iter().map(|(c, ps)| format!("mkAD {} {}", c, coq_nlist(ps))).collect();
                (format!("CAspa {} {} (mkAU {} {}) {}", coq_res(&live_ranges), coq_aspas(&state), coq_list(&adds), coq_nlist(&remove), o),
                 json!({"kind": "aspa_update", "class": {"kind": "aspa_update", "accepted": !refused, "removes_and_defines_same_customer": same_cust && !refused, "defines_customer_twice": twice && !refused},
                        "state": state, "add_or_replace": add, "remove": remove, "observed": oj, "after": post}), refused)
            }
            2 => {
                let state = aspa_state(&pre_ca);
                let c = if !state.is_empty() && rng.chance(70) { rng.pick(&state).0 } else { *rng.pick(&customers) };
                let mut added: Vec<u32> = Vec::new(); let mut removed: Vec<u32> = Vec::new();
                for _ in 0..rng.below(3) { added.push(if rng.chance(10) { c } else { *rng.pick(&providers) }) }
                let existing: Vec<u32> = state.iter().find(|(x, _)| *x == c).map(|(_, ps)| ps.clone()).unwrap_or_default();
                for _ in 0..rng.below(3) { removed.push(if !existing.is_empty() && rng.chance(70) { *rng.pick(&existing) } else { *rng.pick(&providers) }) }
                if rng.chance(8) { removed = existing.clone(); added.clear(); }
                let upd = AspaProvidersUpdate { added: added.iter().map(|p| Asn::from_u32(*p)).collect(), removed: removed.iter().map(|p| Asn::from_u32(*p)).collect() };
                let r = cam.ca_aspas_update_aspa_providers(ca.clone(), Asn::from_u32(c), upd, actor, krill);
                let post = aspa_state(&cam.get_ca(&ca).expect("ca"));
                let (o, oj, refused) = match &r {
                    Ok(()) => (format!("(AspaOk {})", coq_aspas(&post)), json!({"ok": true}), false),
                    Err(e) => match aspa_err(e) {
                        Some(t) => (format!("(AspaErr ({}) {})", t, coq_aspas(&post)), json!({"ok": false, "error": t}), true),
                        None => { unexpected = Some(format!("{e:?}")); (format!("(AspaOk {})", coq_aspas(&post)), json!({"ok": false, "other_error": format!("{e:?}")}), false) }
                    }
                };
                (format!("CAspaEx {} {} {} (mkPU {} {}) {}", coq_res(&live_ranges), coq_aspas(&state), c, coq_nlist(&added), coq_nlist(&removed), o),
                 json!({"kind": "aspa_providers", "class": {"kind": "aspa_providers"}, "state": state, "customer": c, "added": added, "removed": removed, "observed": oj, "after": post}), refused)
            }
            3 => {
                let state = read_bview(&pre_ca);
                let mut add: Vec<(u32, usize)> = Vec::new();
                let mut remove: Vec<(u32, u64)> = Vec::new();
                if !state.is_empty() && rng.chance(45) {
                    // define an already defined (AS, key) again - same or other request for that key; the AS may have been lost meanwhile
                    let lost: Vec<((u32, u64), u64)> = state.iter().cloned().filter(|((a, _), _)| !live_ranges.asn.iter().any(|(lo, hi)| *lo <= *a as u128 && *a as u128 <= *hi)).collect();
                    let ((asn, key_ix), _) = if !lost.is_empty() && rng.chance(70) { *rng.pick(&lost) } else { *rng.pick(&state) };
                    let variant = if rng.chance(88) { rng.below(2) } else { 2 };
                    add.push((asn, (key_ix * 3 + variant) as usize));
                } else if rng.chance(80) {
                    let asn = if rng.chance(80) { *rng.pick(&[64512u32, 64513, 64513]) } else { 65010 };
                    let ci = if rng.chance(80) { *rng.pick(&[0usize, 1, 3, 4, 6, 7]) } else { *rng.pick(&[2usize, 5, 8]) };
                    add.push((asn, ci));
                }
                if rng.chance(30) {
                    if !state.is_empty() && rng.chance(75) { remove.push(rng.pick(&state).0) } else { remove.push((64513, rng.below(3))) }
                }
                let upd = BgpSecDefinitionUpdates {
                    add: add.iter().map(|(a, ci)| BgpSecDefinition { asn: Asn::from_u32(*a), csr: csrs[*ci].csr.clone() }).collect(),
                    remove: remove.iter().map(|(a, k)| BgpSecAsnKey { asn: Asn::from_u32(*a), key: csrs[(*k * 3) as usize].csr.public_key().key_identifier() }).collect(),
                };
                let key_of = |ki: &rpki::crypto::KeyIdentifier| csrs.iter().find(|c| c.csr.public_key().key_identifier() == *ki).map(|c| c.key_ix).unwrap_or(99);
                let r = cam.ca_bgpsec_definitions_update(ca.clone(), upd, actor, krill);
                let post = read_bview(&cam.get_ca(&ca).expect("ca"));
                let (o, oj, refused) = match &r {
                    Ok(()) => (format!("(BgpOk {})", coq_bview(&post)), json!({"ok": true}), false),
                    Err(KrillError::BgpSecDefinitionUnknown(_, k)) => (format!("(BgpErr (BUnknown ({}, {})) {})", k.asn.into_u32(), key_of(&k.key), coq_bview(&post)), json!({"ok": false, "error": "unknown"}), true),
                    Err(KrillError::BgpSecDefinitionNotEntitled(_, k)) => (format!("(BgpErr (BNotEntitled ({}, {})) {})", k.asn.into_u32(), key_of(&k.key), coq_bview(&post)), json!({"ok": false, "error": "not-entitled"}), true),
                    Err(KrillError::BgpSecDefinitionInvalidlySigned(_, d, _)) => (format!("(BgpErr (BInvalidlySigned ({}, {})) {})", d.asn.into_u32(), key_of(&d.csr.public_key().key_identifier()), coq_bview(&post)), json!({"ok": false, "error": "invalidly-signed"}), true),
                    Err(e) => { unexpected = Some(format!("{e:?}")); (format!("(BgpOk {})", coq_bview(&post)), json!({"ok": false, "other_error": format!("{e:?}")}), false) }
                };
                let adds: Vec<String> = add.iter().map(|(a, ci)| format!("mkBD {} {} {} {}", a, csrs[*ci].key_ix, csrs[*ci].csr_ix, csrs[*ci].sig_ok)).collect();
                let rms: Vec<String> = remove.iter().map(|(a, k)| format!("({a}, {k})")).collect();
                (format!("CBgp {} {} (mkBU {} {}) {}", coq_res(&live_ranges), coq_bview(&state), coq_list(&adds), coq_list(&rms), o),
                 json!({"kind": "bgpsec_update", "class": {"kind": "bgpsec_update", "redefines_existing_key": add.iter().any(|(a, ci)| state.iter().any(|((sa, sk), _)| sa == a && *sk == csrs[*ci].key_ix))}, "state": format!("{state:?}"), "add": format!("{add:?}"), "remove": format!("{remove:?}"), "observed": oj, "after": format!("{post:?}")}), refused)
            }
            _ => {
                let state = read_children(cam);
                let kid_ix = rng.below(4);
                let kid = kids[kid_ix as usize].clone();
                let is_add = rng.chance(if state.len() < 3 { 55 } else { 25 });
                let current: Option<ResourceSet> = cam.ca_show_child(&ca, &kid).ok().map(|c| c.entitled_resources);
                let rs = match (&current, is_add) {
                    // an update to (a subset of) what the child has now - which the CA itself may have lost meanwhile
                    (Some(cur), false) if rng.chance(45) => if rng.chance(35) { cur.clone() } else { cur.intersection(rng.pick(&child_sets)) },
                    _ => rng.pick(&child_sets).clone(),
                };
                let r = if is_add {
                    cam.ca_add_child(&ca, AddChildRequest { handle: kid, resources: rs.clone(), id_cert: id_cert.clone() }, actor, krill).map(|_| ())
                } else {
                    cam.ca_child_update(&ca, kid, UpdateChildRequest::resources(rs.clone()), actor, krill)
                };
                let post = read_children(cam);
                let (o, oj, refused) = match &r {
                    Ok(()) => (format!("(ChildOk {})", coq_children(&post)), json!({"ok": true}), false),
                    Err(KrillError::CaChildMustHaveResources(..)) => (format!("(ChildErr CMustHaveResources {})", coq_children(&post)), json!({"ok": false, "error": "must-have-resources"}), true),
                    Err(KrillError::CaChildExtraResources(..)) => (format!("(ChildErr CExtraResources {})", coq_children(&post)), json!({"ok": false, "error": "extra-resources"}), true),
                    Err(KrillError::CaChildDuplicate(..)) => (format!("(ChildErr CDuplicate {})", coq_children(&post)), json!({"ok": false, "error": "duplicate"}), true),
                    Err(KrillError::CaChildUnknown(..)) => (format!("(ChildErr CUnknown {})", coq_children(&post)), json!({"ok": false, "error": "unknown"}), true),
                    Err(e) => { unexpected = Some(format!("{e:?}")); (format!("(ChildOk {})", coq_children(&post)), json!({"ok": false, "other_error": format!("{e:?}")}), false) }
                };
                let rr = ranges_of(&rs);
                (format!("CChild {} {} ({} {} {}) {}", coq_res(&live_ranges), coq_children(&state), if is_add { "CAdd" } else { "CUpdate" }, kid_ix, coq_res(&rr), o),
                 json!({"kind": "child", "class": {"kind": "child", "op": if is_add { "add" } else { "update" }, "accepted_with_empty_resources": !refused && rs.is_empty(), "reduced_holding": reduced_now},
                        "held_now": serde_json::to_value(pre_ca.all_resources()).unwrap(),
                        "state": format!("{state:?}"), "child": kid_ix, "resources": serde_json::to_value(&rs).unwrap(), "observed": oj, "after": format!("{post:?}")}), refused)
            }
        };
        let kname = rec["kind"].as_str().unwrap().to_string();
        out.kinds.hit(&kname); out.results.hit(&format!("{kname}:{}", if refused { "refused" } else { "accepted" }));
        let index = out.w.total;
        if refused && ca_fingerprint(cam, &ca) != before {
            out.impl_failures.push(json!({"index": index, "class": {"kind": kname, "refused_but_state_changed": true}, "what": "a refused command changed the stored state of the CA", "case": rec}));
        }
        if let Some(e) = unexpected {
            out.impl_failures.push(json!({"index": index, "class": {"kind": kname, "unexpected_error": true}, "what": format!("command failed with an error outside the modelled classes: {e}"), "case": rec}));
        }
        out.push(term, true, rec);
    }
    let part_b_ms = t_b.elapsed().as_millis();
    // publish once at the end: the repository must accept what the CA now wants to publish
    let sync = cam.cas_repo_sync_single(&ca, 0, &sys.slow).map(|_| ()).map_err(|e| format!("{e:?}"));

    out.w.flush();
    let _ = std::fs::remove_dir_all(&dir);
    write_json(&args.out.join("stats.json"), &json!({
        "scenario": "c05", "seed": args.seed, "tier": args.tier,
        "evaluations": out.w.total, "distinct_nontrivial": out.distinct.len(),
        "direct_cases": n_direct, "e2e_cases": n_e2e, "resource_changes_of_the_live_ca": resizes,
        "rule": "Part A: random holdings (1-6 blocks per family, some written as ranges), 0-40 configured authorisations, deltas of 0-12 additions and 0-6 removals (70% of deltas drawn from entries valid w.r.t. the state, 30% from every kind of valid and invalid entry: not held, max length below/above, present with same comment, repeated inside the delta, same leading bits in the other address family, remove-then-add, removal of unknown/twice/max-length variant; v4 and v6, AS0, implicit and explicit max length) run through the real Routes::process_updates; Part B: the same kinds of requests plus ASPA, BGPsec and child requests through CaManager on a live CA under an embedded TA, configuration read before and after; every few dozen requests the CA's own entitlement is shrunk or restored at its parent (definitions and children survive), so requests also meet router keys, ASPA customers, ROAs and child entitlements that are no longer backed (redefinition of existing router keys, child updates to subsets of the current entitlement). A case is one request with its pre-state and the observed outcome; non-trivial = the request is not empty; distinct = distinct canonical case terms",
        "kind_distribution": out.kinds.0, "result_distribution": out.results.0, "generator_distribution": gen_dist.0,
        "timing_ms": {"setup": setup_ms, "part_a": part_a_ms, "part_b": part_b_ms}, "final_repo_sync": sync,
        "impl_failures": out.impl_failures, "samples": out.samples,
    }));
    println!("c05: {} cases ({} direct, {} end-to-end), set-up {} ms, A {} ms, B {} ms", out.w.total, n_direct, n_e2e, setup_ms, part_a_ms, part_b_ms);
    0
}
