//! C10 correspondence scenario: random request sequences (create/remove publisher, RFC 8181
//! publish and list queries, RRDP update, session reset) against the real
//! `RepositoryManager`, in-process, on memory storage with the repository files under
//! `<out>/srv-*/repo`. After every request the complete publication state is observed:
//! registry (`publishers`, `get_publisher_details`), published and staged objects of every
//! publisher (the stored `RepositoryContent`, read through a second `WalStore` on the same
//! storage), plus what `list` and `get_publisher_details` answer for every handle of the
//! scenario. Every transition is written as a Coq `case` for pubd/PubdCheck.v.
//!
//! Abstraction (trusted): URI strings -> structural `uri` (scheme spelling, case-folded
//! authority + spelling, case-folded module + spelling, path segments), handles -> segment
//! lists, contents and hashes -> interned numbers (hash id = content id of the content it is
//! the SHA-256 of), errors -> small enum. Hash-map orders are irrelevant (Coq compares sets).
use std::collections::{BTreeMap, BTreeSet, HashMap};
use std::io::Write;
use std::path::Path;
use std::str::FromStr;

use bytes::Bytes;
use krill::api::admin::PublicationServerUris;
use krill::commons::actor::Actor;
use krill::commons::error::Error;
use krill::commons::eventsourcing::WalStore;
use krill::commons::storage::StorageSystem;
use krill::config::Config;
use krill::constants::PUBSERVER_CONTENT_NS;
use krill::server::pubd::{PublicationDeltaError, RepositoryContent};
use krill::server::runtime::KrillRuntime;
use rpki::ca::idexchange::{Handle, MyHandle, PublisherHandle, PublisherRequest};
use rpki::ca::publication::{self, Base64, Publish, PublishDelta, Update, Withdraw};
use rpki::uri;
use serde_json::{Value, json};

use kvh::util::{Args, CaseWriter, Rng, coq_list, write_json};

const HEADER: &str = "From KV Require Import base.Tac pubd.Objects pubd.Staged pubd.Access pubd.Content pubd.PubdCheck.\nOpen Scope N_scope.";
const EVALS: [&str; 9] = ["agrees", "ok_reply", "ok_atomic", "ok_effect", "ok_isolation", "ok_disjoint", "ok_jail", "ok_obs", "ok_staged"];

// ---------------------------------------------------------------- abstraction

#[derive(Clone, Debug, PartialEq, Eq, PartialOrd, Ord)]
struct AUri { scheme: u64, auth: u64, authv: u64, module: u64, modv: u64, path: Vec<u64> }
#[derive(Clone, Debug, PartialEq, Eq, PartialOrd, Ord)]
struct AJail { auth: u64, module: u64, path: Vec<u64> }
#[derive(Clone, Debug, PartialEq, Eq, PartialOrd, Ord)]
enum AElem { Pub(AUri, u64, u64), Upd(AUri, u64, u64, u64), Wdr(AUri, u64) }

#[derive(Default)]
struct Interner {
    segs: HashMap<String, u64>,
    auths: HashMap<String, u64>,
    spellings: HashMap<String, u64>,
    mods: HashMap<String, u64>,
    contents: HashMap<String, u64>, // base64 text -> content id
    hashes: HashMap<String, u64>,   // hex hash -> id (= content id where the content is known)
    next_unknown: u64,
}

impl Interner {
    fn new() -> Self {
        let mut i = Interner::default();
        i.segs.insert("ta".into(), 0); // Access.ta_seg
        i.next_unknown = 1_000_000;
        i
    }
    fn seg(&mut self, s: &str) -> u64 { let n = self.segs.len() as u64; *self.segs.entry(s.to_string()).or_insert(n) }
    /// 0 for the all-lower-case spelling, otherwise a number of its own per spelling.
    fn spelling(&mut self, s: &str) -> u64 {
        if s == s.to_ascii_lowercase() { return 0 }
        let n = self.spellings.len() as u64 + 1;
        *self.spellings.entry(s.to_string()).or_insert(n)
    }
    fn auth(&mut self, s: &str) -> (u64, u64) {
        let n = self.auths.len() as u64 + 1;
        let id = *self.auths.entry(s.to_ascii_lowercase()).or_insert(n);
        (id, self.spelling(s))
    }
    fn module(&mut self, s: &str) -> (u64, u64) {
        let n = self.mods.len() as u64 + 1;
        let id = *self.mods.entry(s.to_ascii_lowercase()).or_insert(n);
        (id, self.spelling(s))
    }
    fn handle(&mut self, h: &str) -> Vec<u64> { h.split('/').map(|s| self.seg(s)).collect() }
    fn uri(&mut self, s: &str) -> AUri {
        let (scheme, rest) = s.split_once("://").expect("uri scheme");
        let mut it = rest.split('/');
        let (auth, authv) = self.auth(it.next().expect("authority"));
        let (module, modv) = self.module(it.next().expect("module"));
        let path: Vec<u64> = it.filter(|x| !x.is_empty()).map(|x| self.seg(x)).collect();
        let scheme = if scheme == "rsync" { 0 } else { self.spelling(scheme).max(1) };
        AUri { scheme, auth, authv, module, modv, path }
    }
    fn jail(&mut self, s: &str) -> AJail { let u = self.uri(s); AJail { auth: u.auth, module: u.module, path: u.path } }
    fn new_content(&mut self, id: u64) -> (Bytes, Base64, rpki::rrdp::Hash) {
        let bytes = Bytes::from(format!("object content #{id}"));
        let b64 = Base64::from_content(&bytes);
        let hash = b64.to_hash();
        self.contents.insert(b64.to_string(), id);
        self.hashes.insert(hash.to_string(), id);
        (bytes, b64, hash)
    }
    fn content_id(&mut self, b64: &str) -> (u64, u64) {
        if let Some(c) = self.contents.get(b64) { return (*c, *c) }
        // content not generated by this harness: intern it with its real hash
        let v: Base64 = serde_json::from_value(json!(b64)).expect("base64");
        let hx = v.to_hash().to_string();
        let n = self.next_unknown; self.next_unknown += 1;
        self.contents.insert(b64.to_string(), n);
        let h = *self.hashes.entry(hx).or_insert(n);
        (h, n)
    }
    fn hash_id(&mut self, hex: &str) -> u64 {
        if let Some(h) = self.hashes.get(hex) { return *h }
        let n = self.next_unknown; self.next_unknown += 1;
        self.hashes.insert(hex.to_string(), n);
        n
    }
}

fn coq_nlist(v: &[u64]) -> String { format!("[{}]", v.iter().map(|x| x.to_string()).collect::<Vec<_>>().join("; ")) }
fn coq_uri(u: &AUri) -> String { format!("(U {} {} {} {} {} {})", u.scheme, u.auth, u.authv, u.module, u.modv, coq_nlist(&u.path)) }
fn coq_jail(j: &AJail) -> String { format!("(J {} {} {})", j.auth, j.module, coq_nlist(&j.path)) }
fn coq_elem(e: &AElem) -> String {
    match e {
        AElem::Pub(u, h, c) => format!("Pub {} ({}, {})", coq_uri(u), h, c),
        AElem::Upd(u, old, h, c) => format!("Upd {} {} ({}, {})", coq_uri(u), old, h, c),
        AElem::Wdr(u, old) => format!("Wdr {} {}", coq_uri(u), old),
    }
}

/// The observed server state in model terms.
#[derive(Clone, Debug, PartialEq, Eq)]
struct MState {
    base: AJail,
    pubs: Vec<(String, AJail)>,
    snap: BTreeMap<String, Vec<(AUri, u64, u64)>>,
    staged: BTreeMap<String, Vec<AElem>>,
    serial: u64,
    /// raw strings, for classification and generation only
    snap_raw: BTreeMap<String, Vec<(String, u64)>>,
    staged_raw: BTreeMap<String, Vec<String>>,
}

/// The four components of a state as Coq terms (base, registry, snapshot, staged).
fn coq_state_parts(s: &MState, it: &mut Interner) -> [String; 4] {
    let pubs: Vec<String> = s.pubs.iter().map(|(h, j)| format!("({}, {})", coq_nlist(&it.handle(h)), coq_jail(j))).collect();
    let snap: Vec<String> = s.snap.iter().map(|(h, objs)| {
        let os: Vec<String> = objs.iter().map(|(u, hh, c)| format!("({}, ({}, {}))", coq_uri(u), hh, c)).collect();
        format!("({}, {})", coq_nlist(&it.handle(h)), coq_list(&os))
    }).collect();
    let staged: Vec<String> = s.staged.iter().map(|(h, els)| {
        format!("({}, {})", coq_nlist(&it.handle(h)), coq_list(&els.iter().map(coq_elem).collect::<Vec<_>>()))
    }).collect();
    [coq_jail(&s.base), coq_list(&pubs), coq_list(&snap), coq_list(&staged)]
}

/// One case as a self-contained Coq term. Components that are textually equal before and after
/// the request (and list/details answers that coincide) are bound once with `let`, which halves
/// the size of the generated files; the term means exactly `mkCase pre op post reply obs`.
fn coq_case(pre: &MState, op_term: &str, post: &MState, reply: &str, obs: &[HObs], it: &mut Interner) -> (String, String) {
    let a = coq_state_parts(pre, it);
    let b = coq_state_parts(post, it);
    let names = ["b0", "p0", "s0", "g0"];
    let mut lets = String::new();
    let mut post_parts: Vec<String> = Vec::new();
    for i in 0..4 {
        lets.push_str(&format!("let {} := {} in ", names[i], a[i]));
        if a[i] == b[i] { post_parts.push(names[i].to_string()) } else { post_parts.push(b[i].clone()) }
    }
    let obs_terms: Vec<String> = obs.iter().map(|o| coq_obs(o, it)).collect();
    let pre_key = format!("{} {} {} {} {}", a[0], a[1], a[2], a[3], pre.serial);
    let term = format!("({}mkCase (mkState b0 p0 s0 g0 {}) {} (mkState {} {} {} {} {}) {} {})",
        lets, pre.serial, op_term, post_parts[0], post_parts[1], post_parts[2], post_parts[3], post.serial, reply, coq_list(&obs_terms));
    (term, pre_key)
}

// ---------------------------------------------------------------- the real server

struct Server {
    krill: KrillRuntime,
    shadow: WalStore<RepositoryContent>,
    base: String,
    id_b64: Base64,
    actor: Actor,
}

fn mk_server(out: &Path, tag: &str, seed: u64, base: &str, tokio: &tokio::runtime::Runtime) -> Server {
    let dir = out.join(format!("srv-{tag}"));
    std::fs::create_dir_all(&dir).expect("mkdir");
    let toml = format!(
        "admin_token = \"secret\"\nstorage_uri = \"memory:{seed}\"\nrepo_dir = \"{d}/repo\"\ntls_keys_dir = \"{d}/ssl\"\npid_file = \"{d}/krill.pid\"\nlog_type = \"stderr\"\nlog_level = \"off\"\nrrdp_delta_interval_min_seconds = 0\n",
        d = dir.display());
    let cf = dir.join("krill.conf");
    std::fs::write(&cf, toml).expect("write config");
    let mut cfg = Config::read_config(&cf).expect("config");
    cfg.process().expect("config process");
    let storage = StorageSystem::new(cfg.storage_uri.clone());
    let krill = KrillRuntime::new(cfg, storage, tokio.handle().clone()).expect("runtime");
    let uris = PublicationServerUris {
        rrdp_base_uri: uri::Https::from_str("https://localhost/repo/rrdp/").unwrap(),
        rsync_jail: uri::Rsync::from_str(base).unwrap(),
    };
    krill.repo_manager().init(uris, &krill).expect("repository init");
    let id_cert = krill.signer().create_self_signed_id_cert().expect("id cert");
    let id_b64 = krill::api::ca::IdCertInfo::from(id_cert).base64.clone();
    let shadow = WalStore::create(krill.storage(), PUBSERVER_CONTENT_NS).expect("shadow store");
    Server { krill, shadow, base: base.to_string(), id_b64, actor: krill::constants::ACTOR_DEF_KRILL }
}

impl Server {
    fn observe(&self, it: &mut Interner) -> MState {
        let repo = self.krill.repo_manager();
        let mut pubs = Vec::new();
        let mut handles: Vec<String> = repo.publishers().expect("publishers").iter().map(|h| h.to_string()).collect();
        handles.sort();
        for h in handles {
            let d = repo.get_publisher_details(PublisherHandle::from_str(&h).unwrap()).expect("details of registered publisher");
            pubs.push((h, it.jail(d.base_uri.as_str())));
        }
        let content = self.shadow.get_latest(&MyHandle::from_str("0").unwrap()).expect("content");
        let v = serde_json::to_value(&*content).expect("content json");
        let rrdp = &v["rrdp"];
        let mut snap = BTreeMap::new();
        let mut snap_raw = BTreeMap::new();
        for (h, objs) in rrdp["snapshot"]["publishers_current_objects"].as_object().expect("snapshot map") {
            let mut l = Vec::new();
            let mut r = Vec::new();
            for (u, b64) in objs.as_object().expect("objects") {
                let (hh, c) = it.content_id(b64.as_str().expect("base64"));
                l.push((it.uri(u), hh, c));
                r.push((u.clone(), c));
            }
            l.sort(); r.sort();
            snap.insert(h.clone(), l);
            snap_raw.insert(h.clone(), r);
        }
        let mut staged = BTreeMap::new();
        let mut staged_raw = BTreeMap::new();
        for (h, els) in rrdp["staged_elements"].as_object().expect("staged map") {
            let mut l = Vec::new();
            let mut r = Vec::new();
            for (_key, el) in els.as_object().expect("staged elements") {
                let (kind, body) = el.as_object().expect("element").iter().next().expect("variant");
                let u = body["uri"].as_str().expect("uri");
                r.push(u.to_string());
                let au = it.uri(u);
                l.push(match kind.as_str() {
                    "Publish" => { let (hh, c) = it.content_id(body["base64"].as_str().unwrap()); AElem::Pub(au, hh, c) }
                    "Update" => { let (hh, c) = it.content_id(body["base64"].as_str().unwrap()); AElem::Upd(au, it.hash_id(body["hash"].as_str().unwrap()), hh, c) }
                    "Withdraw" => AElem::Wdr(au, it.hash_id(body["hash"].as_str().unwrap())),
                    other => panic!("unknown staged element kind {other}"),
                });
            }
            l.sort(); r.sort();
            staged.insert(h.clone(), l);
            staged_raw.insert(h.clone(), r);
        }
        MState { base: it.jail(&self.base), pubs, snap, staged, serial: rrdp["serial"].as_u64().expect("serial"), snap_raw, staged_raw }
    }
}

/// What `list` and `get_publisher_details` answer for one handle.
struct HObs { handle: String, list: Vec<(String, AUri, u64)>, details: Option<(AJail, Vec<(String, AUri, u64)>)> }

fn observe_handle(srv: &Server, h: &str, it: &mut Interner) -> HObs {
    let repo = srv.krill.repo_manager();
    let ph = PublisherHandle::from_str(h).unwrap();
    let mut list: Vec<(String, AUri, u64)> = repo.list(&ph).expect("list").elements().iter()
        .map(|e| (e.uri().to_string(), it.uri(e.uri().as_str()), it.hash_id(&e.hash().to_string()))).collect();
    list.sort();
    let details = match repo.get_publisher_details(ph) {
        Ok(d) => {
            let mut files: Vec<(String, AUri, u64)> = d.current_files.iter()
                .map(|f| (f.uri.to_string(), it.uri(f.uri.as_str()), it.content_id(f.base64.as_str()).1)).collect();
            files.sort();
            Some((it.jail(d.base_uri.as_str()), files))
        }
        Err(_) => None,
    };
    HObs { handle: h.to_string(), list, details }
}

fn coq_obs(o: &HObs, it: &mut Interner) -> String {
    let l: Vec<String> = o.list.iter().map(|(_, u, h)| format!("({}, {})", coq_uri(u), h)).collect();
    let l = coq_list(&l);
    match &o.details {
        None => format!("(mkObs {} {} None)", coq_nlist(&it.handle(&o.handle)), l),
        Some((j, files)) => {
            let f = coq_list(&files.iter().map(|(_, u, c)| format!("({}, {})", coq_uri(u), c)).collect::<Vec<_>>());
            if f == l { format!("(let l := {} in mkObs {} l (Some ({}, l)))", l, coq_nlist(&it.handle(&o.handle)), coq_jail(j)) }
            else { format!("(mkObs {} {} (Some ({}, {})))", coq_nlist(&it.handle(&o.handle)), l, coq_jail(j), f) }
        }
    }
}

// ---------------------------------------------------------------- requests

#[derive(Clone, Debug)]
enum GElem { Pub { uri: String, content: u64 }, Upd { uri: String, old: u64, content: u64 }, Wdr { uri: String, old: u64 } }
#[derive(Clone, Debug)]
enum GOp { Create(String), Remove(String), Publish(String, Vec<GElem>, &'static str), List(String), Update, Reset }

fn semantic_key(u: &str) -> String {
    // RFC 3986 identity: scheme and host are case-insensitive, the rest is not
    let (scheme, rest) = u.split_once("://").unwrap();
    let (auth, tail) = rest.split_once('/').unwrap();
    format!("{}://{}/{}", scheme.to_ascii_lowercase(), auth.to_ascii_lowercase(), tail)
}
fn incoherent(u: &str) -> bool {
    // spelling on which CurrentObjectUri and uri::Rsync equality disagree (finding F10b)
    let (scheme, rest) = u.split_once("://").unwrap();
    let auth = rest.split('/').next().unwrap();
    scheme != "rsync" && auth == auth.to_ascii_lowercase()
}
fn jail_str(base: &str, h: &str) -> String { if h == "ta" { base.to_string() } else { format!("{base}{h}/") } }
fn jails_nest(base: &str, a: &str, b: &str) -> bool {
    let (ja, jb) = (jail_str(base, a), jail_str(base, b));
    ja.starts_with(&jb) || jb.starts_with(&ja)
}

struct Gen<'a> { rng: &'a mut Rng, next_content: u64, scheme_case: bool, fresh: u64 }

const NAMES: [&str; 7] = ["x.cer", "y.roa", "z.mft", "sub/x.cer", "sub/deep/w.crl", "X.cer", "sub/y.roa"];

impl Gen<'_> {
    fn content(&mut self, it: &mut Interner) -> u64 { let c = self.next_content; self.next_content += 1; it.new_content(c); c }
    /// Re-spell scheme / authority / module of a URI string without changing its identity
    /// (authority, scheme) or its jail membership (module).
    fn respell(&mut self, u: &str) -> String {
        let (scheme, rest) = u.split_once("://").unwrap();
        let mut parts = rest.splitn(3, '/');
        let (auth, module, tail) = (parts.next().unwrap(), parts.next().unwrap(), parts.next().unwrap_or(""));
        let mut scheme = scheme.to_string();
        let mut auth = auth.to_string();
        let mut module = module.to_string();
        match self.rng.below(100) {
            0..=11 => auth = auth.to_ascii_uppercase(),
            12..=17 => auth = { let mut c = auth.chars(); match c.next() { Some(f) => f.to_ascii_uppercase().to_string() + c.as_str(), None => auth.clone() } },
            18..=20 => module = module.to_ascii_uppercase(),
            _ => {}
        }
        if self.scheme_case && self.rng.chance(25) { scheme = if self.rng.chance(50) { "RSYNC".into() } else { "Rsync".into() } }
        format!("{scheme}://{auth}/{module}/{tail}")
    }
    fn new_name(&mut self, taken: &BTreeSet<String>, jail: &str) -> String {
        for _ in 0..6 {
            let n = *self.rng.pick(&NAMES);
            let u = format!("{jail}{n}");
            if !taken.contains(&semantic_key(&u)) { return u }
        }
        self.fresh += 1;
        format!("{jail}f{}.roa", self.fresh)
    }
}

/// `view`: what the publisher currently holds (URI string as stored, content id).
fn gen_delta(g: &mut Gen, it: &mut Interner, base: &str, h: &str, view: &[(String, u64)], others: &[(String, Vec<(String, u64)>)], nested_target: Option<&(String, Vec<(String, u64)>)>) -> (Vec<GElem>, &'static str) {
    let jail = jail_str(base, h);
    let mut taken: BTreeSet<String> = view.iter().map(|(u, _)| semantic_key(u)).collect();
    let mut used: BTreeSet<String> = BTreeSet::new();
    let mut els: Vec<GElem> = Vec::new();
    let kind = match g.rng.below(100) {
        0..=59 => "valid", 60..=66 => "wrong_hash", 67..=72 => "publish_existing", 73..=78 => "update_missing",
        79..=85 => "outside_jail", 86..=91 => "other_publisher_jail", 92..=96 => "bad_last", 97..=98 => "duplicate_uri", _ => "empty",
    };
    if kind == "empty" { return (els, kind) }
    let n = g.rng.range(1, 8) as usize;
    // the valid part
    let n_valid = if kind == "valid" || kind == "bad_last" || kind == "duplicate_uri" { n } else { g.rng.below(n as u64) as usize };
    for _ in 0..n_valid {
        let existing: Vec<&(String, u64)> = view.iter().filter(|(u, _)| !used.contains(&semantic_key(u))).collect();
        let r = g.rng.below(100);
        if !existing.is_empty() && r < 40 {
            let (u, c) = (*g.rng.pick(&existing)).clone();
            used.insert(semantic_key(&u));
            let nc = g.content(it);
            els.push(GElem::Upd { uri: g.respell(&u), old: c, content: nc });
        } else if !existing.is_empty() && r < 62 {
            let (u, c) = (*g.rng.pick(&existing)).clone();
            used.insert(semantic_key(&u));
            els.push(GElem::Wdr { uri: g.respell(&u), old: c });
        } else {
            let u = g.new_name(&taken, &jail);
            taken.insert(semantic_key(&u)); used.insert(semantic_key(&u));
            let nc = g.content(it);
            els.push(GElem::Pub { uri: g.respell(&u), content: nc });
        }
    }
    // the offending element
    let bad = |g: &mut Gen, it: &mut Interner, which: &str| -> Option<GElem> {
        let existing: Vec<&(String, u64)> = view.iter().filter(|(u, _)| !used.contains(&semantic_key(u))).collect();
        match which {
            "wrong_hash" => {
                if existing.is_empty() { let u = g.new_name(&taken, &jail); let c = g.content(it); return Some(GElem::Wdr { uri: u, old: c }) }
                let (u, _) = (*g.rng.pick(&existing)).clone();
                let wrong = g.content(it); // hash of a content that was never published
                if g.rng.chance(50) { let nc = g.content(it); Some(GElem::Upd { uri: g.respell(&u), old: wrong, content: nc }) }
                else { Some(GElem::Wdr { uri: g.respell(&u), old: wrong }) }
            }
            "publish_existing" => {
                if existing.is_empty() { return None }
                let (u, _) = (*g.rng.pick(&existing)).clone();
                let nc = g.content(it);
                Some(GElem::Pub { uri: g.respell(&u), content: nc })
            }
            "update_missing" => {
                let u = g.new_name(&taken, &jail);
                let c = g.content(it);
                if g.rng.chance(50) { let nc = g.content(it); Some(GElem::Upd { uri: u, old: c, content: nc }) } else { Some(GElem::Wdr { uri: u, old: c }) }
            }
            "outside_jail" => {
                let name = *g.rng.pick(&NAMES);
                let hd = h.trim_end_matches('/');
                let u = match g.rng.below(6) {
                    0 => format!("{base}{hd}2/{name}"),                 // look-alike sibling
                    1 => format!("{base}{hd}{name}"),                   // string prefix, not a path prefix
                    2 => if h == "ta" { format!("rsync://localhost/other/{name}") } else { format!("{base}{name}") }, // parent directory
                    3 => format!("rsync://localhost/other/{hd}/{name}"), // other module
                    4 => format!("rsync://otherhost/repo/{hd}/{name}"),  // other host
                    _ => format!("{base}{}/{name}", if hd.chars().next().map(|c| c.is_ascii_lowercase()).unwrap_or(false) { hd.to_ascii_uppercase() } else { hd.to_ascii_lowercase() }), // handle in other case
                };
                if uri::Rsync::from_str(&u).is_err() { return None }
                let nc = g.content(it);
                Some(GElem::Pub { uri: u, content: nc })
            }
            "other_publisher_jail" => {
                let cands: Vec<&(String, Vec<(String, u64)>)> = others.iter().collect();
                if cands.is_empty() { return None }
                let (oh, oview) = (*g.rng.pick(&cands)).clone();
                if !oview.is_empty() && g.rng.chance(60) {
                    let (u, c) = g.rng.pick(&oview).clone();
                    match g.rng.below(3) {
                        0 => Some(GElem::Wdr { uri: u, old: c }),
                        1 => { let nc = g.content(it); Some(GElem::Upd { uri: u, old: c, content: nc }) }
                        _ => { let nc = g.content(it); Some(GElem::Pub { uri: u, content: nc }) }
                    }
                } else {
                    let name = *g.rng.pick(&NAMES);
                    let nc = g.content(it);
                    Some(GElem::Pub { uri: format!("{}{name}", jail_str(base, &oh)), content: nc })
                }
            }
            _ => None,
        }
    };
    match kind {
        "valid" => {}
        "bad_last" => {
            let which = *g.rng.pick(&["wrong_hash", "publish_existing", "update_missing", "outside_jail", "other_publisher_jail"]);
            if let Some(e) = bad(g, it, which) { els.push(e) }
            return (els, kind); // message order kept: the bad element is last
        }
        "duplicate_uri" => {
            if let Some(e) = els.first().cloned() {
                let dup = match e {
                    GElem::Pub { uri, .. } => { let nc = g.content(it); GElem::Pub { uri, content: nc } }
                    GElem::Upd { uri, old, .. } => if g.rng.chance(50) { GElem::Wdr { uri, old } } else { let nc = g.content(it); GElem::Upd { uri, old, content: nc } },
                    GElem::Wdr { uri, old } => GElem::Wdr { uri, old },
                };
                els.push(dup);
            }
        }
        other => { if let Some(e) = bad(g, it, other) { els.push(e) } }
    }
    // nested jails (finding F10a): the outer publisher names a URI the inner one holds / may hold
    if let Some((oh, oview)) = nested_target {
        if g.rng.chance(60) {
            let nc = g.content(it);
            let u = if !oview.is_empty() && g.rng.chance(70) { g.rng.pick(oview).0.clone() } else { format!("{}{}", jail_str(base, oh), g.rng.pick(&NAMES)) };
            if !used.contains(&semantic_key(&u)) && !taken.contains(&semantic_key(&u)) { els.push(GElem::Pub { uri: u, content: nc }) }
        }
    }
    // shuffle message order
    for i in (1..els.len()).rev() { let j = g.rng.below(i as u64 + 1) as usize; els.swap(i, j) }
    (els, kind)
}

fn abstract_elem(e: &GElem, it: &mut Interner) -> AElem {
    match e {
        GElem::Pub { uri, content } => AElem::Pub(it.uri(uri), *content, *content),
        GElem::Upd { uri, old, content } => AElem::Upd(it.uri(uri), *old, *content, *content),
        GElem::Wdr { uri, old } => AElem::Wdr(it.uri(uri), *old),
    }
}

fn coq_op(op: &GOp, it: &mut Interner) -> String {
    match op {
        GOp::Create(h) => format!("(OCreate {})", coq_nlist(&it.handle(h))),
        GOp::Remove(h) => format!("(ORemove {})", coq_nlist(&it.handle(h))),
        GOp::List(h) => format!("(OList {})", coq_nlist(&it.handle(h))),
        GOp::Update => "OUpdate".into(),
        GOp::Reset => "OReset".into(),
        GOp::Publish(h, els, _) => {
            let es: Vec<String> = els.iter().map(|e| coq_elem(&abstract_elem(e, it))).collect();
            format!("(OPublish {} {})", coq_nlist(&it.handle(h)), coq_list(&es))
        }
    }
}

fn json_op(op: &GOp) -> Value {
    match op {
        GOp::Create(h) => json!({"op": "create_publisher", "handle": h}),
        GOp::Remove(h) => json!({"op": "remove_publisher", "handle": h}),
        GOp::List(h) => json!({"op": "list", "handle": h}),
        GOp::Update => json!({"op": "update_rrdp_if_needed"}),
        GOp::Reset => json!({"op": "rrdp_session_reset"}),
        GOp::Publish(h, els, kind) => json!({"op": "publish", "handle": h, "generator_class": kind, "elements": els.iter().map(|e| match e {
            GElem::Pub { uri, content } => json!({"publish": uri, "content": content}),
            GElem::Upd { uri, old, content } => json!({"update": uri, "old_hash_of": old, "content": content}),
            GElem::Wdr { uri, old } => json!({"withdraw": uri, "hash_of": old}),
        }).collect::<Vec<_>>()}),
    }
}

/// Executes one request on the real server; returns the reply as a Coq term or an unexpected error.
fn execute(srv: &Server, op: &GOp, it: &mut Interner) -> Result<String, String> {
    let repo = srv.krill.repo_manager();
    let delta_err = |e: &PublicationDeltaError| match e {
        PublicationDeltaError::UriOutsideJail(..) => "(RErrDelta EOutside)",
        PublicationDeltaError::ObjectAlreadyPresent(..) => "(RErrDelta EPresent)",
        PublicationDeltaError::NoObjectForHashAndOrUri(..) => "(RErrDelta ENoMatch)",
    };
    match op {
        GOp::Create(h) => {
            let req = PublisherRequest::new(srv.id_b64.clone(), Handle::from_str(h).unwrap(), None);
            match repo.create_publisher(req, &srv.actor) {
                Ok(()) => Ok("RDone".into()),
                Err(Error::PublisherDuplicate(_)) => Ok("RErrDup".into()),
                Err(e) => Err(format!("create_publisher: {e}")),
            }
        }
        GOp::Remove(h) => match repo.remove_publisher(PublisherHandle::from_str(h).unwrap(), &srv.actor, &srv.krill) {
            Ok(()) => Ok("RDone".into()),
            Err(Error::PublisherUnknown(_)) => Ok("RErrUnknown".into()),
            Err(e) => Err(format!("remove_publisher: {e}")),
        },
        GOp::List(h) => match repo.rfc8181_message(&PublisherHandle::from_str(h).unwrap(), publication::Query::List, &srv.krill) {
            Ok(publication::Message::Reply(publication::Reply::List(l))) => {
                let items: Vec<String> = l.elements().iter().map(|e| format!("({}, {})", coq_uri(&it.uri(e.uri().as_str())), it.hash_id(&e.hash().to_string()))).collect();
                Ok(format!("(RList {})", coq_list(&items)))
            }
            Ok(m) => Err(format!("list: unexpected message {m:?}")),
            Err(e) => Err(format!("list: {e}")),
        },
        GOp::Publish(h, els, _) => {
            let mut d = PublishDelta::empty();
            for e in els {
                match e {
                    GElem::Pub { uri, content } => { let (_, b, _) = it.new_content(*content); d.add_publish(Publish::new(None, uri::Rsync::from_str(uri).unwrap(), b)) }
                    GElem::Upd { uri, old, content } => { let (_, b, _) = it.new_content(*content); let (_, _, oh) = it.new_content(*old); d.add_update(Update::new(None, uri::Rsync::from_str(uri).unwrap(), b, oh)) }
                    GElem::Wdr { uri, old } => { let (_, _, oh) = it.new_content(*old); d.add_withdraw(Withdraw::new(None, uri::Rsync::from_str(uri).unwrap(), oh)) }
                }
            }
            match repo.rfc8181_message(&PublisherHandle::from_str(h).unwrap(), publication::Query::Delta(d), &srv.krill) {
                Ok(publication::Message::Reply(publication::Reply::Success)) => Ok("RDone".into()),
                Ok(m) => Err(format!("publish: unexpected message {m:?}")),
                Err(Error::PublisherUnknown(_)) => Ok("RErrUnknown".into()),
                Err(Error::Rfc8181Delta(e)) => Ok(delta_err(&e).into()),
                Err(e) => Err(format!("publish: {e}")),
            }
        }
        GOp::Update => match repo.update_rrdp_if_needed() { Ok(None) => Ok("RDone".into()), Ok(Some(t)) => Err(format!("update postponed to {}", t.to_rfc3339())), Err(e) => Err(format!("update_rrdp_if_needed: {e}")) },
        GOp::Reset => match repo.rrdp_session_reset() { Ok(()) => Ok("RDone".into()), Err(e) => Err(format!("rrdp_session_reset: {e}")) },
    }
}

/// current (+) staged of one handle, computed from the raw observations of `list`.
fn views_of(obs: &[HObs]) -> BTreeMap<String, Vec<(String, u64)>> {
    obs.iter().map(|o| (o.handle.clone(), o.list.iter().map(|(s, _, h)| (s.clone(), *h)).collect())).collect()
}

fn shared_nested(base: &str, views: &BTreeMap<String, Vec<(String, u64)>>) -> (bool, bool) {
    // (some URI held by two handles, some URI held by two handles whose jails nest)
    let mut owner: HashMap<String, Vec<&String>> = HashMap::new();
    for (h, v) in views { for (u, _) in v { owner.entry(semantic_key(u)).or_default().push(h) } }
    let mut any = false; let mut nested = false;
    for hs in owner.values() {
        for i in 0..hs.len() { for j in i + 1..hs.len() {
            if hs[i] != hs[j] { any = true; if jails_nest(base, hs[i], hs[j]) { nested = true } }
        } }
    }
    (any, nested)
}

fn state_has_incoherent(s: &MState) -> bool {
    s.snap_raw.values().any(|v| v.iter().any(|(u, _)| incoherent(u))) || s.staged_raw.values().any(|v| v.iter().any(|u| incoherent(u)))
}

fn main() {
    let args = Args::parse("c10");
    std::process::exit(run(&args));
}

fn run(args: &Args) -> i32 {
    krill::constants::enable_test_mode();
    let tokio = tokio::runtime::Runtime::new().expect("tokio");
    let mut rng = Rng::new(args.seed);
    let n_episodes = args.get_u64("episodes", if args.thorough() { 1500 } else { 110 });
    let n_servers = args.get_u64("servers", if args.thorough() { 6 } else { 2 }).max(1);
    let nested = args.get_u64("nested", 0) == 1;
    let scheme_case_requested = args.get_u64("schemecase", 0) == 1;
    let max_len = args.get_u64("maxlen", 40);

    let footer: String = EVALS.iter().map(|e| format!("Eval vm_compute in (failing {e} base_index cases).")).collect::<Vec<_>>().join("\n");
    let mut w = CaseWriter::new(&args.out, HEADER, "list case", &footer, 250);
    let mut jsonl = std::fs::File::create(args.out.join("cases.jsonl")).expect("jsonl");
    let mut it = Interner::new();
    let mut op_hist: BTreeMap<String, u64> = BTreeMap::new();
    let mut reply_hist: BTreeMap<String, u64> = BTreeMap::new();
    let mut delta_hist: BTreeMap<String, u64> = BTreeMap::new();
    let mut delta_accept: BTreeMap<String, u64> = BTreeMap::new();
    let mut size_hist: BTreeMap<String, u64> = BTreeMap::new();
    let mut merge_hist: BTreeMap<String, u64> = BTreeMap::new();
    let mut class_hist: BTreeMap<String, u64> = BTreeMap::new();
    let mut distinct: BTreeSet<u64> = BTreeSet::new();
    let mut samples: Vec<Value> = Vec::new();
    let mut impl_failures: Vec<Value> = Vec::new();
    let mut next_content: u64 = 100;
    let mut fresh: u64 = 0;

    let plain_pool = ["alice", "alice2", "Alice", "bob", "b", "alice-2"];
    let chain_pool = ["a", "a/b", "a/b/c", "a/bb"];
    let bases = ["rsync://localhost/repo/", "rsync://localhost/repo/base/"];

    let mut episode_global = 0u64;
    // Scheme-case spellings (finding F10b) leave objects behind that no removal cleans up, so they
    // are confined to one additional server instance; the other instances stay coherent.
    let total_servers = n_servers + if scheme_case_requested { 1 } else { 0 };
    for sidx in 0..total_servers {
        let scheme_case = scheme_case_requested && sidx == n_servers;
        let base = bases[(sidx % 2) as usize];
        let srv = mk_server(&args.out, &format!("{}-{}", args.seed, sidx), args.seed.wrapping_mul(1009).wrapping_add(sidx), base, &tokio);
        let eps = if scheme_case { (n_episodes / 6).max(4) } else { n_episodes / n_servers + if sidx < n_episodes % n_servers { 1 } else { 0 } };
        for _ in 0..eps {
            episode_global += 1;
            // ---- the publishers of this episode
            let k = rng.range(2, 5) as usize;
            let mut universe: Vec<String> = Vec::new();
            if nested && rng.chance(75) {
                // make sure two nested jails are present
                let pair: [&str; 2] = *rng.pick(&[["a", "a/b"], ["a/b", "a/b/c"], ["a", "a/b/c"], ["ta", "alice"], ["ta", "a/b"]]);
                universe.push(pair[0].into()); universe.push(pair[1].into());
            }
            let mut guard = 0;
            while universe.len() < k && guard < 50 {
                guard += 1;
                let cand: &str = if rng.chance(45) { *rng.pick(&chain_pool) } else { *rng.pick(&plain_pool) };
                let cand = if nested && rng.chance(8) { "ta" } else { cand };
                if universe.iter().any(|u| u == cand) { continue }
                if !nested && universe.iter().any(|u| jails_nest(base, u, cand)) { continue }
                universe.push(cand.to_string());
            }
            let len = rng.range(12, max_len);
            // ---- requests: first bring the server to the episode's publishers, then random steps
            let mut script: Vec<GOp> = Vec::new();
            let pre0 = srv.observe(&mut it);
            for (h, _) in pre0.pubs.iter() { if !universe.contains(h) || rng.chance(30) { script.push(GOp::Remove(h.clone())) } }
            if !script.is_empty() { script.push(GOp::Update) }
            for h in universe.iter() { if rng.chance(85) { script.push(GOp::Create(h.clone())) } }
            let mut step_no = 0u64;
            let mut pre = pre0;
            loop {
                let scripted = !script.is_empty();
                if !scripted && step_no >= len { break }
                // handles whose answers are observed: the universe plus everything in the state
                let mut watch: BTreeSet<String> = universe.iter().cloned().collect();
                for (h, _) in pre.pubs.iter() { watch.insert(h.clone()); }
                for h in pre.snap.keys().chain(pre.staged.keys()) { watch.insert(h.clone()); }
                let pre_obs: Vec<HObs> = watch.iter().map(|h| observe_handle(&srv, h, &mut it)).collect();
                let pre_views = views_of(&pre_obs);
                let op: GOp = if scripted { script.remove(0) } else {
                    let registered: Vec<String> = pre.pubs.iter().map(|(h, _)| h.clone()).filter(|h| universe.contains(h)).collect();
                    let unregistered: Vec<String> = universe.iter().filter(|h| !registered.contains(h)).cloned().collect();
                    match rng.weighted(&[60, 6, 12, 3, 5, 9]) {
                        0 => {
                            let h = if (registered.is_empty() || rng.chance(4)) && !unregistered.is_empty() { rng.pick(&unregistered).clone() }
                                    else if !registered.is_empty() { rng.pick(&registered).clone() } else { rng.pick(&universe).clone() };
                            let view: Vec<(String, u64)> = pre_views.get(&h).cloned().unwrap_or_default();
                            let others: Vec<(String, Vec<(String, u64)>)> = universe.iter().filter(|o| **o != h)
                                .map(|o| (o.clone(), pre_views.get(o).cloned().unwrap_or_default())).collect();
                            let inner: Vec<&(String, Vec<(String, u64)>)> = others.iter()
                                .filter(|(o, _)| jail_str(base, o).starts_with(&jail_str(base, &h)) && *o != h).collect();
                            let target = if nested && !inner.is_empty() { Some((*rng.pick(&inner)).clone()) } else { None };
                            let mut g = Gen { rng: &mut rng, next_content, scheme_case, fresh };
                            let (els, kind) = gen_delta(&mut g, &mut it, base, &h, &view, &others, target.as_ref());
                            next_content = g.next_content; fresh = g.fresh;
                            GOp::Publish(h, els, kind)
                        }
                        1 => GOp::List(rng.pick(&universe).clone()),
                        2 => GOp::Update,
                        3 => GOp::Reset,
                        4 => if !registered.is_empty() && rng.chance(85) { GOp::Remove(rng.pick(&registered).clone()) } else { GOp::Remove(rng.pick(&universe).clone()) },
                        _ => if !unregistered.is_empty() && rng.chance(85) { GOp::Create(rng.pick(&unregistered).clone()) } else { GOp::Create(rng.pick(&universe).clone()) },
                    }
                };
                if !scripted { step_no += 1 }
                if let Some(h) = match &op { GOp::Create(h) | GOp::Remove(h) | GOp::List(h) | GOp::Publish(h, _, _) => Some(h.clone()), _ => None } { watch.insert(h); }
                let reply = execute(&srv, &op, &mut it);
                let post = srv.observe(&mut it);
                for (h, _) in post.pubs.iter() { watch.insert(h.clone()); }
                for h in post.snap.keys().chain(post.staged.keys()) { watch.insert(h.clone()); }
                let obs: Vec<HObs> = watch.iter().map(|h| observe_handle(&srv, h, &mut it)).collect();
                let index = w.total;
                let opname = json_op(&op)["op"].as_str().unwrap().to_string();
                *op_hist.entry(opname.clone()).or_default() += 1;
                let reply = match reply {
                    Ok(r) => r,
                    Err(e) => {
                        impl_failures.push(json!({"index": Value::Null, "class": {"kind": "unexpected_error", "op": opname}, "what": e, "op": json_op(&op)}));
                        pre = post;
                        continue;
                    }
                };
                *reply_hist.entry(if reply.starts_with("(RList") { "RList".to_string() } else { reply.clone() }).or_default() += 1;
                // classification for known findings
                let post_views = views_of(&obs);
                let (pre_shared, _) = shared_nested(base, &pre_views);
                let (_, post_nested) = shared_nested(base, &post_views);
                let f10a = post_nested && !pre_shared;
                let mut inco = state_has_incoherent(&pre) || state_has_incoherent(&post);
                if let GOp::Publish(h, els, kind) = &op {
                    inco = inco || els.iter().any(|e| incoherent(match e { GElem::Pub { uri, .. } | GElem::Upd { uri, .. } | GElem::Wdr { uri, .. } => uri }));
                    *delta_hist.entry(kind.to_string()).or_default() += 1;
                    if reply == "RDone" { *delta_accept.entry(kind.to_string()).or_default() += 1 }
                    *size_hist.entry(els.len().to_string()).or_default() += 1;
                    if reply == "RDone" {
                        // which staged entries did the new elements meet (merge arms exercised)
                        let st = pre.staged.get(h).cloned().unwrap_or_default();
                        for e in els {
                            let a = abstract_elem(e, &mut it);
                            let key = |u: &AUri| (u.auth, u.module, u.modv, u.path.clone());
                            let (nk, nu) = match &a { AElem::Pub(u, ..) => ("pub", u), AElem::Upd(u, ..) => ("upd", u), AElem::Wdr(u, ..) => ("wdr", u) };
                            let met = st.iter().find(|s| key(match s { AElem::Pub(u, ..) | AElem::Upd(u, ..) | AElem::Wdr(u, ..) => u }) == key(nu))
                                .map(|s| match s { AElem::Pub(..) => "pub", AElem::Upd(..) => "upd", AElem::Wdr(..) => "wdr" }).unwrap_or("none");
                            *merge_hist.entry(format!("{nk}_on_{met}")).or_default() += 1;
                        }
                    }
                }
                let class = json!({"f10a": f10a, "incoherent": inco});
                *class_hist.entry(format!("f10a={f10a},incoherent={inco}")).or_default() += 1;
                let op_term = coq_op(&op, &mut it);
                let (term, pre_term) = coq_case(&pre, &op_term, &post, &reply, &obs, &mut it);
                let nontrivial = match &op {
                    GOp::Publish(_, els, _) => !els.is_empty(),
                    GOp::Remove(_) | GOp::Update => pre_views.values().any(|v| !v.is_empty()) || pre.staged.values().any(|v| !v.is_empty()),
                    _ => false,
                };
                if nontrivial {
                    use std::hash::{Hash, Hasher};
                    let mut hs = std::collections::hash_map::DefaultHasher::new();
                    (&pre_term, &op_term).hash(&mut hs);
                    distinct.insert(hs.finish());
                }
                let rec = json!({
                    "index": index, "server": sidx, "base": base, "episode": episode_global, "publishers": universe,
                    "request": json_op(&op), "reply": reply, "class": class,
                    "registered_before": pre.pubs.iter().map(|(h, _)| h.clone()).collect::<Vec<_>>(),
                    "views_before": pre_views.iter().map(|(h, v)| (h.clone(), v.iter().map(|(u, c)| format!("{u} #{c}")).collect::<Vec<_>>())).collect::<BTreeMap<_, _>>(),
                    "staged_before": pre.staged_raw,
                    "views_after": post_views.iter().map(|(h, v)| (h.clone(), v.iter().map(|(u, c)| format!("{u} #{c}")).collect::<Vec<_>>())).collect::<BTreeMap<_, _>>(),
                    "staged_after": post.staged_raw,
                    "serial_after": post.serial,
                });
                writeln!(jsonl, "{}", rec).unwrap();
                if samples.len() < 5 && nontrivial && index % 211 == 7 { samples.push(rec); }
                w.push(term);
                pre = post;
            }
        }
    }
    w.flush();
    let n_impl_failures = impl_failures.len();
    let accepted: u64 = delta_accept.values().sum();
    let deltas: u64 = delta_hist.values().sum();
    write_json(&args.out.join("stats.json"), &json!({
        "scenario": "c10", "seed": args.seed, "tier": args.tier, "episodes": episode_global, "servers": total_servers,
        "nested_jails_generated": nested, "scheme_case_generated": scheme_case_requested,
        "evaluations": w.total, "distinct_nontrivial": distinct.len(),
        "rule": "episodes of 12..maxlen random requests (publish 60 %, list 6 %, RRDP update 12 %, session reset 3 %, remove 5 %, create 9 %) for 2-5 publishers with look-alike handles (alice, alice2, Alice, alice-2, a, a/b, a/b/c, a/bb, b, bob; with --nested 1 also nested pairs and ta) on real RepositoryManager instances (base rsync://localhost/repo/ and .../repo/base/); deltas of 1-8 elements in shuffled message order, URIs re-spelled in host case (18 %), module case (3 %) and with --schemecase 1 scheme case; delta classes: valid 60 %, wrong hash, publish-existing, update/withdraw-missing, outside jail (look-alike sibling, string prefix, parent, other module, other host, handle in other case), in another publisher's jail (incl. its existing objects with the right hash), bad last element after good ones, duplicate URI (malformed stream), empty. A case is one observed transition (complete pre-state, request, post-state, reply, list/details answers of every handle). Non-trivial = a publish with at least one element, or a remove/update while something is published or staged; distinct = distinct (pre-state, request) terms",
        "op_distribution": op_hist, "reply_distribution": reply_hist,
        "delta_class_distribution": delta_hist, "delta_class_accepted_distribution": delta_accept,
        "delta_size_distribution": size_hist, "merge_arm_distribution": merge_hist, "finding_class_distribution": class_hist,
        "deltas": deltas, "deltas_accepted": accepted,
        "samples": samples, "impl_failures": impl_failures,
    }));
    println!("c10: {} cases from {} episodes on {} servers; {} deltas ({} accepted); impl failures {}", w.total, episode_global, total_servers, deltas, accepted, n_impl_failures);
    0
}
