//! spike (to be replaced)
use std::str::FromStr;
use std::path::Path;
use bytes::Bytes;
use krill::api::admin::PublicationServerUris;
use krill::commons::actor::Actor;
use krill::commons::eventsourcing::WalStore;
use krill::commons::storage::StorageSystem;
use krill::config::Config;
use krill::constants::PUBSERVER_CONTENT_NS;
use krill::server::pubd::RepositoryContent;
use krill::server::runtime::KrillRuntime;
use rpki::ca::idexchange::{Handle, MyHandle, PublisherHandle, PublisherRequest};
use rpki::ca::publication::{self, Base64, PublishDelta, Publish, Update, Withdraw};
use rpki::uri;

use kvh::util::Args;

fn mk_runtime(out: &Path, seed: u64, tokio: &tokio::runtime::Runtime) -> KrillRuntime {
    let dir = out.join(format!("srv-{seed}"));
    std::fs::create_dir_all(&dir).unwrap();
    let toml = format!(
        "admin_token = \"secret\"\nstorage_uri = \"memory:{seed}\"\nrepo_dir = \"{d}/repo\"\ntls_keys_dir = \"{d}/ssl\"\npid_file = \"{d}/krill.pid\"\nlog_type = \"stderr\"\nlog_level = \"off\"\nrrdp_delta_interval_min_seconds = 0\n",
        d = dir.display());
    let cf = dir.join("krill.conf");
    std::fs::write(&cf, toml).unwrap();
    let mut cfg = Config::read_config(&cf).expect("config");
    cfg.process().expect("process");
    let storage = StorageSystem::new(cfg.storage_uri.clone());
    KrillRuntime::new(cfg, storage, tokio.handle().clone()).expect("runtime")
}

fn main() {
    let args = Args::parse("c10");
    krill::constants::enable_test_mode();
    let tokio = tokio::runtime::Runtime::new().unwrap();
    let t0 = std::time::Instant::now();
    let krill = mk_runtime(&args.out, args.seed, &tokio);
    println!("runtime {:?}", t0.elapsed());
    let uris = PublicationServerUris {
        rrdp_base_uri: uri::Https::from_str("https://localhost/repo/rrdp/").unwrap(),
        rsync_jail: uri::Rsync::from_str("rsync://localhost/repo/").unwrap(),
    };
    krill.repo_manager().init(uris, &krill).expect("init");
    println!("init {:?}", t0.elapsed());
    let idc = krill.signer().create_self_signed_id_cert().unwrap();
    println!("idcert {:?}", t0.elapsed());
    let idb64 = krill::api::ca::IdCertInfo::from(idc).base64.clone();
    let actor: Actor = krill::constants::ACTOR_DEF_KRILL;
    let repo = krill.repo_manager();
    for h in ["alice", "a", "a/b", "ta", "Alice"] {
        let req = PublisherRequest::new(idb64.clone(), Handle::from_str(h).unwrap(), None);
        println!("create {h}: {:?}", repo.create_publisher(req, &actor).map_err(|e| e.to_string()));
    }
    let shadow: WalStore<RepositoryContent> = WalStore::create(krill.storage(), PUBSERVER_CONTENT_NS).unwrap();
    let h0 = MyHandle::from_str("0").unwrap();
    let dump = |tag: &str| {
        let c = shadow.get_latest(&h0).unwrap();
        let v = serde_json::to_value(&*c).unwrap();
        println!("{tag}: snapshot={} staged={} serial={}", v["rrdp"]["snapshot"]["publishers_current_objects"], v["rrdp"]["staged_elements"], v["rrdp"]["serial"]);
    };
    dump("start");
    let alice = PublisherHandle::from_str("alice").unwrap();
    let c1 = Bytes::from("content1"); let c2 = Bytes::from("content2");
    let u1 = uri::Rsync::from_str("rsync://localhost/repo/alice/x.cer").unwrap();
    let u2 = uri::Rsync::from_str("RSYNC://localhost/repo/alice/x.cer").unwrap();
    let u3 = uri::Rsync::from_str("rsync://LOCALHOST/repo/alice/x.cer").unwrap();
    let mut d = PublishDelta::empty();
    d.add_publish(Publish::new(None, u1.clone(), Base64::from_content(&c1)));
    let r = repo.rfc8181_message(&alice, publication::Query::Delta(d), &krill);
    println!("pub u1: {:?}", r.map(|_| ()).map_err(|e| e.to_string()));
    dump("after pub");
    println!("update: {:?}", repo.update_rrdp_if_needed().map_err(|e| e.to_string()));
    dump("after update");
    // withdraw u1 (staged), then publish u2 (scheme variant)
    let mut d = PublishDelta::empty();
    d.add_withdraw(Withdraw::new(None, u1.clone(), Base64::from_content(&c1).to_hash()));
    println!("wdr u1: {:?}", repo.rfc8181_message(&alice, publication::Query::Delta(d), &krill).map(|_| ()).map_err(|e| e.to_string()));
    dump("after wdr");
    let mut d = PublishDelta::empty();
    d.add_publish(Publish::new(None, u2.clone(), Base64::from_content(&c2)));
    println!("pub u2: {:?}", repo.rfc8181_message(&alice, publication::Query::Delta(d), &krill).map(|_| ()).map_err(|e| e.to_string()));
    dump("after pub u2");
    let l = repo.list(&alice).unwrap();
    println!("list: {:?}", l.elements().iter().map(|e| e.uri().to_string()).collect::<Vec<_>>());
    println!("update: {:?}", repo.update_rrdp_if_needed().map_err(|e| e.to_string()));
    dump("after update2");
    let l = repo.list(&alice).unwrap();
    println!("list: {:?}", l.elements().iter().map(|e| e.uri().to_string()).collect::<Vec<_>>());
    let mut d = PublishDelta::empty();
    d.add_publish(Publish::new(None, u3.clone(), Base64::from_content(&c2)));
    println!("pub u3: {:?}", repo.rfc8181_message(&alice, publication::Query::Delta(d), &krill).map(|_| ()).map_err(|e| e.to_string()));
    let _ = Update::new(None, u3, Base64::from_content(&c2), Base64::from_content(&c1).to_hash());
    let det = repo.get_publisher_details(alice.clone()).unwrap();
    println!("details base={} files={:?}", det.base_uri, det.current_files.iter().map(|f| f.uri.to_string()).collect::<Vec<_>>());
    println!("remove: {:?}", repo.remove_publisher(alice.clone(), &actor, &krill).map_err(|e| e.to_string()));
    dump("after remove");
    println!("list removed: {:?}", repo.list(&alice).map(|l| l.elements().len()).map_err(|e| e.to_string()));
    println!("details removed: {:?}", repo.get_publisher_details(alice.clone()).map(|_| ()).map_err(|e| e.to_string()));
    println!("reset: {:?}", repo.rrdp_session_reset().map_err(|e| e.to_string()));
    dump("after reset");
    println!("total {:?}", t0.elapsed());
}
