//! Smoke test of the shared in-process system (not a check).
use kvh::sys::*;
use std::time::Instant;

fn main() {
    let dir = std::env::temp_dir().join(format!("kvh-sysdemo-{}", std::process::id()));
    let t0 = Instant::now();
    let sys = Sys::open(SysOpts::new(&dir));
    sys.bootstrap().expect("bootstrap");
    println!("bootstrap {:?}", t0.elapsed());
    sys.add_ca("parent").expect("add parent");
    sys.add_parent("parent", "ta", resources("AS65000-AS65010", "10.0.0.0/8", "2001:db8::/32")).expect("parent under ta");
    sys.sync_rounds("parent", "ta", 3).expect("sync parent");
    sys.add_ca("child").expect("add child");
    sys.add_parent("child", "parent", resources("AS65001", "10.1.0.0/16", "")).expect("child under parent");
    sys.sync_rounds("child", "parent", 2).expect("sync child");
    sys.routes_update("child", &["10.1.0.0/24 => 65001"], &[]).expect("roa");
    sys.aspas_update("child", &["AS65001 => AS65002, AS65003"], &[]).expect("aspa");
    sys.add_ca("grand").expect("add grand");
    sys.add_parent("grand", "child", resources("", "10.1.0.0/20", "")).expect("grand under child");
    sys.sync_rounds("grand", "child", 2).expect("sync grand");
    sys.child_suspend("parent", "child", true).expect("suspend");
    sys.keyroll_init("child").expect("roll init");
    println!("hierarchy {:?}", t0.elapsed());
    println!("pending: {:?}", sys.task_keys("pending"));
    let done = sys.pump(50, 3000);
    for d in &done { println!("  task {}", d.1); }
    println!("pumped {} tasks {:?}", done.len(), t0.elapsed());
    let child = sys.ca("child").unwrap();
    println!("child resources: {}", child.all_resources());
    println!("child json keys: {:?}", serde_json::to_value(&*child).unwrap().as_object().unwrap().keys().collect::<Vec<_>>());
    for p in ["ta", "parent", "child"] {
        let d = sys.krill.repo_manager().get_publisher_details(publisher_handle(p)).unwrap();
        println!("publisher {p}: {} files", d.current_files.len());
    }
    if std::env::var("DUMP").is_ok() {
        let parent = sys.ca("parent").unwrap();
        println!("PARENT {}", serde_json::to_string(&*parent).unwrap());
        println!("CHILD {}", serde_json::to_string(&*child).unwrap());
        let store = sys.krill.storage().open(krill::constants::CA_OBJECTS_NS).unwrap();
        for k in store.keys(None, "").unwrap() {
            let v: serde_json::Value = store.get(None, &k).unwrap().unwrap();
            println!("CAOBJ {} {}", k, serde_json::to_string(&v).unwrap());
        }
        let cas = sys.krill.storage().open(krill::constants::CASERVER_NS).unwrap();
        for sc in cas.scopes().unwrap() { let mut ks = cas.keys(Some(&sc), "command").unwrap(); ks.sort(); for k in ks {
            let v: serde_json::Value = cas.get(Some(&sc), &k).unwrap().unwrap();
            println!("CMD {}/{} {}", sc, k, serde_json::to_string(&v).unwrap());
        }}
        let st = sys.krill.storage().open(krill::constants::STATUS_NS).unwrap();
        for sc in st.scopes().unwrap() { for k in st.keys(Some(&sc), "").unwrap() {
            let v: serde_json::Value = st.get(Some(&sc), &k).unwrap().unwrap();
            println!("STATUS {}/{} {}", sc, k, serde_json::to_string(&v).unwrap());
        }}
    }
    let _ = std::fs::remove_dir_all(&dir);
}
