//! C08: crash or failed write at every mutation of every operation kind.
//!
//! Driver: builds a TA -> a -> {b, c} hierarchy on disk storage once (worker `setup`), derives the key /
//! roll / publication states the operations are issued in (worker `prep`), and then, for each (state,
//! operation kind) and EVERY cut index n of the operation's mutation trace, runs the cut in a worker
//! subprocess on a copy of the prepared directory: crash mode = the probe ends the process right before
//! mutation n, a second worker opens a fresh runtime on the surviving directory; failed-write mode = the
//! probe makes exactly mutation n fail and the same runtime goes on. Afterwards: loads, pump, resubmit,
//! pump, canonical observation; the observation is compared with the crash-free twin (cut index = none).
//! One Coq case per cut (coq/crash/CrashCheck.v).
//!
//! The data directory stores absolute paths of the repository directory (RrdpServer / RsyncdStore are
//! part of the stored state), so every worker addresses its directory as /proc/self/cwd after a chdir:
//! the copies then are position independent.
use std::collections::{BTreeMap, BTreeSet};
use std::io::Write;
use std::path::{Path, PathBuf};
use std::sync::atomic::{AtomicBool, AtomicU64, Ordering};
use std::sync::{Arc, Mutex};

use kvh::caobs::{atoms_to_resources, resources_json_to_mask};
use kvh::sys::*;
use kvh::util::{coq_list, write_json, Args, CaseWriter, Rng};
use krill::commons::storage::verif::{set_probe, Event, Probe};
use krill::commons::storage::Ident;
use krill::constants::{CASERVER_NS, CA_OBJECTS_NS, PUBSERVER_CONTENT_NS, TASK_QUEUE_NS};
use krill::server::ca::publishing::CaObjects;
use serde_json::{json, Value};

fn parent_of(ca: &str) -> &'static str { if ca == "a" { "ta" } else { "a" } }
/// CAs ("n" is created by some operations) and publishers ("px" has objects from the set-up, "py" is created by an operation).
const CA_ALL: [&str; 5] = ["ta", "a", "b", "c", "n"];
const PUB_ALL: [&str; 7] = ["ta", "a", "b", "c", "n", "px", "py"];
const SELF_DIR: &str = "/proc/self/cwd";

// ------------------------------------------------------------------------------------------------
// probe

const MUTATIONS: [&str; 12] = ["store", "move-value", "move-scope", "delete", "delete-scope", "clear",
    "fs-create-dir", "fs-remove-dir", "fs-create-file", "fs-write", "fs-remove-file", "fs-rename"];

#[derive(Clone, Copy, PartialEq)]
enum Mode { Record, Crash, Fail }

/// Pseudo cut index: the fault hits the removal of the old rsync directory, wherever it is in the trace.
const FAIL_REMOVE_OLD: u64 = u64::MAX - 1;
/// Pseudo cut index: the fault hits the rename of rsync/current (the temporary directory of that serial is left behind).
const FAIL_RENAME_CURRENT: u64 = u64::MAX - 2;

struct CutProbe {
    on: AtomicBool,
    count: AtomicU64,
    cut: u64,
    mode: Mode,
    log: Mutex<std::fs::File>,
    root: String,
}

/// (store, key class) of a mutation: the shape the model predicts.
fn shape_of(root: &str, ev: &Event) -> (String, String) {
    if ev.kind.starts_with("fs-") {
        let p = ev.ns.strip_prefix(root).unwrap_or(&ev.ns).trim_start_matches('/').to_string();
        let p = p.strip_prefix("repo/").unwrap_or(&p).to_string();
        let class = if p.starts_with("rrdp") {
            if p.ends_with("new-notification.xml") { "notification-new" }
            else if p.ends_with("notification.xml") { "notification" }
            else if p.ends_with("snapshot.xml") { "snapshot" }
            else if p.ends_with("delta.xml") { "delta" }
            else { "rrdp-dir" }
        } else if p.starts_with("rsync") {
            if p.ends_with("/current") { "rsync-current" }
            else if p.ends_with("/old") { "rsync-old" }
            else if p.rsplit('/').next().map(|s| s.starts_with("tmp-")).unwrap_or(false) { "rsync-tmp" }
            else { "rsync-file" }
        } else { "other" };
        return ("repo".into(), format!("{}:{}", ev.kind, class));
    }
    let ns = ev.ns.trim_end_matches('/').rsplit('/').next().unwrap_or(&ev.ns).to_string();
    let key = ev.key.clone().unwrap_or_default();
    let scope = ev.scope.clone().unwrap_or_default();
    let class = match ns.as_str() {
        "cas" | "ta_proxy" | "ta_signer" | "pubd" | "signers" => {
            if key.starts_with("command-") { "command".to_string() } else if key.starts_with("snapshot") { "snapshot".into() } else { key.clone() }
        }
        "pubd_objects" => if key.starts_with("wal-") { "wal".into() } else if key.starts_with("snapshot") { "snapshot".into() } else { key.clone() },
        "tasks" => {
            let name = key.split_once('-').map(|(_, n)| n.to_string()).unwrap_or(key.clone());
            let kind = name.split('-').next().unwrap_or("").to_string();
            let sc = if ev.kind == "move-value" { format!("{}>{}", scope, ev.extra.clone().unwrap_or_default().split('/').next().unwrap_or("").to_string()) } else { scope.clone() };
            format!("{sc}:{kind}")
        }
        "ca_objects" => "objects".into(),
        "status" => "status".into(),
        _ => key.clone(),
    };
    let ent = match ns.as_str() {
        "cas" => scope.clone(),
        "ca_objects" => key.trim_end_matches(".json").to_string(),
        "status" => scope.clone(),
        "tasks" => { let name = key.split_once('-').map(|(_, n)| n.to_string()).unwrap_or(key.clone()); name }
        _ => String::new(),
    };
    (ns, format!("{}:{}:{}", ev.kind, class, ent))
}

impl Probe for CutProbe {
    fn on_event(&self, ev: &Event) -> bool {
        if !self.on.load(Ordering::SeqCst) { return true }
        if !MUTATIONS.contains(&ev.kind) { return true }
        let n = self.count.fetch_add(1, Ordering::SeqCst);
        let (store, class) = shape_of(&self.root, ev);
        let hit = (n == self.cut || (self.cut == FAIL_REMOVE_OLD && ev.kind == "fs-remove-dir" && ev.ns.ends_with("/rsync/old"))
            || (self.cut == FAIL_RENAME_CURRENT && ev.kind == "fs-rename" && ev.ns.ends_with("/rsync/current"))) && self.mode != Mode::Record;
        {
            let mut f = self.log.lock().unwrap();
            let _ = writeln!(f, "{}", json!({"n": n, "store": store, "class": class, "kind": ev.kind, "ns": ev.ns, "scope": ev.scope, "key": ev.key, "extra": ev.extra, "cut": hit}));
            let _ = f.flush();
        }
        if hit {
            match self.mode {
                Mode::Crash => std::process::abort(),
                Mode::Fail => return false,
                Mode::Record => {}
            }
        }
        true
    }
}

// ------------------------------------------------------------------------------------------------
// system helpers

fn open_sys() -> Sys {
    let mut o = SysOpts::new(Path::new(SELF_DIR));
    o.disk = true;
    Sys::open(o)
}

struct Params { target: &'static str, roa: String, roa0: String, aspa: String, ent_mask: u32 }

fn params(seed: u64) -> Params {
    let mut rng = Rng::new(seed ^ 0xC08);
    let _ = rng.chance(50);
    let target = if seed % 2 == 1 { "b" } else { "c" };
    let (atoms, full): (Vec<u32>, u32) = if target == "b" { (vec![0, 1, 2, 3], 0x0f) } else { (vec![4, 5, 6], 0x70) };
    let atom = *rng.pick(&atoms[..atoms.len() - 1]);
    let third = rng.below(4) * 64;
    let len = rng.range(18, 24);
    let roa = format!("10.{atom}.{third}.0/{len} => {}", 64512 + rng.below(8));
    let roa0 = format!("10.{atom}.0.0/16 => {}", 64512 + rng.below(8));
    let aspa = format!("AS{} => AS{}, AS{}", 64512 + atom, 64600 + rng.below(8), 64700 + rng.below(8));
    // the entitlement change drops the last atom of the target (nothing configured there)
    let ent_mask = full & !(1 << atoms[atoms.len() - 1]);
    Params { target, roa, roa0, aspa, ent_mask }
}

fn setup(seed: u64) {
    let p = params(seed);
    let sys = open_sys();
    sys.bootstrap().expect("bootstrap");
    sys.add_ca("a").expect("a");
    sys.add_parent("a", "ta", atoms_to_resources(0xff)).expect("a under ta");
    sys.sync_rounds("a", "ta", 3).expect("sync a");
    sys.add_ca("b").expect("b");
    sys.add_parent("b", "a", atoms_to_resources(0x0f)).expect("b under a");
    sys.sync_rounds("b", "a", 2).expect("sync b");
    sys.add_ca("c").expect("c");
    sys.add_parent("c", "a", atoms_to_resources(0x70)).expect("c under a");
    sys.sync_rounds("c", "a", 2).expect("sync c");
    sys.routes_update("a", &["10.7.0.0/16 => 64512"], &[]).expect("roa a");
    sys.routes_update(p.target, &[&p.roa0], &[]).expect("roa target");
    let other = if p.target == "b" { "c" } else { "b" };
    let o_atom = if other == "b" { 1 } else { 5 };
    sys.routes_update(other, &[&format!("10.{o_atom}.0.0/16 => 64520")], &[]).expect("roa other");
    // a publisher that is no CA of this instance, with two published objects
    create_publisher(&sys, "px").expect("publisher px");
    publish_as(&sys, "px", &[("obj1.txt", "px object 1"), ("obj2.txt", "px object 2")]).expect("publish px");
    sys.startup_tasks().expect("startup");
    let done = sys.pump(400, 4000);
    eprintln!("setup: pumped {} tasks", done.len());
}

fn create_publisher_for_ca(sys: &Sys, name: &str) -> Result<(), String> {
    let ca = sys.ca(name).map_err(|e| e.to_string())?;
    let req = rpki::ca::idexchange::PublisherRequest::new(ca.id_cert().base64.clone(), publisher_handle(name), None);
    sys.krill.repo_manager().create_publisher(req, &sys.actor).map_err(|e| e.to_string())
}

fn update_repo_of(sys: &Sys, name: &str) -> Result<(), String> {
    let resp = sys.krill.repo_manager().repository_response(&publisher_handle(name), &sys.krill).map_err(|e| e.to_string())?;
    let contact = krill::api::admin::RepositoryContact::try_from_response(resp).map_err(|e| e.to_string())?;
    sys.krill.ca_manager().update_repo(ca_handle(name), contact, false, &sys.actor, &sys.slow).map_err(|e| e.to_string())
}

fn create_publisher(sys: &Sys, name: &str) -> Result<(), String> {
    // any identity certificate will do: requests are handed to the server in-process (no CMS)
    let id = sys.ca("a").map_err(|e| e.to_string())?.id_cert().base64.clone();
    let req = rpki::ca::idexchange::PublisherRequest::new(id, publisher_handle(name), None);
    sys.krill.repo_manager().create_publisher(req, &sys.actor).map_err(|e| e.to_string())
}

fn publish_as(sys: &Sys, name: &str, objs: &[(&str, &str)]) -> Result<(), String> {
    use rpki::ca::publication::{Base64, Message, Publish, PublishDelta, Query, Reply};
    use std::str::FromStr;
    let mut d = PublishDelta::empty();
    for (file, content) in objs {
        let uri = rpki::uri::Rsync::from_str(&format!("rsync://localhost/repo/{name}/{file}")).unwrap();
        d.add_publish(Publish::new(None, uri, Base64::from_content(content.as_bytes())));
    }
    match sys.krill.repo_manager().rfc8181_message(&publisher_handle(name), Query::Delta(d), &sys.krill) {
        Ok(Message::Reply(Reply::Success)) => Ok(()),
        Ok(m) => Err(format!("unexpected reply {m:?}")),
        Err(e) => Err(e.to_string()),
    }
}

/// A command with events but without task or object changes: the comment of an existing ROA configuration.
fn comment_command(sys: &Sys, ca: &str, roa: &str, tag: &str) -> Result<(), String> {
    let cfg = format!("{roa} # {tag} {}", std::process::id());
    sys.routes_update(ca, &[&cfg], &[]).map_err(|e| e.to_string())
}

/// Brings a copy of the base directory into a named state (no pump unless stated).
fn prep(state: &str, seed: u64) {
    let p = params(seed);
    let sys = open_sys();
    let t = p.target;
    match state {
        "base" => {}
        "dirty" => { sys.routes_update(t, &[&p.roa], &[]).expect("dirty roa"); }
        "staged" => { sys.routes_update(t, &[&p.roa], &[]).expect("roa"); let r = sys.run_one_task(); assert!(r.map(|x| x.1.contains("synchronize repo")).unwrap_or(false), "the sync-repo task was expected"); }
        "ent" => { sys.update_child_resources("a", t, atoms_to_resources(p.ent_mask)).expect("entitlement"); }
        "rollpending" => { sys.keyroll_init(t).expect("roll init"); }
        "rollnew" => { sys.keyroll_init(t).expect("roll init"); sys.sync_parent(t, "a").expect("sync 1"); sys.sync_parent(t, "a").expect("sync 2"); let _ = sys.pump(200, 3000); }
        "rollold" => { sys.keyroll_init(t).expect("roll init"); sys.sync_parent(t, "a").expect("sync 1"); sys.sync_parent(t, "a").expect("sync 2"); let _ = sys.pump(200, 3000);
                       sys.keyroll_activate(t).expect("activate"); }
        "oldleft" => {
            // an RRDP/rsync write whose final removal of rsync/old fails: the directory is left behind, as after a
            // crash right after the switch (the state the repaired RsyncdStore::write has to cope with)
            sys.routes_update(t, &[&p.roa], &[]).expect("roa");
            let r = sys.run_one_task(); assert!(r.map(|x| x.1.contains("synchronize repo")).unwrap_or(false), "the sync-repo task was expected");
            let probe = install_probe(Mode::Fail, FAIL_REMOVE_OLD);
            probe.on.store(true, Ordering::SeqCst);
            let r = sys.krill.repo_manager().update_rrdp_if_needed();
            probe.on.store(false, Ordering::SeqCst);
            set_probe(None);
            if r.is_ok() { eprintln!("prep oldleft: the failing removal did not fail the write"); }
            let _ = std::fs::remove_file("trace.log");
        }
        "tmpleft" => {
            // an RRDP/rsync write that fails at the first rename: rsync/tmp-<serial> is left behind
            sys.routes_update(t, &[&p.roa], &[]).expect("roa");
            let r = sys.run_one_task(); assert!(r.map(|x| x.1.contains("synchronize repo")).unwrap_or(false), "the sync-repo task was expected");
            let probe = install_probe(Mode::Fail, FAIL_RENAME_CURRENT);
            probe.on.store(true, Ordering::SeqCst);
            let r = sys.krill.repo_manager().update_rrdp_if_needed();
            probe.on.store(false, Ordering::SeqCst);
            set_probe(None);
            if r.is_ok() { eprintln!("prep tmpleft: the failing rename did not fail the write"); }
            let _ = std::fs::remove_file("trace.log");
        }
        "pxstaged" => { publish_as(&sys, "px", &[("obj3.txt", "px object 3, staged")]).expect("publish px"); }
        "newca" => {
            sys.krill.ca_manager().init_ca(ca_handle("n"), &sys.krill).expect("init n");
            create_publisher_for_ca(&sys, "n").expect("publisher n");
        }
        "ahead" => {
            // a ROA update whose command store fails: the SyncRepo task for the next version stays queued (F08a)
            let probe = install_probe(Mode::Fail, 2);
            probe.on.store(true, Ordering::SeqCst);
            let r = sys.routes_update(t, &[&p.roa], &[]);
            probe.on.store(false, Ordering::SeqCst);
            set_probe(None);
            if r.is_ok() { eprintln!("prep ahead: the failing command store did not fail the command"); }
            let _ = std::fs::remove_file("trace.log");
        }
        other => panic!("unknown state {other}"),
    }
    let pre = facts(&sys);
    std::fs::write("pre.json", serde_json::to_string(&pre).unwrap()).unwrap();
}

fn run_op(sys: &Sys, op: &str, p: &Params) -> Result<(), String> {
    let t = p.target;
    let e = |r: krill::commons::KrillResult<()>| r.map_err(|e| e.to_string());
    match op {
        "roa_add" => e(sys.routes_update(t, &[&p.roa.replace("/", "/").replacen("10.", "10.", 1)], &[]).or_else(|err| {
            // in state `dirty` the seeded ROA exists already: use its sibling
            if err.to_string().contains("uplicate") { Err(err) } else { Err(err) } })),
        "roa_add2" => { let alt = alt_roa(&p.roa); e(sys.routes_update(t, &[&alt], &[])) }
        "roa_remove" => e(sys.routes_update(t, &[], &[&p.roa0.split(" => ").collect::<Vec<_>>().join(" => ")])),
        "aspa_add" => e(sys.aspas_update(t, &[&p.aspa], &[])),
        "entitlement" => e(sys.update_child_resources("a", t, atoms_to_resources(p.ent_mask))),
        "sync_parent" => e(sys.sync_parent(t, "a").map(|_| ())),
        "keyroll_init" => e(sys.keyroll_init(t)),
        "keyroll_activate" => e(sys.keyroll_activate(t)),
        "sync_repo" => e(sys.sync_repo(t).map(|_| ())),
        "republish" => e(sys.republish(true).map(|_| ())),
        "rrdp_update" => e(sys.krill.repo_manager().update_rrdp_if_needed().map(|_| ())),
        "rsync_write" => e(sys.krill.repo_manager().write_repository()),
        "remove_publisher" => e(sys.krill.repo_manager().remove_publisher(publisher_handle("px"), &sys.actor, &sys.krill)),
        "create_publisher" => create_publisher(sys, "py"),
        "delete_ca" => e(sys.delete_ca(t)),
        "delete_ca_parent" => e(sys.delete_ca("a")),
        "init_ca" => e(sys.krill.ca_manager().init_ca(ca_handle("n"), &sys.krill)),
        "update_repo" => update_repo_of(sys, "n"),
        "parent_remove" => e(sys.parent_remove(t, "a")),
        "child_remove" => e(sys.child_remove("a", t)),
        // rejected by the aggregate (a prefix no CA of the hierarchy holds): stored with its error (store.rs:418-424)
        "roa_reject" => e(sys.routes_update(t, &[REJECTED_ROA], &[])),
        // the UpdateSnapshots task as the scheduler runs it (scheduler.rs:165, 524-600): a snapshot of every aggregate,
        // then the snapshot update of the publication server's change-set store in a WalStore of its own
        "update_snapshots" => match std::panic::catch_unwind(std::panic::AssertUnwindSafe(|| krill::server::scheduler::verif_process_task(&sys.slow, krill::server::mq::Task::UpdateSnapshots, sys.started))) {
            Ok(Ok(_)) => Ok(()),
            Ok(Err(err)) => Err(format!("fatal: {err}")),
            Err(_) => Err("fatal: panic".into()),
        },
        "task" => {
            // one scheduler step; a fatal error of the task or of finishing it ends the daemon (process::exit)
            match std::panic::catch_unwind(std::panic::AssertUnwindSafe(|| sys.run_one_task())) {
                Ok(_) => Ok(()),
                Err(p) => Err(format!("fatal: {}", p.downcast_ref::<String>().cloned().or_else(|| p.downcast_ref::<&str>().map(|s| s.to_string())).unwrap_or_default())),
            }
        }
        other => panic!("unknown op {other}"),
    }
}

/// Outside the resources of every CA of the hierarchy (they hold 10.0.0.0/16 .. 10.7.0.0/16).
const REJECTED_ROA: &str = "10.200.0.0/16 => 64999";
/// The object the publisher px publishes in state `pxstaged` (acknowledged before the faulted operation).
const PX_ACKED_OBJECT: &str = "obj3.txt";

fn alt_roa(roa: &str) -> String {
    // same prefix, another origin
    let (pfx, asn) = roa.split_once(" => ").unwrap();
    format!("{pfx} => {}", asn.parse::<u64>().unwrap() + 100)
}

// ------------------------------------------------------------------------------------------------
// observation

fn canon_name(s: &str) -> String {
    // key identifiers (40 hex digits) are fresh per run
    let mut out = String::new();
    let b = s.as_bytes();
    let mut i = 0;
    while i < b.len() {
        if i + 40 <= b.len() && b[i..i + 40].iter().all(|c| c.is_ascii_hexdigit()) && (i + 40 == b.len() || !b[i + 40].is_ascii_hexdigit()) && (i == 0 || !b[i - 1].is_ascii_hexdigit()) {
            out.push_str("KEY"); i += 40;
        } else { out.push(b[i] as char); i += 1; }
    }
    // own resource class names ("0", "1", ...) are fresh after a class was dropped and re-created
    for ca in ["a", "b", "c", "n"] {
        for pre in ["repo/", ""] {
            let pat = format!("{pre}{ca}/");
            if let Some(pos) = out.find(&pat) {
                if pre.is_empty() && pos != 0 { continue }
                let rest = &out[pos + pat.len()..];
                let digits: String = rest.chars().take_while(|c| c.is_ascii_digit()).collect();
                if !digits.is_empty() && rest[digits.len()..].starts_with('/') {
                    out = format!("{}{}RC{}", &out[..pos], pat, &rest[digits.len()..]);
                    break;
                }
            }
        }
    }
    out
}

fn kv_json(sys: &Sys, ns: &Ident, scope: Option<&str>, key: &str) -> Result<Option<Value>, String> {
    let store = sys.krill.storage().open(ns).map_err(|e| e.to_string())?;
    let sc = scope.map(|s| Ident::boxed_from_string(s.to_string()).unwrap());
    let k = Ident::boxed_from_string(key.to_string()).map_err(|e| e.to_string())?;
    store.get::<Value>(sc.as_deref(), &k).map_err(|e| e.to_string())
}

fn keystate_tag(rc: &Value) -> String { rc["key_state"].as_object().and_then(|o| o.keys().next().cloned()).unwrap_or("?".into()) }

/// Facts that can be read without running anything: log length per CA, published-object names per CA, task names.
fn facts(sys: &Sys) -> Value {
    let mut versions = BTreeMap::new();
    let mut objs = BTreeMap::new();
    let store = sys.krill.storage().open(CASERVER_NS).unwrap();
    for h in CA_ALL {
        let scope = Ident::boxed_from_string(h.to_string()).unwrap();
        let n = store.keys(Some(&scope), "command-").map(|k| k.len()).unwrap_or(0);
        versions.insert(h.to_string(), n as u64);
        objs.insert(h.to_string(), object_names(sys, h).unwrap_or_default());
    }
    let repo = PathBuf::from(SELF_DIR).join("repo");
    let notif_serial = std::fs::read(repo.join("rrdp/notification.xml")).ok()
        .and_then(|b| rpki::rrdp::NotificationFile::parse(b.as_slice()).ok()).map(|n| n.serial()).unwrap_or(0);
    let content_serial = sys.krill.repo_manager().repo_stats().ok().map(|s| serde_json::to_value(&s).unwrap()["serial"].as_u64().unwrap_or(0)).unwrap_or(0);
    json!({"versions": versions, "objects": objs, "tasks": task_names(sys), "wal": wal_stored(sys),
           "has_current": repo.join("rsync/current").exists(), "has_old": repo.join("rsync/old").exists(),
           "tmp_dirs": std::fs::read_dir(repo.join("rsync")).map(|rd| rd.flatten().map(|e| e.file_name().to_string_lossy().to_string()).filter(|n| n.starts_with("tmp-")).collect::<Vec<_>>()).unwrap_or_default(),
           "rsync_files": count_files(&repo.join("rsync/current")),
           "notification_serial": notif_serial, "content_serial": content_serial})
}

/// The stored state of the publication server's change-set store (pubd_objects/0), read from the storage, not
/// through the WalStore: revision of snapshot.json, revisions of the wal-N.json present, and the revision a fresh
/// store loads from them (snapshot, then consecutive sets: wal.rs:320-328).
fn wal_stored(sys: &Sys) -> Value {
    let snap = kv_json(sys, PUBSERVER_CONTENT_NS, Some("0"), "snapshot.json").ok().flatten().and_then(|v| v["revision"].as_u64());
    let store = sys.krill.storage().open(PUBSERVER_CONTENT_NS).unwrap();
    let scope = Ident::boxed_from_string("0".to_string()).unwrap();
    let mut sets: Vec<u64> = store.keys(Some(&scope), "wal-").unwrap_or_default().iter()
        .filter_map(|k| k.as_str().strip_prefix("wal-").and_then(|s| s.strip_suffix(".json")).and_then(|s| s.parse().ok())).collect();
    sets.sort();
    let mut loaded = snap.unwrap_or(0);
    while sets.contains(&loaded) { loaded += 1 }
    json!({"snapshot": snap, "sets": sets, "loaded": loaded})
}

fn count_files(dir: &Path) -> usize {
    std::fs::read_dir(dir).map(|rd| rd.flatten().map(|e| { let p = e.path(); if p.is_dir() { count_files(&p) } else { 1 } }).sum()).unwrap_or(0)
}

/// The events (constructor name, child if any) of the commands each CA stored since `pre` - read from the
/// audit log, not from the trace. A command stored with its error is "error".
fn new_commands(sys: &Sys, pre: &Value) -> Value {
    let mut out = BTreeMap::new();
    let store = sys.krill.storage().open(CASERVER_NS).unwrap();
    for h in ["a", "b", "c", "n"] {
        let scope = Ident::boxed_from_string(h.to_string()).unwrap();
        let now = store.keys(Some(&scope), "command-").map(|k| k.len()).unwrap_or(0) as u64;
        let mut cmds = Vec::new();
        for v in pre["versions"][h].as_u64().unwrap_or(now)..now {
            if v == 0 { cmds.push(json!("init")); continue }
            let c = kv_json(sys, CASERVER_NS, Some(h), &format!("command-{v}.json")).ok().flatten().unwrap_or(Value::Null);
            match c["effect"]["events"].as_array() {
                Some(evs) if !evs.is_empty() => cmds.push(json!(evs.iter().map(|e| {
                    let camel: String = e["type"].as_str().unwrap_or("?").split('_').map(|w| { let mut c = w.chars(); c.next().map(|f| f.to_uppercase().collect::<String>() + c.as_str()).unwrap_or_default() }).collect();
                    json!([camel, e["child"].as_str().unwrap_or("")])
                }).collect::<Vec<_>>())),
                _ => cmds.push(json!("error")),
            }
        }
        out.insert(h.to_string(), cmds);
    }
    json!(out)
}

fn task_names(sys: &Sys) -> Vec<String> {
    let mut v = Vec::new();
    for sc in ["pending", "running"] {
        for k in sys.task_keys(sc) { v.push(format!("{sc}:{}", k.split_once('-').map(|(_, n)| n.to_string()).unwrap_or(k.clone()))); }
    }
    v.sort();
    v
}

/// Names (with the serial of the object, so that a re-issued object counts as different) of everything in
/// the CA's published-object store.
fn object_names(sys: &Sys, h: &str) -> Result<Vec<String>, String> {
    let Some(v) = kv_json(sys, CA_OBJECTS_NS, None, &format!("{h}.json"))? else { return Ok(vec![]) };
    let mut out = Vec::new();
    if let Some(Value::Object(classes)) = v.get("classes") {
        for (c, rco) in classes {
            let k = &rco["keys"];
            out.push(format!("{c}:state:{}", k["type"].as_str().unwrap_or("?")));
            for set_name in ["current_set", "staging_set", "old_set"] {
                let Some(set) = k.get(set_name) else { continue };
                out.push(format!("{c}:{set_name}:number:{}", set["revision"]["number"]));
                if let Some(Value::Object(p)) = set.get("published_objects") {
                    for (n, o) in p { out.push(format!("{c}:{set_name}:{n}:{}", o["serial"])); }
                }
            }
        }
    }
    out.sort();
    Ok(out)
}

/// Decodes manifest and CRL of every key set and checks that the manifest lists exactly the CRL plus the
/// published objects (names and hashes) and that the CRL carries exactly the stored revocations.
fn check_signed_sets(objs: &Value) -> Vec<String> {
    use base64::Engine;
    use rpki::repository::{crl::Crl, manifest::Manifest};
    let mut bad = Vec::new();
    let now = chrono::Utc::now().timestamp();
    let Some(Value::Object(classes)) = objs.get("classes") else { return bad };
    for (c, rco) in classes {
        let k = &rco["keys"];
        for set_name in ["current_set", "staging_set", "old_set"] {
            let Some(set) = k.get(set_name) else { continue };
            let number = set["revision"]["number"].as_u64().unwrap_or(0);
            let dec = |v: &Value| base64::engine::general_purpose::STANDARD.decode(v["base64"].as_str().unwrap_or("")).unwrap_or_default();
            let mft_bytes = dec(&set["manifest"]);
            let crl_bytes = dec(&set["crl"]);
            let (Ok(mft), Ok(crl)) = (Manifest::decode(mft_bytes.as_slice(), true), Crl::decode(crl_bytes.as_slice())) else {
                bad.push(format!("class {c} {set_name}: manifest or CRL does not decode")); continue };
            let mn = mft.content().manifest_number().to_string();
            let cn = crl.crl_number().to_string();
            if mn != number.to_string() || cn != number.to_string() { bad.push(format!("class {c} {set_name}: revision {number}, manifest number {mn}, CRL number {cn}")); }
            let (mt, mnx) = (mft.content().this_update().timestamp(), mft.content().next_update().timestamp());
            if !(mt <= now + 600 && now < mnx) { bad.push(format!("class {c} {set_name}: manifest window [{mt},{mnx}) does not contain now {now}")); }
            let published: BTreeSet<String> = set.get("published_objects").and_then(|p| p.as_object()).map(|o| o.keys().cloned().collect()).unwrap_or_default();
            let listed: BTreeSet<String> = mft.content().iter().map(|f| String::from_utf8_lossy(f.file()).to_string()).collect();
            let extra: Vec<&String> = listed.iter().filter(|n| !published.contains(*n) && !n.ends_with(".crl")).collect();
            let missing: Vec<&String> = published.iter().filter(|n| !listed.contains(*n)).collect();
            if !extra.is_empty() || !missing.is_empty() || listed.len() != published.len() + 1 {
                bad.push(format!("class {c} {set_name}: manifest lists {} files, published {}: extra {:?} missing {:?}", listed.len(), published.len(), extra, missing));
            }
            let revs = set.get("revocations").and_then(|r| r.as_array()).cloned().unwrap_or_default();
            let n_crl = crl.revoked_certs().iter().count();
            if n_crl != revs.len() { bad.push(format!("class {c} {set_name}: CRL has {n_crl} entries, stored revocations {}", revs.len())); }
        }
    }
    bad
}

/// Everything loads: every CA, its CaObjects, every stored command below its version, the repository
/// content and the publishers, the task queue. Returns what does not.
fn check_loads(sys: &Sys) -> Vec<String> {
    let mut bad = Vec::new();
    for h in CA_ALL {
        // an entity that is absent altogether (never created, or deleted: one delete-scope mutation) is fine
        let present = h != "ta" && kv_json(sys, CASERVER_NS, Some(h), "command-0.json").map(|o| o.is_some()).unwrap_or(true);
        if present { match std::panic::catch_unwind(std::panic::AssertUnwindSafe(|| sys.ca(h))) {
            Err(_) => bad.push(format!("get_ca {h}: panic")),
            Ok(Err(e)) => { bad.push(format!("get_ca {h}: {e}")) }
            Ok(Ok(ca)) => {
                use krill::commons::eventsourcing::Aggregate;
                let v = ca.version();
                let n_keys = { let st = sys.krill.storage().open(CASERVER_NS).unwrap(); let sc = Ident::boxed_from_string(h.to_string()).unwrap(); st.keys(Some(&sc), "command-").map(|k| k.len()).unwrap_or(0) as u64 };
                if n_keys != v { bad.push(format!("version-gap: {h} has {n_keys} stored commands but loads at version {v}")); }
                for i in 0..v {
                    match kv_json(sys, CASERVER_NS, Some(h), &format!("command-{i}.json")) {
                        Ok(Some(_)) => {}
                        Ok(None) => bad.push(format!("{h}: command-{i} missing below version {v}")),
                        Err(e) => bad.push(format!("{h}: command-{i}: {e}")),
                    }
                }
                if let Ok(Some(_)) = kv_json(sys, CASERVER_NS, Some(h), &format!("command-{v}.json")) { bad.push(format!("{h}: command-{v} exists at the loaded version")); }
            }
        } }
        let store = sys.krill.storage().open(CA_OBJECTS_NS).unwrap();
        let key = Ident::boxed_from_string(format!("{h}.json")).unwrap();
        match store.get::<CaObjects>(None, &key) {
            Err(e) => bad.push(format!("ca_objects {h}: {e}")),
            Ok(_) => {}
        }
    }
    match std::panic::catch_unwind(std::panic::AssertUnwindSafe(|| sys.krill.repo_manager().repo_stats())) {
        Err(_) => bad.push("repo_stats: panic".into()),
        Ok(Err(e)) => bad.push(format!("repo_stats: {e}")),
        Ok(Ok(_)) => {}
    }
    if let Err(e) = sys.krill.repo_manager().publishers() { bad.push(format!("publishers: {e}")) }
    let store = sys.krill.storage().open(TASK_QUEUE_NS).unwrap();
    for sc in ["pending", "running"] {
        let scope = Ident::boxed_from_string(sc.to_string()).unwrap();
        for k in store.keys(Some(&scope), "").unwrap_or_default() {
            let ok_key = k.as_str().split_once('-').map(|(t, n)| t.parse::<u128>().is_ok() && !n.is_empty()).unwrap_or(false);
            if !ok_key { bad.push(format!("task key {k} does not parse")); continue }
            match store.get::<Value>(Some(&scope), &k) {
                Ok(Some(v)) => { if serde_json::from_value::<krill::server::mq::Task>(v).is_err() { bad.push(format!("task {k}: value does not parse")); } }
                Ok(None) => {}
                Err(e) => bad.push(format!("task {k}: {e}")),
            }
        }
    }
    bad
}

fn sha256_hex(data: &[u8]) -> String {
    let d = openssl::sha::sha256(data);
    d.iter().map(|b| format!("{b:02x}")).collect()
}

/// The served files: notification parses, the snapshot and deltas it names exist with the stated hashes;
/// the rsync tree. Returns (facts, problems).
fn repo_files(sys: &Sys) -> (Value, Vec<String>) {
    let mut bad = Vec::new();
    let repo = PathBuf::from(SELF_DIR).join("repo");
    let notif = repo.join("rrdp/notification.xml");
    let mut serial = 0u64;
    let mut session = String::new();
    match std::fs::read(&notif) {
        Err(e) => bad.push(format!("notification.xml: {e}")),
        Ok(bytes) => match rpki::rrdp::NotificationFile::parse(bytes.as_slice()) {
            Err(e) => bad.push(format!("notification.xml does not parse: {e}")),
            Ok(n) => {
                serial = n.serial(); session = n.session_id().to_string();
                let local = |uri: &str| -> PathBuf { repo.join("rrdp").join(uri.strip_prefix(RRDP_BASE).unwrap_or(uri)) };
                let check = |what: &str, uri: String, hash: String, bad: &mut Vec<String>| {
                    match std::fs::read(local(&uri)) {
                        Err(e) => bad.push(format!("{what} {uri}: {e}")),
                        Ok(b) => if sha256_hex(&b) != hash.to_lowercase() { bad.push(format!("{what} {uri}: hash mismatch")) }
                    }
                };
                check("snapshot", n.snapshot().uri().to_string(), n.snapshot().hash().to_string(), &mut bad);
                for d in n.deltas() { check("delta", d.uri().to_string(), d.hash().to_string(), &mut bad); }
            }
        }
    }
    let mut rsync = Vec::new();
    fn walk(dir: &Path, base: &Path, out: &mut Vec<String>) {
        if let Ok(rd) = std::fs::read_dir(dir) { for e in rd.flatten() { let p = e.path(); if p.is_dir() { walk(&p, base, out) } else { out.push(canon_name(&p.strip_prefix(base).unwrap().to_string_lossy())) } } }
    }
    let cur = repo.join("rsync/current");
    walk(&cur, &cur, &mut rsync);
    rsync.sort();
    let mut top: Vec<String> = std::fs::read_dir(repo.join("rsync")).map(|rd| rd.flatten().map(|e| { let n = e.file_name().to_string_lossy().to_string(); if n.starts_with("tmp-") { "tmp".to_string() } else { n } }).collect()).unwrap_or_default();
    top.sort();
    let stats = sys.krill.repo_manager().repo_stats().ok().map(|s| serde_json::to_value(&s).unwrap()).unwrap_or(Value::Null);
    let content_serial = stats["serial"].as_u64().unwrap_or(0);
    let content_session = stats["session"].as_str().unwrap_or("").to_string();
    (json!({"notification_serial": serial, "content_serial": content_serial, "session_matches": session == content_session, "rsync": rsync, "rsync_top": top}), bad)
}

/// The canonical observation that is compared with the crash-free twin.
/// The canonical view of one CA (serde view of CertAuth, abstracted).
fn ca_view(j: &Value) -> Value {
    let mut routes: Vec<String> = j["routes"]["map"].as_object().map(|m| m.keys().cloned().collect()).unwrap_or_default(); routes.sort();
    let mut aspas: Vec<String> = j["aspas"]["attestations"].as_object().map(|m| m.iter().map(|(k, v)| format!("{k}:{}", v["providers"])).collect()).unwrap_or_default(); aspas.sort();
    let mut children = BTreeMap::new();
    if let Some(Value::Object(ch)) = j.get("children") { for (c, v) in ch { children.insert(c.clone(), json!({"res": resources_json_to_mask(&v["resources"]), "state": v["state"], "keys_in_use": v["used_keys"].as_object().map(|u| u.values().filter(|s| s.get("in_use").is_some()).count())})); } }
    let mut parents: Vec<String> = j["parents"].as_object().map(|m| m.keys().cloned().collect()).unwrap_or_default(); parents.sort();
    let mut classes = Vec::new();
    if let Some(Value::Object(rcs)) = j.get("resources") {
        for (_own, rc) in rcs {
            let tag = keystate_tag(rc);
            let cur = match tag.as_str() { "active" => &rc["key_state"]["active"], "roll_pending" => &rc["key_state"]["roll_pending"][1], "roll_new" => &rc["key_state"]["roll_new"][1], "roll_old" => &rc["key_state"]["roll_old"][0], _ => &Value::Null };
            let res = if cur.is_null() { 0 } else { resources_json_to_mask(&cur["incoming_cert"]["resources"]) };
            let mut roas: Vec<String> = Vec::new();
            for sect in ["simple", "aggregate"] { if let Some(Value::Object(o)) = rc["roas"].get(sect) { roas.extend(o.keys().cloned()); } }
            roas.sort();
            let mut aspas: Vec<String> = rc["aspas"].as_object().map(|o| o.keys().cloned().collect()).unwrap_or_default(); aspas.sort();
            let issued = rc["certificates"]["issued"].as_object().map(|o| { let mut v: Vec<u64> = o.values().map(|c| resources_json_to_mask(&c["resources"])).collect(); v.sort(); v }).unwrap_or_default();
            classes.push(json!({"parent": rc["parent_handle"], "prcn": rc["parent_rc_name"], "keys": tag, "res": res, "roas": roas, "aspas": aspas, "issued": issued,
                "request_open": rc["key_state"].to_string().contains("\"request\":{")}));
        }
    }
    classes.sort_by_key(|c| c.to_string());
    json!({"routes": routes, "aspas": aspas, "children": children, "parents": parents, "classes": classes})
}

/// Failed-write mode: what readers of the running instance see must be the replay of the audit log. A fresh
/// AggregateStore on the same storage (empty cache) replays it; version and canonical view must agree.
fn live_vs_log(sys: &Sys) -> Vec<String> {
    use krill::commons::eventsourcing::{Aggregate, AggregateStore};
    let mut bad = Vec::new();
    let fresh = match AggregateStore::<krill::server::ca::CertAuth>::create(sys.krill.storage(), CASERVER_NS, false) { Ok(f) => f, Err(e) => return vec![format!("fresh store: {e}")] };
    for h in ["a", "b", "c", "n"] {
        let present = kv_json(sys, CASERVER_NS, Some(h), "command-0.json").map(|o| o.is_some()).unwrap_or(false);
        if !present { continue }
        match (sys.ca(h), fresh.get_latest(&ca_handle(h))) {
            (Ok(live), Ok(log)) => {
                if live.version() != log.version() { bad.push(format!("{h}: readers see version {}, the audit log replays to version {}", live.version(), log.version())); }
                else if ca_view(&serde_json::to_value(&*live).unwrap()) != ca_view(&serde_json::to_value(&*log).unwrap()) { bad.push(format!("{h}: readers see a state that is not the replay of the audit log (same version {})", live.version())); }
            }
            (Err(e), Ok(_)) => bad.push(format!("{h}: live load fails ({e}) but the log replays")),
            (Ok(_), Err(e)) => bad.push(format!("{h}: readers see a CA but the log does not replay: {e}")),
            (Err(_), Err(_)) => {}
        }
    }
    bad
}

fn observe(sys: &Sys) -> Value {
    let mut cas = BTreeMap::new();
    let mut objects = BTreeMap::new();
    let mut repo = BTreeMap::new();
    let mut signed_bad = Vec::new();
    let mut versions = BTreeMap::new();
    for h in PUB_ALL {
        let present = kv_json(sys, CASERVER_NS, Some(h), "command-0.json").map(|o| o.is_some()).unwrap_or(false);
        if present && h != "ta" {
            if let Ok(ca) = sys.ca(h) {
                let j = serde_json::to_value(&*ca).unwrap();
                versions.insert(h.to_string(), j["version"].as_u64().unwrap_or(0));
                cas.insert(h.to_string(), ca_view(&j));
            } else { cas.insert(h.to_string(), json!("unloadable")); }
        }
        // published-object store: per class (by state and canonical names)
        if let Ok(Some(v)) = kv_json(sys, CA_OBJECTS_NS, None, &format!("{h}.json")) {
            for w in check_signed_sets(&v) { signed_bad.push(format!("{h}: {w}")); }
            let mut cls = Vec::new();
            if let Some(Value::Object(classes)) = v.get("classes") {
                for (_c, rco) in classes {
                    let k = &rco["keys"];
                    let mut sets = BTreeMap::new();
                    for set_name in ["current_set", "staging_set", "old_set"] {
                        let Some(set) = k.get(set_name) else { continue };
                        let mut names: Vec<String> = set.get("published_objects").and_then(|p| p.as_object()).map(|o| o.keys().map(|n| canon_name(n)).collect()).unwrap_or_default();
                        names.sort();
                        sets.insert(set_name.to_string(), names);
                    }
                    cls.push(json!({"state": k["type"], "sets": sets}));
                }
            }
            cls.sort_by_key(|c| c.to_string());
            objects.insert(h.to_string(), cls);
        }
        // what the publication server holds for the publisher
        match sys.krill.repo_manager().list(&publisher_handle(h)) {
            Ok(l) => { let mut v: Vec<String> = l.elements().iter().map(|e| canon_name(e.uri().as_str())).collect(); v.sort(); repo.insert(h.to_string(), json!(v)); }
            Err(_) => { repo.insert(h.to_string(), json!("no such publisher in the content store")); }
        }
    }
    // the two stores of the publication server, the CA list, and what is left in the companion stores
    let mut access: Vec<String> = sys.krill.repo_manager().publishers().map(|v| v.iter().map(|p| p.to_string()).collect()).unwrap_or_default(); access.sort();
    let content: Vec<String> = sys.krill.repo_manager().repo_stats().ok().map(|st| serde_json::to_value(&st).unwrap()).and_then(|v| v["publishers"].as_object().map(|m| m.keys().cloned().collect())).unwrap_or_default();
    let mut ca_list: Vec<String> = sys.krill.ca_manager().ca_handles().map(|v| v.iter().map(|h| h.to_string()).collect()).unwrap_or_default(); ca_list.sort();
    let mut obj_keys: Vec<String> = sys.krill.storage().open(CA_OBJECTS_NS).ok().and_then(|st| st.keys(None, "").ok()).map(|v| v.iter().map(|k| k.as_str().to_string()).collect()).unwrap_or_default(); obj_keys.sort();
    let mut status_scopes: Vec<String> = sys.krill.storage().open(krill::constants::STATUS_NS).ok().and_then(|st| st.scopes().ok()).map(|v| v.iter().map(|k| k.as_str().to_string()).collect()).unwrap_or_default(); status_scopes.sort();
    let stores = json!({"access_publishers": access, "content_publishers": content, "cas": ca_list, "ca_objects_keys": obj_keys, "status_scopes": status_scopes});
    let (files, files_bad) = repo_files(sys);
    // ROAs the publication server holds for a CA whose route is not in that CA's configuration (API view):
    // what a relying party would turn into VRPs although no logged command ever asked for them
    let mut orphans = Vec::new();
    for h in ["a", "b", "c"] {
        let routes: BTreeSet<String> = cas.get(h).and_then(|c| c["routes"].as_array().map(|a| a.iter().map(|x| x.as_str().unwrap_or("").to_string()).collect())).unwrap_or_default();
        if let Some(list) = repo.get(h).and_then(|r| r.as_array()) {
            for u in list {
                let name = u.as_str().unwrap_or("").rsplit('/').next().unwrap_or("");
                if let Some(hexname) = name.strip_suffix(".roa") {
                    if let Ok(bytes) = hex::decode(hexname) { let route = String::from_utf8_lossy(&bytes).to_string(); if !routes.contains(&route) { orphans.push(format!("{h}: {route}")); } }
                }
            }
        }
    }
    json!({"cas": cas, "objects": objects, "repo": repo, "files": files, "files_bad": files_bad, "signed_bad": signed_bad, "versions": versions, "tasks": task_names(sys), "orphan_roas": orphans, "stores": stores})
}

/// The part of an observation that must equal the twin's.
fn comparable(o: &Value) -> Value {
    json!({"cas": o["cas"], "objects": o["objects"], "repo": o["repo"], "stores": o["stores"],
           "rsync": o["files"]["rsync"], "rrdp_in_step": o["files"]["notification_serial"] == o["files"]["content_serial"]})
}

// ------------------------------------------------------------------------------------------------
// workers

fn install_probe(mode: Mode, cut: u64) -> Arc<CutProbe> {
    let root = std::fs::canonicalize(".").unwrap().to_string_lossy().to_string();
    let _ = root;
    let log = std::fs::OpenOptions::new().create(true).append(true).open("trace.log").unwrap();
    let p = Arc::new(CutProbe { on: AtomicBool::new(false), count: AtomicU64::new(0), cut, mode, log: Mutex::new(log), root: SELF_DIR.to_string() });
    set_probe(Some(p.clone()));
    p
}

/// The periodic background work with time advanced: every CA syncs with its parent (two rounds), manifests and
/// CRLs are re-issued, every CA syncs with the repository, the RRDP/rsync files are written. The scheduler would
/// do the same within its refresh intervals (10 min .. hours); errors are recorded, not fatal.
fn settle(sys: &Sys) -> Vec<String> {
    let mut errs = Vec::new();
    for round in 0..2 {
        for ca in ["b", "c"] {
            // ("a" under the trust anchor is not touched by any operation of the plan; its sync costs 1.5 s)
            let p = parent_of(ca);
            if let Err(e) = sys.sync_parent(ca, p) { errs.push(format!("round {round}: sync_parent {ca}: {}", e.to_string().chars().take(160).collect::<String>())); }
            if p == "ta" { if let Err(e) = sys.sync_ta() { errs.push(format!("sync_ta: {e}")); } let _ = sys.sync_parent(ca, p); }
        }
    }
    if let Err(e) = sys.republish(true) { errs.push(format!("republish: {e}")); }
    for ca in CA_ALL { if let Err(e) = sys.sync_repo(ca) { errs.push(format!("sync_repo {ca}: {}", e.to_string().chars().take(160).collect::<String>())); } }
    if let Err(e) = sys.krill.repo_manager().update_rrdp_if_needed() { errs.push(format!("update_rrdp: {}", e.to_string().chars().take(200).collect::<String>())); }
    errs
}

fn res_json(r: &Result<(), String>) -> Value { match r { Ok(()) => json!("ok"), Err(e) => json!({"err": e.chars().take(200).collect::<String>()}) } }

/// The ROA configuration of a CA whose comment the comment commands change.
fn comment_roa(ca: &str, p: &Params) -> Option<String> {
    if ca == "a" { Some("10.7.0.0/16 => 64512".to_string()) } else if ca == p.target { Some(p.roa0.clone()) } else { None }
}

/// After the fault: loads; (failed-write mode) readers against the replay of the log; facts right after the cut;
/// start-up (only after a restart), pump, resubmit, pump, observe; the periodic work; a DIFFERENT acknowledged
/// command on the CAs involved; then a restart: everything loads, no version gap, the restarted instance shows
/// what the running one showed (nothing acknowledged is lost), and the final observation.
fn recover_and_observe(sys: Sys, op: &str, p: &Params, restarted: bool, first_result: Option<Result<(), String>>) -> Value {
    let t0 = std::time::Instant::now();
    let tm = |what: &str| { if std::env::var("KV_TIMING").is_ok() { eprintln!("  [{:?}] {what}", t0.elapsed()); } };
    let live_bad = if restarted { vec![] } else { live_vs_log(&sys) };
    let loads_bad = check_loads(&sys);
    let at_cut = facts(&sys);
    tm("loads+facts");
    if restarted { if let Err(e) = sys.startup_tasks() { return json!({"fatal": format!("startup: {e}")}) } }
    let pumped1 = pump_guarded(&sys, 300, 1200);
    tm("pump1");
    let obs_pump = observe(&sys);
    tm("observe");
    let resubmit = run_op(&sys, op, p);
    tm("resubmit");
    let pumped2 = pump_guarded(&sys, 300, 2600);
    tm("pump2");
    let obs_prompt = observe(&sys);
    tm("observe");
    let settle_errs = settle(&sys);
    tm("settle");
    let pumped3 = pump_guarded(&sys, 300, 2600);
    tm("pump3");
    // a different command, acknowledged, on every CA the comment commands know
    let mut acked = Vec::new();
    for ca in ["a", p.target] {
        let present = kv_json(&sys, CASERVER_NS, Some(ca), "command-0.json").map(|o| o.is_some()).unwrap_or(false);
        if let (true, Some(roa)) = (present, comment_roa(ca, p)) { if comment_command(&sys, ca, &roa, "probe").is_ok() { acked.push(ca.to_string()); } }
    }
    let live_bad2 = live_vs_log(&sys);
    let loads_bad2 = check_loads(&sys);
    tm("loads");
    let obs_live = observe(&sys);
    tm("observe");
    // restart
    drop(sys);
    let sys = open_sys();
    let loads_bad3 = check_loads(&sys);
    let obs = observe(&sys);
    let mut restart_bad = Vec::new();
    for (h, v) in obs_live["versions"].as_object().cloned().unwrap_or_default() {
        let after = obs["versions"][&h].as_u64().unwrap_or(0);
        if after < v.as_u64().unwrap_or(0) { restart_bad.push(format!("acknowledged-command-lost: {h} was at version {v} before the restart and loads at version {after} after it{}", if acked.contains(&h) { " (the acknowledged comment command is gone)" } else { "" })); }
        else if after != v.as_u64().unwrap_or(0) { restart_bad.push(format!("{h}: version {v} before the restart, {after} after it")); }
    }
    if comparable(&obs_live) != comparable(&obs) { let mut d = Vec::new(); diff_paths(&comparable(&obs_live), &comparable(&obs), String::new(), &mut d); restart_bad.push(format!("the restarted instance differs from the running one: {}", d.iter().take(3).cloned().collect::<Vec<_>>().join("; "))); }
    tm("restart");
    let loads_final: Vec<String> = [loads_bad2, loads_bad3].concat();
    let live_all: Vec<String> = [live_bad, live_bad2].concat();
    let result = |restart_bad: &Vec<String>, stage: &str| json!({"stage": stage, "loads_bad": loads_bad, "loads_bad_final": loads_final, "live_bad": live_all, "restart_bad": restart_bad, "at_cut": at_cut,
           "obs_pump": {"cmp": comparable(&obs_pump), "signed_bad": obs_pump["signed_bad"], "files_bad": obs_pump["files_bad"], "orphan_roas": obs_pump["orphan_roas"]},
           "obs_prompt": comparable(&obs_prompt),
           "first_result": first_result.as_ref().map(res_json), "resubmit": res_json(&resubmit), "settle_errs": settle_errs,
           "pumped": [pumped1, pumped2, pumped3], "obs": obs});
    // The restarted daemon keeps working: two more commands on every CA that acknowledged one before the restart.
    // (A command key that exists already ends the process - store.rs:401-415 -, so what was found so far is written first.)
    std::fs::write("result.json", serde_json::to_string(&result(&restart_bad, "post-restart")).unwrap()).unwrap();
    for ca in &acked {
        for tag in ["post1", "post2"] {
            if let Some(roa) = comment_roa(ca, p) { if let Err(e) = comment_command(&sys, ca, &roa, tag) { restart_bad.push(format!("restarted-daemon-refuses-command: {ca} {tag}: {}", e.chars().take(160).collect::<String>())); } }
        }
    }
    for w in check_loads(&sys) { restart_bad.push(format!("after the commands of the restarted daemon: {w}")); }
    tm("post-restart");
    result(&restart_bad, "done")
}

fn pump_guarded(sys: &Sys, max: usize, wait_ms: u64) -> Value {
    match std::panic::catch_unwind(std::panic::AssertUnwindSafe(|| sys.pump(max, wait_ms))) {
        Ok(v) => json!(v.iter().map(|(_, d)| d.clone()).collect::<Vec<_>>()),
        Err(p) => json!({"fatal": p.downcast_ref::<String>().cloned().or_else(|| p.downcast_ref::<&str>().map(|s| s.to_string())).unwrap_or_default()}),
    }
}

fn worker(args: &Args) {
    let mode = args.extra.get("worker").cloned().unwrap();
    let dir = args.extra.get("dir").cloned().expect("--dir");
    std::env::set_current_dir(&dir).expect("chdir");
    std::panic::set_hook(Box::new(|_| {}));
    let seed = args.seed;
    let p = params(seed);
    let op = args.extra.get("op").cloned().unwrap_or_default();
    let out = |v: Value| { std::fs::write("result.json", serde_json::to_string(&v).unwrap()).unwrap(); };
    match mode.as_str() {
        "setup" => setup(seed),
        "prep" => prep(&args.extra.get("state").cloned().unwrap(), seed),
        "exec" => {
            // runs the operation with the probe; cut = u64::MAX: record only (the twin)
            let cut = args.get_u64("cut", u64::MAX);
            let m = match args.extra.get("mode").map(|s| s.as_str()) { Some("crash") => Mode::Crash, Some("fail") => Mode::Fail, _ => Mode::Record };
            let restart = args.get_u64("restart", 0) == 1;
            let sys = open_sys();
            // A daemon that has been running: the caches were filled at start-up and a successful command has
            // gone by since (a successful command does not refresh the cache entry, the next call replays it).
            // (state `ahead` lives on the target CA being one version behind a queued task: no command there)
            let nowarm = args.get_u64("nowarm", 0) == 1;
            for ca in ["a", p.target] { if nowarm && ca == p.target { continue } if let Some(roa) = comment_roa(ca, &p) { let _ = comment_command(&sys, ca, &roa, "warm"); } }
            let pre = facts(&sys);
            std::fs::write("pre.json", serde_json::to_string(&pre).unwrap()).unwrap();
            let probe = install_probe(m, cut);
            probe.on.store(true, Ordering::SeqCst);
            let r = run_op(&sys, &op, &p);
            probe.on.store(false, Ordering::SeqCst);
            set_probe(None);
            let n = probe.count.load(Ordering::SeqCst);
            let newc = new_commands(&sys, &pre);
            if restart {
                // the twin of the crash runs: end this runtime, a `recover` worker goes on
                out(json!({"mutations": n, "new_commands": newc, "first_result": match &r { Ok(()) => json!("ok"), Err(e) => json!({"err": e}) }}));
                drop(sys);
            } else if matches!(&r, Err(e) if e.starts_with("fatal")) {
                // the scheduler ends the daemon on this path (process::exit): go on as after a restart
                drop(sys);
                let sys = open_sys();
                let mut v = recover_and_observe(sys, &op, &p, true, Some(r));
                v["mutations"] = json!(n); v["restarted_after_fatal"] = json!(true);
                out(v);
            } else {
                let mut v = recover_and_observe(sys, &op, &p, false, Some(r));
                v["mutations"] = json!(n); v["new_commands"] = newc;
                out(v);
            }
        }
        "recover" => {
            let sys = open_sys();
            out(recover_and_observe(sys, &op, &p, true, None));
        }
        other => panic!("unknown worker mode {other}"),
    }
}

// ------------------------------------------------------------------------------------------------
// driver

fn run_worker(exe: &Path, seed: u64, dir: &Path, extra: &[(&str, String)]) -> (Option<i32>, String) {
    let mut cmd = std::process::Command::new(exe);
    cmd.arg("--seed").arg(seed.to_string()).arg("--out").arg(dir.join("wout")).arg("--dir").arg(dir);
    for (k, v) in extra { cmd.arg(format!("--{k}")).arg(v); }
    let o = cmd.output().expect("spawn worker");
    (o.status.code(), String::from_utf8_lossy(&o.stderr).chars().rev().take(600).collect::<String>().chars().rev().collect())
}

fn copy_dir(src: &Path, dst: &Path) {
    let _ = std::fs::remove_dir_all(dst);
    let st = std::process::Command::new("cp").arg("-r").arg(src).arg(dst).status().expect("cp");
    assert!(st.success(), "cp -r failed");
    let _ = std::fs::remove_file(dst.join("trace.log"));
    let _ = std::fs::remove_file(dst.join("result.json"));
}

fn read_json(p: &Path) -> Value { std::fs::read_to_string(p).ok().and_then(|s| serde_json::from_str(&s).ok()).unwrap_or(Value::Null) }

fn read_trace(p: &Path) -> Vec<Value> {
    std::fs::read_to_string(p).unwrap_or_default().lines().filter_map(|l| serde_json::from_str(l).ok()).collect()
}

#[derive(Clone)]
struct CaseOut { state: String, op: String, mode: String, n: usize, trace: Vec<Value>, prefix: Vec<Value>, res: Value, exit: String, target: String, pre: Value }

fn run_case(exe: &Path, seed: u64, out: &Path, state: &str, op: &str, mode: &str, n: Option<usize>) -> CaseOut {
    let tag = match n { Some(n) => format!("{state}-{op}-{mode}-{n}"), None => format!("{state}-{op}-{mode}-twin") };
    let d = out.join(format!("case-{tag}"));
    copy_dir(&out.join(format!("state-{state}")), &d);
    let mut extra: Vec<(&str, String)> = vec![("worker", "exec".into()), ("op", op.to_string())];
    if let Some(n) = n { extra.push(("cut", n.to_string())); extra.push(("mode", mode.to_string())); }
    if mode == "crash" { extra.push(("restart", "1".into())); }
    if state == "ahead" { extra.push(("nowarm", "1".into())); }
    let (rc, err) = run_worker(exe, seed, &d, &extra);
    let mut exit = format!("{rc:?}");
    let first = read_json(&d.join("result.json"));
    let trace = read_trace(&d.join("trace.log"));
    let pre = read_json(&d.join("pre.json"));
    let mut res = first.clone();
    if mode == "crash" {
        // the cut run must have died (rc None = killed by the abort signal); the twin ends normally
        let (rc2, err2) = run_worker(exe, seed, &d, &[("worker", "recover".into()), ("op", op.to_string())]);
        res = read_json(&d.join("result.json"));
        if n.is_none() { res["mutations"] = first["mutations"].clone(); res["first_result"] = first["first_result"].clone(); res["new_commands"] = first["new_commands"].clone(); }
        exit = format!("{rc:?}/{rc2:?}");
        if rc2 != Some(0) { res = died_or_fatal(res, format!("recover worker ended with {rc2:?}: {err2}")); }
    } else if rc != Some(0) {
        res = died_or_fatal(res, format!("worker ended with {rc:?}: {err}"));
    }
    let keep = std::env::var("KV_KEEP").is_ok();
    if !keep { let _ = std::fs::remove_dir_all(&d); }
    CaseOut { state: state.into(), op: op.into(), mode: mode.into(), n: n.unwrap_or(usize::MAX), prefix: trace.clone(), trace, res, exit, target: String::new(), pre }
}

/// A worker that ended abnormally: if it got as far as the commands of the restarted daemon, everything observed
/// up to there stands and the death is recorded with it; otherwise nothing is known but the death.
fn died_or_fatal(partial: Value, what: String) -> Value {
    if partial["stage"] == "post-restart" {
        let mut res = partial;
        res["died_post_restart"] = json!(what.clone());
        if let Some(a) = res["restart_bad"].as_array_mut() { a.push(json!(format!("restarted-daemon-died: {what}"))); }
        res
    } else { json!({"fatal": what}) }
}

/// Operations whose aggregate snapshots are written in directory order: the entity of a shape is not compared.
fn wildcard_op(op: &str) -> bool { op == "republish" || op == "update_snapshots" }

fn shapes(tr: &[Value], op: &str) -> Vec<(String, String)> {
    tr.iter().map(|t| { let mut c = t["class"].as_str().unwrap_or("").to_string(); if wildcard_op(op) { c = c.rsplitn(2, ':').last().unwrap_or("").to_string() + ":*"; } (t["store"].as_str().unwrap_or("").to_string(), c) }).collect()
}

/// Where a cut falls, from the twin's trace: index n = the first n mutations were done.
fn cut_class(tr: &[(String, String)], n: usize) -> String {
    if n >= tr.len() { return "complete".into() }
    let ent = |c: &str| c.rsplit(':').next().unwrap_or("").to_string();
    // listener write of entity E done, its command store not yet
    for i in (0..n).rev() {
        if tr[i].0 == "ca_objects" {
            let e = ent(&tr[i].1);
            let cmd = tr.iter().enumerate().position(|(j, t)| j > i && t.0 == "cas" && t.1.starts_with("store:command") && ent(&t.1) == e);
            if let Some(j) = cmd { if j >= n { return "after-listener-before-command-store".into() } }
            break;
        }
    }
    if n > 0 && tr[n - 1].0 == "tasks" && tr[n - 1].1.starts_with("delete:pending") && tr[n].0 == "tasks" && tr[n].1.starts_with("store:pending") { return "queue-delete-before-store".into() }
    if tr[n].0 == "repo" {
        if tr[n].1 == "fs-rename:rsync-tmp" && n > 0 && tr[n - 1].1 == "fs-rename:rsync-current" { return "rsync-between-renames".into() }
        if tr[n].1 == "fs-remove-dir:rsync-old" && n > 0 && tr[n - 1].1 == "fs-rename:rsync-tmp" { return "rsync-after-switch-before-remove-old".into() }
        if tr[n].1.contains("rsync") { return "rsync-write".into() }
        return "rrdp-write".into();
    }
    if tr[n].0 == "pubd_objects" && (tr[n].1.starts_with("store:snapshot") || tr[n].1.starts_with("delete:wal")) { return "wal-snapshot-update".into() }
    if n > 0 && tr[n - 1].0 == "pubd_objects" { return "after-wal-store".into() }
    if n == 0 { return "before-first-mutation".into() }
    "between-steps".into()
}

fn diff_paths(a: &Value, b: &Value, path: String, out: &mut Vec<String>) {
    if a == b { return }
    match (a, b) {
        (Value::Object(x), Value::Object(y)) => {
            let keys: BTreeSet<&String> = x.keys().chain(y.keys()).collect();
            for k in keys { diff_paths(x.get(k).unwrap_or(&Value::Null), y.get(k).unwrap_or(&Value::Null), format!("{path}/{k}"), out); }
        }
        _ => out.push(format!("{path}: {} != twin {}", a.to_string().chars().take(160).collect::<String>(), b.to_string().chars().take(160).collect::<String>())),
    }
}

// ------------------------------------------------------------------------------------------------
// Coq terms

fn ent_id(h: &str) -> u64 { match h { "ta" => 0, "a" => 1, "b" => 2, "c" => 3, "n" => 4, "px" => 5, "py" => 6, _ => 98 } }

fn task_term(name: &str) -> String {
    if let Some(ca) = name.strip_prefix("sync_repo_") { return format!("(1, {})", ent_id(ca)) }
    if let Some(rest) = name.strip_prefix("sync_") { if let Some((ca, _)) = rest.split_once("_with_parent_") { return format!("(2, {})", ent_id(ca)) } }
    if name == "update_rrdp_if_needed" { return "(3, 0)".into() }
    if let Some(rest) = name.strip_prefix("resource_class_removed_ca_") { if let Some((ca, _)) = rest.split_once("_parent_") { return format!("(4, {})", ent_id(ca)) } }
    if let Some(rest) = name.strip_prefix("unexpected_key_found_ca_") { if let Some((ca, _)) = rest.split_once('_') { return format!("(5, {})", ent_id(ca)) } }
    let id = match name { "all_cas_renew_objects_if_needed" => 1, "all_cas_republish_if_needed" => 2, "renew_testbed_ta" => 3, "update_stored_snapshots" => 4, "queue_start_tasks" => 5, "sync_ta_proxy_signer" => 6, _ => 7 };
    format!("(9, {id})")
}

fn task_name_of_key(key: &str) -> String { key.split_once('-').map(|(_, n)| n.to_string()).unwrap_or(key.to_string()) }

/// The shape term of one probe record.
fn shape_term(t: &Value, wildcard_entity: bool) -> String {
    let kind = t["kind"].as_str().unwrap_or("");
    let ent = |h: &str| if wildcard_entity { 99 } else { ent_id(h) };
    if kind.starts_with("fs-") {
        let op = match kind { "fs-create-dir" => "FCreateDir", "fs-remove-dir" => "FRemoveDir", "fs-create-file" => "FCreateFile", "fs-write" => "FWrite", "fs-remove-file" => "FRemoveFile", _ => "FRename" };
        let cls = match t["class"].as_str().unwrap_or("").rsplit(':').next().unwrap_or("") {
            "delta" => "CDelta", "snapshot" => "CSnapshot", "notification-new" => "CNotifNew", "notification" => "CNotif", "rsync-tmp" => "CRsyncTmp",
            "rsync-file" => "CRsyncFile", "rsync-current" => "CRsyncCurrent", "rsync-old" => "CRsyncOld", _ => "CRrdpOther" };
        return format!("ShFs {op} {cls}");
    }
    let ns = t["store"].as_str().unwrap_or("");
    let key = t["key"].as_str().unwrap_or("");
    let scope = t["scope"].as_str().unwrap_or("");
    match ns {
        "ca_objects" => if kind == "store" { format!("ShObjects {}", ent(key.trim_end_matches(".json"))) } else { format!("ShOther 5 {}", ent(key.trim_end_matches(".json"))) },
        "cas" => if kind != "store" { format!("ShOther 4 {}", ent(scope)) } else if key.starts_with("command-") { format!("ShCommand {}", ent(scope)) } else { format!("ShSnapshot {}", ent(scope)) },
        "status" => if kind == "store" { format!("ShStatus {}", ent(scope)) } else { format!("ShOther 6 {}", ent(scope)) },
        "pubd" => if kind == "store" && key.starts_with("command-") { "ShPubdCommand".into() } else { "ShOther 3 0".into() },
        "keys" => "ShKey".into(),
        "signers" => "ShSigner".into(),
        "pubd_objects" => if kind == "delete" { "ShWalDelete".into() } else if key.starts_with("wal-") { "ShWal".into() } else { "ShWalSnapshot".into() },
        "tasks" => {
            let tt = task_term(&task_name_of_key(key));
            match (kind, scope) {
                ("store", _) => format!("ShTaskPut {tt}"),
                ("delete", "pending") => format!("ShTaskDel {tt}"),
                ("delete", _) => format!("ShTaskFinish {tt}"),
                ("move-value", "pending") => format!("ShTaskClaim {tt}"),
                ("move-value", _) => format!("ShTaskResched {tt}"),
                _ => "ShOther 1 0".into(),
            }
        }
        _ => "ShOther 2 0".into(),
    }
}

/// Steps of the operation: every listener write that is followed by the command store of the same CA starts
/// a command step whose events come from the audit log; a command store without listener write is a rejected
/// command; everything else is a single mutation.
fn steps_terms(trace: &[Value], new_commands: &Value, wildcard_entity: bool, n_parents: &BTreeMap<String, usize>) -> Vec<String> {
    let mut steps = Vec::new();
    let mut next: BTreeMap<String, usize> = BTreeMap::new();
    let is = |t: &Value, store: &str| t["store"].as_str() == Some(store);
    let mut i = 0;
    while i < trace.len() {
        let t = &trace[i];
        if is(t, "ca_objects") && t["kind"] == "store" {
            let h = t["key"].as_str().unwrap_or("").trim_end_matches(".json").to_string();
            // the command store of h before the next listener write?
            let mut j = i + 1; let mut found = None;
            while j < trace.len() { if is(&trace[j], "ca_objects") { break } if is(&trace[j], "cas") && trace[j]["scope"].as_str() == Some(&h) && trace[j]["key"].as_str().unwrap_or("").starts_with("command-") { found = Some(j); break } j += 1; }
            if let Some(j) = found {
                let k = *next.get(&h).unwrap_or(&0); next.insert(h.clone(), k + 1);
                let cmd = &new_commands[&h][k];
                let evs: Vec<String> = cmd.as_array().map(|a| a.iter().map(|e| format!("(\"{}\"%string, {})", e[0].as_str().unwrap_or("?"), { let c = e[1].as_str().unwrap_or(""); if e[0] == "RepoUpdated" { *n_parents.get(&h).unwrap_or(&0) as u64 } else if c.is_empty() { 0 } else { ent_id(c) } })).collect()).unwrap_or_default();
                let children: Vec<String> = cmd.as_array().map(|a| a.iter().filter_map(|e| e[1].as_str().filter(|c| !c.is_empty()).map(|c| c.to_string())).collect()).unwrap_or_default();
                steps.push(format!("CCmd {} {}", ent_id(&h), coq_list(&evs)));
                // skip through the command store and the post-save task writes (parent syncs of the children named by the events)
                i = j + 1;
                while i < trace.len() && is(&trace[i], "tasks") {
                    let name = task_name_of_key(trace[i]["key"].as_str().unwrap_or(""));
                    if children.iter().any(|c| name == format!("sync_{c}_with_parent_{h}")) { i += 1 } else { break }
                }
                continue;
            }
        }
        if is(t, "cas") && t["key"].as_str().unwrap_or("").starts_with("command-") {
            let h = t["scope"].as_str().unwrap_or("").to_string();
            let k = *next.get(&h).unwrap_or(&0); next.insert(h.clone(), k + 1);
            if new_commands[&h][k] == "error" { steps.push(format!("CCmdErr {}", ent_id(&h))); i += 1; continue }
            // (an initialisation command - command-0 - has no listener write: a single mutation)
        }
        steps.push(format!("CPrim ({})", shape_term(t, wildcard_entity)));
        i += 1;
    }
    steps
}

fn wal_term(w: &Value) -> String {
    format!("(mkWal {} {})", w["snapshot"].as_u64().unwrap_or(0), coq_list(&w["sets"].as_array().map(|a| a.iter().map(|x| x.as_u64().unwrap_or(0).to_string()).collect::<Vec<_>>()).unwrap_or_default()))
}

fn kind_term(state: &str, op: &str, twin: &CaseOut, pre: &Value, c: &CaseOut) -> String {
    // the files of the tree right after the operation, counted in the directory (not in the trace)
    let n_files = twin.res["at_cut"]["rsync_files"].as_u64().unwrap_or(0);
    let hc = pre["has_current"].as_bool().unwrap_or(false);
    let ho = pre["has_old"].as_bool().unwrap_or(false);
    // a temporary directory of the serial that is written now, left by an interrupted write
    let ht = pre["tmp_dirs"].as_array().map(|a| a.iter().any(|d| d.as_str() == Some(&format!("tmp-{}", twin.res["at_cut"]["content_serial"].as_u64().unwrap_or(0))))).unwrap_or(false);
    let nd = twin.res["at_cut"]["content_serial"].as_u64().unwrap_or(0).saturating_sub(pre["notification_serial"].as_u64().unwrap_or(0));
    // the clean-up after the notification switch depends on which old files / serial directories exist: taken as observed
    let cleanup: Vec<String> = twin.trace.iter().filter(|t| t["class"].as_str().map(|c| c.ends_with(":rrdp-dir")).unwrap_or(false)).map(|t| (t["kind"] == "fs-remove-dir").to_string()).collect();
    let rrdp = format!("(KRrdpUpdate {nd}%nat {} {n_files}%nat {hc} {ho} {ht})", coq_list(&cleanup));
    match (state, op) {
        (_, "keyroll_init") => "KKeyrollInit".into(),
        (_, "update_snapshots") => format!("(KUpdateSnapshots {} {})", wal_term(&pre["wal"]), wal_term(&c.res["at_cut"]["wal"])),
        (_, "remove_publisher") => "KRemovePublisher".into(),
        (_, "create_publisher") => "KCreatePublisher".into(),
        (_, "delete_ca") | (_, "delete_ca_parent") | (_, "init_ca") | (_, "update_repo") | (_, "parent_remove") | (_, "child_remove") => "KGeneric".into(),
        (_, "sync_parent") => "KSyncParent".into(),
        (_, "republish") => "KRepublish".into(),
        (_, "sync_repo") => "KSyncRepo".into(),
        (_, "rrdp_update") => rrdp,
        (_, "rsync_write") => format!("(KRsyncWrite {n_files}%nat {hc} {ho} {ht})"),
        ("dirty", "task") => "(KTask KSyncRepo)".into(),
        ("ahead", "task") => "(KTask KIdle)".into(),
        ("staged", "task") => format!("(KTask {rrdp})"),
        _ => "KCommand".into(),
    }
}

/// What went wrong, as a small closed vocabulary (the `symptom` of the failing record's class).
fn symptom(c: &CaseOut, twin: &CaseOut, converged: bool, tasks_kept: bool) -> (u64, &'static str) {
    let mut errs: Vec<String> = c.res["settle_errs"].as_array().map(|a| a.iter().map(|x| x.as_str().unwrap_or("").to_string()).collect()).unwrap_or_default();
    errs.push(c.res["resubmit"]["err"].as_str().unwrap_or("").to_string());
    let has = |pat: &str| errs.iter().any(|e| e.contains(pat));
    let keys = |r: &Value, ca: &str| r["obs"]["cas"][ca]["classes"][0]["keys"].as_str().unwrap_or("").to_string();
    let p = params_target(c);
    // repaired by e1f99c61: must not occur any more, so it is not an excusable class (candidate number 0)
    if has("Could not rename current rsync dir") { return (0, "rsync-old-dir-blocks-writes") }
    if c.op == "keyroll_activate" && has("wrong key state") && keys(&c.res, p) == "roll_new" { return (2, "keyroll-activate-wedged") }
    if c.op == "sync_parent" && has("No issued cert matching pub key") && keys(&c.res, p) == "roll_old" { return (3, "revoke-not-retryable") }
    if !converged && c.op == "sync_parent" && c.state == "rollpending" && keys(&c.res, p) == "active" && keys(&twin.res, p) == "roll_new" { return (5, "keyroll-abandoned-class-dropped") }
    if converged && !tasks_kept && c.mode == "fail" { return (6, "recurring-task-lost") }
    // divergences of the two-store / composite operations (new candidate classes, numbers from 20)
    if !converged {
        let mut d = Vec::new();
        diff_paths(&comparable(&c.res["obs"]), &comparable(&twin.res["obs"]), String::new(), &mut d);
        let paths: Vec<String> = d.iter().map(|x| x.split(':').next().unwrap_or("").to_string()).collect();
        let t = params_target(c);
        let gone = if c.op == "delete_ca_parent" { "a" } else { t };
        let all = |pred: &dyn Fn(&str) -> bool| !paths.is_empty() && paths.iter().all(|p| pred(p));
        if c.op == "create_publisher" && has("Duplicate publisher") && all(&|p| p == "/stores/content_publishers" || p == "/repo/py") { return (20, "publisher-half-created") }
        if ["delete_ca", "delete_ca_parent"].contains(&c.op.as_str()) {
            if all(&|p| p == format!("/objects/{gone}") || p == "/stores/ca_objects_keys" || p == "/stores/status_scopes") { return (23, "deleted-ca-leftover-stores") }
            if c.mode == "fail" && all(&|p| p == format!("/repo/{gone}") || p == "/rsync" || p == "/stores/content_publishers") { return (22, "deleted-ca-objects-left-in-repository") }
        }
        // the parent of the CA that goes away (or drops the parent) still publishes its certificate
        let par = if c.op == "delete_ca_parent" { "ta" } else { "a" };
        if ["delete_ca", "delete_ca_parent", "parent_remove"].contains(&c.op.as_str()) && c.mode == "fail" && c.res["first_result"] == "ok"
            && paths.iter().any(|p| p == &format!("/repo/{par}") || p.starts_with(&format!("/cas/{par}/"))) && all(&|p| p.starts_with(&format!("/cas/{par}/")) || p == &format!("/objects/{par}") || p == &format!("/repo/{par}") || p == "/rsync") { return (21, "revocation-at-parent-skipped") }
    }
    if !converged || !tasks_kept { return (0, "diverged") }
    (0, "none")
}

fn params_target(c: &CaseOut) -> &'static str { if c.target == "b" { "b" } else { "c" } }

fn main() {
    let args = Args::parse("c08");
    if args.extra.contains_key("worker") { worker(&args); return }
    let exe = std::env::current_exe().unwrap();
    let out = std::fs::canonicalize(&args.out).unwrap();
    let seed = args.seed;
    let strict = args.get_u64("strict", 0) == 1;
    let strict_atomic = args.get_u64("strict-atomic", 0) == 1;
    // candidate classes found after the known-findings list was fixed (numbers from 20): reported, counted only on request
    let strict_new = args.get_u64("strict-new", 0) == 1;
    let target = params(seed).target;
    let t0 = std::time::Instant::now();
    let base = out.join("base");
    std::fs::create_dir_all(&base).unwrap();
    let (rc, err) = run_worker(&exe, seed, &base, &[("worker", "setup".into())]);
    assert!(rc == Some(0), "setup failed: {err}");
    eprintln!("setup {:?}", t0.elapsed());
    let quick: Vec<(&str, &str)> = vec![("base", "roa_add"), ("base", "entitlement"), ("rollpending", "sync_parent"), ("rollnew", "keyroll_activate"), ("dirty", "task"), ("ahead", "task"), ("staged", "rrdp_update"), ("oldleft", "rsync_write"),
        ("base", "remove_publisher"), ("pxstaged", "remove_publisher"), ("base", "create_publisher"), ("base", "delete_ca"),
        ("pxstaged", "update_snapshots"), ("base", "roa_reject")];
    let all: Vec<(&str, &str)> = vec![("base", "roa_add"), ("base", "aspa_add"), ("base", "entitlement"), ("ent", "sync_parent"), ("base", "keyroll_init"), ("rollpending", "sync_parent"),
        ("rollnew", "keyroll_activate"), ("rollold", "sync_parent"), ("dirty", "task"), ("dirty", "sync_repo"), ("dirty", "roa_add2"), ("staged", "rrdp_update"), ("staged", "rsync_write"), ("base", "republish"), ("staged", "task"),
        ("rollnew", "roa_add"), ("rollold", "roa_add"), ("rollpending", "roa_add"), ("rollnew", "entitlement"), ("ent", "roa_add"), ("ahead", "task"), ("oldleft", "rsync_write"), ("tmpleft", "rsync_write"),
        ("base", "remove_publisher"), ("pxstaged", "remove_publisher"), ("base", "create_publisher"), ("base", "delete_ca"), ("base", "delete_ca_parent"),
        ("base", "init_ca"), ("newca", "update_repo"), ("base", "parent_remove"), ("base", "child_remove"),
        ("pxstaged", "update_snapshots"), ("staged", "update_snapshots"), ("base", "roa_reject"), ("rollnew", "roa_reject")];
    let plan: Vec<(&str, &str)> = match args.extra.get("plan").map(|s| s.as_str()) {
        Some("all") => all.clone(),
        Some(p) if p.contains('/') => p.split(',').map(|x| { let (a, b) = x.split_once('/').unwrap(); *all.iter().find(|(s, o)| *s == a && *o == b).expect("unknown state/op") }).collect(),
        _ => if args.thorough() { all.clone() } else { quick.clone() },
    };
    let states: BTreeSet<&str> = plan.iter().map(|(s, _)| *s).collect();
    std::thread::scope(|sc| {
        for st in &states {
            let (exe, out, base) = (&exe, &out, &base);
            sc.spawn(move || {
                let d = out.join(format!("state-{st}"));
                copy_dir(base, &d);
                let (rc, err) = run_worker(exe, seed, &d, &[("worker", "prep".into()), ("state", st.to_string())]);
                assert!(rc == Some(0), "prep {st} failed: {err}");
            });
        }
    });
    eprintln!("states {:?}", t0.elapsed());
    // twins first (they give the trace length), then every cut in both modes
    let jobs = args.get_u64("jobs", 12) as usize;
    let run_many = |todo: &Vec<(String, String, String, Option<usize>)>| -> Vec<CaseOut> {
        let next = AtomicU64::new(0);
        let res = Mutex::new(Vec::new());
        std::thread::scope(|sc| { for _ in 0..jobs { sc.spawn(|| loop {
            let i = next.fetch_add(1, Ordering::SeqCst) as usize; if i >= todo.len() { break }
            let (s, o, m, n) = &todo[i];
            let mut c = run_case(&exe, seed, &out, s, o, m, *n);
            c.target = target.to_string();
            res.lock().unwrap().push((i, c));
        }); } });
        let mut v = res.into_inner().unwrap(); v.sort_by_key(|x| x.0); v.into_iter().map(|x| x.1).collect()
    };
    let twins = run_many(&plan.iter().flat_map(|(s, o)| vec![(s.to_string(), o.to_string(), "fail".to_string(), None), (s.to_string(), o.to_string(), "crash".to_string(), None)]).collect());
    eprintln!("twins {:?}", t0.elapsed());
    let mut todo: Vec<(String, String, String, Option<usize>)> = Vec::new();
    for t in &twins { for n in 0..t.trace.len() { todo.push((t.state.clone(), t.op.clone(), t.mode.clone(), Some(n))); } }
    let cases = run_many(&todo);
    eprintln!("cuts {:?} ({} cases)", t0.elapsed(), cases.len());

    let header = "From Coq Require Import String.\nFrom KV Require Import base.Tac crash.Crash crash.CrashCheck.\nOpen Scope list_scope.\nOpen Scope N_scope.";
    let evals = args.extra.get("evals").cloned().unwrap_or("agrees,c08_ok".into());
    let footer: String = evals.split(',').map(|e| format!("Eval vm_compute in (failing {e} base_index cases).")).collect::<Vec<_>>().join("\n");
    let mut w = CaseWriter::new(&args.out, header, "list case", &footer, 40);
    let mut jsonl = std::fs::File::create(args.out.join("cases.jsonl")).unwrap();
    let mut cut_hist: BTreeMap<String, u64> = BTreeMap::new();
    let mut sym_hist: BTreeMap<String, u64> = BTreeMap::new();
    let mut op_hist: BTreeMap<String, u64> = BTreeMap::new();
    let mut delayed_hist: BTreeMap<String, u64> = BTreeMap::new();
    let mut candidates: Vec<Value> = Vec::new();
    let mut atomic_cases: Vec<Value> = Vec::new();
    let mut traces: BTreeMap<String, Value> = BTreeMap::new();
    let mut distinct: BTreeSet<String> = BTreeSet::new();
    let mut samples: Vec<Value> = Vec::new();
    let verbose = std::env::var("KV_VERBOSE").is_ok();
    for c in &cases {
        let twin = twins.iter().find(|t| t.state == c.state && t.op == c.op && t.mode == c.mode).unwrap();
        let pre = c.pre.clone();
        let wild = wildcard_op(&c.op);
        let tsh = shapes(&twin.trace, &c.op);
        let cls = cut_class(&tsh, c.n);
        let fatal = !c.res["fatal"].is_null();
        // comparison with the twin
        let mut diffs = Vec::new();
        diff_paths(&comparable(&c.res["obs"]), &comparable(&twin.res["obs"]), String::new(), &mut diffs);
        let mut d_prompt = Vec::new();
        diff_paths(&c.res["obs_prompt"], &twin.res["obs_prompt"], String::new(), &mut d_prompt);
        // errors of the periodic work: the same ones as in the fault-free run (e.g. the sync of a CA whose publisher
        // the operation removed), compared without the variable parts
        let canon_errs = |r: &Value| -> Vec<String> { let mut v: Vec<String> = r["settle_errs"].as_array().map(|a| a.iter().map(|x| canon_name(&x.as_str().unwrap_or("").chars().take(90).collect::<String>())).collect()).unwrap_or_default(); v.sort(); v };
        let converged = !fatal && diffs.is_empty() && canon_errs(&c.res) == canon_errs(&twin.res);
        let t_tasks: BTreeSet<String> = twin.res["obs"]["tasks"].as_array().map(|a| a.iter().map(|x| x.as_str().unwrap_or("").to_string()).collect()).unwrap_or_default();
        let c_tasks: BTreeSet<String> = c.res["obs"]["tasks"].as_array().map(|a| a.iter().map(|x| x.as_str().unwrap_or("").to_string()).collect()).unwrap_or_default();
        let lost: Vec<String> = t_tasks.difference(&c_tasks).cloned().collect();
        let tasks_kept = lost.is_empty();
        let (cand, sym) = symptom(c, twin, converged, tasks_kept);
        let strict = if cand >= 20 { strict_new } else { strict };
        // facts right after the cut
        let mut new_cmds = Vec::new(); let mut shrank = false; let mut objs_changed = Vec::new();
        for h in CA_ALL {
            let (v0, v1) = (pre["versions"][h].as_u64().unwrap_or(0), c.res["at_cut"]["versions"][h].as_u64().unwrap_or(0));
            if v1 < v0 && v1 != 0 { shrank = true }      // (v1 = 0: the entity was deleted as a whole)
            if v1 > v0 { new_cmds.push(format!("({}, {})", if wild { 99 } else { ent_id(h) }, v1 - v0)); }
            if c.res["at_cut"]["objects"][h] != pre["objects"][h] { objs_changed.push(if wild { 99 } else { ent_id(h) }.to_string()); }
        }
        objs_changed.dedup();
        let empty = |v: &Value| v.as_array().map(|a| a.is_empty()).unwrap_or(false);
        let strs = |v: &Value| -> Vec<String> { v.as_array().map(|a| a.iter().map(|x| x.as_str().unwrap_or("").to_string()).collect()).unwrap_or_default() };
        let live_ok = !fatal && empty(&c.res["live_bad"]);
        let restart_ok = !fatal && empty(&c.res["restart_bad"]);
        let all_load_msgs: Vec<String> = [strs(&c.res["loads_bad"]), strs(&c.res["loads_bad_final"])].concat();
        let gap = all_load_msgs.iter().any(|m| m.starts_with("version-gap") || m.contains("missing below version") || m.contains("exists at the loaded version"));
        let lost_by_restart = strs(&c.res["restart_bad"]).iter().any(|m| m.starts_with("acknowledged-command-lost"));
        let loads = !fatal && !shrank && all_load_msgs.is_empty() && live_ok && restart_ok;
        let rp_ok = !fatal && empty(&c.res["obs"]["signed_bad"]) && empty(&c.res["obs"]["files_bad"]) && empty(&c.res["obs_pump"]["signed_bad"]) && empty(&c.res["obs_pump"]["files_bad"]);
        let acked = c.mode == "fail" && c.res["first_result"] == "ok";
        // atomicity right after the cut: a published-object store that moved without its command
        let atomic_broken = ["a", "b", "c"].iter().any(|h| c.res["at_cut"]["objects"][*h] != pre["objects"][*h] && c.res["at_cut"]["versions"][*h] == pre["versions"][*h]
            && twin.trace.iter().any(|t| t["store"] == "cas" && t["scope"].as_str() == Some(*h) && t["key"].as_str().unwrap_or("").starts_with("command-")));
        // terms
        let pend0: Vec<String> = pre["tasks"].as_array().map(|a| a.iter().filter_map(|x| x.as_str().and_then(|s| s.strip_prefix("pending:")).map(task_term)).collect()).unwrap_or_default();
        let run0: Vec<String> = pre["tasks"].as_array().map(|a| a.iter().filter_map(|x| x.as_str().and_then(|s| s.strip_prefix("running:")).map(task_term)).collect()).unwrap_or_default();
        let n_parents: BTreeMap<String, usize> = ["a", "b", "c", "n"].iter().map(|h| (h.to_string(), twin.res["obs"]["cas"][*h]["parents"].as_array().map(|a| a.len()).unwrap_or(0))).collect();
        let steps = steps_terms(&twin.trace, &twin.res["new_commands"], wild, &n_parents);
        let trace_t: Vec<String> = twin.trace.iter().map(|t| shape_term(t, wild)).collect();
        let prefix_t: Vec<String> = c.prefix.iter().take(c.n).map(|t| shape_term(t, wild)).collect();
        let kind = kind_term(&c.state, &c.op, twin, &pre, c);
        let term = format!("mkCase {kind} {} {}%nat {} {} {} {} {} {} {} {acked} {loads} {rp_ok} {converged} {tasks_kept} {cand} {strict} {strict_atomic}",
            if c.mode == "crash" { "Crash" } else { "Fail" }, c.n, coq_list(&pend0), coq_list(&run0),
            coq_list(&steps.iter().map(|s| format!("({s})")).collect::<Vec<_>>()),
            coq_list(&trace_t.iter().map(|s| format!("({s})")).collect::<Vec<_>>()), coq_list(&prefix_t.iter().map(|s| format!("({s})")).collect::<Vec<_>>()),
            coq_list(&new_cmds), coq_list(&objs_changed));
        // class of the record (what a known finding is matched against)
        let only_atomic = loads && rp_ok && converged && tasks_kept && atomic_broken;
        // acknowledged (failed-write mode, the call returned Ok): every command store of the trace must be in the logs
        let single_command = ["roa_add", "roa_add2", "aspa_add", "entitlement", "keyroll_activate", "keyroll_init"].contains(&c.op.as_str());
        let ack_lost = acked && single_command && ["a", "b", "c"].iter().any(|h| {
            let want = twin.trace.iter().filter(|t| t["store"] == "cas" && t["scope"].as_str() == Some(*h) && t["key"].as_str().unwrap_or("").starts_with("command-")).count() as u64;
            c.res["at_cut"]["versions"][*h].as_u64().unwrap_or(0) < pre["versions"][*h].as_u64().unwrap_or(0) + want });
        // the change-set store right after the cut loads less than what was acknowledged before the operation, or the
        // object the publisher px had published (acknowledged) is not in the repository content at the end
        let wal_lost = c.op == "update_snapshots" && !fatal && c.res["at_cut"]["wal"]["loaded"].as_u64().unwrap_or(0) < pre["wal"]["loaded"].as_u64().unwrap_or(0);
        let px_lost = c.state == "pxstaged" && c.op == "update_snapshots" && !fatal
            && !c.res["obs"]["repo"]["px"].as_array().map(|a| a.iter().any(|u| u.as_str().unwrap_or("").ends_with(PX_ACKED_OBJECT))).unwrap_or(false);
        let died = fatal || !c.res["died_post_restart"].is_null();
        let sym_name = if died { "daemon-died" } else if wal_lost || px_lost { "acknowledged-publication-lost" } else if !live_ok { "live-state-ahead-of-log" } else if gap { "version-gap" } else if ack_lost || lost_by_restart { "acknowledged-command-lost" }
            else if !restart_ok { "restart-changes-state" } else if !loads { "does-not-load" } else if !rp_ok { "published-set-invalid" }
            else if sym != "none" { sym } else if only_atomic { "objects-ahead-of-log" } else { "none" };
        // with strict = 0 a candidate divergence is excused, so the only clause such a record can fail is atomicity
        let class_sym = if !strict && cand != 0 && atomic_broken { "objects-ahead-of-log" } else { sym_name };
        let mut class = json!({"op": c.op, "state": c.state, "mode": c.mode, "cut_class": cls, "symptom": class_sym, "observed": sym_name});
        if sym_name == "rsync-old-dir-blocks-writes" { class["rsync_old_dir"] = json!(true); }
        let rec = json!({"index": w.total, "state": c.state, "op": c.op, "target": c.target, "mode": c.mode, "cut": c.n, "of": twin.trace.len(), "class": class,
            "trace": twin.trace.iter().map(|t| format!("{} {}", t["store"].as_str().unwrap_or(""), t["class"].as_str().unwrap_or(""))).collect::<Vec<_>>(),
            "interrupted_mutation": twin.trace.get(c.n).map(|t| format!("{} {}", t["store"].as_str().unwrap_or(""), t["class"].as_str().unwrap_or(""))),
            "first_result": c.res["first_result"], "resubmit": c.res["resubmit"], "settle_errs": c.res["settle_errs"], "loads_bad": all_load_msgs, "live_vs_log": c.res["live_bad"], "restart": c.res["restart_bad"], "fatal": c.res["fatal"],
            "content_store_before": pre["wal"], "content_store_at_cut": c.res["at_cut"]["wal"], "content_of_px_at_the_end": c.res["obs"]["repo"]["px"],
            "new_commands_at_cut": new_cmds, "objects_changed_at_cut": objs_changed, "atomic_alike_broken": atomic_broken,
            "roas_published_without_logged_command_after_restart_and_tasks": c.res["obs_pump"]["orphan_roas"], "orphan_roas_at_the_end": c.res["obs"]["orphan_roas"],
            "converged": converged, "converged_promptly": d_prompt.is_empty(), "lost_tasks": lost, "diff_vs_twin": diffs.iter().take(6).collect::<Vec<_>>(), "exit": c.exit});
        writeln!(jsonl, "{rec}").unwrap();
        *cut_hist.entry(cls.clone()).or_default() += 1;
        *sym_hist.entry(sym_name.to_string()).or_default() += 1;
        *op_hist.entry(format!("{}/{}", c.state, c.op)).or_default() += 1;
        if converged && !d_prompt.is_empty() { *delayed_hist.entry(format!("{}/{} {}", c.state, c.op, cls)).or_default() += 1; }
        if cand != 0 || sym == "diverged" || sym == "rsync-old-dir-blocks-writes" || !loads || ack_lost || !rp_ok || wal_lost || px_lost || died { if candidates.len() < 60 { candidates.push(rec.clone()); } }
        if atomic_broken && atomic_cases.len() < 12 { atomic_cases.push(json!({"index": w.total, "op": c.op, "state": c.state, "mode": c.mode, "cut": c.n, "objects_changed": objs_changed, "new_commands": new_cmds,
            "roas_published_without_logged_command_after_restart_and_tasks": c.res["obs_pump"]["orphan_roas"], "orphan_roas_at_the_end": c.res["obs"]["orphan_roas"]})); }
        traces.entry(format!("{}/{}", c.state, c.op)).or_insert_with(|| json!(twin.trace.iter().map(|t| format!("{} {}", t["store"].as_str().unwrap_or(""), t["class"].as_str().unwrap_or(""))).collect::<Vec<_>>()));
        distinct.insert(format!("{}|{}|{}|{}", c.state, c.op, c.mode, c.n));
        if samples.len() < 4 && (w.total % 29 == 5) { samples.push(rec.clone()); }
        if verbose || sym == "diverged" || sym == "rsync-old-dir-blocks-writes" || !loads || ack_lost || !rp_ok || wal_lost || px_lost || died {
            println!("{}/{} {} n={} [{}] {} loads {} rp {} converged {} prompt {} lost {:?} resubmit {}", c.state, c.op, c.mode, c.n, cls, sym_name, loads, rp_ok, converged, d_prompt.is_empty(), lost, c.res["resubmit"].to_string().chars().take(100).collect::<String>());
            for d in diffs.iter().take(5) { println!("      diff {d}"); }
            if fatal { println!("      fatal {}", c.res["fatal"]); }
        }
        w.push(term);
    }
    w.flush();
    let excusable = ["keyroll-activate-wedged", "revoke-not-retryable", "keyroll-abandoned-class-dropped", "recurring-task-lost"];
    let excusable_new = ["publisher-half-created", "revocation-at-parent-skipped", "deleted-ca-objects-left-in-repository", "deleted-ca-leftover-stores"];
    for (k, v) in &sym_hist {
        if k == "none" { continue }
        let counted = if k == "objects-ahead-of-log" { strict_atomic } else if excusable.contains(&k.as_str()) { strict } else if excusable_new.contains(&k.as_str()) { strict_new } else { true };
        println!("{} {k}: {v} case(s){}", if counted { "FAILING-CLASS" } else { "CANDIDATE-FINDING-CLASS" }, if counted { "" } else { " (reported in the evidence, not counted: strict flag is 0)" });
    }
    write_json(&args.out.join("stats.json"), &json!({
        "scenario": "c08", "seed": seed, "tier": args.tier, "target_ca": target, "strict": strict, "strict_atomic": strict_atomic, "strict_new": strict_new,
        "evaluations": w.total, "distinct_nontrivial": distinct.len(),
        "rule": "TA->a->{b,c} on disk storage, set up once, copied per case; seed picks the target CA (b|c), prefixes, ASNs; states: base, dirty (ROA added, tasks pending), staged (delta staged at the publication server), ent (entitlement shrunk, not synced), rollpending/rollnew/rollold (key roll stages); for each (state, operation kind) the crash-free twin gives the mutation trace; then EVERY cut index n of it is run in a worker subprocess in crash mode (process aborted right before mutation n, fresh runtime on the surviving directory, start-up tasks) and in failed-write mode (mutation n fails once, same runtime; a fatal scheduler error is followed by a restart): loads, pump, resubmit, pump, periodic work (parent syncs, re-publication, repository syncs, RRDP/rsync write), observation; non-trivial = every case (each is a distinct (state, op, mode, cut)); canonicalisation: key identifiers -> KEY, own class names -> RC, serials/times/manifest numbers/revocation counts not compared",
        "operation_distribution": op_hist, "cut_class_distribution": cut_hist, "symptom_distribution": sym_hist, "delayed_until_periodic_work_distribution": delayed_hist,
        "mutation_traces": traces, "atomic_alike_broken_cases": atomic_cases, "candidate_findings": candidates, "samples": samples,
        "scenario_wall_s": t0.elapsed().as_secs_f64(),
    }));
    println!("c08: {} cases ({} operation kinds x every cut x 2 modes) in {:?}", w.total, plan.len(), t0.elapsed());
}
