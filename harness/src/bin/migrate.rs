//! C04 (repository migration rides on the key roll): a CA ("d") with TWO resource classes (parents "a" and "b"), ROAs in
//! both and a child certificate in one is migrated between three publishers of the embedded publication server while
//! parent synchronisations, activations, ROA changes, further migrations, parent removal / re-addition and plain key
//! rolls are interleaved at random. After every operation the stored `CaObjects` / `CertAuth` of the CA are abstracted
//! to the state of coq/ca/Migrate.v, the repository synchronisation is run and the live content of the three publishers
//! is compared with what the key sets should have there. Cases are checked in Coq (coq/ca/MigrateCheck.v).
//!
//! The local short-cut of `CaManager::send_rfc8181_and_validate_response` always addresses the publisher that is named
//! like the CA, so the second and third publisher ("d2", "d3", registered with the CA's own ID certificate) are reached
//! the way a remote server is: signed CMS over HTTP to a small front in this process that hands the bytes to
//! `RepositoryManager::rfc8181` of the same runtime.
//!
//! Two schedules that once broke the real code (findings F04d, F04e, repaired in /repo c6a66d92 and 1c1bdf32) are part
//! of every run: the parent changes the CA's entitlement while a migration is in progress (the still active key, which
//! publishes at the old repository, gets a new certificate - its SIA must keep naming the old repository), and a
//! migration goes back to a repository that still waits for its clean-up (it must come off the deprecated list).
//! `--entitle 0` / `--stale 0` switch them off.
use std::collections::{BTreeMap, BTreeSet};
use std::io::{Read, Write};
use std::sync::Mutex;

use base64::Engine;
use kvh::caobs::*;
use kvh::caops::*;
use kvh::sys::*;
use kvh::util::{coq_list, write_json, Args, CaseWriter, Rng};
use krill::api::admin::RepositoryContact;
use krill::commons::storage::Ident;
use krill::constants::{CASERVER_NS, CA_OBJECTS_NS};
use krill::server::runtime::KrillRuntime;
use serde_json::{json, Value};

const CA: &str = "d";
const PUBS: [&str; 3] = ["d", "d2", "d3"];
const REPO_PREFIX: &str = "rsync://localhost/repo/";

// ---------------------------------------------------------------------------------------------- HTTP front

fn find(hay: &[u8], needle: &[u8]) -> Option<usize> { hay.windows(needle.len()).position(|w| w == needle) }

fn serve_one(mut s: std::net::TcpStream, krill: &KrillRuntime) {
    let _ = s.set_read_timeout(Some(std::time::Duration::from_secs(20)));
    let mut buf: Vec<u8> = Vec::new();
    let mut tmp = [0u8; 16384];
    let head_end = loop {
        if let Some(i) = find(&buf, b"\r\n\r\n") { break i + 4 }
        match s.read(&mut tmp) { Ok(0) | Err(_) => return, Ok(n) => buf.extend_from_slice(&tmp[..n]) }
    };
    let head = String::from_utf8_lossy(&buf[..head_end]).to_string();
    let path = head.lines().next().and_then(|l| l.split_whitespace().nth(1)).unwrap_or("").to_string();
    let len: usize = head.lines().find_map(|l| { let (k, v) = l.split_once(':')?; if k.eq_ignore_ascii_case("content-length") { v.trim().parse().ok() } else { None } }).unwrap_or(0);
    while buf.len() < head_end + len {
        match s.read(&mut tmp) { Ok(0) | Err(_) => return, Ok(n) => buf.extend_from_slice(&tmp[..n]) }
    }
    let body = bytes::Bytes::copy_from_slice(&buf[head_end..head_end + len]);
    let publisher = path.trim_end_matches('/').rsplit('/').next().unwrap_or("").to_string();
    let (status, out): (&str, Vec<u8>) = match std::panic::catch_unwind(std::panic::AssertUnwindSafe(|| krill.repo_manager().rfc8181(publisher_handle(&publisher), body, krill))) {
        Ok(Ok(b)) => ("200 OK", b.to_vec()),
        Ok(Err(e)) => ("400 Bad Request", e.to_string().into_bytes()),
        Err(_) => ("500 Internal Server Error", b"panic".to_vec()),
    };
    let _ = write!(s, "HTTP/1.1 {status}\r\nContent-Type: application/rpki-publication\r\nContent-Length: {}\r\nConnection: close\r\n\r\n", out.len());
    let _ = s.write_all(&out);
    let _ = s.flush();
}

/// RFC 8181 over plain HTTP for the publishers that the local short-cut cannot address. Returns the port.
fn spawn_front(krill: KrillRuntime) -> u16 {
    let l = std::net::TcpListener::bind(("127.0.0.1", 0)).expect("bind");
    let port = l.local_addr().unwrap().port();
    std::thread::spawn(move || {
        for conn in l.incoming() {
            let Ok(conn) = conn else { continue };
            let k = krill.clone();
            std::thread::spawn(move || serve_one(conn, &k));
        }
    });
    port
}

// ---------------------------------------------------------------------------------------------- observation

#[derive(Clone, Debug, PartialEq)]
struct KSet { old: Option<u64>, at: u64, key: String, files: Vec<(String, Vec<u8>)> }
#[derive(Clone, Debug, PartialEq)]
enum CState { Pend(u64), Cur(Option<u64>, KSet), Stg(KSet, KSet), Old(KSet, KSet) }
#[derive(Clone, Debug, PartialEq)]
struct MState { repo: u64, classes: BTreeMap<u64, CState>, depr: Vec<u64> }

impl KSet { fn term(&self) -> String { format!("(mkSet {} {})", match self.old { Some(r) => format!("(Some {r})"), None => "None".into() }, self.at) } }
impl CState {
    fn term(&self) -> String {
        match self {
            CState::Pend(r) => format!("MPend {r}"),
            CState::Cur(p, c) => format!("MCur {} {}", match p { Some(r) => format!("(Some {r})"), None => "None".into() }, c.term()),
            CState::Stg(s, c) => format!("MStg {} {}", s.term(), c.term()),
            CState::Old(c, o) => format!("MOld {} {}", c.term(), o.term()),
        }
    }
    fn tag(&self) -> &'static str { match self { CState::Pend(_) => "pend", CState::Cur(None, _) => "cur", CState::Cur(Some(_), _) => "cur+pending", CState::Stg(..) => "stg", CState::Old(..) => "old" } }
    fn sets(&self) -> Vec<&KSet> { match self { CState::Pend(_) => vec![], CState::Cur(_, c) => vec![c], CState::Stg(s, c) => vec![s, c], CState::Old(c, o) => vec![c, o] } }
}
impl MState {
    fn term(&self) -> String {
        format!("(mkM {} {} {})", self.repo, coq_list(&self.classes.iter().map(|(c, s)| format!("({c}, {})", s.term())).collect::<Vec<_>>()), coq_list(&self.depr.iter().map(|r| r.to_string()).collect::<Vec<_>>()))
    }
    fn summary(&self) -> Value {
        json!({"repo": PUBS[self.repo as usize], "deprecated": self.depr.iter().map(|r| PUBS[*r as usize]).collect::<Vec<_>>(),
               "classes": self.classes.iter().map(|(c, s)| (c.to_string(), json!({"state": s.tag(), "sets": s.sets().iter().map(|k| json!({"old_repo": k.old.map(|r| PUBS[r as usize]), "cert_points_to": PUBS[k.at as usize]})).collect::<Vec<_>>()}))).collect::<BTreeMap<_, _>>()})
    }
    fn publishes_at(&self, k: &KSet) -> u64 { k.old.unwrap_or(self.repo) }
}

fn repo_index(uri: &str) -> Result<u64, String> {
    let rest = uri.strip_prefix(REPO_PREFIX).ok_or_else(|| format!("unexpected repository URI {uri}"))?;
    let name = rest.split('/').next().unwrap_or("");
    PUBS.iter().position(|p| *p == name).map(|i| i as u64).ok_or_else(|| format!("unknown publisher in {uri}"))
}

fn b64(v: &Value) -> Vec<u8> { base64::engine::general_purpose::STANDARD.decode(v.as_str().unwrap_or("")).unwrap_or_default() }

fn ca_json(sys: &Sys) -> Result<Value, String> { sys.ca(CA).map(|c| serde_json::to_value(&*c).unwrap()).map_err(|e| e.to_string()) }

fn objs_json(sys: &Sys) -> Value {
    let store = sys.krill.storage().open(CA_OBJECTS_NS).unwrap();
    let key = Ident::boxed_from_string(format!("{CA}.json")).unwrap();
    store.get::<Value>(None, &key).unwrap().unwrap_or(json!({"classes": {}}))
}

fn stored_command(sys: &Sys, version: u64) -> Option<Value> {
    let store = sys.krill.storage().open(CASERVER_NS).unwrap();
    let scope = Ident::boxed_from_string(CA.to_string()).unwrap();
    let key = Ident::boxed_from_string(format!("command-{version}.json")).unwrap();
    store.get::<Value>(Some(&scope), &key).ok().flatten()
}

/// (key id, directory named in the SIA, its publisher) of a certificate given as base64 DER - read from the
/// certificate itself.
fn cert_key_and_repo(b: &Value) -> Result<(String, String, u64), String> {
    let cert = rpki::repository::cert::Cert::decode(b64(b).as_slice()).map_err(|e| format!("certificate does not decode: {e}"))?;
    let dir = cert.ca_repository().ok_or("certificate without caRepository")?.to_string();
    let idx = repo_index(&dir)?;
    Ok((cert.subject_key_identifier().to_string(), dir, idx))
}

fn set_of(v: &Value) -> Result<KSet, String> {
    let old = match v.get("old_repo") { Some(c) if !c.is_null() => Some(repo_index(c["repo_info"]["sia_base"].as_str().unwrap_or(""))?), _ => None };
    let (key, dir, at) = cert_key_and_repo(&v["signing_cert"]["base64"])?;
    let mut files = vec![
        (format!("{dir}{}", v["manifest"]["name"].as_str().unwrap_or("?")), b64(&v["manifest"]["base64"])),
        (format!("{dir}{}", v["crl"]["name"].as_str().unwrap_or("?")), b64(&v["crl"]["base64"])),
    ];
    if let Some(Value::Object(m)) = v.get("published_objects") {
        for (name, o) in m { files.push((format!("{dir}{name}"), b64(&o["base64"]))); }
    }
    Ok(KSet { old, at, key, files })
}

/// The repository a pending key asked for: the caRepository of its certificate signing request.
fn request_repo(key: &Value) -> Result<u64, String> {
    let req = &key["request"];
    if req.is_null() { return Err(format!("pending key {} has no open request", key["key_id"])) }
    let csr = rpki::ca::csr::RpkiCaCsr::decode(b64(&req["csr"]).as_slice()).map_err(|e| format!("CSR does not decode: {e}"))?;
    repo_index(&csr.ca_repository().ok_or("CSR without caRepository")?.to_string())
}

fn observe(sys: &Sys) -> Result<(MState, u64), String> {
    let ca = ca_json(sys)?;
    let objs = objs_json(sys);
    let repo = repo_index(objs["repo"]["repo_info"]["sia_base"].as_str().unwrap_or(""))?;
    let mut depr = Vec::new();
    for d in objs["deprecated_repos"].as_array().cloned().unwrap_or_default() { depr.push(repo_index(d["contact"]["repo_info"]["sia_base"].as_str().unwrap_or(""))?); }
    let mut classes = BTreeMap::new();
    let empty = serde_json::Map::new();
    let ocl = objs["classes"].as_object().unwrap_or(&empty);
    for (rcn, rc) in ca["resources"].as_object().unwrap_or(&empty) {
        let c: u64 = rcn.parse().map_err(|_| format!("class name {rcn}"))?;
        let tag = keystate_tag(rc);
        let ks = &rc["key_state"][&tag];
        let st = match ocl.get(rcn) {
            None => { if tag != "pending" { return Err(format!("class {rcn} has key state {tag} but no published-object class")) } CState::Pend(request_repo(ks)?) }
            Some(rco) => {
                let k = &rco["keys"];
                match k["type"].as_str().unwrap_or("?") {
                    "current" => CState::Cur(if tag == "roll_pending" { Some(request_repo(&ks[0])?) } else { None }, set_of(&k["current_set"])?),
                    "staging" => CState::Stg(set_of(&k["staging_set"])?, set_of(&k["current_set"])?),
                    "old" => CState::Old(set_of(&k["current_set"])?, set_of(&k["old_set"])?),
                    other => return Err(format!("class {rcn}: object state {other}")),
                }
            }
        };
        classes.insert(c, st);
    }
    for rcn in ocl.keys() { if ca["resources"].get(rcn).is_none() { return Err(format!("published-object class {rcn} without a resource class")) } }
    Ok((MState { repo, classes, depr }, ca["version"].as_u64().unwrap_or(0)))
}

/// publisher -> (uri -> content) as the publication server has it now
fn repo_content(sys: &Sys) -> Vec<BTreeMap<String, Vec<u8>>> {
    PUBS.iter().map(|p| {
        let mut m = BTreeMap::new();
        if let Ok(d) = sys.krill.repo_manager().get_publisher_details(publisher_handle(p)) {
            for f in d.current_files { m.insert(f.uri.to_string(), f.base64.to_bytes().to_vec()); }
        }
        m
    }).collect()
}

// ---------------------------------------------------------------------------------------------- output

struct Out {
    w: CaseWriter, jsonl: std::fs::File, op_hist: BTreeMap<String, u64>, mop_hist: BTreeMap<String, u64>, err_hist: BTreeMap<String, u64>,
    outcome: BTreeMap<String, u64>, distinct: BTreeSet<String>, samples: Vec<Value>, impl_failures: Vec<Value>, harness_errors: Vec<String>,
}

struct Hist<'a> {
    sys: Sys, hist: u64, rng: Rng, out: &'a Mutex<Out>, contacts: Vec<RepositoryContact>,
    roas: [Vec<String>; 2], roa_n: u64, ent_a: u32, b_removed: bool, critical: bool, migrations: u64, stale: bool, entitle: bool,
}

fn class_tags(sys: &Sys) -> BTreeMap<String, String> {
    ca_json(sys).ok().and_then(|c| c["resources"].as_object().map(|m| m.iter().map(|(k, rc)| (k.clone(), keystate_tag(rc))).collect())).unwrap_or_default()
}

impl Hist<'_> {
    fn herr(&self, what: String) { self.out.lock().unwrap().harness_errors.push(format!("history {}: {what}", self.hist)); }

    /// One API operation, observed: state before, stored events -> model operations, state after, repository
    /// synchronisation (unless `sync` is false), state and publication server content after it.
    fn step(&mut self, desc: Value, sync: bool, op: &dyn Fn(&Sys) -> Result<(), String>) {
        let (pre, v0) = match observe(&self.sys) { Ok(x) => x, Err(e) => { self.herr(format!("observe before {desc}: {e}")); return } };
        let res = op(&self.sys);
        let (mid, v1) = match observe(&self.sys) { Ok(x) => x, Err(e) => { self.herr(format!("observe after {desc}: {e}")); return } };
        // model operations from the stored events
        let mut roles: BTreeMap<String, (u64, &'static str)> = BTreeMap::new();
        for (c, st) in &pre.classes {
            match st { CState::Pend(_) => {} CState::Cur(_, k) => { roles.insert(k.key.clone(), (*c, "WCur")); }
                       CState::Stg(s, k) => { roles.insert(s.key.clone(), (*c, "WStg")); roles.insert(k.key.clone(), (*c, "WCur")); }
                       CState::Old(k, o) => { roles.insert(k.key.clone(), (*c, "WCur")); roles.insert(o.key.clone(), (*c, "WOld")); } }
        }
        let mut mops: Vec<String> = Vec::new();
        let mut cmd_types: Vec<String> = Vec::new();
        for v in v0..v1 {
            let Some(sc) = stored_command(&self.sys, v) else { continue };
            let ty = sc["details"]["type"].as_str().unwrap_or("?").to_string();
            let evs: Vec<Value> = sc["effect"]["events"].as_array().cloned().unwrap_or_default();
            if evs.is_empty() { cmd_types.push(format!("{ty}:error")); continue }
            cmd_types.push(ty.clone());
            let is_migration = evs.iter().any(|e| e["type"] == "repo_updated");
            for e in &evs {
                let et = e["type"].as_str().unwrap_or("");
                let c: u64 = e["resource_class_name"].as_str().and_then(|s| s.parse().ok()).unwrap_or(999);
                match et {
                    "resource_class_added" => mops.push(format!("ONewClass {c}")),
                    "key_pending_to_active" => { roles.insert(e["current_key"]["key_id"].as_str().unwrap_or("?").to_string(), (c, "WCur")); mops.push(format!("OAddClass {c}")) }
                    "key_roll_pending_key_added" => if !is_migration { mops.push(format!("OInit {c}")) },
                    "key_pending_to_new" => { roles.insert(e["new_key"]["key_id"].as_str().unwrap_or("?").to_string(), (c, "WStg")); mops.push(format!("OStage {c}")) }
                    "key_roll_activated" => {
                        for (_, (cc, r)) in roles.iter_mut() { if *cc == c { *r = match *r { "WStg" => "WCur", "WCur" => "WOld", x => x }; } }
                        mops.push(format!("OActivate {c}"))
                    }
                    "key_roll_finished" => { roles.retain(|_, (cc, r)| !(*cc == c && *r == "WOld")); mops.push(format!("OFinish {c}")) }
                    "resource_class_removed" => { roles.retain(|_, (cc, _)| *cc != c); mops.push(format!("ORemoveClass {c}")) }
                    "certificate_received" => {
                        match cert_key_and_repo(&e["rcvd_cert"]["base64"]) {
                            Ok((key, _, _)) => match roles.get(&key) { Some((cc, r)) if *cc == c => mops.push(format!("OReissue {c} {r}")), _ => self.herr(format!("{desc}: certificate received for a key without a set: {key}")) },
                            Err(err) => self.herr(format!("{desc}: received certificate: {err}")),
                        }
                    }
                    "repo_updated" => match repo_index(e["contact"]["repo_info"]["sia_base"].as_str().unwrap_or("")) { Ok(r) => mops.push(format!("OUpdateRepo {r}")), Err(err) => self.herr(format!("{desc}: {err}")) },
                    _ => {}
                }
            }
        }
        // repository synchronisation
        let mut sync_err = None;
        let (post, present, leftover) = if sync {
            if let Err(e) = self.sys.sync_repo(CA) { sync_err = Some(e.to_string()); }
            let post = match observe(&self.sys) { Ok(x) => x.0, Err(e) => { self.herr(format!("observe after sync {desc}: {e}")); return } };
            let content = repo_content(&self.sys);
            let mut present = Vec::new();
            for (c, st) in &post.classes {
                if st.sets().is_empty() { continue }
                let ok = st.sets().iter().all(|k| k.files.iter().all(|(u, b)| content[k.at as usize].get(u) == Some(b)));
                present.push((*c, ok));
            }
            let used: BTreeSet<u64> = post.classes.values().flat_map(|st| st.sets().into_iter().map(|k| post.publishes_at(k)).collect::<Vec<_>>()).collect();
            let leftover: Vec<u64> = (0..PUBS.len() as u64).filter(|i| !content[*i as usize].is_empty() && !used.contains(i) && !post.depr.contains(i)).collect();
            (post, present, leftover)
        } else { (mid.clone(), vec![], vec![]) };

        let opname = desc["op"].as_str().unwrap_or("?").to_string();
        // the schedule of the seeded change: one class finishes its roll while another one is staged and the certificate
        // of its active key points to a repository that is not the default one (judged by the certificate, not by the
        // implementation's own old_repo marks)
        let finished: Vec<u64> = mops.iter().filter_map(|m| m.strip_prefix("OFinish ").and_then(|c| c.parse().ok())).collect();
        let crit = !finished.is_empty() && mid.classes.iter().any(|(c, st)| !finished.contains(c) && matches!(st, CState::Stg(_, k) if k.at != mid.repo));
        if crit { self.critical = true; }
        if mops.iter().any(|m| m.starts_with("OUpdateRepo")) { self.migrations += 1; }

        let term = format!("mkMC {} {} {} {} {} {} {}", pre.term(), coq_list(&mops), mid.term(), sync, post.term(),
            coq_list(&present.iter().map(|(c, b)| format!("({c}, {b})")).collect::<Vec<_>>()), coq_list(&leftover.iter().map(|r| r.to_string()).collect::<Vec<_>>()));
        let mut o = self.out.lock().unwrap();
        let idx = o.w.total;
        let rec = json!({"index": idx, "history": self.hist, "op": desc, "result": res.as_ref().err().cloned().unwrap_or("ok".into()), "commands": cmd_types,
            "model_ops": mops, "synced": sync, "sync_error": sync_err, "pre": pre.summary(), "after_command": mid.summary(), "after_sync": post.summary(),
            "all_products_present": present.iter().map(|(c, b)| (c.to_string(), *b)).collect::<BTreeMap<_, _>>(), "leftover_publishers": leftover.iter().map(|r| PUBS[*r as usize]).collect::<Vec<_>>(),
            "critical_schedule": crit, "class": {"op": opname}});
        writeln!(o.jsonl, "{rec}").unwrap();
        *o.op_hist.entry(opname.clone()).or_default() += 1;
        for m in &mops { *o.mop_hist.entry(m.split(' ').next().unwrap_or("?").to_string()).or_default() += 1; }
        if let Err(e) = &res { *o.err_hist.entry(format!("{opname}: {}", e.chars().take(110).collect::<String>())).or_default() += 1; }
        if !mops.is_empty() || !pre.depr.is_empty() || !mid.depr.is_empty() {
            let tags = |m: &MState| m.classes.values().map(|s| format!("{}{:?}", s.tag(), s.sets().iter().map(|k| k.old.is_some()).collect::<Vec<_>>())).collect::<Vec<_>>().join(",");
            o.distinct.insert(format!("{:?}|{}|{}|{}", mops.iter().map(|m| m.split(' ').next().unwrap_or("")).collect::<Vec<_>>(), tags(&pre), tags(&mid), mid.depr.len()));
        }
        if let Some(e) = sync_err {
            o.impl_failures.push(json!({"index": idx, "history": self.hist, "op": desc, "class": {"repo_sync_failed": true},
                "what": format!("repository synchronisation of CA {CA} failed after {opname}: {e}")}));
        }
        if (crit && o.samples.len() < 3) || (o.samples.len() < 5 && idx % 41 == 7) { o.samples.push(rec); }
        o.w.push(term);
    }

    fn sync_choice(&mut self) -> bool {
        // the daemon runs the synchronisation as a queued task, so commands can overtake it
        let deprecated = observe(&self.sys).map(|(m, _)| !m.depr.is_empty()).unwrap_or(false);
        if deprecated && !self.stale { return true }
        self.rng.chance(75)
    }

    fn sync_parent_op(&mut self, p: &'static str) {
        let s = self.sync_choice();
        self.step(json!({"op": "sync_parent", "parent": p}), s, &move |sys| sys.sync_parent(CA, p).map(|_| ()).map_err(|e| e.to_string()));
    }
    fn activate_op(&mut self) { let s = self.sync_choice(); self.step(json!({"op": "keyroll_activate"}), s, &|sys| sys.keyroll_activate(CA).map_err(|e| e.to_string())); }
    fn migrate_op(&mut self, to: usize) {
        let c = self.contacts[to].clone();
        let s = self.sync_choice();
        self.step(json!({"op": "update_repo", "to": PUBS[to]}), s, &move |sys| sys.repo_migrate(CA, c.clone()).map_err(|e| e.to_string()));
    }

    fn random_op(&mut self) {
        let kind = self.rng.weighted(&[22, 22, 14, 12, 8, 5, 4, 5, if self.entitle { 8 } else { 0 }]);
        match kind {
            0 => self.sync_parent_op("a"),
            1 => self.sync_parent_op("b"),
            2 => self.activate_op(),
            3 => { // ROA added or removed in one of the two classes
                let cl = self.rng.below(2) as usize;
                let (add, rem): (Vec<String>, Vec<String>) = if self.roas[cl].len() > 1 && self.rng.chance(45) {
                    let i = self.rng.below(self.roas[cl].len() as u64) as usize; (vec![], vec![self.roas[cl].remove(i)])
                } else {
                    self.roa_n += 1;
                    let r = if cl == 0 { format!("10.4.{}.0/24 => 64516", self.roa_n) } else { format!("10.3.{}.0/24 => 64515", self.roa_n) };
                    self.roas[cl].push(r.clone()); (vec![r], vec![])
                };
                let s = self.sync_choice();
                let (a2, r2) = (add.clone(), rem.clone());
                self.step(json!({"op": "roa_update", "class": cl, "added": add, "removed": rem}), s, &move |sys| {
                    let a: Vec<&str> = a2.iter().map(|x| x.as_str()).collect(); let r: Vec<&str> = r2.iter().map(|x| x.as_str()).collect();
                    sys.routes_update(CA, &a, &r).map_err(|e| e.to_string()) });
            }
            4 => { // a further migration: refused while any class is rolling
                let cur = observe(&self.sys).map(|(m, _)| m).ok();
                let mut targets: Vec<usize> = (0..PUBS.len()).collect();
                if let Some(m) = &cur { targets.retain(|t| *t as u64 != m.repo && (self.stale || !m.depr.contains(&(*t as u64)))); }
                if targets.is_empty() { return }
                let to = *self.rng.pick(&targets);
                self.migrate_op(to);
            }
            5 => { // the second parent goes (remove_class) or comes back (a new class)
                let s = self.sync_choice();
                if !self.b_removed {
                    self.b_removed = true;
                    self.step(json!({"op": "parent_remove", "parent": "b"}), s, &|sys| sys.parent_remove(CA, "b").map_err(|e| e.to_string()));
                } else {
                    self.b_removed = false;
                    self.step(json!({"op": "parent_readd", "parent": "b"}), s, &|sys| { let _ = sys.child_remove("b", CA); sys.add_parent(CA, "b", atoms_to_resources(0x08)).map_err(|e| e.to_string()) });
                }
            }
            6 => { let s = self.sync_choice(); self.step(json!({"op": "keyroll_init"}), s, &|sys| sys.keyroll_init(CA).map_err(|e| e.to_string())); }
            7 => self.step(json!({"op": "sync_repo"}), true, &|_| Ok(())),
            _ => { // the first parent changes the entitlement (off with --entitle 0)
                self.ent_a = if self.ent_a == 0x30 { 0x70 } else { 0x30 };
                let m = self.ent_a;
                let s = self.sync_choice();
                self.step(json!({"op": "entitlement", "parent": "a", "mask": m}), s, &move |sys| sys.update_child_resources("a", CA, atoms_to_resources(m)).map_err(|e| e.to_string()));
            }
        }
    }

    /// Syncs with the parent of the class until its key state has the wanted tag (at most three times).
    fn sync_until(&mut self, class: &str, parent: &'static str, want: &str) {
        for _ in 0..3 {
            if class_tags(&self.sys).get(class).map(|t| t == want).unwrap_or(false) { return }
            self.step(json!({"op": "sync_parent", "parent": parent, "scripted": true}), true, &move |sys| sys.sync_parent(CA, parent).map(|_| ()).map_err(|e| e.to_string()));
        }
    }
}

fn run_history(args: &Args, hist: u64, seed: u64, n_ops: u64, out: &Mutex<Out>) {
    let dir = args.out.join(format!("h{hist}"));
    let mut opts = SysOpts::new(&dir);
    opts.mem_seed = seed;
    let sys = Sys::open(opts);
    let fail = |what: String| { out.lock().unwrap().harness_errors.push(format!("history {hist}: {what}")); };
    if let Err(e) = sys.bootstrap() { fail(format!("bootstrap: {e}")); return }
    for (i, step) in setup_steps_with(false).iter().enumerate() { if let Err(e) = step(&sys) { fail(format!("setup step {i}: {e}")); return } }
    // second parent (class 1), a child of its own (certificate in class 0), ROAs in both classes
    let prep: Vec<(&str, Box<dyn Fn(&Sys) -> Result<(), String>>)> = vec![
        ("second parent", Box::new(|s| s.add_parent(CA, "b", atoms_to_resources(0x08)).map_err(|e| e.to_string()))),
        ("sync b", Box::new(|s| s.sync_rounds(CA, "b", 2).map_err(|e| e.to_string()))),
        ("child e", Box::new(|s| s.add_ca("e").map_err(|e| e.to_string()))),
        ("child e parent", Box::new(|s| s.add_parent("e", CA, atoms_to_resources(0x10)).map_err(|e| e.to_string()))),
        ("child e sync", Box::new(|s| s.sync_rounds("e", CA, 2).map_err(|e| e.to_string()))),
        ("roas", Box::new(|s| s.routes_update(CA, &["10.4.0.0/24 => 64516", "10.3.0.0/24 => 64515"], &[]).map_err(|e| e.to_string()))),
    ];
    for (name, step) in prep { if let Err(e) = step(&sys) { fail(format!("{name}: {e}")); return } }
    let port = spawn_front(sys.krill.clone());
    let mut contacts = Vec::new();
    match sys.publisher_contact("d", None) { Ok(c) => contacts.push(c), Err(e) => { fail(format!("contact d: {e}")); return } }
    for p in ["d2", "d3"] {
        match sys.add_second_publisher(CA, p, Some(format!("http://127.0.0.1:{port}/rfc8181/{p}"))) { Ok(c) => contacts.push(c), Err(e) => { fail(format!("publisher {p}: {e}")); return } }
    }
    if let Err(e) = sys.sync_repo(CA) { fail(format!("first repository synchronisation: {e}")); return }
    {
        let tags = class_tags(&sys);
        if tags.len() != 2 || tags.values().any(|t| t != "active") { fail(format!("the CA does not start with two active classes: {tags:?}")); return }
    }
    let mut h = Hist { sys, hist, rng: Rng::new(seed), out, contacts, roas: [vec!["10.4.0.0/24 => 64516".into()], vec!["10.3.0.0/24 => 64515".into()]], roa_n: 0,
        ent_a: 0x30, b_removed: false, critical: false, migrations: 0, stale: args.get_u64("stale", 1) == 1, entitle: args.get_u64("entitle", 1) == 1 };

    // scripted part: the classes move at different speeds
    let variant = hist % 4;
    if variant <= 2 {
        let (first, fp, second, sp): (&str, &'static str, &str, &'static str) = if variant <= 1 { ("0", "a", "1", "b") } else { ("1", "b", "0", "a") };
        h.migrate_op(1);
        if h.entitle && variant == 0 {
            // F04d: the parent changes the entitlement right after the migration: the still active key, which publishes
            // at the old repository, gets a new certificate too
            h.ent_a = 0x70;
            h.step(json!({"op": "entitlement", "parent": "a", "mask": 0x70, "scripted": true}), true, &|sys| sys.update_child_resources("a", CA, atoms_to_resources(0x70)).map_err(|e| e.to_string()));
            for _ in 0..3 { h.step(json!({"op": "sync_parent", "parent": "a", "scripted": true}), true, &|sys| sys.sync_parent(CA, "a").map(|_| ()).map_err(|e| e.to_string())); }
        }
        h.sync_until(first, fp, "roll_new");
        if variant == 1 { h.random_op(); }
        h.step(json!({"op": "keyroll_activate", "scripted": true}), true, &|sys| sys.keyroll_activate(CA).map_err(|e| e.to_string()));
        if h.entitle && variant == 1 {
            // ... and in the next stage: the old key (old repository) awaits revocation, the new one is in use
            h.ent_a = 0x70;
            h.step(json!({"op": "entitlement", "parent": "a", "mask": 0x70, "scripted": true, "while": "roll_old"}), true, &|sys| sys.update_child_resources("a", CA, atoms_to_resources(0x70)).map_err(|e| e.to_string()));
        }
        h.sync_until(second, sp, "roll_new");
        h.sync_until(first, fp, "active");
        if h.stale && variant == 2 {
            // F04e: finish the other class without a synchronisation, go straight back to the repository that now waits
            // for its clean-up, let a class stage its new key there, and only then synchronise
            h.step(json!({"op": "keyroll_activate", "scripted": true}), false, &|sys| sys.keyroll_activate(CA).map_err(|e| e.to_string()));
            for _ in 0..3 {
                if class_tags(&h.sys).get(second).map(|t| t == "active").unwrap_or(false) { break }
                h.step(json!({"op": "sync_parent", "parent": sp, "scripted": true}), false, &move |sys| sys.sync_parent(CA, sp).map(|_| ()).map_err(|e| e.to_string()));
            }
            let c = h.contacts[0].clone();
            h.step(json!({"op": "update_repo", "to": PUBS[0], "scripted": true, "before_cleanup": true}), false, &move |sys| sys.repo_migrate(CA, c.clone()).map_err(|e| e.to_string()));
            h.step(json!({"op": "sync_parent", "parent": fp, "scripted": true, "before_cleanup": true}), false, &move |sys| sys.sync_parent(CA, fp).map(|_| ()).map_err(|e| e.to_string()));
            h.step(json!({"op": "sync_parent", "parent": fp, "scripted": true, "before_cleanup": true}), true, &move |sys| sys.sync_parent(CA, fp).map(|_| ()).map_err(|e| e.to_string()));
        }
    } else {
        h.migrate_op(1 + (seed % 2) as usize);
    }
    for _ in 0..n_ops { h.random_op(); }
    // until quiescent: every class back to one active key, nothing deprecated, nothing left behind
    if h.b_removed { h.b_removed = false; h.step(json!({"op": "parent_readd", "parent": "b", "closing": true}), true, &|sys| { let _ = sys.child_remove("b", CA); sys.add_parent(CA, "b", atoms_to_resources(0x08)).map_err(|e| e.to_string()) }); }
    for _ in 0..6 {
        let tags = class_tags(&h.sys);
        if !tags.is_empty() && tags.values().all(|t| t == "active") { break }
        for p in ["a", "b"] { h.step(json!({"op": "sync_parent", "parent": p, "closing": true}), true, &move |sys| sys.sync_parent(CA, p).map(|_| ()).map_err(|e| e.to_string())); }
        h.step(json!({"op": "keyroll_activate", "closing": true}), true, &|sys| sys.keyroll_activate(CA).map_err(|e| e.to_string()));
    }
    h.step(json!({"op": "sync_repo", "closing": true}), true, &|_| Ok(()));
    let tags = class_tags(&h.sys);
    let fin = observe(&h.sys);
    let content = repo_content(&h.sys);
    {
        let mut o = out.lock().unwrap();
        *o.outcome.entry("histories".into()).or_default() += 1;
        if h.critical { *o.outcome.entry("histories_with_a_class_finishing_while_another_is_staged_on_the_old_repository".into()).or_default() += 1; }
        *o.outcome.entry(format!("histories_with_{}_accepted_migrations", h.migrations.min(3))).or_default() += 1;
        if tags.is_empty() || tags.values().any(|t| t != "active") {
            o.impl_failures.push(json!({"index": null, "history": hist, "class": {"roll_not_finished": true},
                "what": format!("after syncs with both parents (which answered every request) and activations the key states are {tags:?}")}));
        } else if let Ok((m, _)) = &fin {
            let used: BTreeSet<u64> = m.classes.values().flat_map(|st| st.sets().into_iter().map(|k| m.publishes_at(k)).collect::<Vec<_>>()).collect();
            let left: Vec<&str> = (0..PUBS.len()).filter(|i| !content[*i].is_empty() && !used.contains(&(*i as u64))).map(|i| PUBS[i]).collect();
            if !m.depr.is_empty() || !left.is_empty() {
                o.impl_failures.push(json!({"index": null, "history": hist, "class": {"old_repository_not_cleaned": true},
                    "what": format!("all rolls finished and the repository synchronised, yet deprecated = {:?} and publishers {left:?} still hold files of the CA", m.depr)}));
            } else { *o.outcome.entry("histories_ending_quiescent_and_clean".into()).or_default() += 1; }
        }
    }
    let _ = std::fs::remove_dir_all(&dir);
}

fn main() {
    let args = Args::parse("migrate");
    let n_hist = args.get_u64("histories", if args.thorough() { 64 } else { 12 });
    let n_ops = args.get_u64("ops", if args.thorough() { 30 } else { 14 });
    let header = "From KV Require Import base.Tac ca.Migrate ca.MigrateCheck.\nOpen Scope N_scope.";
    let footer = "Eval vm_compute in (failing m_agrees base_index cases).\nEval vm_compute in (failing m_ok base_index cases).";
    let out = Mutex::new(Out { w: CaseWriter::new(&args.out, header, "list mcase", footer, 100), jsonl: std::fs::File::create(args.out.join("cases.jsonl")).unwrap(),
        op_hist: BTreeMap::new(), mop_hist: BTreeMap::new(), err_hist: BTreeMap::new(), outcome: BTreeMap::new(), distinct: Default::default(), samples: vec![], impl_failures: vec![], harness_errors: vec![] });
    std::panic::set_hook(Box::new(|_| {}));
    let mut rng = Rng::new(args.seed ^ 0x6d69_6772);
    let seeds: Vec<u64> = (0..n_hist).map(|_| rng.next()).collect();
    let only = args.extra.get("only").and_then(|s| s.parse::<u64>().ok());
    let threads = args.get_u64("threads", 12).max(1) as usize;
    std::thread::scope(|s| {
        let mut chunks: Vec<Vec<(u64, u64)>> = vec![Vec::new(); threads];
        for (i, sd) in seeds.iter().enumerate() { if only.map(|o| o == i as u64).unwrap_or(true) { chunks[i % threads].push((i as u64, *sd)); } }
        for chunk in chunks {
            let out = &out; let args = &args;
            s.spawn(move || {
                for (h, sd) in chunk {
                    let r = std::panic::catch_unwind(std::panic::AssertUnwindSafe(|| run_history(args, h, sd, n_ops, out)));
                    if let Err(p) = r {
                        let msg = p.downcast_ref::<String>().cloned().or_else(|| p.downcast_ref::<&str>().map(|s| s.to_string())).unwrap_or("panic".into());
                        out.lock().unwrap().impl_failures.push(json!({"index": null, "history": h, "class": {"panic": true}, "what": format!("panic in history {h}: {msg}")}));
                    }
                }
            });
        }
    });
    let mut o = out.into_inner().unwrap();
    o.w.flush();
    let crit = o.outcome.get("histories_with_a_class_finishing_while_another_is_staged_on_the_old_repository").copied().unwrap_or(0);
    if only.is_none() && crit * 2 < n_hist { o.harness_errors.push(format!("only {crit} of {n_hist} histories reached the schedule 'one class finishes while another is staged on the old repository'")); }
    if o.w.total == 0 { o.harness_errors.push("no case was produced".into()); }
    write_json(&args.out.join("stats.json"), &json!({
        "scenario": "migrate", "seed": args.seed, "tier": args.tier, "histories": n_hist, "ops_per_history": n_ops,
        "evaluations": o.w.total, "distinct_nontrivial": o.distinct.len(),
        "rule": "per history one in-process Krill runtime: CA d with two resource classes (parents a and b), ROAs in both, a child certificate in class 0 and three publishers (d: local short-cut, d2/d3: signed RFC 8181 over HTTP); a migration, then in three of four histories a scripted prefix in which one class is staged, activated and finished while the other is only staged, then random operations (sync with either parent, activate, ROA add/remove, further migration - also back to a repository that still awaits its clean-up -, entitlement change at the first parent, second parent removed / re-added, plain key roll, repository synchronisation - which follows an operation with probability 3/4); scripted in some histories: entitlement change right after the migration and while the old key awaits revocation, and a migration back before the clean-up with a class staging its new key there before the first synchronisation, then syncs and activations until every class has one active key; one case per operation: state before, model operations read from the stored events, state after the command, state and publisher contents after the synchronisation; non-trivial = the operation produced model operations or a repository was deprecated; distinct = distinct (model operation kinds, class states with old-repository marks before and after, deprecated count)",
        "op_distribution": o.op_hist, "model_op_distribution": o.mop_hist, "error_distribution": o.err_hist, "outcome_distribution": o.outcome,
        "samples": o.samples, "harness_errors": o.harness_errors, "impl_failures": o.impl_failures,
    }));
    println!("migrate: {} cases from {} histories", o.w.total, n_hist);
    if !o.harness_errors.is_empty() { eprintln!("HARNESS ERROR (migrate, not a finding about the code under test): {:?}", o.harness_errors); std::process::exit(3); }
}
