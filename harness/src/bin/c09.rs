//! C09 correspondence scenario: random operation sequences on the real
//! `Queue` / `TaskQueue` (memory and disk back-ends), every transition
//! written as a Coq `case` term for queue/QueueCheck.v.
use std::collections::{BTreeMap, BTreeSet};
use std::path::PathBuf;

use krill::commons::queue::{Queue, ScheduleMode};
use krill::commons::storage::{Ident, KeyValueStore, StorageSystem};
use krill::constants::TASK_QUEUE_NS;
use krill::server::mq::TaskQueue;
use serde_json::json;

use kvh::util::{Args, CaseWriter, Rng, coq_list, write_json};

const QS_ID: u64 = 100; // name id of "queue_start_tasks"
const WALL_LO: u128 = 1_000_000_000_000; // 2001-09-09 in ms: anything from here up to WALL_HI is a clock reading
const WALL_HI: u128 = 100_000_000_000_000;
const FUTURE: u128 = 1_000_000_000_000_000; // far future (year 33658)
const SYN_BASE: u128 = 1_000_000_000_000; // synthetic "now" values start here

#[derive(Clone, Debug, PartialEq, Eq, PartialOrd, Ord)]
struct Entry { ts: u128, name: u64, val: u64 }

#[derive(Clone, Debug, Default, PartialEq, Eq)]
struct Obs { pend: Vec<Entry>, run: Vec<Entry> }

fn name_str(id: u64) -> String { if id == QS_ID { "queue_start_tasks".into() } else { format!("n{id}") } }
fn name_id(s: &str) -> u64 { if s == "queue_start_tasks" { QS_ID } else { s[1..].parse().expect("name id") } }
fn ident(s: &str) -> Box<Ident> { Ident::boxed_from_string(s.to_string()).expect("ident") }

struct Clock { map: BTreeMap<u128, u128>, next: u128 }
impl Clock {
    fn new() -> Self { Clock { map: BTreeMap::new(), next: SYN_BASE + 1 } }
    fn is_wall(ts: u128) -> bool { (WALL_LO..WALL_HI).contains(&ts) }
    /// Order-preserving renaming of clock readings (they only ever grow).
    fn canon(&mut self, ts: u128) -> u128 {
        if !Self::is_wall(ts) { return ts }
        if let Some(v) = self.map.get(&ts) { return *v }
        let v = self.next; self.next += 1; self.map.insert(ts, v); v
    }
    fn fresh(&mut self) -> u128 { let v = self.next; self.next += 1; v }
}

fn observe(store: &KeyValueStore, clock: &mut Clock) -> Obs {
    let mut obs = Obs::default();
    for (scope, dst) in [("pending", 0), ("running", 1)] {
        let sc = ident(scope);
        let keys = store.keys(Some(&sc), "").expect("list keys");
        let mut raw: Vec<(u128, u64, u64)> = Vec::new();
        for k in keys {
            let (ts, name) = k.as_str().split_once('-').expect("key format");
            let v: serde_json::Value = store.get(Some(&sc), &k).expect("get").expect("value");
            raw.push((ts.parse().expect("ts"), name_id(name), v.as_u64().expect("val")));
        }
        raw.sort();
        for (ts, name, val) in raw {
            let e = Entry { ts: clock.canon(ts), name, val };
            if dst == 0 { obs.pend.push(e) } else { obs.run.push(e) }
        }
    }
    obs.pend.sort(); obs.run.sort();
    obs
}

fn coq_entry(e: &Entry) -> String { format!("mkE {} {} {}", e.ts, e.name, e.val) }
fn coq_obs(o: &Obs) -> String {
    format!("(mkQ {} {})", coq_list(&o.pend.iter().map(coq_entry).collect::<Vec<_>>()), coq_list(&o.run.iter().map(coq_entry).collect::<Vec<_>>()))
}

const MODES: [(&str, ScheduleMode); 5] = [
    ("ReplaceExisting", ScheduleMode::ReplaceExisting),
    ("ReplaceExistingSoonest", ScheduleMode::ReplaceExistingSoonest),
    ("FinishOrReplaceExisting", ScheduleMode::FinishOrReplaceExisting),
    ("FinishOrReplaceExistingSoonest", ScheduleMode::FinishOrReplaceExistingSoonest),
    ("IfMissing", ScheduleMode::IfMissing),
];

fn raw_key(store: &KeyValueStore, scope: &str, e: &Entry, clock: &Clock) -> Option<Box<Ident>> {
    // find the real key whose canonical form is e
    let sc = ident(scope);
    for k in store.keys(Some(&sc), "").ok()? {
        let (ts, name) = k.as_str().split_once('-')?;
        let ts: u128 = ts.parse().ok()?;
        let cts = if Clock::is_wall(ts) { *clock.map.get(&ts)? } else { ts };
        if cts == e.ts && name_id(name) == e.name { return Some(k) }
    }
    None
}

fn main() {
    let args = &Args::parse("c09");
    std::process::exit(run(args));
}

fn run(args: &Args) -> i32 {
    let mut rng = Rng::new(args.seed);
    let n_seq = args.get_u64("sequences", if args.thorough() { 6000 } else { 400 });
    let max_len = args.get_u64("maxlen", 30);
    let header = "From KV Require Import base.Tac queue.Queue queue.QueueCheck.\nOpen Scope N_scope.";
    let footer = "Eval vm_compute in (failing agrees base_index cases).\nEval vm_compute in (failing c09_ok base_index cases).";
    let mut w = CaseWriter::new(&args.out, header, "list case", footer, 500);
    let mut jsonl = std::fs::File::create(args.out.join("cases.jsonl")).expect("jsonl");
    let mut op_hist: BTreeMap<String, u64> = BTreeMap::new();
    let mut res_hist: BTreeMap<String, u64> = BTreeMap::new();
    let mut distinct: BTreeSet<String> = BTreeSet::new();
    let mut restart_running_hist: BTreeMap<usize, u64> = BTreeMap::new();
    let mut samples: Vec<serde_json::Value> = Vec::new();
    let tmp_root: PathBuf = args.out.join(format!("disk-{}", std::process::id()));

    for seq in 0..n_seq {
        let disk = seq % 4 == 3; // a quarter of the sequences run on the disk back-end
        let disk_path = tmp_root.join(format!("s{seq}"));
        let mut storage = if disk {
            std::fs::create_dir_all(&disk_path).expect("mkdir");
            StorageSystem::new_disk(disk_path.clone())
        } else {
            StorageSystem::new_memory(Some(args.seed.wrapping_mul(1_000_003).wrapping_add(seq)))
        };
        let mut queue = Queue::create(&storage, TASK_QUEUE_NS).expect("queue");
        let mut store = storage.open(TASK_QUEUE_NS).expect("store");
        let mut clock = Clock::new();
        let n_names = rng.range(1, 6);
        let len = rng.range(3, max_len);
        for _ in 0..len {
            let pre = observe(&store, &mut clock);
            let kind = rng.weighted(&[35, 25, 12, 12, 10]);
            let (op_term, op_json, res_term): (String, serde_json::Value, String);
            let mut pre_override: Option<Obs> = None;
            match kind {
                0 => {
                    let (mname, mode) = MODES[rng.weighted(&[10, 30, 10, 25, 25])];
                    let name = if rng.chance(8) { QS_ID } else { rng.below(n_names) };
                    let val = rng.below(4);
                    let ts: u128 = if rng.chance(70) { rng.range(1, 40) as u128 } else { FUTURE + rng.range(1, 40) as u128 };
                    queue.schedule_task(&ident(&name_str(name)), &json!(val), Some(ts), mode).expect("schedule");
                    op_term = format!("(OSchedule {mname} {name} {val} {ts})");
                    op_json = json!({"op": "schedule", "mode": mname, "name": name, "val": val, "ts": ts.to_string()});
                    res_term = "ROk".into();
                }
                1 => {
                    match queue.claim_scheduled_pending_task().expect("claim") {
                        Some((key, value)) => {
                            let (ts, name) = key.as_str().split_once('-').expect("key");
                            let now = clock.canon(ts.parse().expect("ts"));
                            let name = name_id(name);
                            let val = value.as_u64().expect("val");
                            op_term = format!("(OClaim {now} {now})");
                            op_json = json!({"op": "claim", "now": now.to_string()});
                            res_term = format!("(RClaimed ({now}, {name}) {val})");
                        }
                        None => {
                            let now = clock.fresh();
                            op_term = format!("(OClaim {now} {now})");
                            op_json = json!({"op": "claim", "now": now.to_string()});
                            res_term = "RNone".into();
                        }
                    }
                }
                2 | 3 => {
                    // finish / reschedule: mostly a key that is running, sometimes one that is not
                    let target: Entry = if !pre.run.is_empty() && rng.chance(75) {
                        rng.pick(&pre.run).clone()
                    } else if !pre.pend.is_empty() && rng.chance(50) {
                        rng.pick(&pre.pend).clone()
                    } else {
                        Entry { ts: rng.range(1, 40) as u128, name: rng.below(n_names), val: 0 }
                    };
                    let real = raw_key(&store, "running", &target, &clock)
                        .unwrap_or_else(|| ident(&format!("{}-{}", target.ts, name_str(target.name))));
                    if kind == 2 {
                        let r = queue.finish_running_task(&real);
                        op_term = format!("(OFinish ({}, {}))", target.ts, target.name);
                        op_json = json!({"op": "finish", "key": [target.ts.to_string(), target.name]});
                        res_term = if r.is_ok() { "ROk".into() } else { "RErr".into() };
                    } else {
                        let ts: u128 = if rng.chance(60) { rng.range(1, 40) as u128 } else { FUTURE + rng.range(1, 40) as u128 };
                        let r = queue.reschedule_running_task(&real, Some(ts));
                        op_term = format!("(OResched ({}, {}) {})", target.ts, target.name, ts);
                        op_json = json!({"op": "reschedule", "key": [target.ts.to_string(), target.name], "ts": ts.to_string()});
                        res_term = if r.is_ok() { "ROk".into() } else { "RErr".into() };
                    }
                }
                _ => {
                    // restart: a new TaskQueue (and, on disk, a new storage system) on the same storage
                    if disk {
                        drop(queue); drop(store);
                        storage = StorageSystem::new_disk(disk_path.clone());
                        queue = Queue::create(&storage, TASK_QUEUE_NS).expect("queue");
                        store = storage.open(TASK_QUEUE_NS).expect("store");
                    }
                    let tq = TaskQueue::new(&storage).expect("taskqueue");
                    tq.reschedule_tasks_at_startup().expect("startup");
                    *restart_running_hist.entry(pre.run.len()).or_default() += 1;
                    let post = observe(&store, &mut clock);
                    // Which new pending entry did each formerly running entry become? Entries of the
                    // same name that are re-queued within one millisecond get the same new key and the
                    // later one overwrites the earlier one; the listing order of the store decides which
                    // is later. The model folds over the running list in order, so the observed
                    // pre-state is presented with the overwritten entries first.
                    let mut fresh: Vec<Entry> = post.pend.iter().filter(|e| !pre.pend.contains(e)).cloned().collect();
                    let mut winners = Vec::new();
                    let mut losers = Vec::new();
                    for r in pre.run.iter() {
                        if let Some(i) = fresh.iter().position(|f| f.name == r.name && f.val == r.val) {
                            let f = fresh.remove(i);
                            winners.push((r.clone(), f.ts));
                        } else if let Some(f) = post.pend.iter().find(|f| f.name == r.name && !pre.pend.contains(f)) {
                            losers.push((r.clone(), f.ts));
                        } else if let Some(f) = post.pend.iter().find(|f| f.name == r.name && f.val == r.val && clock.map.values().max() == Some(&f.ts) && pre.pend.contains(f)) {
                            // re-queued within the very millisecond an equal pending entry (same name, same value) was
                            // scheduled in: the new key IS the existing key and nothing visible changes. The clock only
                            // grows, so this can only be the latest reading seen so far.
                            losers.push((r.clone(), f.ts));
                        } else {
                            losers.push((r.clone(), clock.fresh()));
                        }
                    }
                    let ordered: Vec<(Entry, u128)> = losers.into_iter().chain(winners.into_iter()).collect();
                    let assign: Vec<String> = ordered.iter().map(|(r, t)| format!("(({}, {}), {})", r.ts, r.name, t)).collect();
                    pre_override = Some(Obs { pend: pre.pend.clone(), run: ordered.into_iter().map(|(r, _)| r).collect() });
                    op_term = format!("(OStartup {})", coq_list(&assign));
                    op_json = json!({"op": "startup", "running_before": pre.run.len()});
                    res_term = "ROk".into();
                }
            }
            let post = observe(&store, &mut clock);
            let pre = pre_override.unwrap_or(pre);
            let term = format!("mkCase {} {} {} {}", coq_obs(&pre), op_term, coq_obs(&post), res_term);
            let opname = op_json["op"].as_str().unwrap().to_string();
            *op_hist.entry(opname.clone()).or_default() += 1;
            *res_hist.entry(res_term.split(' ').next().unwrap().trim_start_matches('(').to_string()).or_default() += 1;
            if !(pre.pend.is_empty() && pre.run.is_empty()) { distinct.insert(term.clone()); }
            let rec = json!({"index": w.total, "seq": seq, "backend": if disk {"disk"} else {"memory"}, "pre": format!("{pre:?}"), "op": op_json, "post": format!("{post:?}"), "res": res_term});
            use std::io::Write;
            writeln!(jsonl, "{}", rec).unwrap();
            if samples.len() < 6 && w.total % 97 == 5 { samples.push(rec); }
            w.push(term);
        }
        if disk { let _ = std::fs::remove_dir_all(&disk_path); }
    }
    w.flush();
    let _ = std::fs::remove_dir_all(&tmp_root);
    // ---- TaskQueue level: two different follow-up tasks must be two queue entries (task names are
    // concatenations of handles and literals; see coq/queue/TaskName.v)
    let mut impl_failures: Vec<serde_json::Value> = Vec::new();
    let mut name_pairs = 0u64;
    {
        use krill::server::mq::{now, Task};
        use std::str::FromStr;
        let handles = ["a", "b", "c", "x-y", "a_with_parent_b", "b_with_parent_c"];
        let mut pairs: Vec<(&str, &str)> = Vec::new();
        for ca in handles { for p in handles { pairs.push((ca, p)); } }
        for i in 0..pairs.len() { for j in (i + 1)..pairs.len() {
            let (c1, p1) = pairs[i]; let (c2, p2) = pairs[j];
            // a sample of all pairs plus every adversarial one
            let adversarial = c1.contains('_') || p1.contains('_') || c2.contains('_') || p2.contains('_');
            if !adversarial && rng.chance(85) { continue }
            let storage = StorageSystem::new_memory(Some(args.seed.wrapping_add(77_000 + (i * 100 + j) as u64)));
            let tq = TaskQueue::new(&storage).expect("taskqueue");
            let mk = |c: &str, p: &str| Task::SyncParent { ca_handle: rpki::ca::idexchange::CaHandle::from_str(c).unwrap(), ca_version: 0, parent: rpki::ca::idexchange::ParentHandle::from_str(p).unwrap() };
            tq.schedule(mk(c1, p1), now()).expect("schedule");
            tq.schedule(mk(c2, p2), now()).expect("schedule");
            let store = storage.open(TASK_QUEUE_NS).expect("store");
            let n = store.keys(Some(&ident("pending")), "").map(|k| k.len()).unwrap_or(0);
            name_pairs += 1;
            if n != 2 {
                impl_failures.push(json!({"index": null, "class": {"task_name_collision": true},
                    "what": format!("SyncParent(ca={c1}, parent={p1}) and SyncParent(ca={c2}, parent={p2}) share one queue name: only {n} pending entr{}", if n == 1 {"y"} else {"ies"})}));
            }
        }}
    }
    write_json(&args.out.join("stats.json"), &json!({
        "scenario": "c09", "seed": args.seed, "tier": args.tier,
        "sequences": n_seq, "evaluations": w.total, "distinct_nontrivial": distinct.len(),
        "rule": "random schedule/claim/finish/reschedule/restart sequences (len 3..30, 1..6 names plus the start-up task, far-past or far-future timestamps) on the real Queue/TaskQueue, 3/4 memory and 1/4 disk back-end; a case is one observed transition (pre-state, operation, post-state, result); non-trivial = pre-state not empty; distinct = distinct canonical case terms",
        "op_distribution": op_hist, "result_distribution": res_hist,
        "restarts_by_number_of_running_tasks": restart_running_hist.iter().map(|(k, v)| (k.to_string(), *v)).collect::<BTreeMap<_, _>>(),
        "samples": samples, "task_name_pairs_checked": name_pairs, "impl_failures": impl_failures,
    }));
    println!("c09: {} cases from {} sequences", w.total, n_seq);
    0
}
