//! C15 correspondence scenario: trust-anchor proxy / signer message exchanges on the real code.
//!
//! Every history runs two independent embedded trust anchors A and B (two `Sys` in one process, own
//! directories and memory stores), a harness-owned second `TrustAnchorSigner` A2 (same TA key, own ID
//! key, initialised for A's proxy: a re-initialised signer), and several CAs directly under A's "ta".
//! Operations go through the public manager calls (ta_proxy_signer_make_request / _get_request /
//! _process_response, sync_ta_proxy_signer_if_possible, ca_sync_parent, key rolls, send_revoke_requests)
//! and, for the signers, through `AggregateStore<TrustAnchorSigner>::command_with_context` (the embedded
//! signer's own namespace for A and B, a harness namespace for A2). Messages are replayed, taken from
//! earlier exchanges (stale), re-ordered, cross-wired between A and B, signed by the wrong signer, and
//! altered in the clear text under the original signature.
//!
//! After every operation, for every aggregate whose stored history grew, one case is written: state
//! before, the stored commands (abstracted, with the stored outcome), state after (coq/ta/TaCheck.v).
use std::collections::{BTreeMap, BTreeSet, HashMap};
use std::str::FromStr;
use std::sync::Mutex;

use krill::api::ta::{ApiTrustAnchorSignedRequest, ProvisioningRequest, TrustAnchorSignedRequest, TrustAnchorSignedResponse};
use krill::commons::eventsourcing::AggregateStore;
use krill::commons::storage::Ident;
use krill::constants::{ta_handle, ta_resource_class_name, TA_PROXY_SERVER_NS, TA_SIGNER_SERVER_NS};
use krill::server::taproxy::{TrustAnchorProxy, TrustAnchorProxyCommand, TrustAnchorProxyContext};
use krill::tasigner::{TrustAnchorSigner, TrustAnchorSignerCommand, TrustAnchorSignerContext, TrustAnchorSignerInitCommand, TrustAnchorSignerInitCommandDetails};
use rpki::ca::idexchange::CaHandle;
use rpki::ca::provisioning::{IssuanceRequest, RequestResourceLimit, RevocationRequest};
use rpki::crypto::KeyIdentifier;
use serde_json::{json, Value};

use kvh::sys::*;
use kvh::util::{coq_list, write_json, Args, CaseWriter, Rng};

const HEADER: &str = "From KV Require Import base.Tac ta.TaProxy ta.TaSigner ta.TaCheck.\nOpen Scope N_scope.";
const FOOTER: &str = "Eval vm_compute in (failing agrees base_index cases).\nEval vm_compute in (failing c15_ok base_index cases).\nEval vm_compute in (failing c15_complete base_index cases).";

// ------------------------------------------------------------------------------------------------ interning
#[derive(Default)]
struct Interner { m: BTreeMap<String, u64> }
impl Interner {
    fn get(&mut self, ns: &str, s: &str) -> u64 { let n = self.m.len() as u64 + 1; *self.m.entry(format!("{ns}:{s}")).or_insert(n) }
}

/// Who made the signature of a signed blob, and the clear text it was made over.
#[derive(Default)]
struct Registry { m: BTreeMap<String, (u64, Value)>, unknown: u64 }
impl Registry {
    fn register(&mut self, blob: &str, by: u64, clear: &Value) { self.m.entry(blob.to_string()).or_insert((by, clear.clone())); }
    /// (signed_by, intact)
    fn lookup(&mut self, blob: &str, clear: &Value) -> (u64, bool) {
        match self.m.get(blob) { Some((by, orig)) => (*by, orig == clear), None => { self.unknown += 1; (0, false) } }
    }
}

// ------------------------------------------------------------------------------------------------ abstraction
fn id_of(it: &mut Interner, idcert: &Value) -> u64 { it.get("id", idcert["public_key"].as_str().unwrap_or("?")) }

/// The number of the ID key of an ID certificate as it is stored in a command (base64 of the certificate).
fn idcert_number(it: &mut Interner, idcert: &Value) -> u64 {
    match serde_json::from_value::<rpki::ca::idcert::IdCert>(idcert.clone()) {
        Ok(c) => { let info = serde_json::to_value(krill::api::ca::IdCertInfo::from(&c)).unwrap(); id_of(it, &info) }
        Err(_) => panic!("harness: stored ID certificate does not decode"),
    }
}

fn objs_term(it: &mut Interner, o: &Value) -> String {
    let mut keys: Vec<u64> = o["issued"].as_object().map(|m| m.keys().map(|k| it.get("key", k)).collect()).unwrap_or_default();
    keys.sort();
    format!("(mkObjs {} {})", o["revision"]["number"].as_u64().unwrap_or(0), coq_list(&keys.iter().map(|k| k.to_string()).collect::<Vec<_>>()))
}

fn tag_of(it: &mut Interner, class: &Value, limit: &Value) -> u64 { it.get("tag", &format!("{}|{}", class.as_str().unwrap_or("?"), limit)) }

fn creq_term(it: &mut Interner, r: &Value) -> String {
    if let Some(i) = r.get("Issuance") {
        let wf = i["class_name"].as_str() == Some("default");
        format!("(mkReq KIssue {} {})", tag_of(it, &i["class_name"], &i["limit"]), wf)
    } else if let Some(v) = r.get("Revocation") {
        let wf = v["class_name"].as_str() == Some("default");
        format!("(mkReq KRevoke 0 {wf})")
    } else { "(mkReq KIssue 0 false)".into() }
}

fn cresp_term(it: &mut Interner, r: &Value) -> String {
    if let Some(i) = r.get("Issuance") { format!("(RIssued {})", tag_of(it, &i["class_name"], &i["issued_cert"]["req_limit"])) }
    else if r.get("Revocation").is_some() { "RRevoked".into() } else { "RError".into() }
}

fn sorted_map(v: &Value) -> Vec<(&String, &Value)> { v.as_object().map(|m| m.iter().collect()).unwrap_or_default() }

fn child_term(it: &mut Interner, ch: &Value) -> String {
    let used: Vec<String> = sorted_map(&ch["used_keys"]).iter().map(|(k, s)| format!("({}, {})", it.get("key", k), if s.as_str() == Some("revoked") { "Revoked" } else { "InUse" })).collect();
    let reqs: Vec<String> = sorted_map(&ch["open_requests"]).iter().map(|(k, r)| format!("({}, {})", it.get("key", k), creq_term(it, r))).collect();
    let resps: Vec<String> = sorted_map(&ch["open_responses"]).iter().map(|(k, r)| format!("({}, {})", it.get("key", k), cresp_term(it, r))).collect();
    format!("(mkChild {} {} {} {})", id_of(it, &ch["id"]), coq_list(&used), coq_list(&reqs), coq_list(&resps))
}

fn sinfo_term(it: &mut Interner, s: &Value) -> String {
    format!("(mkSI {} {} {})", id_of(it, &s["id"]), it.get("ta", s["objects"]["key_identifier"].as_str().unwrap_or("?")), objs_term(it, &s["objects"]))
}

fn proxy_term(it: &mut Interner, p: &Value) -> String {
    let signer = if p["signer"].is_null() { "None".to_string() } else { format!("(Some {})", sinfo_term(it, &p["signer"])) };
    let children: Vec<String> = sorted_map(&p["child_details"]).iter().map(|(c, ch)| format!("({}, {})", it.get("child", c), child_term(it, ch))).collect();
    let open = match p["open_signer_request"].as_str() { Some(n) => format!("(Some {})", it.get("nonce", n)), None => "None".into() };
    format!("(mkProxy {} {} {} {})", id_of(it, &p["id"]), signer, coq_list(&children), open)
}

fn signer_term(it: &mut Interner, s: &Value) -> String {
    format!("(mkSigner {} {} {} {})", id_of(it, &s["id"]), id_of(it, &s["proxy_id"]), it.get("ta", s["objects"]["key_identifier"].as_str().unwrap_or("?")), objs_term(it, &s["objects"]))
}

fn request_content_term(it: &mut Interner, clear: &Value) -> String {
    let chs: Vec<String> = clear["child_requests"].as_array().cloned().unwrap_or_default().iter().map(|cr| {
        let reqs: Vec<String> = sorted_map(&cr["requests"]).iter().map(|(k, r)| format!("({}, {})", it.get("key", k), creq_term(it, r))).collect();
        format!("({}, {})", it.get("child", cr["child"].as_str().unwrap_or("?")), coq_list(&reqs))
    }).collect();
    coq_list(&chs)
}

fn response_content_term(it: &mut Interner, clear: &Value) -> String {
    let chs: Vec<String> = sorted_map(&clear["child_responses"]).iter().map(|(c, rs)| {
        let resps: Vec<String> = sorted_map(rs).iter().map(|(k, r)| format!("({}, {})", it.get("key", k), cresp_term(it, r))).collect();
        format!("({}, {})", it.get("child", c), coq_list(&resps))
    }).collect();
    format!("(mkResp {} {})", objs_term(it, &clear["objects"]), coq_list(&chs))
}

fn req_msg_term(it: &mut Interner, reg: &mut Registry, m: &Value) -> (String, u64, bool) {
    let (by, intact) = reg.lookup(m["signed"]["message"].as_str().unwrap_or(""), &m["request"]);
    (format!("(mkMsg {} {} {} {})", it.get("nonce", m["request"]["nonce"].as_str().unwrap_or("?")), by, intact, request_content_term(it, &m["request"])), by, intact)
}

fn resp_msg_term(it: &mut Interner, reg: &mut Registry, m: &Value) -> (String, u64, bool) {
    let (by, intact) = reg.lookup(m["signed"]["message"].as_str().unwrap_or(""), &m["response"]);
    (format!("(mkMsg {} {} {} {})", it.get("nonce", m["response"]["nonce"].as_str().unwrap_or("?")), by, intact, response_content_term(it, &m["response"])), by, intact)
}

fn perr_of(msg: &str) -> &'static str {
    let t = [("Trust Anchor Proxy already has associated signer", "EHasSigner"), ("Trust Anchor Proxy already has a different", "EDifferentSigner"),
        ("Trust Anchor Proxy already has signer request", "EHasRequest"), ("Trust Anchor Proxy has no signer request", "ENoRequest"),
        ("Trust Anchor Response nonce", "ENonceMismatch"), ("Invalid signed message", "EBadSignature"), ("Cannot decode signed message", "EBadSignature"),
        ("Clear text request content does not match", "EBadSignature"), ("Cannot deserialize content of signed", "EBadSignature"),
        ("Trust Anchor Proxy has no associated signer", "ENoSigner"), ("TA child revocation requested for unknown key", "EUnknownKey"),
        ("No response found for child", "ENoResponse"), ("TA child certificate sign request uses unknown", "EBadRequest"), ("TA child revocation request uses unknown", "EBadRequest")];
    for (p, e) in t { if msg.starts_with(p) { return e } }
    if msg.contains("already has a child named") || msg.contains("duplicate") { return "EDupChild" }
    if msg.contains("has no child named") || msg.contains("nknown child") { return "EUnknownChild" }
    "EBadRequest"
}

fn serr_of(msg: &str) -> &'static str {
    if msg.starts_with("Invalid signed message") || msg.starts_with("Cannot decode signed message") || msg.starts_with("Clear text request content") || msg.starts_with("Cannot deserialize content of signed") { "SBadSignature" }
    else if msg.starts_with("TA child requests revocation for unknown key") { "SUnknownKey" }
    else { "SBadRequest" }
}

fn strip_version(v: &Value) -> Value { let mut v = v.clone(); if let Some(o) = v.as_object_mut() { o.remove("version"); } v }

/// Manifest and CRL numbers decoded from the objects must equal the stored revision number.
fn decoded_numbers_bad(o: &Value) -> Option<String> {
    use base64::Engine;
    use rpki::repository::{crl::Crl, manifest::Manifest};
    let dec = |v: &Value| base64::engine::general_purpose::STANDARD.decode(v["base64"].as_str().unwrap_or("")).unwrap_or_default();
    let number = o["revision"]["number"].as_u64().unwrap_or(0).to_string();
    let (mb, cb) = (dec(&o["manifest"]), dec(&o["crl"]));
    match (Manifest::decode(mb.as_slice(), true), Crl::decode(cb.as_slice())) {
        (Ok(m), Ok(c)) => {
            let (mn, cn) = (m.content().manifest_number().to_string(), c.crl_number().to_string());
            if mn != number || cn != number { Some(format!("revision {number}, manifest number {mn}, CRL number {cn}")) } else { None }
        }
        _ => Some("manifest or CRL of the TA objects does not decode".into()),
    }
}

// ------------------------------------------------------------------------------------------------ the system under test
struct SignerRef { label: &'static str, party: usize, store: AggregateStore<TrustAnchorSigner>, ns: Box<Ident>, handle: CaHandle, id: u64 }

struct World {
    parties: Vec<Sys>,                 // 0 = A, 1 = B
    signers: Vec<SignerRef>,           // 0 = SA (embedded A), 1 = SB (embedded B), 2 = SA2 (harness-owned, A's storage)
    proxy_store_a: AggregateStore<TrustAnchorProxy>,
    assoc: [usize; 2],                 // associated signer of each party's proxy
    proxy_ids: [u64; 2],
    it: Interner,
    reg: Registry,
    req_pool: Vec<(Value, usize)>,     // signed request, party whose proxy made it
    resp_pool: Vec<(Value, usize)>,    // signed response, signer that made it
    children: Vec<String>,
    reinit_done: bool,
    resp_count: BTreeMap<(String, String), u64>,
    give_count: BTreeMap<(String, String), u64>,
    cache: std::cell::RefCell<SnapCache>,
    last_given: Option<(String, String)>,   // (child, key) of the latest response the manager handed over
    processed: BTreeSet<String>,       // signed request blobs some signer has processed successfully
}

struct Out {
    w: CaseWriter, jsonl: std::fs::File, op_hist: BTreeMap<String, u64>, kind_hist: BTreeMap<String, u64>, result_hist: BTreeMap<String, u64>,
    alter_hist: BTreeMap<String, u64>, distinct: BTreeSet<String>, samples: Vec<Value>, impl_failures: Vec<Value>, notes: Vec<Value>, unknown_blobs: u64, harness_errors: Vec<String>,
}

fn proxy_json(sys: &Sys) -> Value { serde_json::to_value(&*sys.krill.ca_manager().get_trust_anchor_proxy().expect("proxy")).unwrap() }
fn signer_json(s: &SignerRef) -> Value { serde_json::to_value(&*s.store.get_latest(&s.handle).expect("signer")).unwrap() }

/// Full JSON of every aggregate, re-serialised only when its version moved (the JSON is a function of the stored history).
#[derive(Default)]
struct SnapCache { proxies: Vec<Option<(u64, std::rc::Rc<Value>)>>, signers: Vec<Option<(u64, std::rc::Rc<Value>)>> }

fn stored_command(sys: &Sys, ns: &Ident, scope: &str, version: u64) -> Option<Value> {
    let store = sys.krill.storage().open(ns).ok()?;
    let scope = Ident::boxed_from_string(scope.to_string()).ok()?;
    let key = Ident::boxed_from_string(format!("command-{version}.json")).ok()?;
    store.get::<Value>(Some(&scope), &key).ok().flatten()
}

struct Snap { proxies: Vec<std::rc::Rc<Value>>, signers: Vec<std::rc::Rc<Value>> }
fn snap(w: &World) -> Snap {
    use krill::commons::eventsourcing::Aggregate;
    let mut cache = w.cache.borrow_mut();
    if cache.proxies.is_empty() { cache.proxies = vec![None; w.parties.len()]; cache.signers = vec![None; w.signers.len()]; }
    let mut proxies = Vec::new();
    for (i, sys) in w.parties.iter().enumerate() {
        let p = sys.krill.ca_manager().get_trust_anchor_proxy().expect("proxy");
        let v = p.version();
        if cache.proxies[i].as_ref().map(|(cv, _)| *cv) != Some(v) { cache.proxies[i] = Some((v, std::rc::Rc::new(serde_json::to_value(&*p).unwrap()))); }
        proxies.push(cache.proxies[i].as_ref().unwrap().1.clone());
    }
    let mut signers = Vec::new();
    for (i, sr) in w.signers.iter().enumerate() {
        let s = sr.store.get_latest(&sr.handle).expect("signer");
        let v = s.version();
        if cache.signers[i].as_ref().map(|(cv, _)| *cv) != Some(v) { cache.signers[i] = Some((v, std::rc::Rc::new(serde_json::to_value(&*s).unwrap()))); }
        signers.push(cache.signers[i].as_ref().unwrap().1.clone());
    }
    Snap { proxies, signers }
}
fn cur_proxy(w: &World, p: usize) -> std::rc::Rc<Value> { snap(w).proxies[p].clone() }
fn cur_signer(w: &World, s: usize) -> std::rc::Rc<Value> { snap(w).signers[s].clone() }

impl World {
    fn register_request(&mut self, signed: &Value, party: usize) {
        let by = self.proxy_ids[party];
        self.reg.register(signed["signed"]["message"].as_str().unwrap_or(""), by, &signed["request"]);
        if !self.req_pool.iter().any(|(v, _)| v["signed"] == signed["signed"] && v["request"] == signed["request"]) { self.req_pool.push((signed.clone(), party)); }
    }
    /// The response of the associated signer for the open nonce that answers the most complete version of the
    /// request (versions of one request only grow): the one an orderly operator hands back.
    fn best_right(&self, party: usize) -> Option<Value> {
        let open = self.open_nonce(party)?;
        let entries = |v: &Value| -> usize { sorted_map(&v["response"]["child_responses"]).iter().map(|(_, m)| m.as_object().map(|o| o.len()).unwrap_or(0)).sum() };
        self.resp_pool.iter().enumerate().filter(|(_, (v, s))| *s == self.assoc[party] && v["response"]["nonce"].as_str() == Some(open.as_str()))
            .max_by_key(|(i, (v, _))| (entries(v), *i)).map(|(_, (v, _))| v.clone())
    }
    /// May this pooled request be handed to signer `s` without desynchronising it from its proxy for good?
    /// (A version of a request with a closed nonce that no signer ever processed may contain a revocation that
    /// was answered under a later nonce: the signer, which has no memory of nonces, would carry it out again.)
    fn safe_for(&self, req: &Value, made_by: usize, s: usize) -> bool {
        made_by != self.signers[s].party || self.processed.contains(req["signed"]["message"].as_str().unwrap_or(""))
            || self.open_nonce(made_by).as_deref() == req["request"]["nonce"].as_str()
    }
    fn open_nonce(&self, party: usize) -> Option<String> { cur_proxy(self, party)["open_signer_request"].as_str().map(|s| s.to_string()) }
}

#[allow(clippy::too_many_arguments)]
fn emit(w: &mut World, before: &Snap, after: &Snap, op: &Value, hist: u64, ov: Option<u64>, current_for: Option<usize>, out: &Mutex<Out>) {
    use std::io::Write;
    // signers first: the messages an embedded exchange made are learnt from the signer's stored exchange
    for s in 0..w.signers.len() {
        let (pre, post) = (&before.signers[s], &after.signers[s]);
        let (v0, v1) = (pre["version"].as_u64().unwrap_or(0), post["version"].as_u64().unwrap_or(0));
        if v1 == v0 { continue }
        let party = w.signers[s].party;
        let sid = w.signers[s].id;
        let mut steps = Vec::new();
        let mut results = Vec::new();
        let mut alters = Vec::new();
        let mut class = json!({"kind": "signer"});
        let mut multi_child = 0u64;
        for v in v0..v1 {
            let ns = w.signers[s].ns.clone();
            let Some(sc) = stored_command(&w.parties[party], &ns, w.signers[s].handle.as_str(), v) else { continue };
            let Some(r) = sc["details"].get("TrustAnchorSignerRequest") else { continue };
            // a request first seen here was made by this party's proxy inside the embedded exchange
            w.reg.register(r["signed"]["message"].as_str().unwrap_or(""), w.proxy_ids[party], &r["request"]);
            let (t, by, intact) = req_msg_term(&mut w.it, &mut w.reg, r);
            let ok = sc["effect"]["result"] == "success";
            if ok && r["request"]["child_requests"].as_array().map(|a| a.len()).unwrap_or(0) >= 2 { multi_child += 1; }
            let (err, resp) = if ok {
                w.processed.insert(r["signed"]["message"].as_str().unwrap_or("").to_string());
                let ex = &sc["effect"]["events"][0]["ProxySignerExchangeDone"];
                w.reg.register(ex["response"]["signed"]["message"].as_str().unwrap_or(""), sid, &ex["response"]["response"]);
                if !w.resp_pool.iter().any(|(v, _)| v["signed"] == ex["response"]["signed"]) { w.resp_pool.push((ex["response"].clone(), s)); }
                let (rt, _, _) = resp_msg_term(&mut w.it, &mut w.reg, &ex["response"]);
                ("None".to_string(), format!("(Some {rt})"))
            } else { (format!("(Some {})", serr_of(sc["effect"]["msg"].as_str().unwrap_or(""))), "None".to_string()) };
            let proxy_of_signer = id_of(&mut w.it, &pre["proxy_id"]);
            let res = if ok { "ok".to_string() } else { serr_of(sc["effect"]["msg"].as_str().unwrap_or("")).to_string() };
            // is this the current request of the associated proxy, handed to its associated, in-step signer?
            let current = current_for == Some(s) && v == v0 && intact && by == proxy_of_signer;
            // F15b class: a revocation in the request names a key the sending proxy has marked Revoked
            let pj = &before.proxies[party];
            let revoked_again = r["request"]["child_requests"].as_array().cloned().unwrap_or_default().iter().any(|cr| {
                sorted_map(&cr["requests"]).iter().any(|(k, q)| q.get("Revocation").is_some() && pj["child_details"][cr["child"].as_str().unwrap_or("?")]["used_keys"][k.as_str()] == "revoked") });
            class = json!({"kind": "signer", "result": res, "request_by_associated_proxy": by == proxy_of_signer, "request_intact": intact,
                "current_request_of_associated_proxy": current, "revocation_of_key_marked_revoked_at_proxy": revoked_again});
            alters.push(format!("{}{}", if !intact { "altered," } else { "" }, if by == proxy_of_signer { "own-proxy" } else { "other-proxy" }));
            let ovt = match (ov, v == v0) { (Some(n), true) => format!("(Some {n})"), _ => "None".into() };
            steps.push(format!("mkSStep {t} {ovt} {err} {resp} {current}"));
            results.push(res);
        }
        if steps.is_empty() { continue }
        let same = strip_version(pre) == strip_version(post);
        let term = format!("CSigner {} {} {} {}", signer_term(&mut w.it, pre), coq_list(&steps), signer_term(&mut w.it, post), same);
        let mut o = out.lock().unwrap();
        if let Some(bad) = decoded_numbers_bad(&post["objects"]) {
            let idx = o.w.total; o.impl_failures.push(json!({"index": idx, "history": hist, "op": op, "class": {"decoded_numbers": true}, "what": bad})); }
        *o.kind_hist.entry(format!("signer:{}", w.signers[s].label)).or_default() += 1;
        if multi_child > 0 { *o.kind_hist.entry("signer:processed-request-of-2+-children".into()).or_default() += multi_child; }
        for r in &results { *o.result_hist.entry(format!("signer:{r}")).or_default() += 1; }
        for a in &alters { *o.alter_hist.entry(format!("request:{a}")).or_default() += 1; }
        let rec = json!({"index": o.w.total, "history": hist, "aggregate": format!("signer {}", w.signers[s].label), "op": op, "results": results, "messages": alters, "override": ov,
            "number_before": pre["objects"]["revision"]["number"], "number_after": post["objects"]["revision"]["number"], "json_unchanged": same, "class": class});
        writeln!(o.jsonl, "{rec}").unwrap();
        o.distinct.insert(format!("S|{}|{results:?}|{alters:?}|{}", w.signers[s].label, ov.is_some()));
        if o.samples.len() < 6 && o.w.total % 41 == 9 { o.samples.push(rec); }
        o.w.push(term);
    }
    // proxies
    for p in 0..w.parties.len() {
        let (pre, post) = (&before.proxies[p], &after.proxies[p]);
        let (v0, v1) = (pre["version"].as_u64().unwrap_or(0), post["version"].as_u64().unwrap_or(0));
        if v1 == v0 { continue }
        let mut steps = Vec::new();
        let mut kinds = Vec::new();
        let mut results = Vec::new();
        let mut alters = Vec::new();
        for v in v0..v1 {
            let Some(sc) = stored_command(&w.parties[p], TA_PROXY_SERVER_NS, "ta", v) else { continue };
            let ok = sc["effect"]["result"] == "success";
            let err = if ok { "None".to_string() } else { format!("(Some {})", perr_of(sc["effect"]["msg"].as_str().unwrap_or(""))) };
            let d = &sc["details"];
            let (kind, cmd): (String, String) = if d == "MakeSignerRequest" {
                let n = sc["effect"]["events"][0]["SignerRequestMade"].as_str().map(|n| w.it.get("nonce", n)).unwrap_or(0);
                ("make".into(), format!("(PMake {n})"))
            } else if let Some(r) = d.get("ProcessSignerResponse") {
                let (t, by, intact) = resp_msg_term(&mut w.it, &mut w.reg, r);
                let open = pre["open_signer_request"].as_str().map(|s| s.to_string());
                let assoc_id = if pre["signer"].is_null() { 0 } else { id_of(&mut w.it, &pre["signer"]["id"]) };
                alters.push(format!("{}{}{}", if !intact { "altered," } else { "" }, if by != assoc_id { "other-signer," } else { "" },
                    match &open { None => "no-open-request", Some(n) if Some(n.as_str()) != r["response"]["nonce"].as_str() => "other-nonce", _ => "open-nonce" }));
                if ok && p == 0 {
                    for (c, rs) in sorted_map(&r["response"]["child_responses"]) { for (k, _) in sorted_map(rs) { *w.resp_count.entry((c.clone(), k.clone())).or_default() += 1; } }
                }
                ("response".into(), format!("(PResponse {t})"))
            } else if let Some(c) = d.get("AddChild") {
                ("add_child".into(), format!("(PAddChild {} {})", w.it.get("child", c["handle"].as_str().unwrap_or("?")), idcert_number(&mut w.it, &c["id_cert"])))
            } else if let Some(a) = d.get("AddChildRequest") {
                let key = serde_json::from_value::<ProvisioningRequest>(a[1].clone()).map(|r| r.key_identifier().to_string()).unwrap_or_default();
                ("child_request".into(), format!("(PAddReq {} {} {})", w.it.get("child", a[0].as_str().unwrap_or("?")), w.it.get("key", &key), creq_term(&mut w.it, &a[1])))
            } else if let Some(g) = d.get("GiveChildResponse") {
                if ok && p == 0 { let ck = (g[0].as_str().unwrap_or("?").to_string(), g[1].as_str().unwrap_or("?").to_string()); *w.give_count.entry(ck.clone()).or_default() += 1; w.last_given = Some(ck); }
                ("give".into(), format!("(PGive {} {})", w.it.get("child", g[0].as_str().unwrap_or("?")), w.it.get("key", g[1].as_str().unwrap_or("?"))))
            } else if let Some(s) = d.get("AddSigner") { ("add_signer".into(), format!("(PAddSigner {})", sinfo_term(&mut w.it, s)))
            } else if let Some(s) = d.get("UpdateSigner") { ("update_signer".into(), format!("(PUpdateSigner {})", sinfo_term(&mut w.it, s)))
            } else { continue };
            steps.push(format!("mkPStep {cmd} {err}"));
            results.push(if ok { "ok".to_string() } else { perr_of(sc["effect"]["msg"].as_str().unwrap_or("")).to_string() });
            kinds.push(kind);
        }
        if steps.is_empty() { continue }
        let same = strip_version(pre) == strip_version(post);
        let term = format!("CProxy {} {} {} {}", proxy_term(&mut w.it, pre), coq_list(&steps), proxy_term(&mut w.it, post), same);
        let mut o = out.lock().unwrap();
        if !post["signer"].is_null() { if let Some(bad) = decoded_numbers_bad(&post["signer"]["objects"]) {
            let idx = o.w.total; o.impl_failures.push(json!({"index": idx, "history": hist, "op": op, "class": {"decoded_numbers": true}, "what": bad})); } }
        for k in &kinds { *o.kind_hist.entry(format!("proxy:{k}")).or_default() += 1; }
        for (k, r) in kinds.iter().zip(results.iter()) { *o.result_hist.entry(format!("proxy:{k}:{r}")).or_default() += 1; }
        for a in &alters { *o.alter_hist.entry(format!("response:{a}")).or_default() += 1; }
        let rec = json!({"index": o.w.total, "history": hist, "aggregate": format!("proxy {}", if p == 0 { "A" } else { "B" }), "op": op, "commands": kinds, "results": results, "messages": alters,
            "open_before": pre["open_signer_request"], "open_after": post["open_signer_request"],
            "number_before": pre["signer"]["objects"]["revision"]["number"], "number_after": post["signer"]["objects"]["revision"]["number"], "json_unchanged": same,
            "class": {"kind": "proxy", "commands": kinds.join(","), "results": results.join(","), "late_same_key_request": op["late_same_key"] == true}});
        writeln!(o.jsonl, "{rec}").unwrap();
        let shape = |p: &Value| -> String { let ch = sorted_map(&p["child_details"]); format!("{}c/{}q/{}r/{}u", ch.len(),
            ch.iter().map(|(_, c)| c["open_requests"].as_object().map(|m| m.len()).unwrap_or(0)).sum::<usize>(),
            ch.iter().map(|(_, c)| c["open_responses"].as_object().map(|m| m.len()).unwrap_or(0)).sum::<usize>(),
            ch.iter().map(|(_, c)| c["used_keys"].as_object().map(|m| m.len()).unwrap_or(0)).sum::<usize>()) };
        o.distinct.insert(format!("P|{kinds:?}|{results:?}|{alters:?}|{}|{}", pre["open_signer_request"].is_null(), shape(pre)));
        if o.samples.len() < 6 && o.w.total % 41 == 7 { o.samples.push(rec); }
        o.w.push(term);
    }
    out.lock().unwrap().unknown_blobs = w.reg.unknown;
}

fn key_state(sys: &Sys, ca: &str) -> (String, Vec<String>) {
    let Ok(c) = sys.ca(ca) else { return ("none".into(), vec![]) };
    let v = serde_json::to_value(&*c).unwrap();
    let Some(rc) = v["resources"].as_object().and_then(|m| m.values().find(|rc| rc["parent_handle"] == "ta")) else { return ("none".into(), vec![]) };
    let (tag, val) = rc["key_state"].as_object().and_then(|o| o.iter().next()).map(|(k, v)| (k.clone(), v.clone())).unwrap_or(("?".into(), Value::Null));
    // PendingKey / CertifiedKey carry "key_id"; the old key of a roll is an OldKey { key: CertifiedKey, revoke_req }
    let kid = |k: &Value| -> String { k["key_id"].as_str().or_else(|| k["key"]["key_id"].as_str()).unwrap_or_else(|| panic!("harness: key state entry without key id: {k}")).to_string() };
    let keys: Vec<String> = match &val { Value::Array(a) => a.iter().map(kid).collect(), k => vec![kid(k)] };
    (tag, keys)
}

fn tamper_response(w: &World, rng: &mut Rng, v: &Value, target_open: Option<&str>) -> (Value, &'static str) {
    let mut v = v.clone();
    match rng.below(4) {
        0 if target_open.is_some() => { v["response"]["nonce"] = json!(target_open.unwrap()); (v, "nonce-rewritten-to-open") }
        1 => { let n = v["response"]["objects"]["revision"]["number"].as_u64().unwrap_or(0); v["response"]["objects"]["revision"]["number"] = json!(n + 1); (v, "number-changed") }
        2 => {
            if v["response"]["child_responses"].as_object().map(|m| !m.is_empty()).unwrap_or(false) { v["response"]["child_responses"] = json!({}); (v, "child-responses-dropped") }
            else { v["response"]["objects"]["issued"] = json!({}); (v, "issued-dropped") }
        }
        _ => {
            let other = &rng.pick(&w.resp_pool).0;
            if other["signed"] != v["signed"] { v["signed"] = other["signed"].clone(); (v, "signature-of-another-response") }
            else { v["response"]["nonce"] = json!(uuid::Uuid::new_v4().to_string()); (v, "nonce-changed") }
        }
    }
}

fn tamper_request(w: &World, rng: &mut Rng, v: &Value) -> (Value, &'static str) {
    let mut v = v.clone();
    match rng.below(3) {
        0 => { v["request"]["nonce"] = json!(uuid::Uuid::new_v4().to_string()); (v, "nonce-changed") }
        1 => {
            if v["request"]["child_requests"].as_array().map(|a| !a.is_empty()).unwrap_or(false) { v["request"]["child_requests"] = json!([]); (v, "child-requests-dropped") }
            else {
                let donor = w.req_pool.iter().find(|(r, _)| r["request"]["child_requests"].as_array().map(|a| !a.is_empty()).unwrap_or(false));
                match donor { Some((d, _)) => { v["request"]["child_requests"] = d["request"]["child_requests"].clone(); (v, "child-requests-injected") }
                              None => { v["request"]["nonce"] = json!(uuid::Uuid::new_v4().to_string()); (v, "nonce-changed") } }
            }
        }
        _ => {
            let other = &rng.pick(&w.req_pool).0;
            if other["signed"] != v["signed"] { v["signed"] = other["signed"].clone(); (v, "signature-of-another-request") }
            else { v["request"]["nonce"] = json!(uuid::Uuid::new_v4().to_string()); (v, "nonce-changed") }
        }
    }
}

fn make_ta_pem() -> String {
    let rsa = openssl::rsa::Rsa::generate(2048).expect("rsa");
    String::from_utf8(rsa.private_key_to_pem().expect("pem")).expect("utf8")
}

fn bootstrap_with_key(sys: &Sys, pem: &str) {
    use krill::api::admin::PublicationServerUris;
    let uris = PublicationServerUris { rrdp_base_uri: rpki::uri::Https::from_str(RRDP_BASE).unwrap(), rsync_jail: rpki::uri::Rsync::from_str(RSYNC_JAIL).unwrap() };
    sys.krill.repo_manager().init(uris, &sys.krill).expect("repo init");
    sys.krill.ca_manager().ta_init_fully_embedded(rpki::uri::Rsync::from_str(TA_AIA).unwrap(), vec![rpki::uri::Https::from_str(TA_URI).unwrap()], Some(pem.to_string()), &sys.actor, &sys.slow).expect("ta init");
}

static PROF: [std::sync::atomic::AtomicU64; 3] = [std::sync::atomic::AtomicU64::new(0), std::sync::atomic::AtomicU64::new(0), std::sync::atomic::AtomicU64::new(0)];

thread_local! { static IN_KRILL: std::cell::Cell<bool> = const { std::cell::Cell::new(false) }; }
/// Marks the dynamic extent of a call into the real code: a panic inside is a panic of krill, anywhere else it is
/// an error of this harness (reported as such, never as a finding).
fn krill_call<T>(f: impl FnOnce() -> T) -> T { IN_KRILL.with(|c| c.set(true)); let r = f(); IN_KRILL.with(|c| c.set(false)); r }

struct Flags { wedge: bool, late: bool, n_ops: u64 }

fn run_history(args: &Args, hist: u64, seed: u64, flags: &Flags, out: &Mutex<Out>) {
    let mut rng = Rng::new(seed);
    let dir = args.out.join(format!("h{hist}"));
    let mk = |name: &str, ms: u64| { let mut o = SysOpts::new(&dir.join(name)); o.mem_seed = ms; Sys::open(o) };
    let a = mk("A", seed.wrapping_mul(2).wrapping_add(1) % 1_000_000_007);
    let b = mk("B", seed.wrapping_mul(2).wrapping_add(2) % 1_000_000_007);
    let pem = make_ta_pem();
    bootstrap_with_key(&a, &pem);
    b.bootstrap().expect("bootstrap B");
    let mut it = Interner::default();
    let pa = proxy_json(&a); let pb = proxy_json(&b);
    let proxy_ids = [id_of(&mut it, &pa["id"]), id_of(&mut it, &pb["id"])];
    let emb = |sys: &Sys| AggregateStore::<TrustAnchorSigner>::create(sys.krill.storage(), TA_SIGNER_SERVER_NS, false).expect("signer store");
    let ns2 = Ident::boxed_from_string("kv_signer2".to_string()).unwrap();
    let store2 = AggregateStore::<TrustAnchorSigner>::create(a.krill.storage(), &ns2, false).expect("signer2 store");
    // the harness-owned signer: same TA key, new ID key, associated with A's proxy, numbers far above A's
    {
        let contact = a.krill.ca_manager().ta_proxy_repository_contact().expect("contact");
        let details = TrustAnchorSignerInitCommandDetails { proxy_id: a.krill.ca_manager().ta_proxy_id().expect("proxy id"), repo_info: contact.repo_info,
            tal_https: vec![rpki::uri::Https::from_str(TA_URI).unwrap()], tal_rsync: rpki::uri::Rsync::from_str(TA_AIA).unwrap(), private_key_pem: Some(pem.clone()), ta_mft_nr_override: Some(1000) };
        store2.add_with_context(TrustAnchorSignerInitCommand::new(ca_handle("ta2"), details, &a.actor), TrustAnchorSignerContext::from(&a.krill)).expect("init signer2");
    }
    let proxy_store_a = AggregateStore::<TrustAnchorProxy>::create(a.krill.storage(), TA_PROXY_SERVER_NS, false).expect("proxy store");
    let mut signers = vec![
        SignerRef { label: "SA", party: 0, store: emb(&a), ns: Ident::boxed_from_string("ta_signer".into()).unwrap(), handle: ta_handle(), id: 0 },
        SignerRef { label: "SB", party: 1, store: emb(&b), ns: Ident::boxed_from_string("ta_signer".into()).unwrap(), handle: ta_handle(), id: 0 },
        SignerRef { label: "SA2", party: 0, store: store2, ns: ns2, handle: ca_handle("ta2"), id: 0 },
    ];
    for s in signers.iter_mut() { s.id = id_of(&mut it, &signer_json(s)["id"]); }
    let mut w = World { parties: vec![a, b], signers, proxy_store_a, assoc: [0, 1], proxy_ids, it, reg: Registry::default(), req_pool: vec![], resp_pool: vec![],
        children: vec![], reinit_done: false, resp_count: BTreeMap::new(), give_count: BTreeMap::new(), cache: Default::default(), last_given: None, processed: BTreeSet::new() };
    // exchanges done during bootstrap: learn their messages
    for s in 0..w.signers.len() {
        let sj = signer_json(&w.signers[s]);
        for ex in sj["exchanges"].as_array().cloned().unwrap_or_default() {
            let party = w.signers[s].party;
            w.reg.register(ex["request"]["signed"]["message"].as_str().unwrap_or(""), w.proxy_ids[party], &ex["request"]["request"]);
            w.reg.register(ex["response"]["signed"]["message"].as_str().unwrap_or(""), w.signers[s].id, &ex["response"]["response"]);
            w.req_pool.push((ex["request"].clone(), party));
            w.resp_pool.push((ex["response"].clone(), s));
        }
    }
    let res_for = |i: usize| resources(&format!("AS{}-AS{}", 65000 + 10 * i, 65009 + 10 * i), &format!("10.{i}.0.0/16"), "");

    macro_rules! step {
        ($op:expr, $ov:expr, $cur:expr, $body:expr) => {{
            let t0 = std::time::Instant::now();
            let before = snap(&w);
            let t1 = std::time::Instant::now();
            let r: Result<(), String> = krill_call(|| $body);
            let t2 = std::time::Instant::now();
            let after = snap(&w);
            let t3 = std::time::Instant::now();
            PROF[0].fetch_add((t1 - t0).as_micros() as u64 + (t3 - t2).as_micros() as u64, std::sync::atomic::Ordering::Relaxed);
            PROF[1].fetch_add((t2 - t1).as_micros() as u64, std::sync::atomic::Ordering::Relaxed);
            let mut opj: Value = $op;
            opj["result"] = json!(match &r { Ok(()) => "ok".to_string(), Err(e) => e.chars().take(120).collect::<String>() });
            { let mut o = out.lock().unwrap(); *o.op_hist.entry(opj["op"].as_str().unwrap_or("?").to_string()).or_default() += 1; }
            let t4 = std::time::Instant::now();
            emit(&mut w, &before, &after, &opj, hist, $ov, $cur, out);
            PROF[2].fetch_add(t4.elapsed().as_micros() as u64, std::sync::atomic::Ordering::Relaxed);
            r
        }};
    }

    // children of A's TA
    let n_children = 2 + rng.below(2) as usize;
    for i in 0..n_children {
        let name = ["a", "b", "c", "d"][i].to_string();
        let _ = step!(json!({"op": "add_child", "child": name}), None, None, { w.parties[0].add_ca(&name).and_then(|_| w.parties[0].add_parent(&name, "ta", res_for(i))).map_err(|e| e.to_string()) });
        w.children.push(name.clone());
        let _ = step!(json!({"op": "child_sync", "child": name}), None, None, w.parties[0].sync_parent(&name, "ta").map(|_| ()).map_err(|e| e.to_string()));
    }

    let fetch_current = |w: &mut World, party: usize| -> Option<Value> {
        let r: ApiTrustAnchorSignedRequest = { let sys = &w.parties[party]; sys.krill.ca_manager().ta_proxy_signer_get_request(&sys.krill).ok()? };
        let signed: TrustAnchorSignedRequest = r.into();
        let v = serde_json::to_value(&signed).unwrap();
        w.register_request(&v, party);
        Some(v)
    };
    let in_step = |w: &World, party: usize| -> bool {
        let pj = cur_proxy(w, party);
        let sj = cur_signer(w, w.assoc[party]);
        pj["signer"]["objects"]["revision"]["number"] == sj["objects"]["revision"]["number"] && pj["signer"]["id"]["public_key"] == sj["id"]["public_key"]
    };
    let sign_at = |w: &World, s: usize, req: &Value, ov: Option<u64>| -> Result<(), String> {
        let sr = &w.signers[s];
        let sys = &w.parties[sr.party];
        let signed: TrustAnchorSignedRequest = serde_json::from_value(req.clone()).map_err(|e| format!("request does not deserialize: {e}"))?;
        let cmd = TrustAnchorSignerCommand::make_process_request_command(&sr.handle, signed, ov, &sys.actor);
        sr.store.command_with_context(cmd, TrustAnchorSignerContext::from(&sys.krill)).map(|_| ()).map_err(|e| e.to_string())
    };
    let respond_to = |w: &World, party: usize, resp: &Value| -> Result<(), String> {
        let sys = &w.parties[party];
        let r: TrustAnchorSignedResponse = serde_json::from_value(resp.clone()).map_err(|e| format!("response does not deserialize: {e}"))?;
        sys.krill.ca_manager().ta_proxy_signer_process_response(r, &sys.actor, &sys.krill).map_err(|e| e.to_string())
    };
    let make_request = |w: &mut World, p: usize| -> Result<(), String> {
        let r = { let sys = &w.parties[p]; sys.krill.ca_manager().ta_proxy_signer_make_request(&sys.actor, &sys.krill) };
        match r { Ok(r) => { let v = serde_json::to_value(TrustAnchorSignedRequest::from(r)).unwrap(); w.register_request(&v, p); Ok(()) } Err(e) => Err(e.to_string()) }
    };

    // one honest, manual exchange on party p (make if needed, fetch, sign at the associated signer, hand back)
    macro_rules! honest_exchange {
        ($p:expr) => {{
            let p: usize = $p;
            if w.open_nonce(p).is_none() {
                let _ = step!(json!({"op": "make_request", "party": p}), None, None, make_request(&mut w, p));
            }
            if let Some(resp) = w.best_right(p) {
                // the associated signer has answered this nonce already: its most complete answer goes back
                let _ = step!(json!({"op": "respond", "party": p, "response": "open-nonce,associated-signer"}), None, None, respond_to(&w, p, &resp));
            } else if let Some(req) = fetch_current(&mut w, p) {
                let s = w.assoc[p];
                let cur = if in_step(&w, p) { Some(s) } else { None };
                let _ = step!(json!({"op": "sign", "signer": w.signers[s].label, "request": "current"}), None, cur, sign_at(&w, s, &req, None));
                if let Some(resp) = w.best_right(p) {
                    let _ = step!(json!({"op": "respond", "party": p, "response": "fresh"}), None, None, respond_to(&w, p, &resp));
                }
            }
        }};
    }

    // every history starts with ONE signer request that carries requests of all children (two or more), and
    // the hand-over of its answers to each of them
    for c in w.children.clone() { let _ = step!(json!({"op": "child_sync", "child": c, "why": "joint first request"}), None, None, w.parties[0].sync_parent(&c, "ta").map(|_| ()).map_err(|e| e.to_string())); }
    honest_exchange!(0);
    for c in w.children.clone() {
        let _ = step!(json!({"op": "child_sync", "child": c, "why": "answers of the joint request"}), None, None, w.parties[0].sync_parent(&c, "ta").map(|_| ()).map_err(|e| e.to_string()));
        if let Some((gc, gk)) = w.last_given.take() { regive(&mut w, &gc, &gk, "just-handed-over", hist, out); }
    }

    // every second history re-initialises the signer half way (the others end with the F15b scenario)
    let reinit_at = { let r = rng.below(flags.n_ops / 3 + 1); if hist % 2 == 1 { flags.n_ops / 2 + r } else { u64::MAX } };
    for opi in 0..flags.n_ops {
        if opi >= reinit_at && !w.reinit_done {
            // bring every child's key roll to its end first: the re-initialised signer holds no certificates
            for _ in 0..14 {
                let Some(c) = w.children.iter().find(|c| key_state(&w.parties[0], c).0 != "active").cloned() else { break };
                let stepname = if key_state(&w.parties[0], &c).0 == "roll_new" { "activate" } else { "sync" };
                let _ = step!(json!({"op": "roll_step", "child": c, "step": stepname, "why": "before signer re-initialisation"}), None, None, match stepname {
                    "activate" => w.parties[0].keyroll_activate(&c).and_then(|_| w.parties[0].sync_parent(&c, "ta").map(|_| ())),
                    _ => w.parties[0].sync_parent(&c, "ta").map(|_| ()),
                }.map_err(|e| e.to_string()));
                let pending = sorted_map(&cur_proxy(&w, 0)["child_details"]).iter().any(|(_, ch)| ch["open_requests"].as_object().map(|m| !m.is_empty()).unwrap_or(false));
                if pending || w.open_nonce(0).is_some() { honest_exchange!(0); }
            }
        }
        if opi >= reinit_at && !w.reinit_done && w.children.iter().all(|c| key_state(&w.parties[0], c).0 == "active") {
            // finish whatever is open, then associate the proxy with the re-initialised signer
            if w.open_nonce(0).is_some() { honest_exchange!(0); }
            for c in w.children.clone() { let _ = step!(json!({"op": "child_sync", "child": c}), None, None, w.parties[0].sync_parent(&c, "ta").map(|_| ()).map_err(|e| e.to_string())); }
            if w.open_nonce(0).is_none() {
                let info = w.signers[2].store.get_latest(&w.signers[2].handle).expect("signer2").get_signer_info();
                let r = step!(json!({"op": "signer_reinit"}), None, None, { let sys = &w.parties[0]; sys.krill.ca_manager().ta_proxy_signer_update(info, &sys.actor, &sys.krill).map_err(|e| e.to_string()) });
                if r.is_ok() { w.assoc[0] = 2; w.reinit_done = true; }
            }
            continue;
        }
        // the second of two handlers for a response the manager has just handed over
        if let Some((c, k)) = w.last_given.take() { if rng.chance(75) { regive(&mut w, &c, &k, "just-handed-over", hist, out); } }
        let kind = rng.weighted(&[16, 8, 6, 4, 12, 14, 6, 7, 5, 4, 3, 4, 13, 5, 4]);
        match kind {
            0 => { let c = rng.pick(&w.children).clone();
                   let _ = step!(json!({"op": "child_sync", "child": c, "while_open": w.open_nonce(0).is_some()}), None, None, w.parties[0].sync_parent(&c, "ta").map(|_| ()).map_err(|e| e.to_string())); }
            1 => { let p = if rng.chance(85) { 0 } else { 1 };
                   let cur = if w.open_nonce(p).is_none() && w.assoc[p] == p && in_step(&w, p) { Some(p) } else { None };
                   let _ = step!(json!({"op": "sync_ta", "party": p}), None, cur, w.parties[p].sync_ta().map_err(|e| e.to_string())); }
            2 => { let p = if rng.chance(85) { 0 } else { 1 };
                   let _ = step!(json!({"op": "make_request", "party": p, "while_open": w.open_nonce(p).is_some()}), None, None, make_request(&mut w, p)); }
            3 => { let p = if rng.chance(85) { 0 } else { 1 }; let _ = fetch_current(&mut w, p);
                   let mut o = out.lock().unwrap(); *o.op_hist.entry("get_request".into()).or_default() += 1; }
            4 => { // hand some request to some signer
                let s = rng.weighted(&[45, 20, 35]);
                let party = w.signers[s].party;
                let (req, what, cur): (Option<Value>, String, Option<usize>) = match rng.weighted(&[50, 30, 20]) {
                    0 => { let r = fetch_current(&mut w, party); let cur = if r.is_some() && w.assoc[party] == s && in_step(&w, party) { Some(s) } else { None }; (r, "current".into(), cur) }
                    1 => { let cands: Vec<(Value, usize)> = w.req_pool.iter().filter(|(r, pp)| w.safe_for(r, *pp, s)).cloned().collect();
                           if cands.is_empty() { (None, "".into(), None) } else { let (r, pp) = rng.pick(&cands).clone(); (Some(r), format!("from-pool(made by proxy {})", if pp == 0 { "A" } else { "B" }), None) } }
                    _ => { if w.req_pool.is_empty() { (None, "".into(), None) } else { let base = rng.pick(&w.req_pool).0.clone(); let (t, how) = tamper_request(&w, &mut rng, &base); (Some(t), format!("altered:{how}"), None) } }
                };
                if let Some(req) = req {
                    let ov = if rng.chance(12) { Some(cur_signer(&w, s)["objects"]["revision"]["number"].as_u64().unwrap_or(0) + 1 + rng.below(4)) } else { None };
                    let _ = step!(json!({"op": "sign", "signer": w.signers[s].label, "request": what}), ov, cur, sign_at(&w, s, &req, ov));
                }
            }
            5 => { // hand some response to a proxy
                let p = if rng.chance(88) { 0 } else { 1 };
                if w.resp_pool.is_empty() { continue }
                let open = w.open_nonce(p);
                let assoc = w.assoc[p];
                let matching: Vec<usize> = w.resp_pool.iter().enumerate().filter(|(_, (v, _))| open.is_some() && v["response"]["nonce"].as_str() == open.as_deref()).map(|(i, _)| i).collect();
                let right: Vec<usize> = matching.iter().copied().filter(|i| w.resp_pool[*i].1 == assoc).collect();
                let wrong: Vec<usize> = matching.iter().copied().filter(|i| w.resp_pool[*i].1 != assoc).collect();
                let (resp, what): (Value, String) = match rng.weighted(&[45, 17, 20, 18]) {
                    0 if !right.is_empty() => (w.best_right(p).unwrap(), "open-nonce,associated-signer".into()),
                    1 if !wrong.is_empty() => (w.resp_pool[*rng.pick(&wrong)].0.clone(), "open-nonce,other-signer".into()),
                    3 => { let base = rng.pick(&w.resp_pool).0.clone(); let base = if !right.is_empty() && rng.chance(50) { w.best_right(p).unwrap() } else { base };
                           let (t, how) = tamper_response(&w, &mut rng, &base, open.as_deref()); (t, format!("altered:{how}")) }
                    _ => { let (v, s) = rng.pick(&w.resp_pool).clone();
                           // an answer of the associated signer for the open nonce: never an older version than the best one
                           if s == assoc && open.is_some() && v["response"]["nonce"].as_str() == open.as_deref() { (w.best_right(p).unwrap(), "open-nonce,associated-signer".into()) }
                           else { (v, format!("from-pool(made by {})", w.signers[s].label)) } }
                };
                let _ = step!(json!({"op": "respond", "party": p, "response": what}), None, None, respond_to(&w, p, &resp));
            }
            6 => honest_exchange!(0),
            7 => { // advance the key roll of a child by whatever comes next (no new rolls once the signer was re-initialised)
                let c = rng.pick(&w.children).clone();
                let (tag, _) = key_state(&w.parties[0], &c);
                let stepname = match tag.as_str() { "active" if !w.reinit_done => "init", "roll_new" => "activate", _ => "sync" };
                let _ = step!(json!({"op": "roll_step", "child": c, "step": stepname, "while_open": w.open_nonce(0).is_some()}), None, None, match stepname {
                    "init" => w.parties[0].keyroll_init(&c).and_then(|_| w.parties[0].sync_parent(&c, "ta").map(|_| ())),
                    "activate" => w.parties[0].keyroll_activate(&c).and_then(|_| w.parties[0].sync_parent(&c, "ta").map(|_| ())),
                    _ => w.parties[0].sync_parent(&c, "ta").map(|_| ()),
                }.map_err(|e| e.to_string()));
            }
            8 => { // a revocation request through the manager, as the child: for a key of another child (unknown there),
                   // or the old key of a finished-activation roll that is / is not yet requested
                let c = rng.pick(&w.children).clone();
                let pj = cur_proxy(&w, 0);
                let (tag, keys) = key_state(&w.parties[0], &c);
                let mut cands: Vec<(String, &str)> = Vec::new();
                for other in w.children.iter().filter(|o| **o != c) { for (k, _) in sorted_map(&pj["child_details"][other.as_str()]["used_keys"]) { cands.push((k.clone(), "key-of-another-child")); } }
                if tag == "roll_old" && keys.len() == 2 && w.assoc[0] != 2 {
                    let old = &keys[1];
                    let ch = &pj["child_details"][c.as_str()];
                    if ch["open_responses"].get(old.as_str()).is_none() && ch["used_keys"][old.as_str()] != "revoked" { cands.push((old.clone(), "old-key-of-roll")); }
                }
                if cands.is_empty() { continue }
                let (key, why) = rng.pick(&cands).clone();
                let _ = revoke_call(&mut w, &c, &key, why, hist, out);
            }
            9 => { if w.children.len() < 4 && rng.chance(50) {
                       let i = w.children.len(); let name = ["a", "b", "c", "d"][i].to_string();
                       let _ = step!(json!({"op": "add_child", "child": name, "while_open": w.open_nonce(0).is_some()}), None, None, { w.parties[0].add_ca(&name).and_then(|_| w.parties[0].add_parent(&name, "ta", res_for(i))).map_err(|e| e.to_string()) });
                       w.children.push(name.clone());
                       let _ = step!(json!({"op": "child_sync", "child": name}), None, None, w.parties[0].sync_parent(&name, "ta").map(|_| ()).map_err(|e| e.to_string()));
                   } }
            10 => { // cross-wire: B's proxy gets a response made for A, A's signer a request made by B
                if let Some((v, s)) = w.resp_pool.iter().rev().find(|(_, s)| w.signers[*s].party == 0).cloned() {
                    let _ = step!(json!({"op": "respond", "party": 1, "response": format!("cross-wired(made by {})", w.signers[s].label)}), None, None, respond_to(&w, 1, &v)); }
                if let Some((v, _)) = w.req_pool.iter().rev().find(|(_, p)| *p == 1).cloned() {
                    let _ = step!(json!({"op": "sign", "signer": "SA", "request": "cross-wired(made by proxy B)"}), None, None, sign_at(&w, 0, &v, None)); }
            }
            13 => { // hand-over asked for a key that has no pending response (used, revoked, or never used by this child)
                let c = rng.pick(&w.children).clone();
                let pj = cur_proxy(&w, 0);
                let mut cands: Vec<(String, &str)> = Vec::new();
                let ch = &pj["child_details"][c.as_str()];
                for (k, st) in sorted_map(&ch["used_keys"]) { if ch["open_responses"].get(k.as_str()).is_none() { cands.push((k.clone(), if st.as_str() == Some("revoked") { "revoked-key-without-pending-response" } else { "used-key-without-pending-response" })); } }
                for other in w.children.iter().filter(|o| **o != c) { for (k, _) in sorted_map(&pj["child_details"][other.as_str()]["used_keys"]) { if ch["used_keys"].get(k.as_str()).is_none() { cands.push((k.clone(), "key-never-used-by-child")); } } }
                if cands.is_empty() { continue }
                let (k, why) = rng.pick(&cands).clone();
                regive(&mut w, &c, &k, why, hist, out);
            }
            14 => { // a known child is presented again, with the ID certificate it has or with a new one
                let c = rng.pick(&w.children).clone();
                let same = rng.chance(50);
                readd(&mut w, &c, same, "anywhere", hist, out);
            }
            12 => { // gauntlet on A: with a request open, everything that must be refused is tried before the honest answer
                if w.open_nonce(0).is_none() { let _ = step!(json!({"op": "make_request", "party": 0}), None, None, make_request(&mut w, 0)); }
                let Some(open) = w.open_nonce(0) else { continue };
                let Some(req) = fetch_current(&mut w, 0) else { continue };
                let assoc = w.assoc[0];
                let other = if assoc == 0 { 2 } else { 0 };       // also initialised for A's proxy, but not the associated signer
                let mut order: Vec<u64> = vec![0, 1, 2, 3, 4, 5, 6]; for i in (1..order.len()).rev() { let j = rng.below(i as u64 + 1) as usize; order.swap(i, j); }
                for what in order { match what {
                    0 => { // the other signer answers the current request: open nonce, valid signature, wrong signer
                        let n0 = w.resp_pool.len();
                        let _ = step!(json!({"op": "sign", "signer": w.signers[other].label, "request": "current"}), None, None, sign_at(&w, other, &req, None));
                        if w.resp_pool.len() > n0 { let resp = w.resp_pool.last().unwrap().0.clone();
                            let _ = step!(json!({"op": "respond", "party": 0, "response": "open-nonce,other-signer"}), None, None, respond_to(&w, 0, &resp)); } }
                    1 => { // a stale response of the associated signer with the nonce rewritten to the open one
                        if let Some((v, _)) = w.resp_pool.iter().rev().find(|(v, s)| *s == assoc && v["response"]["nonce"].as_str() != Some(open.as_str())).cloned() {
                            let mut v = v; v["response"]["nonce"] = json!(open);
                            let _ = step!(json!({"op": "respond", "party": 0, "response": "altered:stale,nonce-rewritten-to-open"}), None, None, respond_to(&w, 0, &v)); } }
                    2 => { // B's signer is handed A's request; B's latest response is handed to A
                        let _ = step!(json!({"op": "sign", "signer": "SB", "request": "cross-wired(made by proxy A)"}), None, None, sign_at(&w, 1, &req, None));
                        if let Some((v, _)) = w.resp_pool.iter().rev().find(|(_, s)| *s == 1).cloned() {
                            let _ = step!(json!({"op": "respond", "party": 0, "response": "cross-wired(made by SB)"}), None, None, respond_to(&w, 0, &v)); } }
                    3 => { // the current request with altered clear text at the associated signer
                        let (t, how) = tamper_request(&w, &mut rng, &req);
                        let _ = step!(json!({"op": "sign", "signer": w.signers[assoc].label, "request": format!("altered:{how}")}), None, None, sign_at(&w, assoc, &t, None)); }
                    4 => { // an older response as it is (stale nonce)
                        if let Some((v, _)) = w.resp_pool.iter().rev().find(|(v, s)| *s == assoc && v["response"]["nonce"].as_str() != Some(open.as_str())).cloned() {
                            let _ = step!(json!({"op": "respond", "party": 0, "response": "stale"}), None, None, respond_to(&w, 0, &v)); } }
                    5 => { // a child calls in while the request is open
                        let c = rng.pick(&w.children).clone();
                        let _ = step!(json!({"op": "child_sync", "child": c, "while_open": true}), None, None, w.parties[0].sync_parent(&c, "ta").map(|_| ()).map_err(|e| e.to_string())); }
                    _ => { // a second request while one is open
                        let _ = step!(json!({"op": "make_request", "party": 0, "while_open": true}), None, None, make_request(&mut w, 0)); }
                } }
                // the honest answer (to the request as fetched BEFORE the child calls above), first altered, then as it is, then replayed
                let same_content = fetch_current(&mut w, 0).map(|v| v["request"] == req["request"]).unwrap_or(false);
                let cur = if in_step(&w, 0) && same_content { Some(assoc) } else { None };
                let _ = step!(json!({"op": "sign", "signer": w.signers[assoc].label, "request": "current"}), None, cur, sign_at(&w, assoc, &req, None));
                if let Some(resp) = w.best_right(0) {
                    let (t, how) = tamper_response(&w, &mut rng, &resp, None);
                    let _ = step!(json!({"op": "respond", "party": 0, "response": format!("altered:fresh,{how}")}), None, None, respond_to(&w, 0, &t));
                    let _ = step!(json!({"op": "respond", "party": 0, "response": "fresh"}), None, None, respond_to(&w, 0, &resp));
                    let _ = step!(json!({"op": "respond", "party": 0, "response": "replay-of-latest"}), None, None, respond_to(&w, 0, &resp));
                }
            }
            _ => { // replay: the last processed request again at the same signer, the last accepted response again at the proxy
                if rng.chance(50) {
                    if let Some((v, p)) = w.req_pool.iter().rev().find(|(r, pp)| w.safe_for(r, *pp, w.assoc[*pp])).cloned() { let s = w.assoc[p];
                        let _ = step!(json!({"op": "sign", "signer": w.signers[s].label, "request": "replay-of-latest"}), None, None, sign_at(&w, s, &v, None)); }
                } else if let Some((v, _)) = w.resp_pool.iter().rev().find(|(_, s)| *s == w.assoc[0]).cloned() {
                    let _ = step!(json!({"op": "respond", "party": 0, "response": "replay-of-latest"}), None, None, respond_to(&w, 0, &v));
                }
            }
        }
    }

    // ---- candidate F15a (only with --late 1): a request for the same (child, key) stored between fetching the
    //      signer request and processing its response
    if flags.late {
        if w.open_nonce(0).is_some() { honest_exchange!(0); }
        let c = w.children[0].clone();
        for _ in 0..8 { // settle the child
            let _ = step!(json!({"op": "child_sync", "child": c}), None, None, w.parties[0].sync_parent(&c, "ta").map(|_| ()).map_err(|e| e.to_string()));
            if cur_proxy(&w, 0)["child_details"][c.as_str()]["open_requests"].as_object().map(|m| !m.is_empty()).unwrap_or(false) { honest_exchange!(0); } else if key_state(&w.parties[0], &c).0 == "active" { break }
            if key_state(&w.parties[0], &c).0 == "roll_new" { let _ = w.parties[0].keyroll_activate(&c); }
        }
        if key_state(&w.parties[0], &c).0 == "active" && !w.reinit_done {
            let _ = step!(json!({"op": "roll_step", "child": c, "step": "init"}), None, None, w.parties[0].keyroll_init(&c).and_then(|_| w.parties[0].sync_parent(&c, "ta").map(|_| ())).map_err(|e| e.to_string()));
        }
        let pj = cur_proxy(&w, 0);
        let open_issue = sorted_map(&pj["child_details"][c.as_str()]["open_requests"]).iter().find(|(_, r)| r.get("Issuance").is_some()).map(|(k, r)| ((*k).clone(), (*r).clone()));
        if let Some((key, reqv)) = open_issue {
            let _ = step!(json!({"op": "make_request", "party": 0}), None, None, make_request(&mut w, 0));
            let fetched = fetch_current(&mut w, 0);
            // the child changes its mind: same key, other limit (what ta_slow_rfc6492_request does for a request that does not match the stored one)
            let _ = step!(json!({"op": "late_child_request", "child": c, "key": key, "same_key": true}), None, None, {
                let old: ProvisioningRequest = serde_json::from_value(reqv.clone()).unwrap();
                let ProvisioningRequest::Issuance(i) = old else { unreachable!() };
                let mut limit = RequestResourceLimit::new();
                limit.with_asn(rpki::repository::resources::AsBlocks::from_str("AS65000").unwrap());
                let newreq = ProvisioningRequest::Issuance(IssuanceRequest::new(i.class_name().clone(), limit, i.csr().clone()));
                let sys = &w.parties[0];
                let cmd = TrustAnchorProxyCommand::add_child_request(&ta_handle(), child_handle(&c), newreq, &sys.actor);
                w.proxy_store_a.command_with_context(cmd, TrustAnchorProxyContext::from(&sys.krill)).map(|_| ()).map_err(|e| e.to_string()) });
            if let Some(req) = fetched {
                let s = w.assoc[0]; let n0 = w.resp_pool.len();
                let _ = step!(json!({"op": "sign", "signer": w.signers[s].label, "request": "fetched-before-late-request"}), None, None, sign_at(&w, s, &req, None));
                if w.resp_pool.len() > n0 {
                    let resp = w.resp_pool.last().unwrap().0.clone();
                    let before = cur_proxy(&w, 0);
                    let r = step!(json!({"op": "respond", "party": 0, "response": "answer-to-request-fetched-before-late-request", "late_same_key": true}), None, None, respond_to(&w, 0, &resp));
                    let after = cur_proxy(&w, 0);
                    let note = json!({"history": hist, "candidate": "F15a", "child": c, "key": key, "response_accepted": r.is_ok(),
                        "stored_request_before_response": before["child_details"][c.as_str()]["open_requests"][key.as_str()]["Issuance"]["limit"],
                        "stored_request_after_response": after["child_details"][c.as_str()]["open_requests"].get(key.as_str()).map(|r| r["Issuance"]["limit"].clone()),
                        "pending_response_after": after["child_details"][c.as_str()]["open_responses"].get(key.as_str()).map(|r| r["Issuance"]["issued_cert"]["req_limit"].clone())});
                    out.lock().unwrap().notes.push(note);
                }
            }
            let _ = step!(json!({"op": "child_sync", "child": c}), None, None, w.parties[0].sync_parent(&c, "ta").map(|_| ()).map_err(|e| e.to_string()));
        }
    }

    // ---- F15b (fixed in the repaired tree): a second revocation of an already revoked key must be refused at the
    //      proxy, and the trust anchor must keep working afterwards (a later key roll of a child completes)
    if flags.wedge && !w.reinit_done {
        if w.open_nonce(0).is_some() { honest_exchange!(0); }
        macro_rules! roll_round {
            ($c:expr, $why:expr) => {{
                let c: String = $c;
                let (tag, _) = key_state(&w.parties[0], &c);
                let stepname = match tag.as_str() { "active" => "init", "roll_new" => "activate", _ => "sync" };
                let _ = step!(json!({"op": "roll_step", "child": c, "step": stepname, "why": $why}), None, None, match stepname {
                    "init" => w.parties[0].keyroll_init(&c).and_then(|_| w.parties[0].sync_parent(&c, "ta").map(|_| ())),
                    "activate" => w.parties[0].keyroll_activate(&c).and_then(|_| w.parties[0].sync_parent(&c, "ta").map(|_| ())),
                    _ => w.parties[0].sync_parent(&c, "ta").map(|_| ()),
                }.map_err(|e| e.to_string()));
                let pending = sorted_map(&cur_proxy(&w, 0)["child_details"]).iter().any(|(_, ch)| ch["open_requests"].as_object().map(|m| !m.is_empty()).unwrap_or(false));
                if pending || w.open_nonce(0).is_some() { honest_exchange!(0); }
                if let Some((gc, gk)) = w.last_given.take() { regive(&mut w, &gc, &gk, "just-handed-over", hist, out); }
            }};
        }
        let healthy = w.open_nonce(0).is_none();
        let c = w.children[0].clone();
        let mut revoked: Option<String> = None;
        for _ in 0..16 {
            let pj = cur_proxy(&w, 0);
            revoked = sorted_map(&pj["child_details"][c.as_str()]["used_keys"]).iter().find(|(_, s)| s.as_str() == Some("revoked")).map(|(k, _)| (*k).clone());
            if revoked.is_some() && key_state(&w.parties[0], &c).0 == "active" { break }
            roll_round!(c.clone(), "towards a revoked key");
        }
        match (healthy, revoked) {
            (true, Some(k)) => {
                let outcome = revoke_call(&mut w, &c, &k, "key-already-revoked", hist, out);
                let stored = cur_proxy(&w, 0)["child_details"][c.as_str()]["open_requests"].get(k.as_str()).is_some();
                let cur = if in_step(&w, 0) { Some(w.assoc[0]) } else { None };
                let r1 = step!(json!({"op": "sync_ta", "party": 0, "after": "second revocation of a revoked key"}), None, cur, w.parties[0].sync_ta().map_err(|e| e.to_string()));
                // a complete key roll of another child
                let other = w.children.last().unwrap().clone();
                let mut seen_roll = false; let mut done = false;
                for _ in 0..20 {
                    let (tag, _) = key_state(&w.parties[0], &other);
                    if tag != "active" { seen_roll = true; }
                    if tag == "active" && seen_roll { done = true; break }
                    roll_round!(other.clone(), "after the refused second revocation");
                }
                let mut o = out.lock().unwrap();
                o.notes.push(json!({"history": hist, "scenario": "second revocation of a revoked key (F15b, fixed)", "child": c, "key": k, "call_outcome": outcome, "request_stored": stored,
                    "exchange_after": format!("{r1:?}"), "later_key_roll_of": other, "later_key_roll_completed": done}));
                if outcome != "CFailed" || stored { o.impl_failures.push(json!({"index": null, "history": hist, "class": {"second_revocation_admitted": true},
                    "what": format!("child {c}: a revocation request for key {k}, already marked revoked at the TA proxy, was admitted ({outcome})")})); }
                if r1.is_err() || !done { o.impl_failures.push(json!({"index": null, "history": hist, "class": {"ta_wedged_after_second_revocation": true},
                    "what": format!("after the second revocation of key {k}: exchange {r1:?}, key roll of child {other} completed: {done}, open request: {:?}", cur_proxy(&w, 0)["open_signer_request"])})); }
            }
            (h, r) => { out.lock().unwrap().notes.push(json!({"history": hist, "scenario": "second revocation of a revoked key (F15b, fixed)", "skipped": true, "open_request_could_be_closed_before": h, "revoked_key_found": r.is_some()})); }
        }
    }

    // ---- a known child presented again (AddChild for a handle that exists), with the ID certificate it has and with a
    //      fresh one, in every state of that child: nothing requested yet / request queued / request with the signer
    //      (made; answered but not yet back) / response received but not collected / keys in use (/ and a new request
    //      queued). One fresh child per state, so that what happens to one does not disturb the next; afterwards
    //      every child collects what is waiting for it (delivery counts below).
    {
        if w.open_nonce(0).is_some() { honest_exchange!(0); }
        if w.open_nonce(0).is_none() {
            let zs: Vec<String> = (0..6).map(|i| format!("z{i}")).collect();
            for (i, z) in zs.iter().enumerate() {
                let _ = step!(json!({"op": "add_child", "child": z, "why": "to be presented again"}), None, None, { w.parties[0].add_ca(z).and_then(|_| w.parties[0].add_parent(z, "ta", res_for(10 + i))).map_err(|e| e.to_string()) });
            }
            let both = |w: &mut World, z: &str, state: &str| { readd(w, z, true, state, hist, out); readd(w, z, false, state, hist, out); };
            both(&mut w, &zs[0], "nothing-requested-yet");
            // (the first contact learns the entitlements, the second one sends the certificate request)
            for round in 0..2 { for z in &zs { let _ = step!(json!({"op": "child_sync", "child": z, "why": "first request", "round": round}), None, None, w.parties[0].sync_parent(z, "ta").map(|_| ()).map_err(|e| e.to_string())); } }
            both(&mut w, &zs[1], "request-queued");
            let _ = step!(json!({"op": "make_request", "party": 0}), None, None, make_request(&mut w, 0));
            let req = fetch_current(&mut w, 0);
            both(&mut w, &zs[2], "request-with-signer");
            if let Some(req) = req {
                let s = w.assoc[0];
                let _ = step!(json!({"op": "sign", "signer": w.signers[s].label, "request": "current"}), None, None, sign_at(&w, s, &req, None));
                both(&mut w, &zs[3], "request-answered-by-signer");
                if let Some(resp) = w.best_right(0) {
                    let _ = step!(json!({"op": "respond", "party": 0, "response": "fresh"}), None, None, respond_to(&w, 0, &resp));
                }
                both(&mut w, &zs[4], "response-received-not-collected");
            }
            for z in &zs {
                let _ = step!(json!({"op": "child_sync", "child": z, "why": "collect"}), None, None, w.parties[0].sync_parent(z, "ta").map(|_| ()).map_err(|e| e.to_string()));
                if let Some((gc, gk)) = w.last_given.take() { regive(&mut w, &gc, &gk, "just-handed-over", hist, out); }
            }
            both(&mut w, &zs[5], "keys-in-use");
            if !w.reinit_done {
                let z = zs[5].clone();
                let _ = step!(json!({"op": "roll_step", "child": z, "step": "init"}), None, None, w.parties[0].keyroll_init(&z).and_then(|_| w.parties[0].sync_parent(&z, "ta").map(|_| ())).map_err(|e| e.to_string()));
                both(&mut w, &z, "keys-in-use,request-queued");
            }
        } else {
            out.lock().unwrap().notes.push(json!({"history": hist, "scenario": "known child presented again", "skipped": "open request could not be closed"}));
        }
    }

    // ---- per child and key: responses received in accepted exchanges = responses handed over (+ still pending)
    {
        let pj = cur_proxy(&w, 0);
        let mut o = out.lock().unwrap();
        let keys: BTreeSet<(String, String)> = w.resp_count.keys().chain(w.give_count.keys()).cloned().collect();
        for ck in keys {
            let got = *w.resp_count.get(&ck).unwrap_or(&0);
            let given = *w.give_count.get(&ck).unwrap_or(&0);
            let pending = if pj["child_details"][ck.0.as_str()]["open_responses"].get(ck.1.as_str()).is_some() { 1 } else { 0 };
            if got != given + pending {
                o.impl_failures.push(json!({"index": null, "history": hist, "class": {"delivery_count_mismatch": true, "late_same_key_request": flags.late},
                    "what": format!("child {} key {}: {} response(s) received in accepted exchanges, {} handed over, {} pending", ck.0, ck.1, got, given, pending)}));
            }
        }
    }
    drop(w);
    let _ = std::fs::remove_dir_all(&dir);
}

/// GiveChildResponse sent once more for (child, key), as the second of two manager handlers does that both saw the
/// pending response before either removed it (ta_slow_rfc6492_request reads the proxy, then sends the command), or
/// for a key without any pending response. The case is built from the result of the call itself: a command that
/// succeeds without events is not stored.
fn regive(w: &mut World, c: &str, key: &str, why: &str, hist: u64, out: &Mutex<Out>) {
    use std::io::Write;
    let before = snap(w);
    let ki = KeyIdentifier::from_str(key).unwrap_or_else(|_| panic!("harness: not a key identifier: {key:?}"));
    let r = { let sys = &w.parties[0];
        let cmd = TrustAnchorProxyCommand::give_child_response(&ta_handle(), child_handle(c), ki, &sys.actor);
        krill_call(|| w.proxy_store_a.command_with_context(cmd, TrustAnchorProxyContext::from(&sys.krill)).map(|_| ()).map_err(|e| e.to_string())) };
    let after = snap(w);
    let (pre, post) = (before.proxies[0].clone(), after.proxies[0].clone());
    let pending_before = pre["child_details"][c]["open_responses"].get(key).is_some();
    let (err, res) = match &r { Ok(()) => ("None".to_string(), "ok".to_string()), Err(e) => (format!("(Some {})", perr_of(e)), perr_of(e).to_string()) };
    if r.is_ok() { *w.give_count.entry((c.to_string(), key.to_string())).or_default() += 1; }
    let same = strip_version(&pre) == strip_version(&post);
    let (ci, kk) = (w.it.get("child", c), w.it.get("key", key));
    let term = format!("CProxy {} [mkPStep (PGive {ci} {kk}) {err}] {} {}", proxy_term(&mut w.it, &pre), proxy_term(&mut w.it, &post), same);
    let mut o = out.lock().unwrap();
    *o.op_hist.entry("give_again".into()).or_default() += 1;
    *o.kind_hist.entry("proxy:give_again".into()).or_default() += 1;
    *o.result_hist.entry(format!("proxy:give_again:{why}:{res}")).or_default() += 1;
    let rec = json!({"index": o.w.total, "history": hist, "aggregate": "proxy A", "op": {"op": "give_again", "child": c, "key": key, "key_is": why, "response_pending_before": pending_before, "result": match &r { Ok(()) => "ok".to_string(), Err(e) => e.chars().take(120).collect::<String>() }},
        "commands": ["give"], "results": [res], "json_unchanged": same,
        "class": {"kind": "proxy", "commands": "give", "results": res, "give_again": true, "response_pending_before": pending_before}});
    writeln!(o.jsonl, "{rec}").unwrap();
    o.distinct.insert(format!("G|{why}|{res}|{pending_before}"));
    o.w.push(term);
}

/// AddChild for a handle the proxy already knows, through the manager (ca_add_child for "ta"), with the ID certificate
/// the child has (`same`) or with a freshly made one. The case is built from the result of the call itself.
fn readd(w: &mut World, c: &str, same: bool, state: &str, hist: u64, out: &Mutex<Out>) {
    use std::io::Write;
    let before = snap(w);
    let pre = before.proxies[0].clone();
    if pre["child_details"].get(c).is_none() { return }
    let id_cert = { let sys = &w.parties[0];
        if same { sys.krill.ca_manager().get_ca(&ca_handle(c)).expect("harness: child CA").child_request().validate().expect("harness: child request") }
        else { sys.krill.signer().create_self_signed_id_cert().expect("harness: fresh ID certificate") } };
    let idn = { let info = serde_json::to_value(krill::api::ca::IdCertInfo::from(&id_cert)).unwrap(); id_of(&mut w.it, &info) };
    let same_key = pre["child_details"][c]["id"]["public_key"] == serde_json::to_value(krill::api::ca::IdCertInfo::from(&id_cert)).unwrap()["public_key"];
    let r = { let sys = &w.parties[0];
        let req = krill::api::admin::AddChildRequest { handle: child_handle(c), resources: resources("AS65500-AS65510", "10.200.0.0/16", ""), id_cert };
        krill_call(|| sys.krill.ca_manager().ca_add_child(&ta_handle(), req, &sys.actor, &sys.krill).map(|_| ()).map_err(|e| e.to_string())) };
    let after = snap(w);
    let post = after.proxies[0].clone();
    let (err, res) = match &r { Ok(()) => ("None".to_string(), "ok".to_string()), Err(e) => (format!("(Some {})", perr_of(e)), perr_of(e).to_string()) };
    let same_json = strip_version(&pre) == strip_version(&post);
    let ci = w.it.get("child", c);
    let term = format!("CProxy {} [mkPStep (PAddChild {ci} {idn}) {err}] {} {}", proxy_term(&mut w.it, &pre), proxy_term(&mut w.it, &post), same_json);
    let count = |p: &Value, f: &str| p["child_details"][c][f].as_object().map(|m| m.len()).unwrap_or(0);
    let which = if same { "same-id-cert" } else { "other-id-cert" };
    let mut o = out.lock().unwrap();
    if same != same_key { o.harness_errors.push(format!("history {hist}: re-add of {c} meant with {which} but the keys say otherwise")); }
    *o.op_hist.entry("add_again".into()).or_default() += 1;
    *o.kind_hist.entry("proxy:add_again".into()).or_default() += 1;
    *o.result_hist.entry(format!("proxy:add_again:{state}:{which}:{res}")).or_default() += 1;
    if count(&pre, "open_responses") > 0 && !same { *o.kind_hist.entry("proxy:add_again:other-id-cert-while-response-waits".into()).or_default() += 1; }
    // is the child in the state the scenario means it to be in?
    let (q, rr, u) = (count(&pre, "open_requests"), count(&pre, "open_responses"), count(&pre, "used_keys"));
    let as_meant = match state {
        "nothing-requested-yet" => q == 0 && rr == 0 && u == 0,
        "request-queued" => q > 0 && rr == 0 && u == 0 && pre["open_signer_request"].is_null(),
        "request-with-signer" | "request-answered-by-signer" => q > 0 && rr == 0 && !pre["open_signer_request"].is_null(),
        "response-received-not-collected" => rr > 0,
        "keys-in-use" => u > 0 && q == 0 && rr == 0,
        "keys-in-use,request-queued" => u > 0 && q > 0,
        _ => false,
    };
    if as_meant { *o.kind_hist.entry(format!("proxy:add_again:as-meant:{state}:{which}")).or_default() += 1; }
    let rec = json!({"index": o.w.total, "history": hist, "aggregate": "proxy A", "op": {"op": "add_again", "child": c, "id_cert": which, "child_state": state,
            "result": match &r { Ok(()) => "ok".to_string(), Err(e) => e.chars().take(120).collect::<String>() }},
        "child_before": {"used_keys": count(&pre, "used_keys"), "open_requests": count(&pre, "open_requests"), "open_responses": count(&pre, "open_responses")},
        "child_after": {"used_keys": count(&post, "used_keys"), "open_requests": count(&post, "open_requests"), "open_responses": count(&post, "open_responses")},
        "commands": ["add_child"], "results": [res], "json_unchanged": same_json,
        "class": {"kind": "proxy", "commands": "add_child", "results": res, "add_again": true, "same_id_cert": same, "child_state": state}});
    writeln!(o.jsonl, "{rec}").unwrap();
    o.distinct.insert(format!("A|{state}|{which}|{res}|{}q/{}r/{}u", count(&pre, "open_requests"), count(&pre, "open_responses"), count(&pre, "used_keys")));
    if o.samples.len() < 8 && state == "response-received-not-collected" && !same { o.samples.push(rec); }
    o.w.push(term);
}

fn revoke_call(w: &mut World, c: &str, key: &str, why: &str, hist: u64, out: &Mutex<Out>) -> &'static str {
    use std::io::Write;
    let before = snap(w);
    let ki = KeyIdentifier::from_str(key).unwrap_or_else(|_| panic!("harness: not a key identifier: {key:?}"));
    let mut m = HashMap::new();
    m.insert(ta_resource_class_name(), vec![RevocationRequest::new(ta_resource_class_name(), ki)]);
    let r = { let sys = &w.parties[0]; krill_call(|| sys.krill.ca_manager().send_revoke_requests(&ca_handle(c), &parent_handle("ta"), m, &sys.slow)) };
    let after = snap(w);
    let stored = after.proxies[0]["version"] != before.proxies[0]["version"];
    let outcome = match &r { Ok(map) if map.values().any(|v| !v.is_empty()) => "(CDelivered RRevoked)", Ok(_) if stored => "CScheduled", Ok(_) => "CAlready", Err(_) => "CFailed" };
    let op = json!({"op": "revoke_call", "child": c, "key_is": why, "outcome": outcome, "result": match &r { Ok(_) => "ok".to_string(), Err(e) => e.to_string().chars().take(120).collect() }});
    { let mut o = out.lock().unwrap(); *o.op_hist.entry("revoke_call".into()).or_default() += 1; }
    emit(w, &before, &after, &op, hist, None, None, out);
    let (ci, ki) = (w.it.get("child", c), w.it.get("key", key));
    let term = format!("CCall {} {} {} (mkReq KRevoke 0 true) {} {}", proxy_term(&mut w.it, &before.proxies[0]), ci, ki, outcome, proxy_term(&mut w.it, &after.proxies[0]));
    let mut o = out.lock().unwrap();
    *o.kind_hist.entry("call:revoke".into()).or_default() += 1;
    *o.result_hist.entry(format!("call:{why}:{outcome}")).or_default() += 1;
    let rec = json!({"index": o.w.total, "history": hist, "aggregate": "proxy A (manager hand-over)", "op": op, "class": {"kind": "call", "key_is": why, "outcome": outcome}});
    writeln!(o.jsonl, "{rec}").unwrap();
    o.distinct.insert(format!("C|{why}|{outcome}"));
    o.w.push(term);
    match outcome { "CFailed" => "CFailed", "CScheduled" => "CScheduled", "CAlready" => "CAlready", _ => "CDelivered" }
}

fn main() {
    let args = Args::parse("c15");
    let n_hist = args.get_u64("histories", if args.thorough() { 96 } else { 8 });
    let flags = Flags { wedge: args.get_u64("wedge", 1) == 1, late: args.get_u64("late", 0) == 1, n_ops: args.get_u64("ops", if args.thorough() { 90 } else { 40 }) };
    let out = Mutex::new(Out { w: CaseWriter::new(&args.out, HEADER, "list case", FOOTER, 80), jsonl: std::fs::File::create(args.out.join("cases.jsonl")).unwrap(),
        op_hist: BTreeMap::new(), kind_hist: BTreeMap::new(), result_hist: BTreeMap::new(), alter_hist: BTreeMap::new(), distinct: BTreeSet::new(), samples: vec![], impl_failures: vec![], notes: vec![], unknown_blobs: 0, harness_errors: vec![] });
    std::panic::set_hook(Box::new(|_| {}));
    let mut rng = Rng::new(args.seed);
    let seeds: Vec<u64> = (0..n_hist).map(|_| rng.next()).collect();
    let n_threads = std::thread::available_parallelism().map(|n| n.get()).unwrap_or(8).clamp(4, 16).min(n_hist.max(1) as usize);
    std::thread::scope(|s| {
        let mut chunks: Vec<Vec<(u64, u64)>> = vec![Vec::new(); n_threads];
        for (i, sd) in seeds.iter().enumerate() { chunks[i % n_threads].push((i as u64, *sd)); }
        for chunk in chunks {
            let (out, args, flags) = (&out, &args, &flags);
            s.spawn(move || {
                for (h, sd) in chunk {
                    let r = std::panic::catch_unwind(std::panic::AssertUnwindSafe(|| run_history(args, h, sd, flags, out)));
                    if let Err(p) = r {
                        let msg = p.downcast_ref::<String>().cloned().or_else(|| p.downcast_ref::<&str>().map(|s| s.to_string())).unwrap_or("panic".into());
                        if IN_KRILL.with(|c| c.replace(false)) {
                            out.lock().unwrap().impl_failures.push(json!({"index": null, "history": h, "class": {"panic": true}, "what": format!("panic of the real code in history {h}: {msg}")}));
                        } else {
                            out.lock().unwrap().harness_errors.push(format!("history {h}: {msg}"));
                        }
                    }
                }
            });
        }
    });
    let mut o = out.into_inner().unwrap();
    o.w.flush();
    if n_hist > 0 && flags.n_ops > 0 && !o.kind_hist.contains_key("signer:processed-request-of-2+-children") { o.harness_errors.push("no signer request with requests of two or more children was processed in this run".into()); }
    if n_hist >= 2 && flags.n_ops >= 10 && !o.op_hist.contains_key("signer_reinit") { o.harness_errors.push("no signer re-initialisation happened in this run".into()); }
    if n_hist > 0 { for state in ["nothing-requested-yet", "request-queued", "request-with-signer", "request-answered-by-signer", "response-received-not-collected", "keys-in-use", "keys-in-use,request-queued"] {
        for which in ["same-id-cert", "other-id-cert"] {
            if !o.kind_hist.contains_key(&format!("proxy:add_again:as-meant:{state}:{which}")) { o.harness_errors.push(format!("no known child was presented again with {which} in state {state}")); } } } }
    if n_hist > 0 && !o.kind_hist.contains_key("proxy:add_again:other-id-cert-while-response-waits") { o.harness_errors.push("no known child was presented again with another ID certificate while a response waited for it".into()); }
    if o.unknown_blobs > 0 { let n = o.unknown_blobs; o.harness_errors.push(format!("{n} signed blobs of unknown origin (bookkeeping of who signed what)")); }
    write_json(&args.out.join("stats.json"), &json!({
        "scenario": "c15", "seed": args.seed, "tier": args.tier, "histories": n_hist, "ops_per_history": flags.n_ops, "wedge": flags.wedge, "late": flags.late,
        "evaluations": o.w.total, "distinct_nontrivial": o.distinct.len(),
        "rule": "random histories on two embedded trust anchors A and B plus a harness-owned re-initialised signer A2 (same TA key) and 2-4 CAs directly under A's ta: child syncs, key rolls (issuance and revocation requests), embedded exchanges, make/get request, requests handed to any of the three signers (current, replayed, stale, cross-wired, clear text altered under the original signature, forced manifest number), responses handed to the proxies (fresh, replayed, stale, right nonce but other signer, cross-wired, altered), signer re-initialisation, revocation calls through the manager; hand-over commands sent a second time or for keys without a pending response; AddChild for a handle that exists, with the ID certificate the child has and with a fresh one, at random points and - six fresh children per history - in every state of the child (nothing requested yet, request queued, request with the signer, answered by the signer but not yet back, response received but not collected, keys in use, keys in use and a new request queued); one case per (operation, aggregate whose stored history grew): state before, stored commands with outcome, state after; non-trivial = at least one stored command; distinct = distinct (aggregate, command kinds, outcomes, message provenance/alteration, open-or-not)",
        "op_distribution": o.op_hist, "command_distribution": o.kind_hist, "result_distribution": o.result_hist, "message_distribution": o.alter_hist,
        "samples": o.samples, "impl_failures": o.impl_failures, "notes": o.notes, "harness_errors": o.harness_errors,
    }));
    if !o.harness_errors.is_empty() {
        // an error of the harness itself is never a finding about krill: fail the run as broken machinery
        println!("HARNESS ERROR (c15, not a finding about the code under test): {} error(s)", o.harness_errors.len());
        for e in &o.harness_errors { println!("  harness error: {e}"); }
        std::process::exit(3);
    }
    if std::env::var("KV_PROF").is_ok() { eprintln!("prof: snap {} ms, real code {} ms, emit {} ms", PROF[0].load(std::sync::atomic::Ordering::Relaxed) / 1000, PROF[1].load(std::sync::atomic::Ordering::Relaxed) / 1000, PROF[2].load(std::sync::atomic::Ordering::Relaxed) / 1000); }
    println!("c15: {} cases from {} histories ({} impl failures)", o.w.total, n_hist, o.impl_failures.len());
}
