//! C12 correspondence scenario: harness-built RFC 6492 / RFC 8181 CMS messages against the real
//! `CaManager::rfc6492` and `RepositoryManager::rfc8181`, in one in-process system (TA -> parent CA
//! `par` with the children c0, c1 (ID keys held by a second, harness-owned `KrillSigner`), c2 (key in
//! the runtime's signer), `loc` (a real CA of the same instance) and the unregistered CA `mallory`; a
//! publication server with the publishers p0, p1 (second signer), p2 (runtime signer) plus the CAs').
//!
//! Streams: (A) structured provisioning messages: every claimed sender x signing key {registered,
//! another child's, a replaced identity, a random key} x recipient x request kind {list, issue
//! (no limit / limit inside / limit outside the entitlement / unknown class), revoke (own key /
//! another child's key / unknown key), a response payload sent as request}, before and after identity
//! updates on both sides and across an implicit unsuspend; (B) the same for publication (list, publish
//! in the jail, update, withdraw, empty delta, a reply sent as request; publish / update / withdraw reaching into
//! another publisher's base URI in every publisher state: no objects yet, with objects, after withdrawing everything); (C) single-bit
//! corruption of three valid messages (signature, signed attributes / signer info, eContent and the
//! rest); (D, on by default, `--local 0` to skip) the local shortcut: honest (`loc`), across an identity update of
//! the local child, and with a contact naming another child's handle (`mallory`, finding F12a, fixed by /repo 1a6ebc01:
//! must be refused), the same with the embedded TA (the proxy aggregate) as local parent, and the publication shortcut: honest, the CA `pz` named like a publisher registered with a remote ID key
//! (finding F12b, fixed by /repo 346cb17c: must be refused), and across an identity update of a local CA.
//! (A-upd) `ca_child_update` in every shape - ID certificate only, resources only, both in ONE request, both with a resource part
//! that is refused, no-op, unknown child - on remote children and on a CA of this instance, each followed by list requests signed
//! with the key registered before and with the key of the new ID certificate (case `CUpdChild`: the oracle decides from the request
//! which key has to be registered afterwards); the same update addressed to the trust anchor (which has no such command).
//! (B-add / B-near) every `create_publisher` is a case (`CAddPub`: key, jail = the directory named like the handle, nothing else
//! touched); publishers called tango, tata, ta2, taa, TA, t, alice, alice2 reach into a sibling's directory, into the directory
//! whose name merely starts with their own handle, and into the base, in every publisher state. Handles and URI segments are
//! interned in one numbering ("ta" = 1), so that the oracle derives the jail from the handle and not from the server's answer.
//!
//! Per message one Coq `case` (ident/IdentCheck.v): abstracted parent / repository state before and
//! after (children with registered ID key, entitlement, used keys, suspension, last status entry;
//! classes with issued / suspended certificates; stored-command count; publishers with ID key, jail,
//! objects; content revision), the message, flip flags, observed outcome. Bit flips are TESTING of
//! the decoder and signature check, not proof.
use std::collections::{BTreeMap, BTreeSet};
use std::str::FromStr;
use std::time::Duration;

use bytes::Bytes;
use krill::api::admin::{AddChildRequest, ParentCaReq, UpdateChildRequest};
use krill::commons::crypto::KrillSigner;
use krill::commons::crypto::KrillSignerBuilder;
use krill::commons::eventsourcing::{WalStore, WalSupport};
use krill::commons::storage::{Ident, StorageSystem};
use krill::constants::{CASERVER_NS, PUBSERVER_CONTENT_NS, STATUS_NS};
use krill::server::pubd::RepositoryContent;
use rpki::ca::idcert::IdCert;
use rpki::ca::idexchange::{MyHandle, ParentResponse, PublisherRequest, RepoInfo};
use rpki::ca::provisioning::{self, IssuanceRequest, ProvisioningCms, RequestResourceLimit, ResourceClassListResponse, ResourceClassName, RevocationRequest};
use rpki::ca::publication::{self, Base64, PublicationCms, Publish, PublishDelta, Update, Withdraw};
use rpki::crypto::{KeyIdentifier, PublicKey};
use rpki::repository::resources::ResourceSet;
use rpki::uri;
use serde_json::{json, Value};

use kvh::caobs::{atoms_to_resources, resources_json_to_mask, resources_to_mask};
use kvh::sys::*;
use kvh::util::{coq_list, write_json, Args, CaseWriter, Rng};

const PAR: &str = "par";
const HEADER: &str = "From KV Require Import base.Tac ident.Msg ident.Updown ident.Local ident.IdentCheck.\nOpen Scope N_scope.";
const EVALS: [&str; 4] = ["agrees", "c12_ok", "c12_confined", "c12_reply"];

// ---------------------------------------------------------------- identities

#[derive(Clone, Copy, PartialEq, Eq, Debug)]
enum Which { Runtime, Second }

#[derive(Clone)]
struct IdKey { n: u64, kid: KeyIdentifier, pk: PublicKey, which: Which, label: String }

#[derive(Default)]
struct Interner {
    idkeys: BTreeMap<String, u64>,   // key identifier hex -> n (from 1; 0 = none)
    certkeys: BTreeMap<String, u64>, // child certificate keys (from 1)
    handles: BTreeMap<String, u64>,  // from 1
    rcns: BTreeMap<String, u64>,
    contents: BTreeMap<String, u64>, // base64 / hash hex -> content id
}
fn intern(m: &mut BTreeMap<String, u64>, s: &str, base: u64) -> u64 {
    if let Some(v) = m.get(s) { return *v }
    let v = base + m.len() as u64; m.insert(s.to_string(), v); v
}
impl Interner {
    fn idkey(&mut self, kid: &KeyIdentifier) -> u64 { intern(&mut self.idkeys, &kid.to_string(), 1) }
    fn certkey(&mut self, kid: &str) -> u64 { intern(&mut self.certkeys, &kid.to_uppercase(), 1) }
    fn handle(&mut self, h: &str) -> u64 { intern(&mut self.handles, h, 1) }
    fn rcn(&mut self, s: &str) -> u64 { match s.parse::<u64>() { Ok(n) if n < 1000 => n, _ => intern(&mut self.rcns, s, 1000) } }
    /// URI path segments and handles are plain names in ONE numbering ("ta" is interned first: Coq `ta_name` = 1), so
    /// that the jail a handle determines (`jail_of`, Updown.v) can be written down without asking the server.
    fn seg(&mut self, s: &str) -> u64 { self.handle(s) }
    /// content ids are keyed by the SHA-256 of the content so that hashes and contents share numbers
    fn content_of_hash(&mut self, hash_hex: &str) -> u64 { intern(&mut self.contents, &hash_hex.to_lowercase(), 1) }
}

fn json_str(v: &Value) -> String { match v { Value::String(s) => s.clone(), other => other.to_string() } }

// ---------------------------------------------------------------- the world

struct World {
    sys: Sys,
    second: KrillSigner,
    it: Interner,
    shadow: WalStore<RepositoryContent>,
    ids: Vec<IdKey>,                       // every identity key ever created (for reply validation)
    repo_key: Option<PublicKey>,
    rsync_base: String,
}

impl World {
    fn signer(&self, w: Which) -> &KrillSigner { match w { Which::Runtime => self.sys.krill.signer(), Which::Second => &self.second } }

    fn new_id(&mut self, w: Which, label: &str) -> (IdKey, IdCert) {
        let cert = self.signer(w).create_self_signed_id_cert().expect("id cert");
        let pk = cert.public_key().clone();
        let kid = pk.key_identifier();
        let k = IdKey { n: self.it.idkey(&kid), kid, pk, which: w, label: label.to_string() };
        self.ids.push(k.clone());
        (k, cert)
    }
    /// Registers a key that lives in the runtime signer and was created by the real code (a CA's ID).
    fn adopt_id(&mut self, pk: &PublicKey, label: &str) -> IdKey {
        let kid = pk.key_identifier();
        if let Some(k) = self.ids.iter().find(|k| k.kid == kid) { return k.clone() }
        let k = IdKey { n: self.it.idkey(&kid), kid, pk: pk.clone(), which: Which::Runtime, label: label.to_string() };
        self.ids.push(k.clone());
        k
    }
    fn key_number_validating<F: Fn(&PublicKey) -> bool>(&self, f: F) -> u64 {
        self.ids.iter().find(|k| f(&k.pk)).map(|k| k.n).unwrap_or(0)
    }

    fn history_len(&self, ca: &str) -> u64 {
        let store = self.sys.krill.storage().open(CASERVER_NS).expect("ca store");
        let scope = Ident::boxed_from_string(ca.to_string()).unwrap();
        store.keys(Some(&scope), "command-").map(|k| k.len() as u64).unwrap_or(0)
    }
}

// ---------------------------------------------------------------- abstraction of the parent CA

#[derive(Clone, PartialEq, Debug)]
struct AChild { id: u64, ent: u64, used: Vec<(u64, Option<u64>)>, susp: bool, last: Option<(u64, bool)> }
#[derive(Clone, PartialEq, Debug)]
struct AClass { res: Option<u64>, issued: Vec<(u64, (u64, Option<u64>))>, susp: Vec<(u64, (u64, Option<u64>))> }
#[derive(Clone, PartialEq, Debug)]
struct AParent { handle: u64, id: u64, classes: Vec<(u64, AClass)>, children: Vec<(u64, AChild)>, hist: u64, raw_status: BTreeMap<String, String>, raw: String }

fn ua_number(ua: Option<&str>) -> u64 {
    match ua {
        Some("local-child") => 0,
        Some(s) if s.starts_with("ua-") => s[3..].parse::<u64>().map(|n| n + 1).unwrap_or(999_999),
        _ => 999_998,
    }
}

fn limit_mask(v: &Value) -> Option<u64> {
    // RequestResourceLimit json: {"asn": .., "v4": .., "v6": ..} with absent / null members when unlimited
    let get = |k: &str| v.get(k).and_then(|x| x.as_str()).map(|s| s.to_string());
    let (a, b, c) = (get("asn"), get("v4").or(get("ipv4")), get("v6").or(get("ipv6")));
    if a.is_none() && b.is_none() && c.is_none() { return None }
    let rs = ResourceSet::from_strs(a.as_deref().unwrap_or(""), b.as_deref().unwrap_or(""), c.as_deref().unwrap_or("")).expect("limit json");
    Some(resources_to_mask(&rs))
}

fn cert_map(it: &mut Interner, m: Option<&Value>) -> Vec<(u64, (u64, Option<u64>))> {
    let mut v = Vec::new();
    if let Some(Value::Object(o)) = m {
        for (k, c) in o { v.push((it.certkey(k), (resources_json_to_mask(&c["resources"]), limit_mask(&c["limit"])))); }
    }
    v.sort();
    v
}

fn observe_parent(w: &mut World) -> AParent {
    let ca = w.sys.ca(PAR).expect("parent ca");
    let cj = serde_json::to_value(&*ca).unwrap();
    let status = w.sys.krill.ca_manager().get_ca_status(&ca_handle(PAR)).expect("status");
    let sj = serde_json::to_value(&status).unwrap();
    let pid = { let pk = ca.id_cert().public_key.clone(); w.adopt_id(&pk, "par-id").n };
    let mut classes = Vec::new();
    if let Some(Value::Object(o)) = cj.get("resources") {
        for (rcn, rc) in o {
            let ks = &rc["key_state"];
            let cur = if let Some(c) = ks.get("active") { Some(c) }
                      else if let Some(a) = ks.get("roll_pending") { Some(&a[1]) }
                      else if let Some(a) = ks.get("roll_new") { Some(&a[1]) }
                      else if let Some(a) = ks.get("roll_old") { Some(&a[0]) } else { None };
            let res = cur.map(|c| resources_json_to_mask(&c["incoming_cert"]["resources"]));
            classes.push((w.it.rcn(rcn), AClass { res, issued: cert_map(&mut w.it, rc["certificates"].get("issued")), susp: cert_map(&mut w.it, rc["certificates"].get("suspended")) }));
        }
    }
    classes.sort_by_key(|c| c.0);
    let mut children = Vec::new();
    let mut raw_status = BTreeMap::new();
    let handles: Vec<String> = ca.children().map(|h| h.to_string()).collect();
    for h in handles {
        let d = ca.get_child(&child_handle(&h)).expect("child");
        let idn = { let pk = d.id_cert.public_key.clone(); w.adopt_id(&pk, &format!("{h}-id")).n };
        let chj = &cj["children"][h.as_str()];
        let mut used = Vec::new();
        if let Some(Value::Object(u)) = chj.get("used_keys") {
            for (k, st) in u { used.push((w.it.certkey(k), st.get("in_use").map(|c| w.it.rcn(&json_str(c))))); }
        }
        used.sort();
        let st = &sj["children"][h.as_str()];
        raw_status.insert(h.clone(), st.to_string());
        let last = match st.get("last_exchange") {
            Some(e) if !e.is_null() => Some((ua_number(e["user_agent"].as_str()), e["result"].as_str() == Some("success") || e["result"] == json!("Success"))),
            _ => None,
        };
        children.push((w.it.handle(&h), AChild { id: idn, ent: resources_to_mask(&d.resources), used, susp: chj["state"].as_str() == Some("suspended"), last }));
    }
    children.sort_by_key(|c| c.0);
    AParent { handle: w.it.handle(PAR), id: pid, classes, children, hist: w.history_len(PAR), raw_status, raw: format!("{cj}\n{sj}") }
}

fn coq_opt(o: Option<u64>) -> String { match o { Some(n) => format!("(Some {n})"), None => "None".into() } }
fn coq_certs(v: &[(u64, (u64, Option<u64>))]) -> String {
    coq_list(&v.iter().map(|(k, (r, l))| format!("({k}, mkIC {r} {})", coq_opt(*l))).collect::<Vec<_>>())
}
fn coq_parent(p: &AParent) -> String {
    let classes: Vec<String> = p.classes.iter().map(|(r, c)| format!("({r}, mkRC {} {} {})", coq_opt(c.res), coq_certs(&c.issued), coq_certs(&c.susp))).collect();
    let children: Vec<String> = p.children.iter().map(|(h, c)| {
        let used: Vec<String> = c.used.iter().map(|(k, u)| format!("({k}, {})", match u { Some(r) => format!("InUse {r}"), None => "Revoked".into() })).collect();
        let last = match c.last { Some((ua, ok)) => format!("(Some ({ua}, {ok}))"), None => "None".into() };
        format!("({h}, mkChild {} {} {} {} {last})", c.id, c.ent, coq_list(&used), c.susp)
    }).collect();
    format!("(mkParent {} {} {} {} {})", p.handle, p.id, coq_list(&classes), coq_list(&children), p.hist)
}

// ---------------------------------------------------------------- abstraction of the TA proxy (as a parent)

#[derive(Clone, PartialEq, Debug)]
struct ATaChild { id: u64, ent: u64, used: Vec<(u64, Option<u64>)>, open_req: Vec<(u64, bool)>, open_resp: Vec<(u64, bool)>, last: Option<(u64, bool)> }
#[derive(Clone, PartialEq, Debug)]
struct ATa { children: Vec<(u64, ATaChild)>, hist: u64, raw_status: BTreeMap<String, String>, raw: String }

fn observe_ta(w: &mut World) -> ATa {
    let proxy = w.sys.krill.ca_manager().get_trust_anchor_proxy().expect("ta proxy");
    let pj = serde_json::to_value(&*proxy).unwrap();
    let status = w.sys.krill.storage().open(STATUS_NS).expect("status store");
    let scope = Ident::boxed_from_string("ta".to_string()).unwrap();
    let mut children = Vec::new();
    let mut raw_status = BTreeMap::new();
    let mut handles: Vec<String> = match pj.get("child_details") { Some(Value::Object(o)) => o.keys().cloned().collect(), _ => vec![] };
    handles.sort();
    for h in handles {
        let d = proxy.get_child(&child_handle(&h)).expect("ta child");
        let idn = { let pk = d.id.public_key.clone(); w.adopt_id(&pk, &format!("{h}-id-at-ta")).n };
        let cj = &pj["child_details"][h.as_str()];
        let mut used = Vec::new();
        if let Some(Value::Object(u)) = cj.get("used_keys") { for (k, st) in u { used.push((w.it.certkey(k), st.get("in_use").map(|c| w.it.rcn(&json_str(c))))); } }
        used.sort();
        let kinds = |it: &mut Interner, m: Option<&Value>| -> Vec<(u64, bool)> {
            let mut v = Vec::new();
            if let Some(Value::Object(o)) = m { for (k, r) in o { let t = r.to_string(); v.push((it.certkey(k), t.contains("csr") || t.contains("issu"))); } }
            v.sort(); v
        };
        let open_req = kinds(&mut w.it, cj.get("open_requests"));
        let open_resp = kinds(&mut w.it, cj.get("open_responses"));
        let key = Ident::boxed_from_string(format!("children-{h}.json")).unwrap();
        let st: Value = status.get::<Value>(Some(&scope), &key).ok().flatten().unwrap_or(Value::Null);
        raw_status.insert(h.clone(), st.to_string());
        let last = match st.get("last_exchange") {
            Some(e) if !e.is_null() => Some((ua_number(e["user_agent"].as_str()), e["result"].as_str() == Some("success") || e["result"] == json!("Success"))),
            _ => None,
        };
        children.push((w.it.handle(&h), ATaChild { id: idn, ent: resources_to_mask(&d.resources), used, open_req, open_resp, last }));
    }
    children.sort_by_key(|c| c.0);
    ATa { children, hist: pj["version"].as_u64().unwrap_or(0), raw_status, raw: pj.to_string() }
}

fn coq_ta(t: &ATa) -> String {
    let nb = |v: &[(u64, bool)]| coq_list(&v.iter().map(|(k, b)| format!("({k}, {b})")).collect::<Vec<_>>());
    let children: Vec<String> = t.children.iter().map(|(h, c)| {
        let used: Vec<String> = c.used.iter().map(|(k, u)| format!("({k}, {})", match u { Some(r) => format!("InUse {r}"), None => "Revoked".into() })).collect();
        let last = match c.last { Some((ua, ok)) => format!("(Some ({ua}, {ok}))"), None => "None".into() };
        format!("({h}, mkTaChild {} {} {} {} {} {last})", c.id, c.ent, coq_list(&used), nb(&c.open_req), nb(&c.open_resp))
    }).collect();
    format!("(mkTa {} {})", coq_list(&children), t.hist)
}

// ---------------------------------------------------------------- abstraction of the repository

#[derive(Clone, PartialEq, Debug)]
struct APub { id: u64, jail: Vec<u64>, objs: Vec<(Vec<u64>, u64)> }
#[derive(Clone, PartialEq, Debug)]
struct ARepo { id: u64, pubs: Vec<(u64, APub)>, ver: u64, raw: String }

fn abs_uri(w: &mut World, u: &str) -> Vec<u64> {
    let rest = u.strip_prefix(w.rsync_base.as_str()).unwrap_or_else(|| panic!("uri {u} outside the rsync base"));
    rest.split('/').filter(|s| !s.is_empty()).map(|s| w.it.seg(s)).collect()
}

fn observe_repo(w: &mut World, ver0: u64) -> ARepo {
    let krill = w.sys.krill.clone();
    let rm = krill.repo_manager();
    let mut pubs = Vec::new();
    let mut raw = String::new();
    let mut hs: Vec<String> = rm.publishers().expect("publishers").into_iter().map(|h| h.to_string()).collect();
    hs.sort();
    for h in hs {
        let d = rm.get_publisher_details(publisher_handle(&h)).expect("publisher details");
        raw.push_str(&serde_json::to_string(&d).unwrap_or_default());
        let idn = { let pk = d.id_cert.public_key.clone(); w.adopt_id(&pk, &format!("pub-{h}-id")).n };
        let jail = abs_uri(w, d.base_uri.as_str());
        let mut objs = Vec::new();
        for el in rm.list(&publisher_handle(&h)).expect("list").elements() {
            let u = abs_uri(w, el.uri().as_str());
            objs.push((u, w.it.content_of_hash(&el.hash().to_string())));
        }
        objs.sort();
        pubs.push((w.it.handle(&h), APub { id: idn, jail, objs }));
    }
    pubs.sort_by_key(|p| p.0);
    let content = w.shadow.get_latest(&MyHandle::from_str("0").unwrap()).expect("repository content");
    let rid = { let pk = w.repo_key.clone().expect("repo key"); w.adopt_id(&pk, "repo-id").n };
    raw.push_str(&serde_json::to_string(&*content).unwrap_or_default());
    ARepo { id: rid, pubs, ver: content.revision().saturating_sub(ver0), raw }
}

fn coq_nlist(v: &[u64]) -> String { coq_list(&v.iter().map(|n| n.to_string()).collect::<Vec<_>>()) }
fn coq_objs(v: &[(Vec<u64>, u64)]) -> String { coq_list(&v.iter().map(|(u, o)| format!("({}, {o})", coq_nlist(u))).collect::<Vec<_>>()) }
fn coq_repo(r: &ARepo) -> String {
    let pubs: Vec<String> = r.pubs.iter().map(|(h, p)| format!("({h}, mkPub {} {} {})", p.id, coq_nlist(&p.jail), coq_objs(&p.objs))).collect();
    format!("(mkRepo {} {} {})", r.id, coq_list(&pubs), r.ver)
}

// ---------------------------------------------------------------- messages

fn abs_limit(l: &RequestResourceLimit) -> Option<u64> {
    if l.is_empty() { return None }
    let rs = ResourceSet::new(l.asn().cloned().unwrap_or_default(), l.ipv4().cloned().unwrap_or_default().into(), l.ipv6().cloned().unwrap_or_default().into());
    Some(resources_to_mask(&rs))
}

/// (Coq `req` term, human-readable description)
fn abs_req(it: &mut Interner, m: &provisioning::Message) -> (String, String) {
    match m.payload() {
        provisioning::Payload::List => ("RList".into(), "list".into()),
        provisioning::Payload::Issue(r) => {
            let k = it.certkey(&r.csr().public_key().key_identifier().to_string());
            let rcn = it.rcn(r.class_name().as_ref());
            let lim = abs_limit(r.limit());
            (format!("(RIssue {rcn} {k} {} true)", coq_opt(lim)), format!("issue class={} key={k} limit={lim:?}", r.class_name()))
        }
        provisioning::Payload::Revoke(r) => {
            let k = it.certkey(&r.key().to_string());
            let rcn = it.rcn(r.class_name().as_ref());
            (format!("(RRevoke {rcn} {k})"), format!("revoke class={} key={k}", r.class_name()))
        }
        other => ("ROther".into(), format!("other({})", other.payload_type())),
    }
}

fn abs_reply(it: &mut Interner, m: &provisioning::Message) -> String {
    match m.payload() {
        provisioning::Payload::ListResponse(l) => {
            let mut cs = Vec::new();
            for c in l.classes() {
                let mut certs: Vec<(u64, u64)> = c.issued_certs().iter().map(|ic| {
                    let rs = ResourceSet::try_from(ic.cert()).expect("cert resources");
                    (it.certkey(&ic.cert().subject_key_identifier().to_string()), resources_to_mask(&rs))
                }).collect();
                certs.sort();
                cs.push(format!("({}, {}, {})", it.rcn(c.class_name().as_ref()), resources_to_mask(c.resource_set()),
                    coq_list(&certs.iter().map(|(k, r)| format!("({k}, {r})")).collect::<Vec<_>>())));
            }
            format!("(RepList {})", coq_list(&cs))
        }
        provisioning::Payload::IssueResponse(r) => {
            let class = serde_json::to_value(r).ok().map(|v| json_str(&v["class_name"])).unwrap_or_default();
            let ic = r.clone().into_issued();
            let rs = ResourceSet::try_from(ic.cert()).expect("cert resources");
            format!("(RepIssue {} {} {})", it.rcn(&class), it.certkey(&ic.cert().subject_key_identifier().to_string()), resources_to_mask(&rs))
        }
        provisioning::Payload::RevokeResponse(r) => format!("(RepRevoke {} {})", it.rcn(r.class_name().as_ref()), it.certkey(&r.key().to_string())),
        other => format!("(RepRevoke 999999 {})", other.payload_type() as u64 + 900_000),
    }
}

fn abs_elem_list(w: &mut World, d: &PublishDelta) -> String {
    let mut v = Vec::new();
    for el in d.clone().into_elements() {
        match el {
            publication::PublishDeltaElement::Publish(p) => { let u = abs_uri(w, p.uri().as_str()); v.push(format!("EPub {} {}", coq_nlist(&u), w.it.content_of_hash(&p.content().to_hash().to_string()))) }
            publication::PublishDeltaElement::Update(p) => { let u = abs_uri(w, p.uri().as_str()); v.push(format!("EUpd {} {} {}", coq_nlist(&u), w.it.content_of_hash(&p.hash().to_string()), w.it.content_of_hash(&p.content().to_hash().to_string()))) }
            publication::PublishDeltaElement::Withdraw(p) => { let u = abs_uri(w, p.uri().as_str()); v.push(format!("EWdr {} {}", coq_nlist(&u), w.it.content_of_hash(&p.hash().to_string()))) }
        }
    }
    coq_list(&v)
}

fn abs_query(w: &mut World, m: &publication::Message) -> (String, String) {
    match m.clone().as_query() {
        Ok(publication::Query::List) => ("QList".into(), "list".into()),
        Ok(publication::Query::Delta(d)) => { let t = abs_elem_list(w, &d); (format!("(QDelta {t})"), format!("delta {t}")) }
        Err(_) => ("QReply".into(), "reply-as-request".into()),
    }
}

fn abs_preply(w: &mut World, m: &publication::Message) -> String {
    match m.clone().as_reply() {
        Ok(publication::Reply::List(l)) => {
            let mut objs = Vec::new();
            for el in l.elements() { let u = abs_uri(w, el.uri().as_str()); objs.push((u, w.it.content_of_hash(&el.hash().to_string()))); }
            objs.sort();
            format!("(PList {})", coq_objs(&objs))
        }
        Ok(publication::Reply::Success) => "PSuccess".into(),
        Ok(publication::Reply::ErrorReply(_)) => "PError".into(),
        Err(_) => "PError".into(),
    }
}

// ---------------------------------------------------------------- output

struct Out {
    w: CaseWriter,
    lines: Vec<String>,
    dist: BTreeMap<String, u64>,
    outcome_dist: BTreeMap<String, u64>,
    distinct: BTreeSet<String>,
    samples: Vec<Value>,
    impl_failures: Vec<Value>,
}
impl Out {
    fn push(&mut self, term: String, mut rec: Value, stream: &str, nontrivial_key: Option<String>) {
        let idx = self.w.total;
        rec["index"] = json!(idx);
        *self.dist.entry(stream.to_string()).or_default() += 1;
        *self.outcome_dist.entry(format!("{}:{}", rec["protocol"].as_str().unwrap_or("?"), rec["outcome"].as_str().unwrap_or("?"))).or_default() += 1;
        if let Some(k) = nontrivial_key { self.distinct.insert(k); }
        if self.samples.len() < 6 && (idx % 37 == 0 || rec["outcome"] == "served") { self.samples.push(rec.clone()); }
        self.lines.push(rec.to_string());
        self.w.push(term);
    }
}

// ---------------------------------------------------------------- sending

struct Sent6492 { outcome_term: String, outcome: String, served_as: Option<String>, post: AParent }

/// Feeds bytes to the real `rfc6492`, classifies the outcome and observes the parent afterwards.
fn send6492(w: &mut World, bytes: &[u8], ua_idx: u64, out: &mut Out, desc: &str) -> Sent6492 {
    let ua = format!("ua-{ua_idx}");
    let krill = w.sys.krill.clone();
    let actor = w.sys.actor.clone();
    let b = Bytes::copy_from_slice(bytes);
    let res = std::panic::catch_unwind(std::panic::AssertUnwindSafe(|| {
        krill.ca_manager().rfc6492(&ca_handle(PAR), b, Some(ua.clone()), &actor, &krill)
    }));
    let post = observe_parent(w);
    // the child whose status entry carries this message's user agent
    let marked: Option<String> = post.raw_status.iter().find(|(_, s)| s.contains(&format!("\"{ua}\""))).map(|(h, _)| h.clone());
    let marked_n = marked.as_ref().map(|h| w.it.handle(h));
    match res {
        Err(p) => {
            let msg = p.downcast_ref::<String>().cloned().or_else(|| p.downcast_ref::<&str>().map(|s| s.to_string())).unwrap_or_default();
            out.impl_failures.push(json!({"index": out.w.total, "class": {"panic": true, "protocol": "rfc6492"}, "what": format!("panic in rfc6492 on {desc}: {msg}")}));
            Sent6492 { outcome_term: "Panicked".into(), outcome: "panic".into(), served_as: None, post }
        }
        Ok(Err(_e)) => match marked_n {
            Some(c) => Sent6492 { outcome_term: format!("(Failed {c})"), outcome: "failed".into(), served_as: marked, post },
            None => Sent6492 { outcome_term: "Refused".into(), outcome: "refused".into(), served_as: None, post },
        },
        Ok(Ok(reply)) => {
            let (term, ok) = match ProvisioningCms::decode(reply.as_ref()) {
                Ok(cms) => {
                    let kn = w.key_number_validating(|pk| cms.validate(pk).is_ok());
                    let m = cms.message();
                    let payload = abs_reply(&mut w.it, m);
                    (format!("(mkMsg {} {} {} {} {})", w.it.handle(m.sender().as_str()), w.it.handle(m.recipient().as_str()), payload, kn, kn != 0), true)
                }
                Err(_) => ("(mkMsg 0 0 (RepRevoke 999999 999999) 0 false)".to_string(), false),
            };
            let _ = ok;
            Sent6492 { outcome_term: format!("(Served {} {term})", marked_n.unwrap_or(0)), outcome: "served".into(), served_as: marked, post }
        }
    }
}

struct Sent8181 { outcome_term: String, outcome: String, post: ARepo }

fn send8181(w: &mut World, url_handle: &str, bytes: &[u8], ver0: u64, out: &mut Out, desc: &str) -> Sent8181 {
    let krill = w.sys.krill.clone();
    let b = Bytes::copy_from_slice(bytes);
    let h = publisher_handle(url_handle);
    let res = std::panic::catch_unwind(std::panic::AssertUnwindSafe(|| krill.repo_manager().rfc8181(h, b, &krill)));
    let post = observe_repo(w, ver0);
    let hn = w.it.handle(url_handle);
    match res {
        Err(p) => {
            let msg = p.downcast_ref::<String>().cloned().or_else(|| p.downcast_ref::<&str>().map(|s| s.to_string())).unwrap_or_default();
            out.impl_failures.push(json!({"index": out.w.total, "class": {"panic": true, "protocol": "rfc8181"}, "what": format!("panic in rfc8181 on {desc}: {msg}")}));
            Sent8181 { outcome_term: "Panicked".into(), outcome: "panic".into(), post }
        }
        Ok(Err(_)) => Sent8181 { outcome_term: "Refused".into(), outcome: "refused".into(), post },
        Ok(Ok(reply)) => {
            let term = match PublicationCms::decode(reply.as_ref()) {
                Ok(cms) => {
                    let kn = w.key_number_validating(|pk| cms.validate(pk).is_ok());
                    let m = cms.into_message();
                    format!("(mkMsg 0 0 {} {} {})", abs_preply(w, &m), kn, kn != 0)
                }
                Err(_) => "(mkMsg 0 0 PError 0 false)".to_string(),
            };
            Sent8181 { outcome_term: format!("(Served {hn} {term})"), outcome: "served".into(), post }
        }
    }
}

// ---------------------------------------------------------------- scenario helpers

struct Remote { handle: String, id: IdKey, old_ids: Vec<IdKey>, cert_keys: Vec<KeyIdentifier>, ent_mask: u32 }

fn make_csr(w: &World, key: &KeyIdentifier) -> rpki::ca::csr::RpkiCaCsr {
    let info = RepoInfo::new(uri::Rsync::from_str("rsync://localhost/repo/remote/").unwrap(), Some(uri::Https::from_str("https://localhost:3000/rrdp/notification.xml").unwrap()));
    w.second.sign_csr(&info, "0", key).expect("csr")
}

fn limit_of_mask(mask: u32) -> RequestResourceLimit {
    let rs = atoms_to_resources(mask);
    let mut l = RequestResourceLimit::new();
    l.with_asn(rs.asn().clone());
    l.with_ipv4(rs.ipv4().clone().into());
    l.with_ipv6(rs.ipv6().clone().into());
    l
}

fn sign6492(w: &World, m: provisioning::Message, k: &IdKey) -> Option<Vec<u8>> {
    w.signer(k.which).create_rfc6492_cms(m, &k.kid).ok().map(|c| c.to_bytes().to_vec())
}
fn sign8181(w: &World, m: publication::Message, k: &IdKey) -> Option<Vec<u8>> {
    w.signer(k.which).create_rfc8181_cms(m, &k.kid).ok().map(|c| c.to_bytes().to_vec())
}

/// Signing a message generates a one-off RSA key (the EE certificate of the CMS): do it on all cores.
fn par_map<T: Sync, R: Send>(items: &[T], f: impl Fn(&T) -> R + Sync) -> Vec<R> {
    let n = std::thread::available_parallelism().map(|n| n.get()).unwrap_or(4).clamp(1, 16);
    let next = std::sync::atomic::AtomicUsize::new(0);
    let results: std::sync::Mutex<Vec<Option<R>>> = std::sync::Mutex::new((0..items.len()).map(|_| None).collect());
    std::thread::scope(|sc| {
        for _ in 0..n {
            sc.spawn(|| loop {
                let i = next.fetch_add(1, std::sync::atomic::Ordering::SeqCst);
                if i >= items.len() { break }
                let r = f(&items[i]);
                results.lock().unwrap()[i] = Some(r);
            });
        }
    });
    results.into_inner().unwrap().into_iter().map(|r| r.expect("job done")).collect()
}

fn par_sign6492(w: &World, jobs: &[(provisioning::Message, IdKey)]) -> Vec<Option<Vec<u8>>> {
    let (rt, sec) = (w.sys.krill.signer(), &w.second);
    par_map(jobs, |(m, k)| { let s = match k.which { Which::Runtime => rt, Which::Second => sec }; s.create_rfc6492_cms(m.clone(), &k.kid).ok().map(|c| c.to_bytes().to_vec()) })
}
fn par_sign8181(w: &World, jobs: &[(publication::Message, IdKey)]) -> Vec<Option<Vec<u8>>> {
    let (rt, sec) = (w.sys.krill.signer(), &w.second);
    par_map(jobs, |(m, k)| { let s = match k.which { Which::Runtime => rt, Which::Second => sec }; s.create_rfc8181_cms(m.clone(), &k.kid).ok().map(|c| c.to_bytes().to_vec()) })
}

/// Writes one RFC 6492 case. `decoded` is the message the bytes decode to (None: they do not decode).
#[allow(clippy::too_many_arguments)]
fn case6492(w: &mut World, out: &mut Out, pre: &AParent, bytes: &[u8], original: &provisioning::Message, signer: &IdKey,
            corrupt: Option<usize>, stream: &str, ua: &mut u64, extra: Value) -> AParent {
    let decoded = ProvisioningCms::decode(bytes).ok().map(|c| c.into_message());
    let shown = decoded.as_ref().unwrap_or(original);
    let same = decoded.as_ref().map(|d| d == original).unwrap_or(false);
    let (req_term, req_desc) = abs_req(&mut w.it, shown);
    let (sn, rn) = (w.it.handle(shown.sender().as_str()), w.it.handle(shown.recipient().as_str()));
    let msg_term = format!("(mkMsg {sn} {rn} {req_term} {} true)", signer.n);
    let this_ua = *ua; *ua += 1;
    let desc = format!("{} -> {} {req_desc} signed-by {}", shown.sender(), shown.recipient(), signer.label);
    let sent = send6492(w, bytes, this_ua, out, &desc);
    let (pre_t, post_t) = (coq_parent(pre), coq_parent(&sent.post));
    let term = if pre_t == post_t { format!("(let p := {pre_t} in C6492 p {} {msg_term} {} {} p {})", this_ua + 1, corrupt.is_some(), same, sent.outcome_term) }
               else { format!("(C6492 {pre_t} {} {msg_term} {} {} {post_t} {})", this_ua + 1, corrupt.is_some(), same, sent.outcome_term) };
    if sent.outcome == "refused" && pre.raw != sent.post.raw {
        out.impl_failures.push(json!({"index": out.w.total, "class": {"refused_but_raw_state_changed": true, "protocol": "rfc6492"},
            "what": format!("refused message changed the stored CertAuth / status JSON of the parent: {desc}")}));
    }
    let registered = pre.children.iter().find(|(h, _)| *h == sn).map(|(_, c)| c.id);
    let mut rec = json!({"protocol": "rfc6492", "stream": stream, "sender": shown.sender().as_str(), "recipient": shown.recipient().as_str(),
        "request": req_desc, "signed_by": signer.label, "signed_by_key": signer.n, "registered_key_of_sender": registered,
        "flipped_bit": corrupt, "decodes": decoded.is_some(), "decodes_to_identical_message": same,
        "outcome": sent.outcome, "served_as": sent.served_as, "state_changed": *pre != sent.post,
        "history_before": pre.hist, "history_after": sent.post.hist,
        "class": {"path": "remote", "protocol": "rfc6492", "corrupt": corrupt.is_some()}});
    if let Value::Object(o) = extra { for (k, v) in o { rec[k] = v; } }
    let nontrivial = if registered.is_some() { Some(format!("6492|{sn}|{rn}|{}|{req_term}|{corrupt:?}", signer.n)) } else { None };
    out.push(term, rec, stream, nontrivial);
    sent.post
}

#[allow(clippy::too_many_arguments)]
fn case8181(w: &mut World, out: &mut Out, pre: &ARepo, url_handle: &str, bytes: &[u8], original: &publication::Message, signer: &IdKey,
            corrupt: Option<usize>, stream: &str, ver0: u64) -> ARepo {
    let decoded = PublicationCms::decode(bytes).ok().map(|c| c.into_message());
    let shown = decoded.as_ref().unwrap_or(original);
    let same = decoded.as_ref().map(|d| d == original).unwrap_or(false);
    // a decoded message may name URIs outside the server's base (flipped bits): not expressible, treat as undecodable
    let expressible = std::panic::catch_unwind(std::panic::AssertUnwindSafe(|| { let mut it2 = Interner::default(); std::mem::swap(&mut it2, &mut w.it); let r = abs_query_probe(w.rsync_base.as_str(), shown); std::mem::swap(&mut it2, &mut w.it); r })).unwrap_or(false);
    let shown = if expressible { shown } else { original };
    let same = same && expressible;
    let (q_term, q_desc) = abs_query(w, shown);
    let hn = w.it.handle(url_handle);
    let msg_term = format!("(mkMsg {hn} 0 {q_term} {} true)", signer.n);
    let desc = format!("publisher-url {url_handle} {q_desc} signed-by {}", signer.label);
    let sent = send8181(w, url_handle, bytes, ver0, out, &desc);
    let (pre_t, post_t) = (coq_repo(pre), coq_repo(&sent.post));
    let term = if pre_t == post_t { format!("(let p := {pre_t} in C8181 p {msg_term} {} {} p {})", corrupt.is_some(), same, sent.outcome_term) }
               else { format!("(C8181 {pre_t} {msg_term} {} {} {post_t} {})", corrupt.is_some(), same, sent.outcome_term) };
    if sent.outcome == "refused" && pre.raw != sent.post.raw {
        out.impl_failures.push(json!({"index": out.w.total, "class": {"refused_but_raw_state_changed": true, "protocol": "rfc8181"},
            "what": format!("refused message changed the stored repository content / publisher details: {desc}")}));
    }
    let registered = pre.pubs.iter().find(|(h, _)| *h == hn).map(|(_, p)| p.id);
    let rec = json!({"protocol": "rfc8181", "stream": stream, "sender": url_handle, "request": q_desc, "signed_by": signer.label, "signed_by_key": signer.n,
        "registered_key_of_sender": registered, "flipped_bit": corrupt, "decodes": decoded.is_some(), "decodes_to_identical_message": same,
        "outcome": sent.outcome, "state_changed": *pre != sent.post, "revision_before": pre.ver, "revision_after": sent.post.ver,
        "class": {"path": "remote", "protocol": "rfc8181", "corrupt": corrupt.is_some()}});
    let nontrivial = if registered.is_some() { Some(format!("8181|{hn}|{}|{q_term}|{corrupt:?}", signer.n)) } else { None };
    out.push(term, rec, stream, nontrivial);
    sent.post
}

/// One `ca_child_update` on the parent `par` (a new ID certificate, a new resource set, or both in ONE request) followed
/// by signed list requests of that child (`probes`: label, signing key). Writes one `CUpdChild` case.
#[allow(clippy::too_many_arguments)]
fn update_case(w: &mut World, out: &mut Out, ua: &mut u64, child: &str, id: Option<(&IdKey, &IdCert)>, res: Option<u32>,
               probes: &[(String, IdKey)], stream: &str, what: &str) -> bool {
    let pre = observe_parent(w);
    let req = UpdateChildRequest { id_cert: id.map(|(_, c)| c.clone()), resources: res.map(atoms_to_resources), suspend: None, resource_class_name_mapping: None };
    let r = w.sys.krill.ca_manager().ca_child_update(&ca_handle(PAR), child_handle(child), req, &w.sys.actor, &w.sys.krill);
    let ok = r.is_ok();
    let mid = observe_parent(w);
    let cn = w.it.handle(child);
    let pn = w.it.handle(PAR);
    let reg = |p: &AParent| p.children.iter().find(|(h, _)| *h == cn).map(|(_, c)| c.id);
    let ent = |p: &AParent| p.children.iter().find(|(h, _)| *h == cn).map(|(_, c)| c.ent);
    let jobs: Vec<(provisioning::Message, IdKey)> = probes.iter().map(|(_, k)| (provisioning::Message::list(child_handle(child).convert(), parent_handle(PAR).convert()), k.clone())).collect();
    let signed = par_sign6492(w, &jobs);
    let mut probe_terms = Vec::new();
    let mut probe_recs = Vec::new();
    let mut cur = mid.clone();
    for ((label, k), bytes) in probes.iter().zip(signed) {
        let Some(bytes) = bytes else { probe_recs.push(json!({"signed_by": label, "key": k.n, "outcome": "could-not-sign"})); continue };
        let this_ua = *ua; *ua += 1;
        let desc = format!("{child} -> {PAR} list signed-by {label} after child update ({what})");
        let sent = send6492(w, &bytes, this_ua, out, &desc);
        if sent.outcome == "refused" && cur.raw != sent.post.raw {
            out.impl_failures.push(json!({"index": out.w.total, "class": {"refused_but_raw_state_changed": true, "protocol": "rfc6492"},
                "what": format!("refused message changed the stored CertAuth / status JSON of the parent: {desc}")}));
        }
        probe_terms.push(format!("({}, mkMsg {cn} {pn} RList {} true, {}, {})", this_ua + 1, k.n, coq_parent(&sent.post), sent.outcome_term));
        probe_recs.push(json!({"signed_by": label, "key": k.n, "registered_key_of_child_at_that_moment": reg(&cur), "outcome": sent.outcome, "served_as": sent.served_as}));
        cur = sent.post;
    }
    let upd = format!("(mkUpd {} {})", coq_opt(id.map(|(k, _)| k.n)), coq_opt(res.map(|m| m as u64)));
    let term = format!("(CUpdChild {} {cn} {upd} {ok} {} {})", coq_parent(&pre), coq_parent(&mid), coq_list(&probe_terms));
    let shape = match (id.is_some(), res.is_some()) { (true, true) => "id+resources", (true, false) => "id-only", (false, true) => "resources-only", _ => "empty" };
    let rec = json!({"protocol": "rfc6492", "stream": stream, "what": what, "parent": PAR, "child": child, "update_shape": shape,
        "update_id_cert_key": id.map(|(k, _)| k.n), "update_resources_mask": res, "update_result": format!("{:?}", r.as_ref().map_err(|e| e.to_string())),
        "registered_key_before": reg(&pre), "registered_key_after": reg(&mid), "entitlement_before": ent(&pre), "entitlement_after": ent(&mid),
        "history_before": pre.hist, "history_after": mid.hist, "requests_after_the_update": probe_recs,
        "outcome": if ok { "update-ok" } else { "update-error" }, "state_changed": pre != cur,
        "class": {"path": "admin", "protocol": "rfc6492", "update_shape": shape}});
    out.push(term, rec, stream, Some(format!("upd|{child}|{shape}|{:?}|{:?}|{}", id.map(|(k, _)| k.n), res, out.w.total)));
    ok
}

/// One `create_publisher` (remote publisher `handle`, ID certificate `cert` with key `id`). Writes one `CAddPub` case.
fn addpub_case(w: &mut World, out: &mut Out, handle: &str, id: &IdKey, cert: &IdCert, ver0: u64, stream: &str, what: &str) -> bool {
    let pre = observe_repo(w, ver0);
    let req = PublisherRequest::new(Base64::from_content(cert.to_bytes().as_ref()), publisher_handle(handle), None);
    let r = w.sys.krill.repo_manager().create_publisher(req, &w.sys.actor);
    let ok = r.is_ok();
    let post = observe_repo(w, ver0);
    let hn = w.it.handle(handle);
    let term = format!("(CAddPub {} {hn} {} {ok} {})", coq_repo(&pre), id.n, coq_repo(&post));
    // what the server says the publisher's base URI is (RFC 8183 repository response) - shown, never used as the expectation
    let told = w.sys.krill.repo_manager().repository_response(&publisher_handle(handle), &w.sys.krill).ok().map(|r| r.sia_base().to_string());
    let expected = if handle == "ta" { w.rsync_base.clone() } else { format!("{}{handle}/", w.rsync_base) };
    let rec = json!({"protocol": "rfc8181", "stream": stream, "what": what, "publisher": handle, "id_key": id.n,
        "result": format!("{:?}", r.as_ref().map(|_| ()).map_err(|e| e.to_string())), "base_uri_reported_by_server": told, "base_uri_derived_from_handle": expected,
        "outcome": if ok { "publisher-added" } else { "add-error" }, "state_changed": pre != post,
        "class": {"path": "admin", "protocol": "rfc8181"}});
    out.push(term, rec, stream, Some(format!("addpub|{handle}|{}|{}", id.n, out.w.total)));
    ok
}

/// True iff every URI of the message lies under the rsync base (so that it can be abstracted).
fn abs_query_probe(base: &str, m: &publication::Message) -> bool {
    match m.clone().as_query() {
        Ok(publication::Query::Delta(d)) => d.into_elements().iter().all(|el| match el {
            publication::PublishDeltaElement::Publish(p) => p.uri().as_str().starts_with(base),
            publication::PublishDeltaElement::Update(p) => p.uri().as_str().starts_with(base),
            publication::PublishDeltaElement::Withdraw(p) => p.uri().as_str().starts_with(base),
        }),
        _ => true,
    }
}

/// Bit positions to flip in a message of `len` bytes whose eContent starts at `ec` (length `ecl`):
/// the signature (last 256 bytes), the signed attributes / signer info before it, the eContent, the rest.
fn flip_positions(rng: &mut Rng, len: usize, ec: usize, ecl: usize, per_msg: usize, thorough: bool) -> Vec<(usize, &'static str)> {
    let region = |bit: usize| -> &'static str {
        let byte = bit / 8;
        if byte >= len.saturating_sub(256) { "signature" }
        else if byte >= len.saturating_sub(256 + 140) { "signed-attributes" }
        else if byte >= ec && byte < ec + ecl { "econtent" }
        else { "certificate-and-framing" }
    };
    if thorough { return (0..len * 8).map(|b| (b, region(b))).collect() }
    let q = per_msg / 4;
    let mut set = BTreeSet::new();
    let mut pick = |lo: usize, hi: usize, n: usize, set: &mut BTreeSet<usize>| {
        if hi <= lo { return }
        for _ in 0..n { set.insert(lo * 8 + rng.below(((hi - lo) * 8) as u64) as usize); }
    };
    pick(len.saturating_sub(256), len, q, &mut set);
    pick(len.saturating_sub(256 + 140), len.saturating_sub(256), q, &mut set);
    pick(ec, ec + ecl, q, &mut set);
    pick(0, len.saturating_sub(256 + 140), per_msg - 3 * q, &mut set);
    set.into_iter().map(|b| (b, region(b))).collect()
}

fn find_sub(h: &[u8], n: &[u8]) -> Option<usize> { h.windows(n.len()).position(|w| w == n) }

// ---------------------------------------------------------------- main


// ---------------------------------------------------------------- diagnosis of accepted bit flips (`--diagnose 1`)

/// The chain of DER elements (tag, offset, header length, content length) that contain byte `off`.
fn der_path(buf: &[u8], off: usize) -> Vec<String> {
    fn walk(buf: &[u8], base: usize, start: usize, end: usize, off: usize, path: &mut Vec<String>) {
        let mut p = start;
        let mut idx = 0;
        while p < end {
            let tag = buf[p];
            let (len, hl) = { let l0 = buf[p + 1] as usize; if l0 < 0x80 { (l0, 2) } else { let n = l0 & 0x7f; let mut l = 0usize; for i in 0..n { l = (l << 8) | buf[p + 2 + i] as usize; } (l, 2 + n) } };
            let (cs, ce) = (p + hl, p + hl + len);
            if off >= p && off < ce {
                let name = match tag { 0x30 => "SEQUENCE".to_string(), 0x31 => "SET".to_string(), 0x02 => "INTEGER".into(), 0x03 => "BIT STRING".into(), 0x04 => "OCTET STRING".into(),
                    0x05 => "NULL".into(), 0x06 => "OID".into(), 0x0c => "UTF8String".into(), 0x13 => "PrintableString".into(), 0x17 => "UTCTime".into(), 0x18 => "GeneralizedTime".into(),
                    t if t & 0xc0 == 0x80 => format!("[{}]{}", t & 0x1f, if t & 0x20 != 0 { " constructed" } else { "" }), t => format!("tag 0x{t:02x}") };
                let part = if off < cs { if off == p { "TAG octet".to_string() } else { "LENGTH octets".to_string() } } else { format!("content octet {}", off - cs) };
                path.push(format!("#{idx} {name} @{} (header {hl}, length {len}): {part}", p + base));
                if off >= cs && tag & 0x20 != 0 { walk(buf, base, cs, ce, off, path); }
                else if off >= cs && tag == 0x03 && off == cs { path.push("= the 'unused bits' octet of the BIT STRING".into()); }
                else if off >= cs && (tag == 0x04 || tag == 0x03) && len > 4 && buf[cs + (tag == 0x03) as usize] == 0x30 {
                    // an OCTET/BIT STRING wrapping DER (extension values, public keys)
                    let inner = cs + (tag == 0x03) as usize;
                    if off >= inner { walk(buf, base, inner, ce, off, path); }
                }
                return;
            }
            p = ce; idx += 1;
        }
    }
    let mut path = Vec::new();
    walk(buf, 0, 0, buf.len(), off, &mut path);
    path
}

/// Every single-bit flip of one valid publication message that the real code still accepts: where it is, what the
/// flipped bytes decode to, whether validation passes, what `RepositoryManager::rfc8181` answers.
fn diagnose(args: &Args, dir: &std::path::Path) {
    let mut opts = SysOpts::new(dir);
    opts.mem_seed = 5200 + args.seed;
    let sys = Sys::open(opts);
    sys.bootstrap().expect("bootstrap");
    let idc = sys.krill.signer().create_self_signed_id_cert().expect("id cert");
    let kid = idc.public_key().key_identifier();
    let req = PublisherRequest::new(Base64::from_content(idc.to_bytes().as_ref()), publisher_handle("p1"), None);
    sys.krill.repo_manager().create_publisher(req, &sys.actor).expect("publisher p1");
    let mut d = PublishDelta::empty();
    d.add_publish(Publish::new(None, uri::Rsync::from_str(&format!("{RSYNC_JAIL}p1/sweep.cer")).unwrap(), Base64::from_content(b"sweep-object")));
    let constructed = publication::Message::delta(d);
    let bytes = sys.krill.signer().create_rfc8181_cms(constructed.clone(), &kid).expect("sign").to_bytes().to_vec();
    let untouched = PublicationCms::decode(&bytes).expect("decodes").into_message();
    println!("message: {} bytes; constructed == decode(untouched bytes): {}", bytes.len(), constructed == untouched);
    if constructed != untouched { println!("  constructed: {constructed:?}\n  decoded    : {untouched:?}"); }
    let mut n = 0;
    for bit in 0..bytes.len() * 8 {
        let mut b = bytes.clone();
        b[bit / 8] ^= 1 << (bit % 8);
        let Ok(cms) = PublicationCms::decode(&b) else { continue };
        if cms.validate(idc.public_key()).is_err() { continue }
        n += 1;
        let m = cms.into_message();
        println!("bit {bit} = byte {} (0x{:02x} -> 0x{:02x}), mask 0x{:02x}: decodes, validates under the publisher's key", bit / 8, bytes[bit / 8], b[bit / 8], 1u8 << (bit % 8));
        for l in der_path(&bytes, bit / 8) { println!("    {l}"); }
        println!("    decoded == decode(untouched): {}; decoded == constructed: {}; to_xml_bytes equal to untouched: {}", m == untouched, m == constructed, m.to_xml_bytes() == untouched.to_xml_bytes());
        let r = sys.krill.repo_manager().rfc8181(publisher_handle("p1"), Bytes::from(b), &sys.krill);
        let reply = r.as_ref().ok().and_then(|r| PublicationCms::decode(r.as_ref()).ok()).map(|c| format!("{:?}", c.into_message().as_reply()));
        println!("    rfc8181: {}", match &r { Ok(_) => format!("Ok, reply {}", reply.unwrap_or_default()), Err(e) => format!("Err({e})") });
    }
    println!("{n} accepted single-bit flips out of {}", bytes.len() * 8);
}

/// What the scenario collects besides the cases.
#[derive(Default)]
struct Extra { flip_dist: BTreeMap<String, u64>, accepted_flips: Vec<Value>, ua: u64, local8181_probe: Value, child_updates: u64, near_miss_publishers: Vec<String>, ta_child_update_probe: Value }

static LAST_PANIC: std::sync::Mutex<String> = std::sync::Mutex::new(String::new());

fn main() {
    let args = Args::parse("c12");
    let do_local = args.get_u64("local", 1) == 1;
    // panics of the real code are caught per message; remember the text of the last panic for the report
    std::panic::set_hook(Box::new(|info| { if let Ok(mut g) = LAST_PANIC.lock() { *g = info.to_string(); } }));
    let dir = args.out.join("sys");
    let _ = std::fs::remove_dir_all(&dir);
    if args.get_u64("diagnose", 0) == 1 { diagnose(&args, &dir); let _ = std::fs::remove_dir_all(&dir); return }
    let footer = EVALS.iter().map(|e| format!("Eval vm_compute in (failing {e} base_index cases).")).collect::<Vec<_>>().join("\n");
    let mut out = Out { w: CaseWriter::new(&args.out, HEADER, "list case", &footer, 60), lines: Vec::new(), dist: BTreeMap::new(),
        outcome_dist: BTreeMap::new(), distinct: BTreeSet::new(), samples: Vec::new(), impl_failures: Vec::new() };
    let mut ex = Extra::default();
    // A panic outside the per-message guards (e.g. the state of the real system can no longer be observed) must not
    // lose the cases written so far: they are evaluated, and the panic itself is reported as a failure.
    let res = std::panic::catch_unwind(std::panic::AssertUnwindSafe(|| scenario(&args, &dir, &mut out, &mut ex)));
    if res.is_err() {
        let msg = LAST_PANIC.lock().map(|g| g.clone()).unwrap_or_default();
        out.impl_failures.push(json!({"index": null, "class": {"scenario_aborted": true}, "what": format!("the scenario aborted after {} cases: {msg}", out.w.total)}));
    }
    out.w.flush();
    std::fs::write(args.out.join("cases.jsonl"), out.lines.join("\n") + "\n").expect("cases.jsonl");
    let stats = json!({
        "scenario": "c12", "seed": args.seed, "tier": args.tier,
        "evaluations": out.w.total, "distinct_nontrivial": out.distinct.len(),
        "rule": "one case per message fed to the real rfc6492 / rfc8181 (harness-built CMS; keys from the runtime's signer and from a second harness-owned KrillSigner): claimed sender x signing key {registered, another child's/publisher's, replaced identity, random} x recipient / URL x request kind, before and after identity updates on both sides and across an implicit unsuspend, deltas reaching into another publisher's base URI in every publisher state (no objects yet / with objects / withdrew everything); ca_child_update in every shape (ID certificate only, resources only, both in one request, both with refused resources, no-op, unknown child; remote children and a local CA) each followed by list requests under the previous and the new key - one case per update with its requests; every create_publisher (one case each); publishers with near-miss handles (tango, tata, ta2, taa, TA, t, alice / alice2) publishing into a sibling's directory, a directory whose name starts with their handle, and the base, in every publisher state, the allowed jail derived from the handle; then single-bit flips of valid messages (quick: positions sampled per region signature / signed attributes / eContent / rest; thorough: every bit) - TESTING of decoder and signature check, not proof; the local shortcut (honest child, identity update of a local child, the F12a contact and the F12b namesake CA which must be refused). non-trivial = the claimed sender is a registered child / publisher, so that the key decision is exercised; distinct = distinct (protocol, sender, recipient, signing key, request, flipped bit)",
        "stream_distribution": out.dist, "outcome_distribution": out.outcome_dist, "flip_region_distribution": ex.flip_dist,
        "flips_not_refused": ex.accepted_flips, "local8181_probe": ex.local8181_probe, "child_updates": ex.child_updates, "near_miss_publishers": ex.near_miss_publishers, "ta_child_update_probe": ex.ta_child_update_probe, "messages": ex.ua, "local": do_local,
        "samples": out.samples, "impl_failures": out.impl_failures, "evals": EVALS,
    });
    write_json(&args.out.join("stats.json"), &stats);
    println!("c12: {} cases, {} distinct non-trivial, outcomes {:?}", out.w.total, out.distinct.len(), stats["outcome_distribution"]);
    let _ = std::fs::remove_dir_all(&dir);
}

fn scenario(args: &Args, dir: &std::path::Path, out: &mut Out, ex: &mut Extra) {
    let mut rng = Rng::new(args.seed);
    let thorough = args.thorough();
    let per_msg_flips = args.get_u64("flips", 300) as usize / 3;
    let sweep_msgs = args.get_u64("sweep", 3) as usize;
    let do_local = args.get_u64("local", 1) == 1;
    let mut opts = SysOpts::new(dir);
    opts.mem_seed = 1200 + args.seed;
    let sys = Sys::open(opts);
    sys.bootstrap().expect("bootstrap");
    let second_storage = StorageSystem::new_memory(Some(912_000 + args.seed));
    let second = {
        let cfg = sys.krill.config();
        KrillSignerBuilder::new(&second_storage, Duration::from_secs(30), &cfg.signers)
            .with_default_signer(cfg.default_signer()).with_one_off_signer(cfg.one_off_signer()).build().expect("second signer")
    };
    let shadow = WalStore::create(sys.krill.storage(), PUBSERVER_CONTENT_NS).expect("shadow store");
    let mut w = World { sys, second, it: Interner::default(), shadow, ids: Vec::new(), repo_key: None, rsync_base: RSYNC_JAIL.to_string() };
    assert_eq!(w.it.handle("ta"), 1, "the handle \"ta\" is number 1 (Coq ta_name)");
    // ---- the parent CA with atoms 0..7 and its children
    w.sys.add_ca(PAR).expect("parent ca");
    w.sys.add_parent(PAR, "ta", atoms_to_resources(0xFF)).expect("parent under ta");
    w.sys.sync_rounds(PAR, "ta", 3).expect("sync parent");
    assert_eq!(resources_to_mask(&w.sys.ca(PAR).unwrap().all_resources()), 0xFF, "parent holds atoms 0..7");

    let mut remotes: Vec<Remote> = Vec::new();
    let mut parent_responses: BTreeMap<String, ParentResponse> = BTreeMap::new();
    for (i, (h, which, mask)) in [("c0", Which::Second, 0x03u32), ("c1", Which::Second, 0x0C), ("c2", Which::Runtime, 0x30)].iter().enumerate() {
        let (id, cert) = w.new_id(*which, &format!("{h}-id"));
        let resp = w.sys.krill.ca_manager().ca_add_child(&ca_handle(PAR), AddChildRequest { handle: child_handle(h), resources: atoms_to_resources(*mask), id_cert: cert }, &w.sys.actor, &w.sys.krill).expect("add child");
        parent_responses.insert(h.to_string(), resp);
        let cert_keys = (0..3).map(|_| w.second.create_key().expect("cert key")).collect();
        remotes.push(Remote { handle: h.to_string(), id, old_ids: Vec::new(), cert_keys, ent_mask: *mask });
        let _ = i;
    }
    // a real CA of this instance as fourth child (its ID key lives in the runtime signer), and mallory
    w.sys.add_ca("loc").expect("loc");
    w.sys.add_parent("loc", PAR, atoms_to_resources(0x40)).expect("loc under par");
    w.sys.add_ca("mallory").expect("mallory");
    let loc_pk = w.sys.ca("loc").unwrap().id_cert().public_key.clone();
    let loc_id = w.adopt_id(&loc_pk, "loc-id");
    let loc_cert_keys = (0..3).map(|_| w.second.create_key().expect("cert key")).collect();
    remotes.push(Remote { handle: "loc".into(), id: loc_id, old_ids: Vec::new(), cert_keys: loc_cert_keys, ent_mask: 0x40 });
    let (rnd_id, _) = w.new_id(Which::Second, "random-key");

    let mut pre = observe_parent(&mut w);
    let mut last_cert: BTreeMap<String, IdCert> = BTreeMap::new();

    // ---- stream A: structured provisioning messages, in rounds with identity updates in between
    let rounds = if thorough { 4 } else { 3 };
    for round in 0..rounds {
        let stream = format!("A{round}");
        let n = remotes.len();
        let mut jobs: Vec<(provisioning::Message, IdKey)> = Vec::new();
        let mut meta: Vec<(&str, &str)> = Vec::new();
        for ci in 0..n {
            let sender = remotes[ci].handle.clone();
            let other = (ci + 1) % n;
            // signing keys: the registered one, another child's, replaced identities, a random key
            let mut signers: Vec<(IdKey, &'static str)> = vec![(remotes[ci].id.clone(), "registered"), (remotes[other].id.clone(), "other-child"), (rnd_id.clone(), "random")];
            for o in &remotes[ci].old_ids { signers.push((o.clone(), "replaced-identity")); }
            let own = remotes[ci].cert_keys.clone();
            let others_key = remotes[other].cert_keys[0];
            let inside = { let m = remotes[ci].ent_mask; m & (!m + 1) }; // lowest atom of the entitlement
            let outside = 0x80u32; // atom 7: held by the parent, entitled to nobody
            let k0 = own[(round as usize) % own.len()];
            let k1 = own[(round as usize + 1) % own.len()];
            let snd = || child_handle(&sender).convert();
            let class0 = || ResourceClassName::from(0u32);
            for (sk, sclass) in signers {
                let kinds: [&'static str; 8] = ["list", "issue", "issue-limit-inside", "issue-limit-outside", "issue-unknown-class", "revoke-own", "revoke-other-childs-key", "response-as-request"];
                for pname in kinds {
                    // every kind under the registered key; under a wrong key: list always, the others sampled in the quick tier
                    if !thorough && sclass != "registered" && pname != "list" && !rng.chance(30) { continue }
                    // the recipient is the parent, except for a sample of messages addressed elsewhere (it is never looked at)
                    let rcps: Vec<&str> = if sclass == "registered" && pname == "list" && ci % 2 == 0 { vec![PAR, "ta"] } else if rng.chance(15) { vec!["c1"] } else { vec![PAR] };
                    for rcp in rcps {
                        let rc = || parent_handle(rcp).convert();
                        let m = match pname {
                            "list" => provisioning::Message::list(snd(), rc()),
                            "issue" => provisioning::Message::issue(snd(), rc(), IssuanceRequest::new(class0(), RequestResourceLimit::default(), make_csr(&w, &k0))),
                            "issue-limit-inside" => provisioning::Message::issue(snd(), rc(), IssuanceRequest::new(class0(), limit_of_mask(inside), make_csr(&w, &k1))),
                            "issue-limit-outside" => provisioning::Message::issue(snd(), rc(), IssuanceRequest::new(class0(), limit_of_mask(outside), make_csr(&w, &k1))),
                            "issue-unknown-class" => provisioning::Message::issue(snd(), rc(), IssuanceRequest::new(ResourceClassName::from(7u32), RequestResourceLimit::default(), make_csr(&w, &k1))),
                            "revoke-own" => provisioning::Message::revoke(snd(), rc(), RevocationRequest::new(class0(), k1)),
                            "revoke-other-childs-key" => provisioning::Message::revoke(snd(), rc(), RevocationRequest::new(class0(), others_key)),
                            _ => provisioning::Message::list_response(snd(), rc(), ResourceClassListResponse::new(vec![])),
                        };
                        jobs.push((m, sk.clone()));
                        meta.push((sclass, pname));
                    }
                }
            }
        }
        // claimed sender and recipient permuted over the children, signed with the key registered for the RECIPIENT
        for si in 0..n {
            for ri in 0..n {
                if si == ri || (!thorough && (si + ri + round as usize) % 2 == 1) { continue }
                let (snd, rcp) = (child_handle(&remotes[si].handle).convert(), parent_handle(&remotes[ri].handle).convert());
                let m = if si == 0 { provisioning::Message::issue(snd, rcp, IssuanceRequest::new(ResourceClassName::from(0u32), RequestResourceLimit::default(), make_csr(&w, &remotes[si].cert_keys[0]))) }
                        else { provisioning::Message::list(snd, rcp) };
                jobs.push((m, remotes[ri].id.clone()));
                meta.push(("recipients-key", if si == 0 { "issue-permuted" } else { "list-permuted" }));
            }
        }
        let signed = par_sign6492(&w, &jobs);
        for (((m, sk), bytes), (sclass, pname)) in jobs.iter().zip(signed).zip(meta) {
            let Some(bytes) = bytes else { continue };
            pre = case6492(&mut w, out, &pre, &bytes, m, sk, None, &stream, &mut ex.ua, json!({"signer_class": sclass, "kind": pname}));
        }
        // unknown sender handle, signed with a registered key
        {
            let m = provisioning::Message::list(child_handle("ghost").convert(), parent_handle(PAR).convert());
            let sk = remotes[0].id.clone();
            if let Some(bytes) = sign6492(&w, m.clone(), &sk) { pre = case6492(&mut w, out, &pre, &bytes, &m, &sk, None, &stream, &mut ex.ua, json!({"signer_class": "registered-for-someone-else", "kind": "list-unknown-sender"})); }
        }
        // ---- identity updates between the rounds
        if round == 0 {
            // child side, at the parent: c0 gets a new identity; the old key must be refused from now on
            // (an update that carries ONLY the ID certificate, followed by a list request under the old and under the new key)
            let (nid, ncert) = w.new_id(Which::Second, "c0-id-2");
            let probes = vec![("replaced-identity".to_string(), remotes[0].id.clone()), ("new-identity".to_string(), nid.clone()), ("other-child".to_string(), remotes[1].id.clone())];
            assert!(update_case(&mut w, out, &mut ex.ua, "c0", Some((&nid, &ncert)), None, &probes, "A-upd", "ID certificate only"), "child id update");
            last_cert.insert("c0".into(), ncert);
            let old = std::mem::replace(&mut remotes[0].id, nid);
            remotes[0].old_ids.push(old);
            // the parent's own identity: replies must carry the new key
            w.sys.krill.ca_manager().ca_update_id(ca_handle(PAR), &w.sys.actor, &w.sys.krill).expect("parent id update");
            pre = observe_parent(&mut w);
        }
        if round == 1 {
            // child side, at the child: `loc` generates a new identity (ca_update_id); the parent still has the old one
            // registered, so messages under the NEW key must be refused until the parent is told
            w.sys.krill.ca_manager().ca_update_id(ca_handle("loc"), &w.sys.actor, &w.sys.krill).expect("loc id update");
            let npk = w.sys.ca("loc").unwrap().id_cert().public_key.clone();
            let nid = w.adopt_id(&npk, "loc-id-2");
            let li = remotes.len() - 1;
            let m = provisioning::Message::list(child_handle("loc").convert(), parent_handle(PAR).convert());
            if let Some(bytes) = sign6492(&w, m.clone(), &nid) { let _ = case6492(&mut w, out, &pre, &bytes, &m, &nid, None, "A-id", &mut ex.ua, json!({"signer_class": "new-identity-not-yet-registered", "kind": "list"})); }
            let idc = w.sys.ca("loc").unwrap().child_request().validate().expect("loc id cert");
            // ONE update that carries the new ID certificate AND a resource set (the one the child already has)
            let probes = vec![("replaced-identity".to_string(), remotes[li].id.clone()), ("new-identity".to_string(), nid.clone())];
            assert!(update_case(&mut w, out, &mut ex.ua, "loc", Some((&nid, &idc)), Some(remotes[li].ent_mask), &probes, "A-upd", "ID certificate and (unchanged) resources in one request, child is a CA of this instance"), "loc id at parent");
            let old = std::mem::replace(&mut remotes[li].id, nid);
            remotes[li].old_ids.push(old);
            // suspend c1 (it holds certificates by now): a wrong-key message must leave it suspended,
            // the first right-key message unsuspends it
            w.sys.child_suspend(PAR, "c1", true).expect("suspend c1");
            pre = observe_parent(&mut w);
            let m = provisioning::Message::list(child_handle("c1").convert(), parent_handle(PAR).convert());
            let wrong = remotes[2].id.clone();
            if let Some(bytes) = sign6492(&w, m.clone(), &wrong) { pre = case6492(&mut w, out, &pre, &bytes, &m, &wrong, None, "A-susp", &mut ex.ua, json!({"signer_class": "other-child", "kind": "list-while-suspended"})); }
            let right = remotes[1].id.clone();
            if let Some(bytes) = sign6492(&w, m.clone(), &right) { let _ = case6492(&mut w, out, &pre, &bytes, &m, &right, None, "A-susp", &mut ex.ua, json!({"signer_class": "registered", "kind": "list-while-suspended"})); }
            // suspend c2 (it holds certificates for atoms 4-5 and one limited to atom 4) and SHRINK its entitlement to atom 4
            // while it is suspended: the implicit unsuspend of its next authentic request may re-issue only what still fits
            w.sys.child_suspend(PAR, "c2", true).expect("suspend c2");
            w.sys.update_child_resources(PAR, "c2", atoms_to_resources(0x10)).expect("shrink c2");
            remotes[2].ent_mask = 0x10;
            pre = observe_parent(&mut w);
            let m = provisioning::Message::list(child_handle("c2").convert(), parent_handle(PAR).convert());
            let wrong = remotes[0].id.clone();
            if let Some(bytes) = sign6492(&w, m.clone(), &wrong) { pre = case6492(&mut w, out, &pre, &bytes, &m, &wrong, None, "A-susp", &mut ex.ua, json!({"signer_class": "other-child", "kind": "list-while-suspended-and-shrunk"})); }
            let right = remotes[2].id.clone();
            if let Some(bytes) = sign6492(&w, m.clone(), &right) { pre = case6492(&mut w, out, &pre, &bytes, &m, &right, None, "A-susp", &mut ex.ua, json!({"signer_class": "registered", "kind": "list-while-suspended-and-shrunk"})); }
        }
    }

    // ---- stream A-upd: child updates in every shape (ID certificate only / resources only / both in ONE request / both with
    // a resource part that is refused / no-op / unknown child), each followed by a list request signed with the key
    // registered before and with the key of the ID certificate the update carried. The key that has to be registered
    // afterwards is decided by the oracle from the request, not read back from the server.
    {
        let n_random = args.get_u64("updates", if thorough { 24 } else { 3 }) as usize;
        // (child index, carries an ID certificate, resources, what)
        let mut script: Vec<(usize, bool, Option<u32>, String)> = vec![
            (0, false, Some(0x83), "resources only".into()),
            (0, true, Some(0x03), "ID certificate and resources in one request".into()),
            (1, true, Some(0x1C), "ID certificate and resources in one request".into()),
            (0, true, Some(0x103), "ID certificate and resources in one request; the parent does not hold the resources, so that part is refused".into()),
            (1, true, None, "ID certificate only".into()),
            (1, false, Some(0x0C), "resources only".into()),
            (0, false, Some(0), "resources only, empty set (refused)".into()),
            (2, true, Some(remotes[2].ent_mask), "ID certificate and (unchanged) resources in one request, key in the runtime's signer".into()),
        ];
        for i in 0..n_random {
            let ci = rng.below(2) as usize;
            let with_id = rng.chance(70);
            let res = if !with_id || rng.chance(70) { Some(if rng.chance(15) { 0x100 | rng.below(256) as u32 } else { 1 + rng.below(255) as u32 }) } else { None };
            script.push((ci, with_id, res, format!("random update {i}")));
        }
        script.push((0, false, Some(0x03), "resources only (back to the original entitlement)".into()));
        for (ci, with_id, res, what) in script {
            let h = remotes[ci].handle.clone();
            let which = remotes[ci].id.which;
            let new = if with_id { Some(w.new_id(which, &format!("{h}-id-u{}", out.w.total))) } else { None };
            let mut probes = vec![("registered-before-the-update".to_string(), remotes[ci].id.clone())];
            if let Some((k, _)) = &new { probes.push(("key-of-the-new-id-certificate".to_string(), k.clone())); }
            if let Some(o) = remotes[ci].old_ids.last() { probes.push(("replaced-earlier".to_string(), o.clone())); }
            let ok = update_case(&mut w, out, &mut ex.ua, &h, new.as_ref().map(|(k, c)| (k, c)), res, &probes, "A-upd", &what);
            ex.child_updates += 1;
            // bookkeeping for the later streams follows what the server shows (the verdict is the oracle's, not this)
            let now = observe_parent(&mut w);
            let hn = w.it.handle(&h);
            if let Some((_, c)) = now.children.iter().find(|(x, _)| *x == hn) {
                if let Some((k, cert)) = new { if c.id == k.n { let old = std::mem::replace(&mut remotes[ci].id, k); remotes[ci].old_ids.push(old); last_cert.insert(h.clone(), cert); } }
                remotes[ci].ent_mask = c.ent as u32;
            }
            let _ = ok;
        }
        // no-op: the ID certificate and the resources the child already has
        if let Some(cert) = last_cert.get("c0").cloned() {
            let k = remotes[0].id.clone();
            let probes = vec![("registered".to_string(), k.clone()), ("replaced-earlier".to_string(), remotes[0].old_ids.last().cloned().unwrap_or(rnd_id.clone()))];
            update_case(&mut w, out, &mut ex.ua, "c0", Some((&k, &cert)), Some(remotes[0].ent_mask), &probes, "A-upd", "the ID certificate and the resources the child already has (no-op)");
            ex.child_updates += 1;
        }
        // a child that does not exist
        let (gid, gcert) = w.new_id(Which::Second, "ghost-id");
        update_case(&mut w, out, &mut ex.ua, "ghost", Some((&gid, &gcert)), Some(0x01), &[("key-of-the-new-id-certificate".to_string(), gid.clone())], "A-upd", "unknown child");
        ex.child_updates += 1;
    }

    // ---- stream B: publication
    let repo_resp = w.sys.krill.repo_manager().repository_response(&publisher_handle(PAR), &w.sys.krill).expect("repository response");
    w.repo_key = Some(repo_resp.validate().expect("repo id cert").public_key().clone());
    struct Pubr { handle: String, id: IdKey, old_ids: Vec<IdKey> }
    let mut pubs: Vec<Pubr> = Vec::new();
    let ver0 = w.shadow.get_latest(&MyHandle::from_str("0").unwrap()).expect("content").revision();
    for (h, which) in [("p0", Which::Second), ("p1", Which::Second), ("p2", Which::Runtime)] {
        let (id, cert) = w.new_id(which, &format!("{h}-id"));
        assert!(addpub_case(&mut w, out, h, &id, &cert, ver0, "B-add", "a remote publisher is added"), "create publisher");
        pubs.push(Pubr { handle: h.into(), id, old_ids: Vec::new() });
    }
    {   // a handle that is taken: refused, nothing changes
        let (id, cert) = w.new_id(Which::Second, "p1-id-duplicate");
        addpub_case(&mut w, out, "p1", &id, &cert, ver0, "B-add", "a publisher handle that is taken");
    }
    let mut rpre = observe_repo(&mut w, ver0);
    let obj_uri = |h: &str, name: &str| uri::Rsync::from_str(&format!("{RSYNC_JAIL}{h}/{name}")).unwrap();
    let content = |s: &str| Base64::from_content(s.as_bytes());
    // deltas that reach into the base URI of the publisher `victim`: publish a new object there, replace and withdraw its object `name`
    let foreign_deltas = |victim: &str, name: &str, _state: &str| -> Vec<(&'static str, publication::Message)> {
        let theirs = content(&format!("{victim}-{name}-v2"));
        let mut p = PublishDelta::empty(); p.add_publish(Publish::new(None, obj_uri(victim, "intruder.cer"), content("intruder")));
        let mut u = PublishDelta::empty(); u.add_update(Update::new(None, obj_uri(victim, name), content("replaced by a stranger"), theirs.to_hash()));
        let mut wd = PublishDelta::empty(); wd.add_withdraw(Withdraw::new(None, obj_uri(victim, name), theirs.to_hash()));
        vec![("publish-in-other-jail", publication::Message::delta(p)), ("update-other-publishers-object", publication::Message::delta(u)),
             ("withdraw-other-publishers-object", publication::Message::delta(wd))]
    };
    let prounds = if thorough { 3 } else { 2 };
    for round in 0..prounds {
        let stream = format!("B{round}");
        let n = pubs.len();
        let mut jobs: Vec<(publication::Message, IdKey)> = Vec::new();
        let mut meta: Vec<(String, &str)> = Vec::new();
        for pi in 0..n {
            let me = pubs[pi].handle.clone();
            let other = (pi + 1) % n;
            let mut signers: Vec<(IdKey, &'static str)> = vec![(pubs[pi].id.clone(), "registered"), (pubs[other].id.clone(), "other-publisher"), (rnd_id.clone(), "random")];
            for o in &pubs[pi].old_ids { signers.push((o.clone(), "replaced-identity")); }
            for (sk, sclass) in signers {
                let a = format!("a{round}.cer"); let b = format!("b{round}.roa");
                let mut msgs: Vec<(&str, publication::Message)> = vec![("list", publication::Message::list_query())];
                // the publisher has no objects at this point (freshly registered, or it withdrew everything at the end of the
                // previous round): everything that reaches into another publisher's base URI must be answered with an error
                if sclass == "registered" { for (k, m) in foreign_deltas(&pubs[other].handle, &a, "no-objects-yet") { msgs.push((k, m)); } }
                let mut d = PublishDelta::empty(); d.add_publish(Publish::new(None, obj_uri(&me, &a), content(&format!("{me}-{a}-v1")))); d.add_publish(Publish::new(None, obj_uri(&me, &b), content(&format!("{me}-{b}-v1"))));
                msgs.push(("publish-in-jail", publication::Message::delta(d)));
                let mut d = PublishDelta::empty(); d.add_publish(Publish::new(None, obj_uri(&pubs[other].handle, "intruder.cer"), content("intruder")));
                msgs.push(("publish-in-other-jail", publication::Message::delta(d)));
                let mut d = PublishDelta::empty(); d.add_update(Update::new(None, obj_uri(&me, &a), content(&format!("{me}-{a}-v2")), content(&format!("{me}-{a}-v1")).to_hash()));
                msgs.push(("update", publication::Message::delta(d)));
                let mut d = PublishDelta::empty(); d.add_withdraw(Withdraw::new(None, obj_uri(&me, &b), content(&format!("{me}-{b}-v1")).to_hash()));
                msgs.push(("withdraw", publication::Message::delta(d)));
                // ... and likewise while it has objects of its own
                for (k, m) in foreign_deltas(&pubs[other].handle, &a, "with-objects") { if k != "publish-in-other-jail" { msgs.push((k, m)); } }
                msgs.push(("empty-delta", publication::Message::delta(PublishDelta::empty())));
                msgs.push(("reply-as-request", publication::Message::success()));
                for (kind, m) in msgs {
                    if !thorough && sclass != "registered" && kind != "list" && kind != "publish-in-jail" && !rng.chance(30) { continue }
                    // the URL names the publisher; sample some messages posted to another publisher's URL
                    let urls: Vec<String> = if sclass == "registered" && rng.chance(30) { vec![me.clone(), pubs[other].handle.clone()] } else { vec![me.clone()] };
                    for url in urls { jobs.push((m.clone(), sk.clone())); meta.push((url, sclass)); }
                }
            }
        }
        let signed = par_sign8181(&w, &jobs);
        for (((m, sk), bytes), (url, _sclass)) in jobs.iter().zip(signed).zip(meta) {
            let Some(bytes) = bytes else { continue };
            rpre = case8181(&mut w, out, &rpre, &url, &bytes, m, sk, None, &stream, ver0);
        }
        {
            let m = publication::Message::list_query();
            let sk = pubs[0].id.clone();
            if let Some(bytes) = sign8181(&w, m.clone(), &sk) { rpre = case8181(&mut w, out, &rpre, "nobody", &bytes, &m, &sk, None, &stream, ver0); }
        }
        // every publisher withdraws all it has (one valid delta built from what the server lists for it) and then, with
        // nothing published any more, reaches into its neighbour's base URI again
        for pi in 0..n {
            let me = pubs[pi].handle.clone();
            let other = (pi + 1) % n;
            let sk = pubs[pi].id.clone();
            let mut d = PublishDelta::empty();
            if let Ok(l) = w.sys.krill.repo_manager().list(&publisher_handle(&me)) { for el in l.elements() { d.add_withdraw(Withdraw::new(None, el.uri().clone(), *el.hash())); } }
            let mut batch: Vec<(publication::Message, IdKey)> = vec![(publication::Message::delta(d), sk.clone())];
            for (_k, m) in foreign_deltas(&pubs[other].handle, &format!("a{round}.cer"), "withdrew-everything") { batch.push((m, sk.clone())); }
            batch.push((publication::Message::list_query(), sk.clone()));
            let signed = par_sign8181(&w, &batch);
            for ((m, sk), bytes) in batch.iter().zip(signed) {
                let Some(bytes) = bytes else { continue };
                rpre = case8181(&mut w, out, &rpre, &me, &bytes, m, sk, None, "B-emptied", ver0);
            }
        }
        if round == 0 {
            // publisher identity change = remove + add with a new ID certificate
            w.sys.krill.repo_manager().remove_publisher(publisher_handle("p0"), &w.sys.actor, &w.sys.krill).expect("remove p0");
            let (nid, ncert) = w.new_id(Which::Second, "p0-id-2");
            assert!(addpub_case(&mut w, out, "p0", &nid, &ncert, ver0, "B-add", "publisher identity change: removed and added again with a new ID certificate"), "re-add p0");
            let old = std::mem::replace(&mut pubs[0].id, nid);
            pubs[0].old_ids.push(old);
            rpre = observe_repo(&mut w, ver0);
        }
    }

    // ---- stream B-near: publishers whose handles are near-misses of special names ("ta" is the only handle whose jail is the
    // rsync base itself) or string prefixes of one another, reaching outside `<base><handle>/` - into a sibling's directory,
    // into the directory whose name merely starts with their own, into the parent directory (the base) - in every publisher
    // state. The allowed jail is derived from the HANDLE by the oracle (`jail_of`), never from the server's answer.
    {
        let names: [(&str, &str); 8] = [("tango", "alice"), ("tata", "tango"), ("ta2", "p1"), ("taa", "alice2"), ("TA", "alice"), ("t", "tango"), ("alice", "alice2"), ("alice2", "alice")];
        let mut near: Vec<(String, String, IdKey)> = Vec::new();
        for (h, victim) in names {
            let (id, cert) = w.new_id(Which::Second, &format!("{h}-id"));
            if addpub_case(&mut w, out, h, &id, &cert, ver0, "B-near-add", "a publisher whose handle is a near-miss of a special name or a prefix of another handle is added") {
                near.push((h.to_string(), victim.to_string(), id));
                ex.near_miss_publishers.push(h.to_string());
            }
        }
        rpre = observe_repo(&mut w, ver0);
        let base_uri = |name: &str| uri::Rsync::from_str(&format!("{RSYNC_JAIL}{name}")).unwrap();
        let pubd = |u: uri::Rsync, c: &str| { let mut d = PublishDelta::empty(); d.add_publish(Publish::new(None, u, content(c))); publication::Message::delta(d) };
        for phase in ["no-objects-yet", "with-objects", "withdrew-everything"] {
            for (me, victim, id) in &near {
                let theirs = content(&format!("{victim}-own-v1"));
                let mut msgs: Vec<publication::Message> = Vec::new();
                if phase == "withdrew-everything" {
                    let mut d = PublishDelta::empty();
                    if let Ok(l) = w.sys.krill.repo_manager().list(&publisher_handle(me)) { for el in l.elements() { d.add_withdraw(Withdraw::new(None, el.uri().clone(), *el.hash())); } }
                    msgs.push(publication::Message::delta(d));
                }
                // outside the own directory: a sibling's directory, a directory whose name starts with the own handle, the base
                msgs.push(pubd(obj_uri(victim, &format!("intruder-{me}-{phase}.cer")), "intruder"));
                if phase == "no-objects-yet" { msgs.push(pubd(obj_uri(&format!("{me}2"), &format!("near-{me}-{phase}.cer")), "intruder")); }
                msgs.push(pubd(base_uri(&format!("at-base-{me}-{phase}.cer")), "intruder"));
                if phase == "with-objects" {
                    let mut u = PublishDelta::empty(); u.add_update(Update::new(None, obj_uri(victim, "own.cer"), content("replaced by a stranger"), theirs.to_hash()));
                    msgs.push(publication::Message::delta(u));
                    let mut wd = PublishDelta::empty(); wd.add_withdraw(Withdraw::new(None, obj_uri(victim, "own.cer"), theirs.to_hash()));
                    msgs.push(publication::Message::delta(wd));
                    // one delta with an element inside and an element outside the own directory
                    let mut d = PublishDelta::empty();
                    d.add_publish(Publish::new(None, obj_uri(me, "second.cer"), content(&format!("{me}-second"))));
                    d.add_publish(Publish::new(None, obj_uri(victim, &format!("mixed-{me}.cer")), content("intruder")));
                    msgs.push(publication::Message::delta(d));
                }
                // inside the own directory
                if phase == "no-objects-yet" { msgs.push(pubd(obj_uri(me, "own.cer"), &format!("{me}-own-v1"))); }
                let batch: Vec<(publication::Message, IdKey)> = msgs.into_iter().map(|m| (m, id.clone())).collect();
                let signed = par_sign8181(&w, &batch);
                for ((m, sk), bytes) in batch.iter().zip(signed) {
                    let Some(bytes) = bytes else { continue };
                    rpre = case8181(&mut w, out, &rpre, me, &bytes, m, sk, None, &format!("B-near-{phase}"), ver0);
                }
            }
        }
        // a near-miss publisher's key posted to the URL of the trust anchor's publisher and of a handle that does not exist
        if let Some((me, _, id)) = near.first() {
            let m = pubd(base_uri(&format!("as-ta-{me}.cer")), "intruder");
            for url in ["ta", "tang"] {
                if let Some(bytes) = sign8181(&w, m.clone(), id) { rpre = case8181(&mut w, out, &rpre, url, &bytes, &m, id, None, "B-near-url", ver0); }
            }
        }
    }

    // ---- stream C: single-bit corruption of valid messages
    pre = observe_parent(&mut w);
    for (si, name) in ["6492-list", "6492-issue"].iter().enumerate() {
        if si >= sweep_msgs { break }
        // signed right before its own sweep: a CMS is valid for five minutes only
        let (m, signer) = if *name == "6492-list" {
            let c2 = &remotes[2];
            (provisioning::Message::list(child_handle(&c2.handle).convert(), parent_handle(PAR).convert()), c2.id.clone())
        } else {
            let c0 = &remotes[0];
            (provisioning::Message::issue(child_handle(&c0.handle).convert(), parent_handle(PAR).convert(),
                IssuanceRequest::new(ResourceClassName::from(0u32), limit_of_mask(0x01), make_csr(&w, &c0.cert_keys[2]))), c0.id.clone())
        };
        let bytes = &sign6492(&w, m, &signer).expect("sign");
        let original = ProvisioningCms::decode(bytes).expect("valid message decodes").into_message();
        let xml = original.to_xml_bytes();
        let ec = find_sub(bytes, xml.as_ref()).unwrap_or(bytes.len() / 4);
        // the untouched message first
        pre = case6492(&mut w, out, &pre, bytes, &original, &signer, None, "C-base", &mut ex.ua, json!({"kind": name}));
        for (bit, region) in flip_positions(&mut rng, bytes.len(), ec, xml.len(), per_msg_flips, thorough) {
            let mut b = bytes.clone();
            b[bit / 8] ^= 1 << (bit % 8);
            *ex.flip_dist.entry(format!("{name}:{region}")).or_default() += 1;
            let before = out.lines.len();
            pre = case6492(&mut w, out, &pre, &b, &original, &signer, Some(bit), "C-flip", &mut ex.ua, json!({"kind": name, "region": region}));
            if let Ok(v) = serde_json::from_str::<Value>(&out.lines[before]) { if v["outcome"] != "refused" { ex.accepted_flips.push(json!({"message": name, "bit": bit, "region": region, "identical": v["decodes_to_identical_message"], "outcome": v["outcome"]})); } }
        }
    }
    if sweep_msgs >= 3 {
        let p1 = &pubs[1];
        let mut d = PublishDelta::empty();
        d.add_publish(Publish::new(None, obj_uri(&p1.handle, "sweep.cer"), content("sweep-object")));
        let m = publication::Message::delta(d);
        let bytes = sign8181(&w, m.clone(), &p1.id).expect("sign");
        // compare flipped messages with what the UNTOUCHED bytes decode to (a constructed message and its decoded form
        // differ in representation details such as absent / empty tags)
        let xml = m.to_xml_bytes();
        let m = PublicationCms::decode(&bytes).expect("valid message decodes").into_message();
        let ec = find_sub(&bytes, xml.as_ref()).unwrap_or(bytes.len() / 4);
        let signer = p1.id.clone();
        let h = p1.handle.clone();
        rpre = observe_repo(&mut w, ver0);
        // the untouched message first (it publishes the object; a CMS is valid for five minutes only)
        rpre = case8181(&mut w, out, &rpre, &h, &bytes, &m, &signer, None, "C-base", ver0);
        for (bit, region) in flip_positions(&mut rng, bytes.len(), ec, xml.len(), per_msg_flips, thorough) {
            let mut b = bytes.clone();
            b[bit / 8] ^= 1 << (bit % 8);
            *ex.flip_dist.entry(format!("8181-publish:{region}")).or_default() += 1;
            let before = out.lines.len();
            rpre = case8181(&mut w, out, &rpre, &h, &b, &m, &signer, Some(bit), "C-flip", ver0);
            if let Ok(v) = serde_json::from_str::<Value>(&out.lines[before]) { if v["outcome"] != "refused" { ex.accepted_flips.push(json!({"message": "8181-publish", "bit": bit, "region": region, "identical": v["decodes_to_identical_message"], "outcome": v["outcome"]})); } }
        }
    }
    let _ = rpre;

    // ---- stream D: the local shortcut
    if do_local {
        let local_sync = |w: &mut World, out: &mut Out, ca: &str, contact_child: &str, what: &str| {
            std::thread::sleep(Duration::from_millis(1100)); // status timestamps have a resolution of one second
            let pre = observe_parent(w);
            let res = w.sys.sync_parent(ca, PAR);
            let post = observe_parent(w);
            // as which child was the caller served? the one whose status entry changed
            let who: Option<String> = post.raw_status.iter().find(|(h, s)| pre.raw_status.get(*h) != Some(*s)).map(|(h, _)| h.clone());
            let mut reqs: Vec<String> = Vec::new();
            // a sync that ends in an error and leaves no trace at the parent: its first request (the list query) was refused
            if who.is_none() && res.is_err() { reqs.push("RList".into()); }
            if who.is_none() && pre.raw != post.raw {
                out.impl_failures.push(json!({"index": out.w.total, "class": {"refused_but_raw_state_changed": true, "protocol": "rfc6492", "path": "local-shortcut"},
                    "what": format!("local exchange of '{ca}' that was not served changed the stored CertAuth / status JSON of the parent")}));
            }
            if let Some(h) = &who {
                reqs.push("RList".into());
                let hn = w.it.handle(h);
                let before: BTreeSet<u64> = pre.children.iter().find(|c| c.0 == hn).map(|c| c.1.used.iter().map(|u| u.0).collect()).unwrap_or_default();
                if let Some((_, c)) = post.children.iter().find(|c| c.0 == hn) {
                    for (k, u) in &c.used { if !before.contains(k) { if let Some(r) = u { reqs.push(format!("(RIssue {r} {k} None true)")); } } }
                }
            }
            let ca_pk = w.sys.ca(ca).unwrap().id_cert().public_key.clone();
            let cid = w.adopt_id(&ca_pk, &format!("{ca}-id"));
            let caller = format!("(mkCaller {} {} {})", w.it.handle(ca), cid.n, w.it.handle(contact_child));
            let who_term = match &who { Some(h) => format!("(Some {})", w.it.handle(h)), None => "None".into() };
            let term = format!("(CLocal {} {caller} {} {} {who_term})", coq_parent(&pre), coq_list(&reqs), coq_parent(&post));
            let registered = who.as_ref().and_then(|h| { let hn = w.it.handle(h); pre.children.iter().find(|c| c.0 == hn).map(|c| c.1.id) });
            let contact_reg = { let hn = w.it.handle(contact_child); pre.children.iter().find(|c| c.0 == hn).map(|c| c.1.id) };
            let foreign = contact_reg.map(|k| k != cid.n).unwrap_or(false);
            let rec = json!({"protocol": "rfc6492", "stream": "D-local", "caller_ca": ca, "caller_id_key": cid.n, "contact_child_handle": contact_child,
                "what": what, "sync_result": format!("{:?}", res.as_ref().map_err(|e| e.to_string())), "served_as": who, "registered_key_of_served_child": registered,
                "requests_seen_at_parent": reqs, "outcome": if who.is_some() { "served" } else { "refused" }, "state_changed": pre != post,
                "resources_of_caller_after": w.sys.ca(ca).map(|c| c.all_resources().to_string()).unwrap_or_default(),
                "class": {"path": "local-shortcut", "protocol": "rfc6492", "contact_names_foreign_child": foreign}});
            out.push(term, rec, "D-local", Some(format!("local|{ca}|{contact_child}|{}", out.w.total)));
        };
        // honest local child
        for i in 0..2 { local_sync(&mut w, out, "loc", "loc", &format!("honest local child, sync {i}")); }
        // F12a (fixed by /repo 1a6ebc01): mallory was never added as a child; her administrator stores the parent
        // response of c2. She must be refused, with no change at the parent.
        let resp = parent_responses.get("c2").expect("c2 response").clone();
        w.sys.krill.ca_manager().ca_parent_add_or_update(ca_handle("mallory"), ParentCaReq { handle: parent_handle(PAR), response: resp }, &w.sys.actor, &w.sys.krill).expect("mallory stores a parent contact naming c2");
        for i in 0..3 { local_sync(&mut w, out, "mallory", "c2", &format!("CA 'mallory' (no child of 'par') with a stored parent contact naming child handle 'c2', sync {i}")); }
        // identity update at a local child: refused until the parent is given the new ID certificate (as on the remote path)
        w.sys.krill.ca_manager().ca_update_id(ca_handle("loc"), &w.sys.actor, &w.sys.krill).expect("loc id update");
        local_sync(&mut w, out, "loc", "loc", "local child after ca_update_id, the parent still has the previous ID certificate");
        let idc = w.sys.ca("loc").unwrap().child_request().validate().expect("loc id cert");
        w.sys.krill.ca_manager().ca_child_update(&ca_handle(PAR), child_handle("loc"), UpdateChildRequest::id_cert(idc), &w.sys.actor, &w.sys.krill).expect("loc id at parent");
        local_sync(&mut w, out, "loc", "loc", "local child after ca_update_id, the parent now has the new ID certificate");
    }

    // ---- stream D, trust anchor: the local shortcut with the embedded TA (the proxy aggregate) as parent
    if do_local {
        let ta_sync = |w: &mut World, out: &mut Out, ca: &str, contact_child: &str, what: &str| {
            std::thread::sleep(Duration::from_millis(1100)); // status timestamps have a resolution of one second
            let pre = observe_ta(w);
            let res = w.sys.sync_parent(ca, "ta");
            let post = observe_ta(w);
            let who: Option<String> = post.raw_status.iter().find(|(h, s)| pre.raw_status.get(*h) != Some(*s)).map(|(h, _)| h.clone());
            let mut reqs: Vec<String> = Vec::new();
            if let Some(h) = &who {
                reqs.push("RList".into());
                let hn = w.it.handle(h);
                let get = |t: &ATa| t.children.iter().find(|c| c.0 == hn).map(|c| c.1.clone());
                if let (Some(c0), Some(c1)) = (get(&pre), get(&post)) {
                    let term = |k: u64, issue: bool| if issue { format!("(RIssue 1000 {k} None true)") } else { format!("(RRevoke 1000 {k})") };
                    // a waiting response that was handed out, a request that was queued
                    for (k, issue) in &c0.open_resp { if !c1.open_resp.iter().any(|x| x.0 == *k) { reqs.push(term(*k, *issue)); } }
                    for (k, issue) in &c1.open_req { if !c0.open_req.iter().any(|x| x.0 == *k) { reqs.push(term(*k, *issue)); } }
                }
            }
            if who.is_none() && res.is_err() { reqs.push("RList".into()); }
            if who.is_none() && (pre.raw != post.raw || pre.raw_status != post.raw_status) {
                out.impl_failures.push(json!({"index": out.w.total, "class": {"refused_but_raw_state_changed": true, "protocol": "rfc6492", "path": "local-shortcut-ta"},
                    "what": format!("local exchange of '{ca}' with the TA that was not served changed the stored TA proxy / child status")}));
            }
            let ca_pk = w.sys.ca(ca).unwrap().id_cert().public_key.clone();
            let cid = w.adopt_id(&ca_pk, &format!("{ca}-id"));
            let caller = format!("(mkCaller {} {} {})", w.it.handle(ca), cid.n, w.it.handle(contact_child));
            let who_term = match &who { Some(h) => format!("(Some {})", w.it.handle(h)), None => "None".into() };
            let (pre_t, post_t) = (coq_ta(&pre), coq_ta(&post));
            let term = if pre_t == post_t { format!("(let p := {pre_t} in CLocalTa p {caller} {} p {who_term})", coq_list(&reqs)) }
                       else { format!("(CLocalTa {pre_t} {caller} {} {post_t} {who_term})", coq_list(&reqs)) };
            let contact_reg = { let hn = w.it.handle(contact_child); pre.children.iter().find(|c| c.0 == hn).map(|c| c.1.id) };
            let victim_open = { let hn = w.it.handle(contact_child); post.children.iter().find(|c| c.0 == hn).map(|c| c.1.open_req.len()) };
            let rec = json!({"protocol": "rfc6492", "stream": "D-local-ta", "parent": "ta", "caller_ca": ca, "caller_id_key": cid.n, "contact_child_handle": contact_child,
                "registered_key_of_contact_child": contact_reg, "what": what, "sync_result": format!("{:?}", res.as_ref().map_err(|e| e.to_string())), "served_as": who,
                "requests_seen_at_ta_proxy": reqs, "outcome": if who.is_some() { "served" } else { "refused" }, "state_changed": pre != post,
                "ta_proxy_version_before": pre.hist, "ta_proxy_version_after": post.hist, "open_requests_of_contact_child_after": victim_open,
                "resources_of_caller_after": w.sys.ca(ca).map(|c| c.all_resources().to_string()).unwrap_or_default(),
                "class": {"path": "local-shortcut-ta", "protocol": "rfc6492", "contact_names_foreign_child": contact_reg.map(|k| k != cid.n).unwrap_or(false)}});
            out.push(term, rec, "D-local-ta", Some(format!("localta|{ca}|{contact_child}|{}", out.w.total)));
        };
        w.it.rcn("default"); // the TA's class name is number 1000 (Local.ta_rcn)
        // an honest child of the TA: request queued, signed by the (embedded) TA signer, response handed out
        w.sys.add_ca("tchild").expect("tchild");
        w.sys.add_parent("tchild", "ta", atoms_to_resources(0x300)).expect("tchild under ta");
        ta_sync(&mut w, out, "tchild", "tchild", "honest child of the TA, sync 0");
        w.sys.sync_ta().expect("proxy-signer exchange");
        ta_sync(&mut w, out, "tchild", "tchild", "honest child of the TA, sync 1 (its certificate request is queued)");
        w.sys.sync_ta().expect("proxy-signer exchange");
        ta_sync(&mut w, out, "tchild", "tchild", "honest child of the TA, sync 2 (after the proxy-signer exchange: the waiting response is handed out)");
        // the administrative child update addressed to the trust anchor: the TA proxy has no such command (children of the TA are
        // added, never updated); whatever it answers, the key registered for `tchild` decides the next exchange
        {
            let (nid, ncert) = w.new_id(Which::Second, "tchild-id-update-probe");
            let before = observe_ta(&mut w);
            let req = UpdateChildRequest { id_cert: Some(ncert), resources: Some(atoms_to_resources(0x300)), suspend: None, resource_class_name_mapping: None };
            let r = w.sys.krill.ca_manager().ca_child_update(&ca_handle("ta"), child_handle("tchild"), req, &w.sys.actor, &w.sys.krill);
            let after = observe_ta(&mut w);
            let tn = w.it.handle("tchild");
            let reg = |t: &ATa| t.children.iter().find(|c| c.0 == tn).map(|c| c.1.id);
            ex.ta_child_update_probe = json!({"result": format!("{:?}", r.as_ref().map_err(|e| e.to_string())), "registered_key_before": reg(&before), "registered_key_after": reg(&after), "key_of_the_update": nid.n});
            if r.is_ok() && reg(&after) != Some(nid.n) {
                out.impl_failures.push(json!({"index": out.w.total, "class": {"update_ok_but_key_not_replaced": true, "protocol": "rfc6492", "path": "ta-proxy"},
                    "what": "ca_child_update for a child of the trust anchor returned Ok but the registered ID key is not the key of the ID certificate it carried"}));
            }
            if r.is_err() && before.raw != after.raw {
                out.impl_failures.push(json!({"index": out.w.total, "class": {"refused_but_raw_state_changed": true, "protocol": "rfc6492", "path": "ta-proxy"},
                    "what": "ca_child_update for a child of the trust anchor returned an error but changed the TA proxy"}));
            }
            ta_sync(&mut w, out, "tchild", "tchild", "honest child of the TA after a child update was addressed to the TA");
        }
        // mallory's administrator stores the TA's parent response for `tchild`: must be refused, nothing queued in tchild's name
        let resp = w.sys.krill.ca_manager().ca_parent_response(&ca_handle("ta"), child_handle("tchild"), w.sys.krill.service_uri()).expect("parent response of the TA for tchild");
        w.sys.krill.ca_manager().ca_parent_add_or_update(ca_handle("mallory"), ParentCaReq { handle: parent_handle("ta"), response: resp }, &w.sys.actor, &w.sys.krill).expect("mallory stores a TA contact naming tchild");
        for i in 0..2 { ta_sync(&mut w, out, "mallory", "tchild", &format!("CA 'mallory' (no child of the TA) with a stored TA contact naming child handle 'tchild', sync {i}")); }
        // `par` replaced its ID key (stream A) and the TA still has the previous one registered: refused as well
        ta_sync(&mut w, out, PAR, PAR, "child of the TA after ca_update_id, the TA still has the previous ID certificate");
    }

    // ---- stream D, publication: the local RFC 8181 shortcut (repaired by /repo 346cb17c)
    if do_local {
        let local_repo = |w: &mut World, out: &mut Out, ca: &str, what: &str, op: &dyn Fn(&World) -> krill::commons::KrillResult<()>| -> (bool, Vec<String>, Vec<String>) {
            let pre = observe_repo(w, ver0);
            let res = op(w);
            let post = observe_repo(w, ver0);
            let hn = w.it.handle(ca);
            let objs = |r: &ARepo| -> Vec<(Vec<u64>, u64)> { r.pubs.iter().find(|p| p.0 == hn).map(|p| p.1.objs.clone()).unwrap_or_default() };
            let (o0, o1) = (objs(&pre), objs(&post));
            let served = res.is_ok() || o0 != o1;
            // the queries the repository shows to have been served: the list query, then one delta with the difference
            let mut qs: Vec<String> = vec!["QList".into()];
            if served {
                let m0: BTreeMap<Vec<u64>, u64> = o0.iter().cloned().collect();
                let m1: BTreeMap<Vec<u64>, u64> = o1.iter().cloned().collect();
                let mut els: Vec<String> = Vec::new();
                for (u, o) in &m1 { if !m0.contains_key(u) { els.push(format!("EPub {} {o}", coq_nlist(u))); } }
                for (u, o) in &m1 { if let Some(old) = m0.get(u) { if old != o { els.push(format!("EUpd {} {old} {o}", coq_nlist(u))); } } }
                for (u, old) in &m0 { if !m1.contains_key(u) { els.push(format!("EWdr {} {old}", coq_nlist(u))); } }
                if !els.is_empty() { qs.push(format!("(QDelta {})", coq_list(&els))); }
            }
            let ca_pk = w.sys.ca(ca).unwrap().id_cert().public_key.clone();
            let cid = w.adopt_id(&ca_pk, &format!("{ca}-id"));
            let registered = pre.pubs.iter().find(|p| p.0 == hn).map(|p| p.1.id);
            let who_term = if served { format!("(Some {hn})") } else { "None".into() };
            let (pre_t, post_t) = (coq_repo(&pre), coq_repo(&post));
            let term = if pre_t == post_t { format!("(let p := {pre_t} in CLocal8181 p (mkCaller {hn} {} 0) {} p {who_term})", cid.n, coq_list(&qs)) }
                       else { format!("(CLocal8181 {pre_t} (mkCaller {hn} {} 0) {} {post_t} {who_term})", cid.n, coq_list(&qs)) };
            if !served && pre.raw != post.raw {
                out.impl_failures.push(json!({"index": out.w.total, "class": {"refused_but_raw_state_changed": true, "protocol": "rfc8181", "path": "local-shortcut-8181"},
                    "what": format!("local publication exchange of '{ca}' that was not served changed the stored repository content / publisher details")}));
            }
            let uris = |r: &ARepo| -> Vec<String> { r.pubs.iter().find(|p| p.0 == hn).map(|p| p.1.objs.iter().map(|(u, o)| format!("{u:?}={o}")).collect()).unwrap_or_default() };
            let rec = json!({"protocol": "rfc8181", "stream": "D-local-8181", "caller_ca": ca, "caller_id_key": cid.n, "publisher": ca, "registered_key_of_publisher": registered,
                "what": what, "result": format!("{:?}", res.as_ref().map_err(|e| e.to_string())), "served_as": if served { Some(ca) } else { None },
                "queries_seen_at_repository": qs, "outcome": if served { "served" } else { "refused" }, "state_changed": pre != post,
                "objects_of_publisher_before": uris(&pre), "objects_of_publisher_after": uris(&post),
                "class": {"path": "local-shortcut-8181", "protocol": "rfc8181", "handle_names_foreign_publisher": registered.map(|k| k != cid.n).unwrap_or(false)}});
            out.push(term, rec, "D-local-8181", Some(format!("local8181|{ca}|{}", out.w.total)));
            (served, uris(&pre), uris(&post))
        };
        // honest: mallory's publisher was registered with the ID certificate she still has
        local_repo(&mut w, out, "mallory", "honest local CA, repository sync", &|w| w.sys.sync_repo("mallory").map(|_| ()));
        // F12b (fixed by /repo 346cb17c): the publisher pz is registered with a harness-owned ID key (a remote CA) and holds an
        // object; a CA of this instance that is also called pz must not be served as that publisher
        let (pid, pcert) = w.new_id(Which::Second, "pz-id");
        let req = PublisherRequest::new(Base64::from_content(pcert.to_bytes().as_ref()), publisher_handle("pz"), None);
        w.sys.krill.repo_manager().create_publisher(req, &w.sys.actor).expect("create publisher pz");
        let mut d = PublishDelta::empty();
        d.add_publish(Publish::new(None, obj_uri("pz", "remote.cer"), content("object of the remote publisher pz")));
        let bytes = sign8181(&w, publication::Message::delta(d), &pid).expect("sign");
        let r = w.sys.krill.repo_manager().rfc8181(publisher_handle("pz"), Bytes::from(bytes), &w.sys.krill);
        w.sys.krill.ca_manager().init_ca(ca_handle("pz"), &w.sys.krill).expect("local CA pz");
        let (served, before, after) = local_repo(&mut w, out, "pz", "CA 'pz' of this instance, named like the publisher 'pz' that is registered with another (remote) ID key: update_repo with check, then repository sync", &|w| {
            let resp = w.sys.krill.repo_manager().repository_response(&publisher_handle("pz"), &w.sys.krill)?;
            let contact = krill::api::admin::RepositoryContact::try_from_response(resp).map_err(krill::commons::error::Error::rfc8183)?;
            w.sys.krill.ca_manager().update_repo(ca_handle("pz"), contact, true, &w.sys.actor, &w.sys.slow)?;
            w.sys.sync_repo("pz").map(|_| ())
        });
        ex.local8181_probe = json!({"publisher": "pz", "publisher_id_key": pid.kid.to_string(), "remote_publish_ok": r.is_ok(),
            "local_ca_served": served, "objects_before_local_ca_exchange": before, "objects_after_local_ca_exchange": after});
        // identity update at a local CA: `loc` has replaced its ID key since its publisher was registered; refused until
        // the publisher is registered again with the new ID certificate (remove + add, as for a remote publisher)
        local_repo(&mut w, out, "loc", "local CA after ca_update_id, its publisher still has the previous ID certificate", &|w| w.sys.sync_repo("loc").map(|_| ()));
        w.sys.krill.repo_manager().remove_publisher(publisher_handle("loc"), &w.sys.actor, &w.sys.krill).expect("remove publisher loc");
        let preq = w.sys.ca("loc").unwrap().publisher_request();
        w.sys.krill.repo_manager().create_publisher(preq, &w.sys.actor).expect("re-add publisher loc");
        local_repo(&mut w, out, "loc", "local CA after ca_update_id, its publisher registered again with the new ID certificate", &|w| w.sys.sync_repo("loc").map(|_| ()));
    }

}
