mod util;
mod c09;

fn main() {
    let args = util::Args::parse();
    let code = match args.scenario.as_str() {
        "c09" => c09::run(&args),
        other => { eprintln!("unknown scenario {other}"); 2 }
    };
    std::process::exit(code);
}
