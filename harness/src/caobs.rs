//! Abstraction of real CA state (serde views of `CertAuth`, `CaObjects`, stored commands) to the terms
//! of the Coq model `coq/ca/Ca.v`. Identities are canonicalised through an [`Interner`]: keys by order of
//! first appearance, file names and serial numbers interned, resource sets as atom bit masks.
use std::collections::BTreeMap;

use rpki::repository::resources::ResourceSet;
use serde_json::Value;

use crate::util::coq_list;

/// The atom universe of the CA scenarios: atom i = AS 64512+i, 10.i.0.0/16, 2001:db8:i::/48.
pub const N_ATOMS: u32 = 12;

pub fn atom_strs(i: u32) -> (String, String, String) {
    (format!("AS{}", 64512 + i), format!("10.{}.0.0/16", i), format!("2001:db8:{:x}::/48", i))
}

pub fn atoms_to_resources(mask: u32) -> ResourceSet {
    let mut asn = Vec::new();
    let mut v4 = Vec::new();
    let mut v6 = Vec::new();
    for i in 0..N_ATOMS {
        if mask & (1 << i) != 0 {
            let (a, b, c) = atom_strs(i);
            asn.push(a); v4.push(b); v6.push(c);
        }
    }
    ResourceSet::from_strs(&asn.join(","), &v4.join(","), &v6.join(",")).expect("atom resources")
}

/// Bit i is set iff the set contains all three blocks of atom i; bit 30 marks "holds anything else".
pub fn resources_to_mask(rs: &ResourceSet) -> u64 {
    let mut m = 0u64;
    let mut covered = ResourceSet::default();
    for i in 0..N_ATOMS {
        let a = atoms_to_resources(1 << i);
        if rs.contains(&a) {
            m |= 1 << i;
            covered = covered.union(&a);
        }
    }
    if !rs.difference(&covered).is_empty() { m |= 1 << 30; }
    m
}

pub fn resources_json_to_mask(v: &Value) -> u64 {
    let rs = ResourceSet::from_strs(v["asn"].as_str().unwrap_or(""), v["ipv4"].as_str().unwrap_or(""), v["ipv6"].as_str().unwrap_or("")).expect("resources json");
    resources_to_mask(&rs)
}

#[derive(Default)]
pub struct Interner {
    pub keys: BTreeMap<String, u64>,
    pub names: BTreeMap<String, u64>,
    pub serials: BTreeMap<String, u64>,
    pub handles: BTreeMap<String, u64>,
    pub rcns: BTreeMap<String, u64>,
}

fn intern(map: &mut BTreeMap<String, u64>, s: &str, base: u64) -> u64 {
    if let Some(v) = map.get(s) { return *v }
    let v = base + map.len() as u64;
    map.insert(s.to_string(), v);
    v
}

impl Interner {
    pub fn key(&mut self, s: &str) -> u64 { intern(&mut self.keys, s, 1) }
    pub fn name(&mut self, s: &str) -> u64 { intern(&mut self.names, s, 1) }
    pub fn serial(&mut self, s: &str) -> u64 { intern(&mut self.serials, s, 1) }
    pub fn handle(&mut self, s: &str) -> u64 { intern(&mut self.handles, s, 1) }
    /// Own class names are decimal numbers; anything else (a parent's "default") is interned from 1000.
    pub fn rcn(&mut self, s: &str) -> u64 {
        match s.parse::<u64>() { Ok(n) if n < 1000 => n, _ => intern(&mut self.rcns, s, 1000) }
    }
    pub fn cer_name_of_key(&mut self, key_hex: &str) -> u64 { self.name(&format!("{key_hex}.cer")) }
}

fn time_secs(v: &Value) -> i64 {
    let s = v.as_str().unwrap_or("1970-01-01T00:00:00Z");
    chrono::DateTime::parse_from_rfc3339(s).map(|t| t.timestamp()).unwrap_or(0)
}

fn last_segment(uri: &str) -> &str { uri.rsplit('/').next().unwrap_or(uri) }

fn json_str(v: &Value) -> String { match v { Value::String(s) => s.clone(), other => other.to_string() } }

/// ReceivedCert / IssuedCertificate json -> (key, res, serial)
pub fn cert_term(it: &mut Interner, v: &Value, key_hex: &str) -> String {
    format!("(mkCert {} {} {})", it.key(key_hex), resources_json_to_mask(&v["resources"]), it.serial(&json_str(&v["serial"])))
}

fn key_hex_of_cert(v: &Value) -> String {
    // the file name of a CA certificate is "<KEY>.cer" (possibly with the leading char cut in `name` for
    // received certs, so use the uri)
    let uri = v["uri"].as_str().unwrap_or("");
    last_segment(uri).trim_end_matches(".cer").to_string()
}

/// An object with name, serial, expiry from any info json that has uri/name, serial, validity/expires.
pub fn obj_term(it: &mut Interner, v: &Value) -> (u64, String) {
    let name = if let Some(n) = v.get("uri").and_then(|u| u.as_str()) { last_segment(n).to_string() }
               else { v["name"].as_str().unwrap_or("?").to_string() };
    let exp = if v.get("validity").is_some() { time_secs(&v["validity"]["not_after"]) } else { time_secs(&v["expires"]) };
    let n = it.name(&name);
    (n, format!("(mkObj {} {} {})", n, it.serial(&json_str(&v["serial"])), exp))
}

fn certified_key_term(it: &mut Interner, v: &Value) -> String {
    let key = v["key_id"].as_str().unwrap_or("?").to_string();
    let cert_key = key_hex_of_cert(&v["incoming_cert"]);
    let req = !v["request"].is_null();
    format!("(mkCK {} {} {})", it.key(&key), cert_term(it, &v["incoming_cert"], &cert_key), req)
}

fn pending_key_term(it: &mut Interner, v: &Value) -> String {
    format!("(mkPK {} {})", it.key(v["key_id"].as_str().unwrap_or("?")), !v["request"].is_null())
}

pub fn keystate_term(it: &mut Interner, v: &Value) -> String {
    if let Some(p) = v.get("pending") { return format!("(KPending {})", pending_key_term(it, p)) }
    if let Some(c) = v.get("active") { return format!("(KActive {})", certified_key_term(it, c)) }
    if let Some(a) = v.get("roll_pending") { return format!("(KRollPending {} {})", pending_key_term(it, &a[0]), certified_key_term(it, &a[1])) }
    if let Some(a) = v.get("roll_new") { return format!("(KRollNew {} {})", certified_key_term(it, &a[0]), certified_key_term(it, &a[1])) }
    if let Some(a) = v.get("roll_old") { return format!("(KRollOld {} {})", certified_key_term(it, &a[0]), certified_key_term(it, &a[1]["key"])) }
    panic!("unknown key state json: {v}")
}

fn objmap_terms(it: &mut Interner, infos: Vec<&Value>) -> String {
    let mut items: Vec<(u64, String)> = infos.into_iter().map(|v| obj_term(it, v)).collect();
    items.sort();
    coq_list(&items.into_iter().map(|(n, t)| format!("({n}, {t})")).collect::<Vec<_>>())
}

fn certmap_terms(it: &mut Interner, m: Option<&Value>) -> String {
    let mut items: Vec<(u64, String)> = Vec::new();
    if let Some(Value::Object(o)) = m {
        for (k, v) in o { let (_, t) = obj_term(it, v); items.push((it.key(k), t)); }
    }
    items.sort();
    coq_list(&items.into_iter().map(|(k, t)| format!("({k}, {t})")).collect::<Vec<_>>())
}

/// All ROA infos of a class json (simple and aggregate), keyed by their map key.
pub fn roa_infos(rc: &Value) -> BTreeMap<String, Value> {
    let mut m = BTreeMap::new();
    for sect in ["simple", "aggregate"] {
        if let Some(Value::Object(o)) = rc["roas"].get(sect) { for (k, v) in o { m.insert(k.clone(), v.clone()); } }
    }
    m
}

pub fn rclass_term(it: &mut Interner, rc: &Value) -> String {
    let roas = roa_infos(rc);
    let aspas: Vec<&Value> = match rc.get("aspas") { Some(Value::Object(o)) => o.values().collect(), _ => vec![] };
    let bgpsec: Vec<&Value> = match rc.get("bgpsec_certificates") { Some(Value::Object(o)) => o.values().collect(), _ => vec![] };
    format!("(mkRC {} {} {} {} {} {} {} {})",
        it.handle(rc["parent_handle"].as_str().unwrap_or("?")), it.rcn(rc["parent_rc_name"].as_str().unwrap_or("?")),
        keystate_term(it, &rc["key_state"]),
        objmap_terms(it, roas.values().collect()), objmap_terms(it, aspas), objmap_terms(it, bgpsec),
        certmap_terms(it, rc["certificates"].get("issued")), certmap_terms(it, rc["certificates"].get("suspended")))
}

pub fn ca_term(it: &mut Interner, ca: &Value) -> String {
    let mut classes = Vec::new();
    if let Some(Value::Object(o)) = ca.get("resources") {
        let mut v: Vec<(u64, String)> = o.iter().map(|(k, rc)| (it.rcn(k), rclass_term(it, rc))).collect();
        v.sort();
        classes = v.into_iter().map(|(k, t)| format!("({k}, {t})")).collect();
    }
    let mut parents: Vec<u64> = match ca.get("parents") { Some(Value::Object(o)) => o.keys().map(|k| it.handle(k)).collect(), _ => vec![] };
    parents.sort();
    let mut children = Vec::new();
    if let Some(Value::Object(o)) = ca.get("children") {
        let mut v: Vec<(u64, String)> = Vec::new();
        for (h, ch) in o {
            let susp = ch["state"].as_str() == Some("suspended");
            let mut used: Vec<(u64, String)> = Vec::new();
            if let Some(Value::Object(u)) = ch.get("used_keys") {
                for (k, st) in u {
                    let t = match st.get("in_use") { Some(c) => format!("InUse {}", it.rcn(&json_str(c))), None => "Revoked".to_string() };
                    used.push((it.key(k), t));
                }
            }
            used.sort();
            let mut map: Vec<(u64, u64)> = Vec::new();
            if let Some(Value::Object(m)) = ch.get("rcn_map") { for (a, b) in m { map.push((it.rcn(a), it.rcn(&json_str(b)))); } }
            map.sort();
            v.push((it.handle(h), format!("(mkChild {} {} {})", susp,
                coq_list(&used.into_iter().map(|(k, t)| format!("({k}, {t})")).collect::<Vec<_>>()),
                coq_list(&map.into_iter().map(|(a, b)| format!("({a}, {b})")).collect::<Vec<_>>()))));
        }
        v.sort();
        children = v.into_iter().map(|(k, t)| format!("({k}, {t})")).collect();
    }
    format!("(mkCA {} {} {} {})", coq_list(&classes), coq_list(&parents.iter().map(|p| p.to_string()).collect::<Vec<_>>()),
        coq_list(&children), ca["next_class_name"].as_u64().unwrap_or(0))
}

fn oset_term(it: &mut Interner, s: &Value) -> String {
    let key = key_hex_of_cert(&s["signing_cert"]);
    let pubs: Vec<&Value> = match s.get("published_objects") { Some(Value::Object(o)) => o.values().collect(), _ => vec![] };
    let mut revs: Vec<(u64, i64)> = match s.get("revocations") {
        Some(Value::Array(a)) => a.iter().map(|r| (it.serial(&json_str(&r["serial"])), time_secs(&r["expires"]))).collect(),
        _ => vec![],
    };
    revs.sort();
    format!("(mkOS {} {} {} {} {})", it.key(&key), objmap_terms(it, pubs),
        coq_list(&revs.into_iter().map(|(s, e)| format!("({s}, {e}%Z)")).collect::<Vec<_>>()),
        s["revision"]["number"].as_u64().unwrap_or(0), time_secs(&s["revision"]["next_update"]))
}

pub fn objects_term(it: &mut Interner, objs: &Value) -> String {
    let mut v: Vec<(u64, String)> = Vec::new();
    if let Some(Value::Object(o)) = objs.get("classes") {
        for (c, rco) in o {
            let k = &rco["keys"];
            let t = match k["type"].as_str() {
                Some("current") => format!("(OCur {})", oset_term(it, &k["current_set"])),
                Some("staging") => format!("(OStg {} {})", oset_term(it, &k["staging_set"]), oset_term(it, &k["current_set"])),
                Some("old") => format!("(OOld {} {})", oset_term(it, &k["current_set"]), oset_term(it, &k["old_set"])),
                other => panic!("unknown key set state {other:?}"),
            };
            v.push((it.rcn(c), t));
        }
    }
    v.sort();
    coq_list(&v.into_iter().map(|(c, t)| format!("({c}, {t})")).collect::<Vec<_>>())
}

fn certs_list(it: &mut Interner, arr: Option<&Value>) -> String {
    let mut items = Vec::new();
    if let Some(Value::Array(a)) = arr {
        for v in a {
            let key = key_hex_of_cert(v);
            let (_, t) = obj_term(it, v);
            items.push(format!("({}, {})", it.key(&key), t));
        }
    }
    coq_list(&items)
}

/// One stored event -> model event term. `ca_before` is the CertAuth json before the command (needed to
/// find the file names of removed ROAs). Also records key -> certificate file name pairs.
pub fn event_term(it: &mut Interner, ev: &Value, ca_before: &Value, cer_names: &mut BTreeMap<u64, u64>) -> String {
    let ty = ev["type"].as_str().unwrap_or("?");
    let rcn = |it: &mut Interner| it.rcn(&json_str(&ev["resource_class_name"]));
    match ty {
        "child_added" => format!("(EChildAdded {})", it.handle(ev["child"].as_str().unwrap())),
        "child_certificate_issued" => { let k = ev["ki"].as_str().unwrap(); let n = it.cer_name_of_key(k); let ki = it.key(k); cer_names.insert(ki, n);
            format!("(EChildCertIssued {} {} {})", it.handle(ev["child"].as_str().unwrap()), rcn(it), ki) }
        "child_key_revoked" => { let k = ev["ki"].as_str().unwrap(); let n = it.cer_name_of_key(k); let ki = it.key(k); cer_names.insert(ki, n);
            format!("(EChildKeyRevoked {} {} {})", it.handle(ev["child"].as_str().unwrap()), rcn(it), ki) }
        "child_certificates_updated" => {
            let u = &ev["updates"];
            let mut removed = Vec::new();
            if let Some(Value::Array(a)) = u.get("removed") { for k in a { let k = k.as_str().unwrap(); let n = it.cer_name_of_key(k); let ki = it.key(k); cer_names.insert(ki, n); removed.push(ki.to_string()); } }
            format!("(EChildCertsUpdated {} {} {} {} {})", rcn(it), certs_list(it, u.get("issued")), coq_list(&removed), certs_list(it, u.get("suspended")), certs_list(it, u.get("unsuspended")))
        }
        "child_updated_id_cert" | "child_updated_resources" => format!("(EChildUpdated {})", it.handle(ev["child"].as_str().unwrap())),
        "child_updated_resource_class_name_mapping" => format!("(EChildMapping {} {} {})", it.handle(ev["child"].as_str().unwrap()),
            it.rcn(&json_str(&ev["name_in_parent"])), it.rcn(&json_str(&ev["name_for_child"]))),
        "child_removed" => format!("(EChildRemoved {})", it.handle(ev["child"].as_str().unwrap())),
        "child_suspended" => format!("(EChildSuspended {})", it.handle(ev["child"].as_str().unwrap())),
        "child_unsuspended" => format!("(EChildUnsuspended {})", it.handle(ev["child"].as_str().unwrap())),
        "parent_added" | "parent_updated" => format!("(EParentAdded {})", it.handle(ev["parent"].as_str().unwrap())),
        "parent_removed" => format!("(EParentRemoved {})", it.handle(ev["parent"].as_str().unwrap())),
        "resource_class_added" => format!("(EClassAdded {} {} {} {})", rcn(it), it.handle(ev["parent"].as_str().unwrap()),
            it.rcn(&json_str(&ev["parent_resource_class_name"])), it.key(ev["pending_key"].as_str().unwrap())),
        "resource_class_removed" => format!("(EClassRemoved {})", rcn(it)),
        "certificate_requested" => format!("(ECertRequested {} {})", rcn(it), it.key(ev["ki"].as_str().unwrap())),
        "certificate_received" => { let k = ev["ki"].as_str().unwrap().to_string(); let ck = key_hex_of_cert(&ev["rcvd_cert"]);
            format!("(ECertReceived {} {} {})", rcn(it), it.key(&k), cert_term(it, &ev["rcvd_cert"], &ck)) }
        "key_roll_pending_key_added" => format!("(EPendingKeyAdded {} {})", rcn(it), it.key(ev["pending_key_id"].as_str().unwrap())),
        "key_pending_to_new" => { let ck = key_hex_of_cert(&ev["new_key"]["incoming_cert"]); format!("(EPendingToNew {} {})", rcn(it), cert_term(it, &ev["new_key"]["incoming_cert"], &ck)) }
        "key_pending_to_active" => { let ck = key_hex_of_cert(&ev["current_key"]["incoming_cert"]); format!("(EPendingToActive {} {})", rcn(it), cert_term(it, &ev["current_key"]["incoming_cert"], &ck)) }
        "key_roll_activated" => format!("(ERollActivated {})", rcn(it)),
        "key_roll_finished" => format!("(ERollFinished {})", rcn(it)),
        "roas_updated" => {
            let u = &ev["updates"];
            let mut updated: Vec<&Value> = Vec::new();
            for sect in ["updated", "aggregate_updated"] { if let Some(Value::Object(o)) = u.get(sect) { updated.extend(o.values()); } }
            let before = roa_infos(&ca_before["resources"][json_str(&ev["resource_class_name"]).as_str()]);
            let mut removed = Vec::new();
            for sect in ["removed", "aggregate_removed"] {
                if let Some(Value::Array(a)) = u.get(sect) {
                    for k in a {
                        let k = json_str(k);
                        let name = before.get(&k).and_then(|i| i["uri"].as_str()).map(|u| last_segment(u).to_string()).unwrap_or(format!("unknown-roa-{k}"));
                        removed.push(it.name(&name).to_string());
                    }
                }
            }
            format!("(EObjectsUpdated {} KRoa {} {})", rcn(it), objmap_terms(it, updated), coq_list(&removed))
        }
        "aspa_objects_updated" => {
            let u = &ev["updates"];
            let updated: Vec<&Value> = match u.get("updated") { Some(Value::Array(a)) => a.iter().collect(), _ => vec![] };
            let mut removed = Vec::new();
            if let Some(Value::Array(a)) = u.get("removed") { for c in a { removed.push(it.name(&format!("AS{}.asa", json_str(c).trim_start_matches("AS"))).to_string()); } }
            format!("(EObjectsUpdated {} KAspa {} {})", rcn(it), objmap_terms(it, updated), coq_list(&removed))
        }
        "bgp_sec_certificates_updated" | "bgpsec_certificates_updated" => {
            let u = &ev["updates"];
            let updated: Vec<&Value> = match u.get("updated") { Some(Value::Array(a)) => a.iter().collect(), _ => vec![] };
            let mut removed = Vec::new();
            if let Some(Value::Array(a)) = u.get("removed") { for k in a {
                let asn = k["asn"].as_u64().unwrap_or(0); let key = k["key"].as_str().unwrap_or("?");
                removed.push(it.name(&format!("ROUTER-{:08X}-{}.cer", asn, key)).to_string()); } }
            format!("(EObjectsUpdated {} KBgpsec {} {})", rcn(it), objmap_terms(it, updated), coq_list(&removed))
        }
        "repo_updated" => "ERepoUpdated".to_string(),
        _ => "EOther".to_string(),
    }
}
