(** * ident/Local.v - the local shortcut (C12; findings F12a and F12b, repaired in /repo by 1a6ebc01 and 346cb17c)

    When the parent (or repository) of a CA lives in the same Krill instance, no CMS is built:

    - [send_rfc6492_and_validate_response] (src/server/ca/manager.rs:2358-2401): if the service
      URI of the CA's stored parent contact is "<service_uri>rfc6492/<parent>", the request message
      is handed directly to [rfc6492_process_request] of that parent. The message was built with
      sender = [server_info.child_handle] (manager.rs:1828, 1939, 2330): the child handle found in
      the CALLER'S OWN parent contact, i.e. in the RFC 8183 parent response the caller's
      administrator stored with [ca_parent_add_or_update]. The user agent is "local-child".
      REPAIRED TREE (2372-2393): before processing, the child named as sender is looked up at the
      local parent ([get_child], unknown child = error) and the key identifier of its registered
      ID certificate is compared with [signing_key], the calling CA's own ID key; on a mismatch an
      error is returned and nothing is processed or stored: [local6492].
      ORIGINALLY PINNED TREE: no key of the caller was compared with anything: [local6492_pinned],
      kept with its refutation (F12a) as a regression witness.
    - [send_rfc8181_and_validate_response] (manager.rs:2934-2969): if the repository's service URI
      starts with the instance's service URI, the message is turned into a query ([as_query()?]) and
      [rfc8181_message] is called for the publisher whose handle equals the CALLER'S CA HANDLE
      ([ca_handle.convert()], 2949); the reply is not signed.
      REPAIRED TREE (/repo 346cb17c, 2951-2963): before that, the ID certificate registered for that
      publisher is fetched ([get_publisher_id_cert], unknown publisher = error) and its key
      identifier compared with [signing_key], the calling CA's own ID key; on a mismatch an error is
      returned and nothing is processed or stored: [local8181].
      ORIGINALLY PINNED TREE: no key was compared: [local8181_pinned], kept with its refutation
      (F12b) as a regression witness.

    Definitions only. *)
From KV Require Import base.Tac ident.Msg ident.Updown.
Open Scope N_scope.

(** The calling CA as far as the shortcut looks at it. *)
Record caller := mkCaller {
  cl_handle : handle;           (* its CA handle *)
  cl_id : key;                  (* its ID key (CertAuth::id): the [signing_key] of the exchange *)
  cl_contact_child : handle }.  (* ParentServerInfo::child_handle of its stored parent contact *)

Definition local_ua : N := 0.   (* "local-child" *)

(** The originally pinned local RFC 6492 exchange with the parent [st]: no key involved. *)
Definition local6492_pinned (st : parent) (cl : caller) (r : req) : parent * outcome reply :=
  let c := cl_contact_child cl in
  match process st local_ua c r with
  | (st', RsErrored) => (st', Errored c)
  | (st', RsFailed) => (st', Failed c)
  | (st', RsPanicked) => (st', Panicked)
  | (st', RsServed rep) => (st', Served c (mkMsg (p_handle st) c rep 0 true))   (* unsigned: signed_by is meaningless *)
  end.

(** The local RFC 6492 exchange of the repaired tree: the ID key registered at the parent for the
    child named in the caller's contact must be the caller's own ID key. *)
Definition local6492 (st : parent) (cl : caller) (r : req) : parent * outcome reply :=
  match aget (cl_contact_child cl) (p_children st) with
  | None => (st, Refused)                                         (* get_child(..)?: CaChildUnknown *)
  | Some ch => if ch_id ch =? cl_id cl then local6492_pinned st cl r
               else (st, Refused)                                 (* "not its registered ID key" *)
  end.

(** The originally pinned local RFC 8181 exchange: served as the publisher named like the calling CA, no key involved. *)
Definition local8181_pinned (rp : repo) (cl : caller) (q : query) : repo * outcome preply :=
  let h := cl_handle cl in
  match serve8181 rp h q with
  | None => (rp, Refused)
  | Some (rp', RsServed rep) => (rp', Served h (mkMsg 0 0 rep 0 true))
  | Some (rp', RsPanicked) => (rp', Panicked)
  | Some (rp', _) => (rp', Errored h)
  end.

(** The local RFC 8181 exchange of the repaired tree: the ID key registered for the publisher that
    carries the caller's handle must be the caller's own ID key. *)
Definition local8181 (rp : repo) (cl : caller) (q : query) : repo * outcome preply :=
  match q with
  | QReply => (rp, Refused)                                         (* as_query()? fails before anything else *)
  | _ =>
      match aget (cl_handle cl) (r_pubs rp) with
      | None => (rp, Refused)                                       (* get_publisher_id_cert(..)?: unknown publisher *)
      | Some pb => if pb_id pb =? cl_id cl then local8181_pinned rp cl q
                   else (rp, Refused)                               (* "not its registered ID key" *)
      end
  end.

(** The contact of the caller names the child this caller is registered as: if the parent knows a
    child by the handle in the caller's contact, that child's registered ID key is the caller's. *)
Definition contact_handle_matches_registration (st : parent) (cl : caller) : Prop :=
  forall ch, aget (cl_contact_child cl) (p_children st) = Some ch -> ch_id ch = cl_id cl.

Definition publisher_handle_matches_registration (rp : repo) (cl : caller) : Prop :=
  forall pb, aget (cl_handle cl) (r_pubs rp) = Some pb -> pb_id pb = cl_id cl.


(** * The trust-anchor proxy as local parent

    When the parent of a local CA is the embedded trust anchor "ta", [send_rfc6492_and_validate_response]
    takes the same shortcut; the parent is then not a [CertAuth] but the TA proxy aggregate
    (src/server/taproxy.rs). REPAIRED TREE (manager.rs:2377-2381): the child named as sender is looked
    up in the proxy's child table ([TrustAnchorProxy::get_child], 605-615) and the key identifier of
    [TrustAnchorChild::id] (api/ta.rs:822-829) is compared with the caller's ID key. Then
    [rfc6492_process_request] runs for "ta" (manager.rs:1048-1123; no implicit unsuspend, 1065):
    list = [TrustAnchorProxy::entitlements] (641-704); issue / revoke = [ta_slow_rfc6492_request]
    (manager.rs:1259-1322): hand out a waiting response ([ChildResponseGiven], taproxy.rs:232-239,
    505-524), or answer "already scheduled", or queue the request for the TA signer
    ([process_add_child_request] 446-503, [ChildRequestAdded] 221-231); the child status of ("ta", child)
    is recorded as for any parent. What the proxy and the signer do with queued requests is C15's subject.

    Simplifications: two requests for the same key and of the same kind count as "matching"
    ([matching_open_request] also compares class, limit and CSR); certificate contents and the
    entitlement reply are not modelled (the result is only: refused / acted for the child, ok or not). *)

Record tachild := mkTaChild {
  tc_id : key;                        (* TrustAnchorChild::id *)
  tc_ent : N;                         (* resources *)
  tc_used : list (N * ukstate);       (* used_keys *)
  tc_open_req : list (N * bool);      (* open_requests: key -> is it an issuance request *)
  tc_open_resp : list (N * bool);     (* open_responses *)
  tc_last : option (N * bool) }.      (* status store: user agent and result of the last exchange *)

Record taproxy := mkTa { ta_children : list (handle * tachild); ta_hist : N }.

Definition ta_rcn : N := 1000.        (* the TA's only resource class, "default" *)

Definition tc_with_req (l : list (N * bool)) (ch : tachild) : tachild :=
  mkTaChild (tc_id ch) (tc_ent ch) (tc_used ch) l (tc_open_resp ch) (tc_last ch).
Definition tc_with_resp (l : list (N * bool)) (ch : tachild) : tachild :=
  mkTaChild (tc_id ch) (tc_ent ch) (tc_used ch) (tc_open_req ch) l (tc_last ch).
Definition tc_with_last (l : option (N * bool)) (ch : tachild) : tachild :=
  mkTaChild (tc_id ch) (tc_ent ch) (tc_used ch) (tc_open_req ch) (tc_open_resp ch) l.

(** [ta_slow_rfc6492_request] for key [k]; [valid] is the verdict of [process_add_child_request]'s checks. *)
Definition ta_slow (st : taproxy) (c : handle) (ch : tachild) (k : N) (issue valid : bool) : taproxy * bool :=
  match aget k (tc_open_resp ch) with
  | Some kind =>
      if Bool.eqb kind issue
      then (mkTa (aupd c (tc_with_resp (aremove k (tc_open_resp ch))) (ta_children st)) (ta_hist st + 1), true)
      else (st, false)                                    (* "Response ... does not match request type" *)
  | None =>
      match aget k (tc_open_req ch) with
      | Some kind =>
          if Bool.eqb kind issue then (st, true)          (* already scheduled: not-performed 1101, an Ok reply *)
          else if valid then (mkTa (aupd c (tc_with_req (ainsert k issue (tc_open_req ch))) (ta_children st)) (ta_hist st + 1), true)
               else (mkTa (ta_children st) (ta_hist st + 1), false)
      | None =>
          if valid then (mkTa (aupd c (tc_with_req (ainsert k issue (tc_open_req ch))) (ta_children st)) (ta_hist st + 1), true)
          else (mkTa (ta_children st) (ta_hist st + 1), false)   (* the failed command is stored *)
      end
  end.

(** [rfc6492_process_request] for the parent "ta" and child [c]: [None] = the child is unknown (the
    repaired shortcut never gets here), [Some ok] = acted for [c], the status entry says [ok]. *)
Definition ta_process (st : taproxy) (ua : N) (c : handle) (r : req) : taproxy * option bool :=
  match aget c (ta_children st) with
  | None => (st, None)
  | Some ch =>
      let '(st1, ok) :=
        match r with
        | RList => (st, true)
        | RIssue rcn k limit csr_ok =>
            ta_slow st c ch k true ((rcn =? ta_rcn) && csr_ok &&
                                    match limit with None => true | Some l => subset l (tc_ent ch) end)
        | RRevoke rcn k =>
            ta_slow st c ch k false ((rcn =? ta_rcn) &&
                                     match aget k (tc_used ch) with Some (InUse _) => true | _ => false end)
        | ROther => (st, false)
        end in
      (mkTa (aupd c (tc_with_last (Some (ua, ok))) (ta_children st1)) (ta_hist st1), Some ok)
  end.

(** The shortcut without the key comparison (the originally pinned tree; also what a lookup that only
    knows [CertAuth] parents amounts to for "ta"). *)
Definition ta_local6492_pinned (st : taproxy) (cl : caller) (r : req) : taproxy * option bool :=
  ta_process st local_ua (cl_contact_child cl) r.

(** The repaired shortcut. *)
Definition ta_local6492 (st : taproxy) (cl : caller) (r : req) : taproxy * option bool :=
  match aget (cl_contact_child cl) (ta_children st) with
  | None => (st, None)
  | Some ch => if tc_id ch =? cl_id cl then ta_local6492_pinned st cl r else (st, None)
  end.
