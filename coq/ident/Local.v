(** * ident/Local.v - the local shortcut (C12, finding F12a)

    When the parent (or repository) of a CA lives in the same Krill instance, no CMS is built:

    - [send_rfc6492_and_validate_response] (src/server/ca/manager.rs:2356-2377): if the service
      URI of the CA's stored parent contact is "<service_uri>rfc6492/<parent>", the request message
      is handed directly to [rfc6492_process_request] of that parent. The message was built with
      sender = [server_info.child_handle] (manager.rs:1828, 1939, 2330): the child handle found in
      the CALLER'S OWN parent contact, i.e. in the RFC 8183 parent response the caller's
      administrator stored with [ca_parent_add_or_update]. No key of the caller is compared with
      the ID certificate registered for that child. The user agent is "local-child".
    - [send_rfc8181_and_validate_response] (manager.rs:2910-2930): if the repository's service URI
      starts with the instance's service URI, [rfc8181_message] is called for the publisher whose
      handle equals the CALLER'S CA HANDLE ([ca_handle.convert()], 2925). No key is compared
      either; the reply is not signed.

    Definitions only. *)
From KV Require Import base.Tac ident.Msg ident.Updown.
Open Scope N_scope.

(** The calling CA as far as the shortcut looks at it. *)
Record caller := mkCaller {
  cl_handle : handle;           (* its CA handle *)
  cl_id : key;                  (* its ID key (CertAuth::id) - never consulted by the shortcut *)
  cl_contact_child : handle }.  (* ParentServerInfo::child_handle of its stored parent contact *)

Definition local_ua : N := 0.   (* "local-child" *)

(** Local RFC 6492 exchange with the parent [st]. *)
Definition local6492 (st : parent) (cl : caller) (r : req) : parent * outcome reply :=
  let c := cl_contact_child cl in
  match process st local_ua c r with
  | (st', RsErrored) => (st', Errored c)
  | (st', RsFailed) => (st', Failed c)
  | (st', RsPanicked) => (st', Panicked)
  | (st', RsServed rep) => (st', Served c (mkMsg (p_handle st) c rep 0 true))   (* unsigned: signed_by is meaningless *)
  end.

(** Local RFC 8181 exchange: served as the publisher named like the calling CA. *)
Definition local8181 (rp : repo) (cl : caller) (q : query) : repo * outcome preply :=
  let h := cl_handle cl in
  match serve8181 rp h q with
  | None => (rp, Refused)
  | Some (rp', RsServed rep) => (rp', Served h (mkMsg 0 0 rep 0 true))
  | Some (rp', RsPanicked) => (rp', Panicked)
  | Some (rp', _) => (rp', Errored h)
  end.

(** The contact of the caller names the child this caller is registered as: if the parent knows a
    child by the handle in the caller's contact, that child's registered ID key is the caller's. *)
Definition contact_handle_matches_registration (st : parent) (cl : caller) : Prop :=
  forall ch, aget (cl_contact_child cl) (p_children st) = Some ch -> ch_id ch = cl_id cl.

Definition publisher_handle_matches_registration (rp : repo) (cl : caller) : Prop :=
  forall pb, aget (cl_handle cl) (r_pubs rp) = Some pb -> pb_id pb = cl_id cl.

(** What a fix along the lines of DESIGN.md section 5 (C12) would look like: compare the caller's ID key with
    the key registered for the claimed child before processing. *)
Definition local6492_checked (st : parent) (cl : caller) (r : req) : parent * outcome reply :=
  match aget (cl_contact_child cl) (p_children st) with
  | None => (st, Refused)
  | Some ch => if ch_id ch =? cl_id cl then local6492 st cl r else (st, Refused)
  end.
