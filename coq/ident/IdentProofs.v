(** * ident/IdentProofs.v - proofs for C12 (see props/C12.v for the property statements)

    Everything about cryptography enters through the Section hypothesis [sound : cms_sound validate]
    (Msg.v); after the sections are closed it is an explicit hypothesis of each theorem. *)
From KV Require Import base.Tac ident.Msg ident.Updown ident.Local.
Open Scope N_scope.

(** ** Association lists *)
Lemma aget_aremove {V} k k' (l : list (N * V)) :
  aget k' (aremove k l) = if k' =? k then None else aget k' l.
Proof.
  induction l as [|[a v] l IH]; cbn [aremove aget].
  - destruct (k' =? k); reflexivity.
  - destruct (a =? k) eqn:Eak.
    + rewrite IH. destruct (k' =? k) eqn:Ek; [reflexivity|].
      apply N.eqb_eq in Eak. subst a. rewrite N.eqb_sym, Ek. reflexivity.
    + cbn [aget]. destruct (a =? k') eqn:Eak'.
      * apply N.eqb_eq in Eak'. subst a. rewrite Eak. reflexivity.
      * exact IH.
Qed.

Lemma aget_ainsert {V} k k' (v : V) l :
  aget k' (ainsert k v l) = if k' =? k then Some v else aget k' l.
Proof.
  unfold ainsert. cbn [aget]. rewrite N.eqb_sym. destruct (k' =? k) eqn:E; [reflexivity|].
  rewrite aget_aremove, E. reflexivity.
Qed.

Lemma aget_aupd {V} k k' (f : V -> V) l :
  aget k' (aupd k f l) = if k' =? k then option_map f (aget k' l) else aget k' l.
Proof.
  unfold aupd. induction l as [|[a v] l IH]; cbn [map aget].
  - destruct (k' =? k); reflexivity.
  - destruct (a =? k) eqn:Eak; cbn [aget]; destruct (a =? k') eqn:Eak'.
    + apply N.eqb_eq in Eak, Eak'. subst. rewrite N.eqb_refl. reflexivity.
    + exact IH.
    + apply N.eqb_eq in Eak'. subst a. rewrite Eak. reflexivity.
    + exact IH.
Qed.

Lemma aget_amap {V} k (f : V -> V) l : aget k (amap f l) = option_map f (aget k l).
Proof.
  unfold amap. induction l as [|[a v] l IH]; cbn [map aget]; [reflexivity|].
  destruct (a =? k); [reflexivity|exact IH].
Qed.

Lemma aget_In {V} k (v : V) l : In (k, v) l -> exists v', aget k l = Some v'.
Proof.
  induction l as [|[a w] l IH]; [intros []|]. intros [H|H]; cbn [aget].
  - inversion H; subst. rewrite N.eqb_refl. eauto.
  - destruct (a =? k); eauto.
Qed.

(** ** Atom masks *)
Lemma subset_spec a b : subset a b = true <-> N.land a b = a.
Proof. unfold subset. apply N.eqb_eq. Qed.
Lemma subset_trans a b c : subset a b = true -> subset b c = true -> subset a c = true.
Proof.
  rewrite !subset_spec. intros Hab Hbc.
  rewrite <- Hab at 1. rewrite <- N.land_assoc, Hbc. exact Hab.
Qed.
Lemma subset_land_r p r : subset (N.land p r) r = true.
Proof. rewrite subset_spec, <- N.land_assoc, N.land_diag. reflexivity. Qed.
Lemma issue_mask_within pres res limit r : issue_mask pres res limit = Some r -> subset r res = true.
Proof.
  unfold issue_mask. destruct limit as [l|].
  - destruct (subset l (N.land pres res)) eqn:E; [|discriminate]. intros H; inversion H; subst.
    eapply subset_trans; [exact E|apply subset_land_r].
  - intros H; inversion H; subst. apply subset_land_r.
Qed.

(** ** The validator used for evaluating observed cases is sound *)
Lemma ideal_validate_sound {P} : cms_sound (@ideal_validate P).
Proof.
  intros k m. unfold ideal_validate. rewrite andb_true_iff, N.eqb_eq. tauto.
Qed.

(** ** Commands never touch the parent's own identity *)
Lemma apply_event_ident s e s' : apply_event s e = Some s' -> p_id s' = p_id s /\ p_handle s' = p_handle s.
Proof.
  destruct e; cbn [apply_event]; repeat (destr_match; try discriminate);
    intros H; inversion H; subst; split; reflexivity.
Qed.
Lemma apply_events_ident evs : forall s s', apply_events s evs = Some s' -> p_id s' = p_id s /\ p_handle s' = p_handle s.
Proof.
  induction evs as [|e evs IH]; intros s s' H; cbn [apply_events] in H.
  - inversion H; subst; split; reflexivity.
  - destruct (apply_event s e) as [s1|] eqn:E; [|discriminate].
    destruct (apply_event_ident _ _ _ E) as [A B]. destruct (IH _ _ H) as [C D]. split; congruence.
Qed.
Lemma run_cmd_ident s evs : 
  match run_cmd s evs with CmdOk s1 | CmdErr s1 => p_id s1 = p_id s /\ p_handle s1 = p_handle s | CmdPanic => True end.
Proof.
  unfold run_cmd. destruct evs as [[|e evs]|]; [split; reflexivity| |split; reflexivity].
  destruct (apply_events s (e :: evs)) as [s2|] eqn:Ea; [|exact I].
  destruct (apply_events_ident _ _ _ Ea). split; assumption.
Qed.

(** * Remote paths *)
Section Remote.
  Variable validate6 : validator req.
  Hypothesis sound6 : cms_sound validate6.
  Variable validate8 : validator query.
  Hypothesis sound8 : cms_sound validate8.

  (** *** acts_only_for_registered_key *)
  Lemma acts_only_6492 st ua m st' out :
    rfc6492 validate6 st ua m = (st', out) -> out <> Refused ->
    exists ch, aget (sender m) (p_children st) = Some ch /\ signed_by m = ch_id ch /\ intact m = true
               /\ forall c, acted_for out = Some c -> c = sender m.
  Proof.
    unfold rfc6492. intros H Hne.
    destruct (aget (sender m) (p_children st)) as [ch|] eqn:Ech; [|inversion H; subst; congruence].
    destruct (validate6 (ch_id ch) m) eqn:Ev; [|inversion H; subst; congruence].
    apply sound6 in Ev. destruct Ev as [Hs Hi].
    exists ch. repeat split; auto.
    intros c Hc. destruct (process st ua (sender m) (payload m)) as [st1 [| |rep|]];
      inversion H; subst; cbn in Hc; congruence.
  Qed.

  Lemma acts_only_8181 rp m rp' out :
    rfc8181 validate8 rp m = (rp', out) -> out <> Refused ->
    exists pb, aget (sender m) (r_pubs rp) = Some pb /\ signed_by m = pb_id pb /\ intact m = true
               /\ forall h, acted_for out = Some h -> h = sender m.
  Proof.
    unfold rfc8181. intros H Hne.
    destruct (aget (sender m) (r_pubs rp)) as [pb|] eqn:Epb; [|inversion H; subst; congruence].
    destruct (validate8 (pb_id pb) m) eqn:Ev; [|inversion H; subst; congruence].
    apply sound8 in Ev. destruct Ev as [Hs Hi].
    exists pb. repeat split; auto.
    intros h Hh. destruct (serve8181 rp (sender m) (payload m)) as [[rp1 [| |rep|]]|];
      inversion H; subst; cbn in Hh; congruence.
  Qed.

  Theorem acts_only_for_registered_key :
    (forall st ua m st' out, rfc6492 validate6 st ua m = (st', out) -> out <> Refused ->
       exists ch, aget (sender m) (p_children st) = Some ch /\ signed_by m = ch_id ch /\ intact m = true
                  /\ forall c, acted_for out = Some c -> c = sender m) /\
    (forall rp m rp' out, rfc8181 validate8 rp m = (rp', out) -> out <> Refused ->
       exists pb, aget (sender m) (r_pubs rp) = Some pb /\ signed_by m = pb_id pb /\ intact m = true
                  /\ forall h, acted_for out = Some h -> h = sender m).
  Proof. split; [exact acts_only_6492|exact acts_only_8181]. Qed.

  (** The contrapositive, as the property text puts it: another child's key, a replaced identity,
      a random key, an unknown sender or altered content => refused. *)
  Theorem wrong_key_or_content_refused_6492 st ua m :
    (forall ch, aget (sender m) (p_children st) = Some ch -> signed_by m <> ch_id ch \/ intact m = false) ->
    rfc6492 validate6 st ua m = (st, Refused).
  Proof.
    intros H. unfold rfc6492. destruct (aget (sender m) (p_children st)) as [ch|]; [|reflexivity].
    destruct (validate6 (ch_id ch) m) eqn:Ev; [|reflexivity].
    apply sound6 in Ev. destruct Ev as [Hs Hi]. destruct (H ch eq_refl) as [Hn|Hn]; congruence.
  Qed.

  Theorem wrong_key_or_content_refused_8181 rp m :
    (forall pb, aget (sender m) (r_pubs rp) = Some pb -> signed_by m <> pb_id pb \/ intact m = false) ->
    rfc8181 validate8 rp m = (rp, Refused).
  Proof.
    intros H. unfold rfc8181. destruct (aget (sender m) (r_pubs rp)) as [pb|]; [|reflexivity].
    destruct (validate8 (pb_id pb) m) eqn:Ev; [|reflexivity].
    apply sound8 in Ev. destruct Ev as [Hs Hi]. destruct (H pb eq_refl) as [Hn|Hn]; congruence.
  Qed.

  (** *** refused_no_change *)
  Lemma refused_no_change_6492 st ua m st' :
    rfc6492 validate6 st ua m = (st', Refused) -> st' = st.
  Proof.
    unfold rfc6492. destruct (aget (sender m) (p_children st)) as [ch|]; [|congruence].
    destruct (validate6 (ch_id ch) m); [|congruence].
    destruct (process st ua (sender m) (payload m)) as [st1 [| |rep|]]; congruence.
  Qed.

  Lemma refused_no_change_8181 rp m rp' :
    rfc8181 validate8 rp m = (rp', Refused) -> rp' = rp.
  Proof.
    unfold rfc8181. destruct (aget (sender m) (r_pubs rp)) as [pb|]; [|congruence].
    destruct (validate8 (pb_id pb) m); [|congruence].
    destruct (serve8181 rp (sender m) (payload m)) as [[rp1 [| |rep|]]|]; congruence.
  Qed.

  Theorem refused_no_change :
    (forall st ua m st', rfc6492 validate6 st ua m = (st', Refused) -> st' = st) /\
    (forall rp m rp', rfc8181 validate8 rp m = (rp', Refused) -> rp' = rp).
  Proof. split; [exact refused_no_change_6492|exact refused_no_change_8181]. Qed.

  (** *** reply_signed_with_current_id *)
  Lemma reply_signed_6492 st ua m st' c r :
    rfc6492 validate6 st ua m = (st', Served c r) ->
    signed_by r = p_id st /\ p_id st' = p_id st /\ intact r = true /\
    sender r = p_handle st /\ recipient r = sender m /\ c = sender m.
  Proof.
    unfold rfc6492. destruct (aget (sender m) (p_children st)) as [ch|]; [|congruence].
    destruct (validate6 (ch_id ch) m); [|congruence].
    destruct (process st ua (sender m) (payload m)) as [st1 [| |rep|]] eqn:Ep; try congruence.
    intros H; inversion H; subst; clear H. cbn. repeat split; auto.
    (* the request cannot change the parent's identity *)
    revert Ep. unfold process.
    destruct (aget (sender m) (p_children st)) as [ch0|]; [|congruence].
    destruct (if ch_susp ch0 then run_cmd st (unsuspend_cmd st (sender m)) else CmdOk st) as [s1|s1|] eqn:Eu; try congruence.
    assert (H1 : p_id s1 = p_id st).
    { destruct (ch_susp ch0); [|inversion Eu; reflexivity].
      pose proof (run_cmd_ident st (unsuspend_cmd st (sender m))) as R. rewrite Eu in R. apply R. }
    destruct (handle_req s1 (sender m) (payload m)) as [[s2 [rp|]]|] eqn:Eh; try congruence.
    intros H; inversion H; subst; clear H. cbn. rewrite <- H1.
    destruct (payload m) as [|rcn k limit csr|rcn k|]; cbn [handle_req] in Eh.
    - inversion Eh; reflexivity.
    - pose proof (run_cmd_ident s1 (certify_cmd s1 (sender m) rcn k limit csr)) as R.
      destruct (run_cmd s1 _) as [s3|s3|]; inversion Eh; subst. apply R.
    - pose proof (run_cmd_ident s1 (revoke_cmd s1 (sender m) rcn k)) as R.
      destruct (run_cmd s1 _) as [s3|s3|]; inversion Eh; subst. apply R.
    - inversion Eh.
  Qed.

  Lemma reply_signed_8181 rp m rp' h r :
    rfc8181 validate8 rp m = (rp', Served h r) ->
    signed_by r = r_id rp /\ r_id rp' = r_id rp /\ intact r = true /\ h = sender m.
  Proof.
    unfold rfc8181. destruct (aget (sender m) (r_pubs rp)) as [pb|]; [|congruence].
    destruct (validate8 (pb_id pb) m); [|congruence].
    destruct (serve8181 rp (sender m) (payload m)) as [[rp1 [| |rep|]]|] eqn:Es; try congruence.
    intros H; inversion H; subst; clear H. cbn. repeat split; auto.
    revert Es. unfold serve8181. destruct (aget (sender m) (r_pubs rp)) as [pb0|]; [|congruence].
    destruct (payload m) as [|d|].
    - intros H; inversion H; reflexivity.
    - destruct d as [|e d]; [intros H; inversion H; reflexivity|].
      destruct (delta_ok _ _ _); intros H; inversion H; reflexivity.
    - congruence.
  Qed.

  Theorem reply_signed_with_current_id :
    (forall st ua m st' c r, rfc6492 validate6 st ua m = (st', Served c r) ->
       signed_by r = p_id st /\ p_id st' = p_id st /\ intact r = true /\
       sender r = p_handle st /\ recipient r = sender m /\ c = sender m) /\
    (forall rp m rp' h r, rfc8181 validate8 rp m = (rp', Served h r) ->
       signed_by r = r_id rp /\ r_id rp' = r_id rp /\ intact r = true /\ h = sender m).
  Proof. split; [exact reply_signed_6492|exact reply_signed_8181]. Qed.

End Remote.

(** * Effects are confined to the sender (parent side) *)

Lemma opt_rel_refl {A} (R : A -> A -> Prop) a : (forall x, R x x) -> opt_rel R a a.
Proof. intros H. destruct a; cbn; auto. Qed.
Lemma opt_rel_map {A} (R : A -> A -> Prop) f a b :
  opt_rel R a b -> (forall x y, R x y -> R x (f y)) -> opt_rel R a (option_map f b).
Proof. destruct a, b; cbn; auto. Qed.

Section Confined.
  Variable ent : N.
  Variable inuse0 : N -> bool.
  Variable c : handle.

  Lemma used_rel_refl b u : used_rel b u u.
  Proof. left; reflexivity. Qed.
  Lemma cert_rel_refl b i : cert_rel ent b i i.
  Proof. left; reflexivity. Qed.

  Lemma child_rel_refl s x : child_rel inuse0 s x x.
  Proof. repeat split; auto. intros k. apply used_rel_refl. Qed.
  Lemma class_rel_refl x : class_rel ent inuse0 x x.
  Proof. repeat split; intros; [apply cert_rel_refl|left; reflexivity]. Qed.

  Lemma child_rel_nonstrict f x y :
    (forall z, ch_id (f z) = ch_id z /\ ch_ent (f z) = ch_ent z) ->
    child_rel inuse0 false x y -> child_rel inuse0 false x (f y).
  Proof.
    intros Hf (A & B & _). destruct (Hf y) as [C D]. repeat split; try congruence; discriminate.
  Qed.

  Lemma child_rel_revoke s k x y :
    inuse0 k = true -> child_rel inuse0 s x y -> child_rel inuse0 s x (revoke_if_issued k y).
  Proof.
    intros Hk (A & B & C). unfold revoke_if_issued. destruct (is_issued y k); [|exact (conj A (conj B C))].
    split; [exact A|]. split; [exact B|]. intros Hs. destruct (C Hs) as (C1 & C2 & C3).
    cbn [set_used ch_used ch_id ch_ent ch_susp ch_last]. split; [exact C1|]. split; [exact C2|].
    intros k'. rewrite aget_ainsert. destruct (k' =? k) eqn:E.
    - apply N.eqb_eq in E. subst k'. right; auto.
    - apply C3.
  Qed.

  Lemma class_rel_add k ic x y :
    subset (ic_res ic) ent = true -> class_rel ent inuse0 x y -> class_rel ent inuse0 x (rc_add k ic y).
  Proof.
    intros Hs (A & B & C). repeat split; cbn [rc_add rc_res rc_issued rc_susp]; auto.
    - intros k'. rewrite aget_ainsert. destruct (k' =? k); [right; left; eauto|apply B].
    - intros k'. rewrite aget_aremove. destruct (k' =? k); [right; reflexivity|apply C].
  Qed.

  Lemma class_rel_remove k x y :
    inuse0 k = true -> class_rel ent inuse0 x y -> class_rel ent inuse0 x (rc_remove k y).
  Proof.
    intros Hk (A & B & C). repeat split; cbn [rc_remove rc_res rc_issued rc_susp]; auto.
    - intros k'. rewrite aget_aremove. destruct (k' =? k) eqn:E; [|apply B].
      apply N.eqb_eq in E. subst k'. right; right; auto.
    - intros k'. rewrite aget_aremove. destruct (k' =? k); [right; reflexivity|apply C].
  Qed.

  Lemma confined_refl st : confined ent inuse0 c st st.
  Proof.
    repeat split; auto; intros; apply opt_rel_refl; intros;
      [apply child_rel_refl|apply class_rel_refl].
  Qed.

  (** Side conditions under which one event keeps the state confined; [sk]: issued keys must
      already have been in use by the sender (true for the events of an unsuspend). *)
  Definition ev_ok (sk : bool) (e : event) : Prop :=
    match e with
    | EvIssued c' _ k ic => c' = c /\ subset (ic_res ic) ent = true /\ (sk = true -> inuse0 k = true)
    | EvKeyRevoked c' _ k => c' = c /\ inuse0 k = true
    | EvRemoved _ k => inuse0 k = true
    | EvUnsuspended c' => c' = c
    end.

  Lemma ev_ok_weaken e : ev_ok true e -> ev_ok false e.
  Proof. destruct e; cbn; intuition discriminate. Qed.

  (** updating only the sender's own record *)
  Lemma children_upd_sender st0 l f :
    (forall z, ch_id (f z) = ch_id z /\ ch_ent (f z) = ch_ent z) ->
    (forall c', opt_rel (child_rel inuse0 (negb (c' =? c))) (aget c' (p_children st0)) (aget c' l)) ->
    forall c', opt_rel (child_rel inuse0 (negb (c' =? c))) (aget c' (p_children st0)) (aget c' (aupd c f l)).
  Proof.
    intros Hf H c'. rewrite aget_aupd. specialize (H c'). destruct (c' =? c) eqn:E; [|exact H].
    apply opt_rel_map; [exact H|].
    intros x y. cbn. apply child_rel_nonstrict. exact Hf.
  Qed.

  Lemma classes_upd st0 l rcn f :
    (forall x y, class_rel ent inuse0 x y -> class_rel ent inuse0 x (f y)) ->
    (forall r, opt_rel (class_rel ent inuse0) (aget r (p_classes st0)) (aget r l)) ->
    forall r, opt_rel (class_rel ent inuse0) (aget r (p_classes st0)) (aget r (aupd rcn f l)).
  Proof.
    intros Hf H r. rewrite aget_aupd. destruct (r =? rcn); [|apply H].
    apply opt_rel_map; [apply H|exact Hf].
  Qed.

  Lemma confined_event st0 st sk e st' :
    confined ent inuse0 c st0 st -> ev_ok sk e -> apply_event st e = Some st' ->
    confined ent inuse0 c st0 st'.
  Proof.
    intros (A & B & C & D) Hok Ha. destruct e as [c' rcn k ic|c' rcn k|rcn k|c']; cbn [apply_event] in Ha; cbn in Hok.
    - destruct Hok as (-> & Hs & _).
      destruct (aget c (p_children st)); [|discriminate]. destruct (aget rcn (p_classes st)); [|discriminate].
      inversion Ha; subst; clear Ha. repeat split; cbn; auto.
      + apply children_upd_sender; [intros z; split; reflexivity|exact C].
      + apply classes_upd; [intros x y; apply class_rel_add; exact Hs|exact D].
    - destruct Hok as (-> & Hk).
      destruct (aget c (p_children st)); [|discriminate]. destruct (aget rcn (p_classes st)); [|discriminate].
      inversion Ha; subst; clear Ha. repeat split; cbn; auto.
      + apply children_upd_sender; [intros z; split; reflexivity|exact C].
      + apply classes_upd; [intros x y; apply class_rel_remove; exact Hk|exact D].
    - destruct (aget rcn (p_classes st)); [|discriminate].
      inversion Ha; subst; clear Ha. repeat split; cbn; auto.
      + intros c'. rewrite aget_amap. apply opt_rel_map; [apply C|].
        intros x y. apply child_rel_revoke. exact Hok.
      + apply classes_upd; [intros x y; apply class_rel_remove; exact Hok|exact D].
    - subst c'. destruct (aget c (p_children st)); [|discriminate].
      inversion Ha; subst; clear Ha. repeat split; cbn; auto.
      apply children_upd_sender; [intros z; split; reflexivity|exact C].
  Qed.

  Lemma confined_events st0 sk evs : forall st st',
    confined ent inuse0 c st0 st -> Forall (ev_ok sk) evs -> apply_events st evs = Some st' ->
    confined ent inuse0 c st0 st'.
  Proof.
    induction evs as [|e evs IH]; intros st st' Hc Hf Ha; cbn [apply_events] in Ha.
    - inversion Ha; subst; exact Hc.
    - destruct (apply_event st e) as [s1|] eqn:E; [|discriminate].
      inversion Hf; subst. eapply IH; [|eassumption|exact Ha]. eapply confined_event; eauto.
  Qed.

  Lemma confined_bump st0 st : confined ent inuse0 c st0 st -> confined ent inuse0 c st0 (bump st).
  Proof. intros (A & B & C & D). repeat split; auto. Qed.

  Lemma confined_record st0 st ua ok :
    confined ent inuse0 c st0 st -> confined ent inuse0 c st0 (record_exchange c ua ok st).
  Proof.
    intros (A & B & C & D). repeat split; cbn; auto.
    apply children_upd_sender; [intros z; split; reflexivity|exact C].
  Qed.

  Lemma confined_run_cmd st0 st sk evs :
    confined ent inuse0 c st0 st -> (forall l, evs = Some l -> Forall (ev_ok sk) l) ->
    match run_cmd st evs with CmdOk s | CmdErr s => confined ent inuse0 c st0 s | CmdPanic => True end.
  Proof.
    intros Hc Hf. unfold run_cmd. destruct evs as [[|e l]|]; [exact Hc| |apply confined_bump; exact Hc].
    destruct (apply_events st (e :: l)) as [s|] eqn:Ea; [|exact I].
    apply confined_bump. eapply confined_events; [exact Hc|apply Hf; reflexivity|exact Ea].
  Qed.

  (** The keys the sender has in use never grow beyond [inuse0] while only [sk = true] events are applied. *)
  Definition sender_inuse_le (st : parent) : Prop :=
    forall ch, aget c (p_children st) = Some ch -> forall k, is_issued ch k = true -> inuse0 k = true.

  Lemma is_issued_set_used k u ch k' :
    is_issued (set_used k u ch) k' = if k' =? k then match u with InUse _ => true | Revoked => false end else is_issued ch k'.
  Proof. unfold is_issued. cbn [set_used ch_used]. rewrite aget_ainsert. destruct (k' =? k); [destruct u|]; reflexivity. Qed.

  Lemma is_issued_revoke_if k ch k' : is_issued (revoke_if_issued k ch) k' = true -> is_issued ch k' = true.
  Proof.
    unfold revoke_if_issued. destruct (is_issued ch k) eqn:E; [|auto].
    rewrite is_issued_set_used. destruct (k' =? k); [discriminate|auto].
  Qed.

  Lemma inuse_le_event st e st' :
    ev_ok true e -> apply_event st e = Some st' -> sender_inuse_le st -> sender_inuse_le st'.
  Proof.
    intros Hok Ha Hle ch' Hch' k' Hk'.
    destruct e as [c' rcn k ic|c' rcn k|rcn k|c']; cbn [apply_event] in Ha; cbn in Hok.
    - destruct Hok as (-> & _ & Hk). destruct (aget c (p_children st)) as [ch|] eqn:Ec; [|discriminate].
      destruct (aget rcn (p_classes st)); [|discriminate]. inversion Ha; subst; clear Ha.
      cbn in Hch'. rewrite aget_aupd, N.eqb_refl, Ec in Hch'. inversion Hch'; subst; clear Hch'.
      rewrite is_issued_set_used in Hk'. destruct (k' =? k) eqn:E.
      + apply N.eqb_eq in E. subst. auto.
      + eapply Hle; eauto.
    - destruct Hok as (-> & Hk). destruct (aget c (p_children st)) as [ch|] eqn:Ec; [|discriminate].
      destruct (aget rcn (p_classes st)); [|discriminate]. inversion Ha; subst; clear Ha.
      cbn in Hch'. rewrite aget_aupd, N.eqb_refl, Ec in Hch'. inversion Hch'; subst; clear Hch'.
      rewrite is_issued_set_used in Hk'. destruct (k' =? k); [discriminate|eapply Hle; eauto].
    - destruct (aget rcn (p_classes st)); [|discriminate]. inversion Ha; subst; clear Ha.
      cbn in Hch'. rewrite aget_amap in Hch'. destruct (aget c (p_children st)) as [ch|] eqn:Ec; [|discriminate].
      inversion Hch'; subst; clear Hch'. apply is_issued_revoke_if in Hk'. eapply Hle; eauto.
    - subst c'. destruct (aget c (p_children st)) as [ch|] eqn:Ec; [|discriminate].
      inversion Ha; subst; clear Ha.
      cbn in Hch'. rewrite aget_aupd, N.eqb_refl, Ec in Hch'. inversion Hch'; subst; clear Hch'.
      eapply Hle; eauto.
  Qed.

  Lemma inuse_le_events evs : forall st st',
    Forall (ev_ok true) evs -> apply_events st evs = Some st' -> sender_inuse_le st -> sender_inuse_le st'.
  Proof.
    induction evs as [|e evs IH]; intros st st' Hf Ha Hle; cbn [apply_events] in Ha.
    - inversion Ha; subst; exact Hle.
    - destruct (apply_event st e) as [s1|] eqn:E; [|discriminate].
      inversion Hf; subst. eapply IH; eauto. eapply inuse_le_event; eauto.
  Qed.

End Confined.

Lemma concat_opt_Forall {A} (P : A -> Prop) l : forall evs,
  concat_opt l = Some evs -> (forall ys, In (Some ys) l -> Forall P ys) -> Forall P evs.
Proof.
  induction l as [|[x|] l IH]; intros evs H Hin; cbn [concat_opt] in H.
  - inversion H; constructor.
  - destruct (concat_opt l) as [y|]; [|discriminate]. inversion H; subst.
    apply Forall_app. split; [apply Hin; left; reflexivity|apply IH; auto].
    intros ys Hys. apply Hin. right; exact Hys.
  - discriminate.
Qed.

Lemma keys_in_use_issued ch rcn k : In k (keys_in_use ch rcn) -> is_issued ch k = true.
Proof.
  unfold keys_in_use. rewrite filter_In. intros [_ H]. unfold is_issued.
  destruct (aget k (ch_used ch)) as [[r|]|]; auto; discriminate.
Qed.

Lemma certify_events_ok st c res rcn k limit evs ent inuse0 sk :
  certify_events st c res rcn k limit = Some evs -> subset res ent = true -> (sk = true -> inuse0 k = true) ->
  Forall (ev_ok ent inuse0 c sk) evs.
Proof.
  unfold certify_events. intros H Hs Hk.
  destruct (aget rcn (p_classes st)) as [rc|]; [|discriminate]. destruct (rc_res rc) as [pres|]; [|discriminate].
  destruct (issue_mask pres res limit) as [r|] eqn:Em; [|discriminate]. inversion H; subst.
  constructor; [|constructor]. cbn. repeat split; auto.
  eapply subset_trans; [eapply issue_mask_within; eauto|exact Hs].
Qed.

Lemma unsuspend_cmd_ok st c ch evs :
  aget c (p_children st) = Some ch -> unsuspend_cmd st c = Some evs ->
  Forall (ev_ok (ch_ent ch) (is_issued ch) c true) evs.
Proof.
  unfold unsuspend_cmd. intros Hc. rewrite Hc. destruct (negb (ch_susp ch)); [intros H; inversion H; constructor|].
  destruct (concat_opt _) as [evs0|] eqn:Eco; [|discriminate]. intros H; inversion H; subst; clear H.
  apply Forall_app. split; [|constructor; [reflexivity|constructor]].
  eapply concat_opt_Forall; [exact Eco|]. intros ys Hys.
  apply in_flat_map in Hys. destruct Hys as [[rcn rc] [_ Hys]]. apply in_map_iff in Hys.
  destruct Hys as [k [Hk Hin]]. apply keys_in_use_issued in Hin.
  unfold unsuspend_key_events in Hk. destruct (aget k (rc_susp rc)) as [s|].
  - destruct (subset (ic_res s) (ch_ent ch)) eqn:Es.
    + eapply certify_events_ok; eauto.
    + inversion Hk; subst. constructor; [exact Hin|constructor].
  - inversion Hk; constructor.
Qed.

(** The core: whatever [rfc6492_process_request] does for child [c] - on the remote path after
    validation, on the local path without - is confined to [c]. *)
Lemma process_confined st ua c r st' res ch0 :
  aget c (p_children st) = Some ch0 -> process st ua c r = (st', res) ->
  confined (ch_ent ch0) (is_issued ch0) c st st'.
Proof.
  intros Hc. unfold process. rewrite Hc.
  set (ent := ch_ent ch0). set (iu := is_issued ch0).
  (* phase 1: the implicit unsuspend *)
  assert (P1 : match (if ch_susp ch0 then run_cmd st (unsuspend_cmd st c) else CmdOk st) with
               | CmdOk s => confined ent iu c st s /\ sender_inuse_le iu c s
               | CmdErr s => confined ent iu c st s
               | CmdPanic => True end).
  { destruct (ch_susp ch0).
    - pose proof (confined_run_cmd ent iu c st st true (unsuspend_cmd st c) (confined_refl ent iu c st)) as R.
      assert (Hf : forall l, unsuspend_cmd st c = Some l -> Forall (ev_ok ent iu c true) l).
      { intros l Hl. eapply unsuspend_cmd_ok; eauto. }
      specialize (R Hf). unfold run_cmd in *. destruct (unsuspend_cmd st c) as [[|e l]|] eqn:Eu.
      + split; [exact R|]. intros ch Hch k Hk. rewrite Hc in Hch. inversion Hch; subst. exact Hk.
      + destruct (apply_events st (e :: l)) as [s|] eqn:Ea; [|exact I]. split; [exact R|].
        intros ch Hch. cbn in Hch. revert ch Hch. change (sender_inuse_le iu c s).
        eapply inuse_le_events; [apply Hf; reflexivity|exact Ea|].
        intros ch Hch k Hk. rewrite Hc in Hch. inversion Hch; subst. exact Hk.
      + exact R.
    - split; [apply confined_refl|]. intros ch Hch k Hk. rewrite Hc in Hch. inversion Hch; subst. exact Hk. }
  destruct (if ch_susp ch0 then run_cmd st (unsuspend_cmd st c) else CmdOk st) as [s1|s1|].
  2:{ intros H; inversion H; subst. exact P1. }
  2:{ intros H; inversion H; subst. apply confined_refl. }
  destruct P1 as [C1 L1].
  (* the sender's record in s1 *)
  assert (Hch1 : forall ch1, aget c (p_children s1) = Some ch1 -> ch_ent ch1 = ent).
  { intros ch1 H1. destruct C1 as (_ & _ & Cc & _). specialize (Cc c). rewrite Hc, H1 in Cc. cbn in Cc. apply Cc. }
  (* phase 2: the handler *)
  assert (P2 : match handle_req s1 c r with Some (s2, _) => confined ent iu c st s2 | None => True end).
  { destruct r as [|rcn k limit csr|rcn k|]; cbn [handle_req]; auto.
    - pose proof (confined_run_cmd ent iu c st s1 false (certify_cmd s1 c rcn k limit csr) C1) as R.
      assert (Hf : forall l, certify_cmd s1 c rcn k limit csr = Some l -> Forall (ev_ok ent iu c false) l).
      { unfold certify_cmd. intros l. destruct (aget c (p_children s1)) as [ch1|] eqn:E1; [|discriminate].
        destruct csr; [|discriminate]. intros Hl. eapply certify_events_ok; eauto.
        - rewrite (Hch1 _ eq_refl). unfold subset. rewrite N.land_diag. apply N.eqb_refl.
        - discriminate. }
      specialize (R Hf). destruct (run_cmd s1 (certify_cmd s1 c rcn k limit csr)); auto.
    - pose proof (confined_run_cmd ent iu c st s1 false (revoke_cmd s1 c rcn k) C1) as R.
      assert (Hf : forall l, revoke_cmd s1 c rcn k = Some l -> Forall (ev_ok ent iu c false) l).
      { unfold revoke_cmd. intros l. destruct (aget c (p_children s1)) as [ch1|] eqn:E1; [|discriminate].
        destruct (negb (amem rcn (p_classes s1))); [intros H; inversion H; constructor|].
        destruct (is_issued ch1 k) eqn:Ei; [|discriminate]. intros H; inversion H; subst.
        assert (iu k = true) by (eapply L1; eauto).
        constructor; [cbn; auto|constructor; [cbn; auto|constructor]]. }
      specialize (R Hf). destruct (run_cmd s1 (revoke_cmd s1 c rcn k)); auto. }
  destruct (handle_req s1 c r) as [[s2 [rep|]]|].
  - intros H; inversion H; subst. apply confined_record. exact P2.
  - intros H; inversion H; subst. apply confined_record. exact P2.
  - intros H; inversion H; subst. exact C1.
Qed.

(** *** effects_confined, RFC 6492 remote path (holds for any validator: confinement is by
    construction of the handlers, which only ever receive the validated sender handle). *)
Theorem effects_confined_6492 validate st ua m st' out :
  rfc6492 validate st ua m = (st', out) ->
  match aget (sender m) (p_children st) with
  | Some ch0 => confined (ch_ent ch0) (is_issued ch0) (sender m) st st'
  | None => st' = st
  end.
Proof.
  unfold rfc6492. destruct (aget (sender m) (p_children st)) as [ch|] eqn:Ec; [|congruence].
  destruct (validate (ch_id ch) m); [|intros H; inversion H; subst; apply confined_refl].
  destruct (process st ua (sender m) (payload m)) as [s1 res] eqn:Ep.
  pose proof (process_confined _ _ _ _ _ _ _ Ec Ep) as C.
  destruct res; intros H; inversion H; subst; exact C.
Qed.

(** Readable consequences of [confined]. *)
Lemma confined_new_cert ent iu c st st' rcn rc rc' k ic :
  confined ent iu c st st' -> aget rcn (p_classes st) = Some rc -> aget rcn (p_classes st') = Some rc' ->
  aget k (rc_issued rc') = Some ic -> aget k (rc_issued rc) <> Some ic -> subset (ic_res ic) ent = true.
Proof.
  intros (_ & _ & _ & D) H0 H1 Hk Hne. specialize (D rcn). rewrite H0, H1 in D. cbn in D.
  destruct D as (_ & D & _). specialize (D k). rewrite Hk in D.
  destruct D as [D|[[ic' [D1 D2]]|[D _]]]; [congruence| |discriminate]. inversion D1; subst. exact D2.
Qed.

Lemma confined_removed_cert ent iu c st st' rcn rc rc' k ic :
  confined ent iu c st st' -> aget rcn (p_classes st) = Some rc -> aget rcn (p_classes st') = Some rc' ->
  aget k (rc_issued rc) = Some ic -> aget k (rc_issued rc') = None -> iu k = true.
Proof.
  intros (_ & _ & _ & D) H0 H1 Hk Hn. specialize (D rcn). rewrite H0, H1 in D. cbn in D.
  destruct D as (_ & D & _). specialize (D k). rewrite Hk, Hn in D.
  destruct D as [D|[[ic' [D1 D2]]|[_ D]]]; [discriminate|discriminate|exact D].
Qed.

Lemma confined_other_child ent iu c st st' c' x :
  confined ent iu c st st' -> c' <> c -> aget c' (p_children st) = Some x ->
  exists y, aget c' (p_children st') = Some y /\ ch_id y = ch_id x /\ ch_ent y = ch_ent x /\
            ch_susp y = ch_susp x /\ ch_last y = ch_last x /\
            forall k, aget k (ch_used y) = aget k (ch_used x) \/ (aget k (ch_used y) = Some Revoked /\ iu k = true).
Proof.
  intros (_ & _ & C & _) Hne Hx. specialize (C c'). rewrite Hx in C.
  destruct (aget c' (p_children st')) as [y|]; [|destruct C]. cbn in C.
  assert (E : (c' =? c) = false) by (apply N.eqb_neq; exact Hne). rewrite E in C. cbn in C.
  destruct C as (A & B & C). destruct (C eq_refl) as (C1 & C2 & C3).
  exists y. repeat split; auto.
Qed.

(** Nobody appears or disappears. *)
Lemma confined_same_children ent iu c st st' c' :
  confined ent iu c st st' -> (aget c' (p_children st') = None <-> aget c' (p_children st) = None).
Proof.
  intros (_ & _ & C & _). specialize (C c').
  destruct (aget c' (p_children st)), (aget c' (p_children st')); cbn in C; try tauto; split; congruence.
Qed.

(** *** The certificate named in an issuance reply is within the sender's entitlement. *)
Lemma aget_certs k iss ks cr :
  aget k (flat_map (fun k' => match aget k' iss with Some ic => [(k', ic_res ic)] | None => [] end) ks) = Some cr ->
  exists ic : icert, aget k iss = Some ic /\ cr = ic_res ic.
Proof.
  induction ks as [|k' ks IH]; cbn [flat_map]; [discriminate|].
  destruct (aget k' iss) as [ic|] eqn:E; cbn [app aget]; [|exact IH].
  destruct (k' =? k) eqn:Ek; [|exact IH].
  apply N.eqb_eq in Ek. subst k'. intros H; inversion H; subst. eauto.
Qed.

Lemma handle_issue_reply s1 c rcn k limit csr s2 rep ch1 :
  handle_req s1 c (RIssue rcn k limit csr) = Some (s2, Some rep) -> aget c (p_children s1) = Some ch1 ->
  exists r, rep = RepIssue rcn k r /\ subset r (ch_ent ch1) = true.
Proof.
  cbn [handle_req]. intros H Hc. unfold run_cmd, certify_cmd in H. rewrite Hc in H.
  destruct csr; [|inversion H].
  unfold certify_events in H.
  destruct (aget rcn (p_classes s1)) as [rc|] eqn:Erc; [|inversion H].
  destruct (rc_res rc) as [pres|]; [|inversion H].
  destruct (issue_mask pres (ch_ent ch1) limit) as [r|] eqn:Em; [|inversion H].
  cbn [apply_events apply_event] in H. rewrite Hc, Erc in H. inversion H as [[Hs Hr]]; subst s2; clear H.
  unfold issue_response, ent_class in Hr. cbn [bump with_classes with_children p_classes p_children] in Hr.
  rewrite aget_aupd, N.eqb_refl, Erc in Hr. cbn [option_map rc_add rc_res rc_issued] in Hr.
  destruct (rc_res rc) as [pres'|]; [|discriminate].
  rewrite aget_aupd, N.eqb_refl, Hc in Hr. cbn [option_map] in Hr.
  destruct (N.land pres' (ch_ent (set_used k (InUse rcn) ch1)) =? 0); [discriminate|].
  match type of Hr with match aget k ?l with _ => _ end = _ => destruct (aget k l) as [cr|] eqn:Ecr end; [|discriminate].
  apply aget_certs in Ecr. destruct Ecr as [ic [Eic ->]]. rewrite aget_ainsert, N.eqb_refl in Eic.
  inversion Eic; subst ic. inversion Hr; subst. exists r. split; [reflexivity|].
  eapply issue_mask_within; eauto.
Qed.

Lemma process_issue_reply st ua c rcn k limit csr st' rep ch0 :
  aget c (p_children st) = Some ch0 ->
  process st ua c (RIssue rcn k limit csr) = (st', RsServed rep) ->
  exists r, rep = RepIssue rcn k r /\ subset r (ch_ent ch0) = true.
Proof.
  intros Hc Hp. pose proof Hp as Hp0. unfold process in Hp. rewrite Hc in Hp.
  destruct (if ch_susp ch0 then run_cmd st (unsuspend_cmd st c) else CmdOk st) as [s1|s1|] eqn:Eu; try (inversion Hp; fail).
  (* the sender's entitlement is the same in s1 *)
  assert (C1 : confined (ch_ent ch0) (is_issued ch0) c st s1).
  { destruct (ch_susp ch0); [|inversion Eu; subst; apply confined_refl].
    pose proof (confined_run_cmd (ch_ent ch0) (is_issued ch0) c st st true (unsuspend_cmd st c)
                  (confined_refl _ _ _ st)) as R.
    rewrite Eu in R. apply R. intros l Hl. eapply unsuspend_cmd_ok; eauto. }
  destruct (aget c (p_children s1)) as [ch1|] eqn:E1.
  2:{ apply (confined_same_children _ _ _ _ _ c C1) in E1. congruence. }
  assert (He : ch_ent ch1 = ch_ent ch0).
  { destruct C1 as (_ & _ & Cc & _). specialize (Cc c). rewrite Hc, E1 in Cc. apply Cc. }
  destruct (handle_req s1 c (RIssue rcn k limit csr)) as [[s2 [rp|]]|] eqn:Eh; inversion Hp; subst.
  destruct (handle_issue_reply _ _ _ _ _ _ _ _ _ Eh E1) as [r [-> Hr]]. exists r. split; [reflexivity|congruence].
Qed.

Theorem issue_within_entitlement validate st ua m st' c r rcn k limit csr :
  rfc6492 validate st ua m = (st', Served c r) -> payload m = RIssue rcn k limit csr ->
  exists ch0 res, aget (sender m) (p_children st) = Some ch0 /\ payload r = RepIssue rcn k res /\
                  subset res (ch_ent ch0) = true.
Proof.
  unfold rfc6492. intros H Hp. destruct (aget (sender m) (p_children st)) as [ch|] eqn:Ec; [|congruence].
  destruct (validate (ch_id ch) m); [|congruence].
  destruct (process st ua (sender m) (payload m)) as [s1 [| |rep|]] eqn:Ep; try congruence.
  inversion H; subst; clear H. rewrite Hp in Ep.
  destruct (process_issue_reply _ _ _ _ _ _ _ _ _ _ Ec Ep) as [res [-> Hs]].
  exists ch, res. auto.
Qed.

(** *** No panic: every event a command computes can be applied ([CertAuth::apply]'s unwraps). *)
Definition ev_wf (st : parent) (e : event) : Prop :=
  match e with
  | EvIssued c rcn _ _ | EvKeyRevoked c rcn _ => aget c (p_children st) <> None /\ aget rcn (p_classes st) <> None
  | EvRemoved rcn _ => aget rcn (p_classes st) <> None
  | EvUnsuspended c => aget c (p_children st) <> None
  end.

Lemma apply_event_wf st e : ev_wf st e -> exists st', apply_event st e = Some st'.
Proof.
  destruct e; cbn; intros H.
  - destruct H as [A B]. destruct (aget c (p_children st)); [|congruence]. destruct (aget rcn (p_classes st)); [eauto|congruence].
  - destruct H as [A B]. destruct (aget c (p_children st)); [|congruence]. destruct (aget rcn (p_classes st)); [eauto|congruence].
  - destruct (aget rcn (p_classes st)); [eauto|congruence].
  - destruct (aget c (p_children st)); [eauto|congruence].
Qed.

Lemma apply_event_keys st e st' :
  apply_event st e = Some st' ->
  (forall c, aget c (p_children st') = None <-> aget c (p_children st) = None) /\
  (forall r, aget r (p_classes st') = None <-> aget r (p_classes st) = None).
Proof.
  assert (U : forall V k (f : V -> V) l k', aget k' (aupd k f l) = None <-> aget k' l = None).
  { intros. rewrite aget_aupd. destruct (k' =? k); [|tauto]. destruct (aget k' l); cbn; split; congruence. }
  assert (M : forall V (f : V -> V) l k', aget k' (amap f l) = None <-> aget k' l = None).
  { intros. rewrite aget_amap. destruct (aget k' l); cbn; split; congruence. }
  destruct e; cbn [apply_event]; repeat (destr_match; try discriminate); intros H; inversion H; subst; cbn;
    split; intros; try apply U; try apply M; tauto.
Qed.

Lemma apply_events_wf evs : forall st, Forall (ev_wf st) evs -> exists st', apply_events st evs = Some st'.
Proof.
  induction evs as [|e evs IH]; intros st Hf; cbn [apply_events]; [eauto|].
  inversion Hf as [|? ? He Hr]; subst. destruct (apply_event_wf _ _ He) as [s1 E]. rewrite E.
  apply IH. destruct (apply_event_keys _ _ _ E) as [K1 K2].
  eapply Forall_impl; [|exact Hr]. intros e'. destruct e'; cbn; rewrite ?K1, ?K2; tauto.
Qed.

Lemma certify_events_wf st c res rcn k limit evs :
  aget c (p_children st) <> None -> certify_events st c res rcn k limit = Some evs -> Forall (ev_wf st) evs.
Proof.
  unfold certify_events. intros Hc. destruct (aget rcn (p_classes st)) as [rc|] eqn:E; [|discriminate].
  destruct (rc_res rc); [|discriminate]. destruct (issue_mask _ _ _); [|discriminate].
  intros H; inversion H; subst. constructor; [|constructor]. cbn. split; congruence.
Qed.

Lemma run_cmd_no_panic st evs :
  (forall l, evs = Some l -> Forall (ev_wf st) l) -> run_cmd st evs <> CmdPanic.
Proof.
  intros H. unfold run_cmd. destruct evs as [[|e l]|]; try discriminate.
  destruct (apply_events_wf (e :: l) st (H _ eq_refl)) as [s E]. rewrite E. discriminate.
Qed.

Theorem process_never_panics st ua c r : snd (process st ua c r) <> RsPanicked.
Proof.
  unfold process. destruct (aget c (p_children st)) as [ch0|] eqn:Ec; [|cbn; discriminate].
  assert (U : run_cmd st (unsuspend_cmd st c) <> CmdPanic).
  { apply run_cmd_no_panic. unfold unsuspend_cmd. rewrite Ec. intros l.
    destruct (negb (ch_susp ch0)); [intros H; inversion H; constructor|].
    destruct (concat_opt _) as [evs0|] eqn:Eco; [|discriminate]. intros H; inversion H; subst; clear H.
    apply Forall_app. split; [|constructor; [cbn; congruence|constructor]].
    eapply concat_opt_Forall; [exact Eco|]. intros ys Hys.
    apply in_flat_map in Hys. destruct Hys as [[rcn rc] [Hin Hys]]. apply in_map_iff in Hys.
    destruct Hys as [k [Hk _]]. unfold unsuspend_key_events in Hk.
    destruct (aget k (rc_susp rc)) as [s|]; [|inversion Hk; constructor].
    destruct (subset (ic_res s) (ch_ent ch0)).
    - eapply certify_events_wf; eauto. congruence.
    - inversion Hk; subst. constructor; [|constructor]. cbn.
      destruct (aget_In _ _ _ Hin) as [v Hv]. congruence. }
  destruct (if ch_susp ch0 then run_cmd st (unsuspend_cmd st c) else CmdOk st) as [s1|s1|] eqn:Eu;
    [|cbn; discriminate|destruct (ch_susp ch0); congruence].
  assert (H : handle_req s1 c r <> None).
  { destruct r as [|rcn k limit csr|rcn k|]; cbn [handle_req]; try discriminate.
    - assert (P : run_cmd s1 (certify_cmd s1 c rcn k limit csr) <> CmdPanic).
      { apply run_cmd_no_panic. unfold certify_cmd. intros l.
        destruct (aget c (p_children s1)) eqn:E1; [|discriminate]. destruct csr; [|discriminate].
        apply certify_events_wf. congruence. }
      destruct (run_cmd s1 (certify_cmd s1 c rcn k limit csr)); congruence.
    - assert (P : run_cmd s1 (revoke_cmd s1 c rcn k) <> CmdPanic).
      { apply run_cmd_no_panic. unfold revoke_cmd, amem. intros l.
        destruct (aget c (p_children s1)) eqn:E1; [|discriminate].
        destruct (aget rcn (p_classes s1)) eqn:Er; cbn [negb]; [|intros H; inversion H; constructor].
        destruct (is_issued _ _); [|discriminate].
        intros H; inversion H; subst. constructor; [cbn; split; congruence|constructor; [cbn; congruence|constructor]]. }
      destruct (run_cmd s1 (revoke_cmd s1 c rcn k)); congruence. }
  destruct (handle_req s1 c r) as [[s2 [rep|]]|]; cbn; congruence.
Qed.

Theorem rfc6492_never_panics validate st ua m : snd (rfc6492 validate st ua m) <> Panicked.
Proof.
  unfold rfc6492. destruct (aget (sender m) (p_children st)) as [ch|]; [|cbn; discriminate].
  destruct (validate (ch_id ch) m); [|cbn; discriminate].
  pose proof (process_never_panics st ua (sender m) (payload m)) as P.
  destruct (process st ua (sender m) (payload m)) as [s1 [| |rep|]]; cbn in *; congruence.
Qed.

(** * Publication: effects confined to the sender's jail *)
Lemma uri_eqb_eq a : forall b, uri_eqb a b = true <-> a = b.
Proof.
  induction a as [|x a IH]; intros [|y b]; cbn; try (split; congruence).
  rewrite andb_true_iff, N.eqb_eq, IH. split; [intros [-> ->]; reflexivity|intros H; inversion H; auto].
Qed.
Lemma uri_eqb_refl a : uri_eqb a a = true.
Proof. apply uri_eqb_eq. reflexivity. Qed.

Lemma uget_udel u u' l : uget u' (udel u l) = if uri_eqb u u' then None else uget u' l.
Proof.
  induction l as [|[a o] l IH]; cbn [udel uget].
  - destruct (uri_eqb u u'); reflexivity.
  - destruct (uri_eqb a u) eqn:Eau.
    + rewrite IH. apply uri_eqb_eq in Eau. subst a. destruct (uri_eqb u u'); reflexivity.
    + cbn [uget]. destruct (uri_eqb a u') eqn:Eau'; [|exact IH].
      apply uri_eqb_eq in Eau'. subst a.
      destruct (uri_eqb u u') eqn:E; [|reflexivity].
      apply uri_eqb_eq in E. subst u. rewrite uri_eqb_refl in Eau. discriminate.
Qed.
Lemma uget_uput u o u' l : uget u' (uput u o l) = if uri_eqb u u' then Some o else uget u' l.
Proof.
  unfold uput. cbn [uget]. destruct (uri_eqb u u') eqn:E; [reflexivity|]. rewrite uget_udel, E. reflexivity.
Qed.

Lemma fold_apply_untouched (f : list (uri * N) -> elem -> list (uri * N)) u d :
  (forall objs e, uri_eqb (elem_uri e) u = false -> uget u (f objs e) = uget u objs) ->
  (forall e, In e d -> uri_eqb (elem_uri e) u = false) ->
  forall objs, uget u (fold_left f d objs) = uget u objs.
Proof.
  intros Hf. induction d as [|e d IH]; intros Hd objs; cbn [fold_left]; [reflexivity|].
  rewrite IH; [|intros; apply Hd; right; assumption]. apply Hf. apply Hd. left; reflexivity.
Qed.

Lemma apply_delta_untouched u d objs :
  (forall e, In e d -> uri_eqb (elem_uri e) u = false) -> uget u (apply_delta objs d) = uget u objs.
Proof.
  intros Hd. unfold apply_delta.
  rewrite (fold_apply_untouched apply_wdr);
    [|intros o e He; destruct e; cbn [apply_wdr elem_uri] in *; rewrite ?uget_udel, ?He; reflexivity|exact Hd].
  rewrite (fold_apply_untouched apply_upd);
    [|intros o e He; destruct e; cbn [apply_upd elem_uri] in *; rewrite ?uget_uput, ?He; reflexivity|exact Hd].
  rewrite (fold_apply_untouched apply_pub);
    [|intros o e He; destruct e; cbn [apply_pub elem_uri] in *; rewrite ?uget_uput, ?He; reflexivity|exact Hd].
  reflexivity.
Qed.

Lemma serve8181_confined rp h q rp' res :
  serve8181 rp h q = Some (rp', res) -> confined8181 h rp rp'.
Proof.
  unfold serve8181. destruct (aget h (r_pubs rp)) as [pb|] eqn:Epb; [|discriminate].
  assert (R : confined8181 h rp rp).
  { repeat split; auto. rewrite Epb. cbn. repeat split; auto. }
  destruct q as [|d|]; try (intros H; inversion H; subst; exact R).
  destruct d as [|e d]; [intros H; inversion H; subst; exact R|].
  destruct (delta_ok (pb_jail pb) (pb_objs pb) (e :: d)) eqn:Eok; [|intros H; inversion H; subst; exact R].
  intros H; inversion H; subst; clear H. split; [reflexivity|]. split; cbn [r_pubs].
  - intros h' Hne. rewrite aget_aupd. destruct (h' =? h) eqn:E; [apply N.eqb_eq in E; congruence|reflexivity].
  - rewrite aget_aupd, N.eqb_refl, Epb. cbn [option_map opt_rel]. unfold pub_rel.
    cbn [set_objs pb_id pb_jail pb_objs]. split; [reflexivity|]. split; [reflexivity|].
    intros u. destruct (existsb (fun x => uri_eqb (elem_uri x) u) (e :: d)) eqn:Ex.
    + right. apply existsb_exists in Ex. destruct Ex as [x [Hin Hx]]. apply uri_eqb_eq in Hx. subst u.
      unfold delta_ok in Eok. rewrite forallb_forall in Eok. specialize (Eok _ Hin).
      unfold elem_ok in Eok. apply andb_true_iff in Eok. apply Eok.
    + left. apply apply_delta_untouched. intros x Hin.
      rewrite existsb_false in Ex. apply Ex. exact Hin.
Qed.

Theorem effects_confined_8181 validate rp m rp' out :
  rfc8181 validate rp m = (rp', out) -> confined8181 (sender m) rp rp' \/ rp' = rp.
Proof.
  unfold rfc8181. destruct (aget (sender m) (r_pubs rp)) as [pb|]; [|intros H; inversion H; auto].
  destruct (validate (pb_id pb) m); [|intros H; inversion H; auto].
  destruct (serve8181 rp (sender m) (payload m)) as [[rp1 res]|] eqn:Es; [|intros H; inversion H; auto].
  apply serve8181_confined in Es. destruct res; intros H; inversion H; subst; auto.
Qed.

(** A successful publish only named URIs under the sender's jail. *)
Theorem publish_within_jail validate rp m rp' h r d pb :
  rfc8181 validate rp m = (rp', Served h r) -> payload m = QDelta d -> payload r = PSuccess ->
  aget (sender m) (r_pubs rp) = Some pb ->
  forall e, In e d -> prefix_b (pb_jail pb) (elem_uri e) = true.
Proof.
  unfold rfc8181. intros H Hq Hr Hpb. rewrite Hpb in H. destruct (validate (pb_id pb) m); [|congruence].
  unfold serve8181 in H. rewrite Hpb, Hq in H.
  destruct d as [|e0 d]; [intros e []|].
  destruct (delta_ok (pb_jail pb) (pb_objs pb) (e0 :: d)) eqn:Eok.
  - intros e Hin. unfold delta_ok in Eok. rewrite forallb_forall in Eok. specialize (Eok _ Hin).
    unfold elem_ok in Eok. apply andb_true_iff in Eok. apply Eok.
  - inversion H; subst. cbn in Hr. discriminate.
Qed.

(** * Identity updates on either side *)
Section IdentityUpdates.
  Variable validate6 : validator req.
  Hypothesis sound6 : cms_sound validate6.
  Variable validate8 : validator query.
  Hypothesis sound8 : cms_sound validate8.

  (** After the parent replaced its identity ([ca_update_id]) replies carry the new key. *)
  Theorem reply_after_parent_id_update st k ua m st' c r :
    rfc6492 validate6 (set_parent_id k st) ua m = (st', Served c r) -> signed_by r = k.
  Proof. intros H. apply (reply_signed_6492 validate6) in H. destruct H as [H _]. exact H. Qed.

  (** After a child's identity was replaced at the parent, the replaced key is refused ... *)
  Theorem replaced_child_key_refused st c ch knew ua m :
    aget c (p_children st) = Some ch -> knew <> ch_id ch ->
    sender m = c -> signed_by m = ch_id ch ->
    rfc6492 validate6 (set_child_id c knew st) ua m = (set_child_id c knew st, Refused).
  Proof.
    intros Hc Hne Hs Hk. apply (wrong_key_or_content_refused_6492 _ sound6).
    intros ch'. rewrite Hs. unfold set_child_id. rewrite Hc.
    destruct (ch_id ch =? knew) eqn:E; [apply N.eqb_eq in E; congruence|].
    cbn. rewrite aget_aupd, N.eqb_refl, Hc. cbn. intros H; inversion H; subst. cbn. left. congruence.
  Qed.

  (** ... and the new key is the one that validates. *)
  Theorem new_child_key_validated st c ch knew ua m :
    aget c (p_children st) = Some ch -> sender m = c -> signed_by m = knew -> intact m = true ->
    fst (rfc6492 validate6 (set_child_id c knew st) ua m) = fst (process (set_child_id c knew st) ua c (payload m)) /\
    snd (rfc6492 validate6 (set_child_id c knew st) ua m) <> Refused.
  Proof.
    intros Hc Hs Hk Hi. unfold rfc6492. rewrite Hs.
    assert (E : exists ch', aget c (p_children (set_child_id c knew st)) = Some ch' /\ ch_id ch' = knew).
    { unfold set_child_id. rewrite Hc. destruct (ch_id ch =? knew) eqn:E.
      - apply N.eqb_eq in E. eauto.
      - cbn. rewrite aget_aupd, N.eqb_refl, Hc. cbn. eauto. }
    destruct E as [ch' [E1 E2]]. rewrite E1.
    assert (V : validate6 (ch_id ch') m = true) by (apply sound6; split; congruence). rewrite V.
    destruct (process (set_child_id c knew st) ua c (payload m)) as [s1 [| |rep|]]; cbn; split; congruence.
  Qed.

  (** Publisher identities change by remove + add; the replaced key is refused afterwards. *)
  Theorem replaced_publisher_key_refused rp h pb knew jail m :
    aget h (r_pubs rp) = Some pb -> knew <> pb_id pb -> sender m = h -> signed_by m = pb_id pb ->
    let rp1 := add_publisher h knew jail (remove_publisher h rp) in
    rfc8181 validate8 rp1 m = (rp1, Refused).
  Proof.
    intros Hpb Hne Hs Hk rp1. apply (wrong_key_or_content_refused_8181 _ sound8).
    intros pb'. rewrite Hs. subst rp1. unfold add_publisher, remove_publisher, amem. cbn [r_pubs r_id r_ver].
    rewrite aget_aremove, N.eqb_refl. cbn [r_pubs]. rewrite aget_ainsert, N.eqb_refl.
    intros H; inversion H; subst. cbn [pb_id]. left. congruence.
  Qed.

  (** Along every history of messages and identity updates: whatever is acted upon was signed with
      the key registered for its sender AT THAT MOMENT, and every reply carries the parent's key
      of that moment. *)
  Theorem acts_only_along_history ins : forall st pre i o,
    In (pre, i, o) (run validate6 st ins) ->
    match i, o with
    | InMsg ua m, Some out =>
        (out <> Refused ->
           exists ch, aget (sender m) (p_children pre) = Some ch /\ signed_by m = ch_id ch /\ intact m = true) /\
        (forall c r, out = Served c r -> signed_by r = p_id pre /\ c = sender m)
    | _, _ => True
    end.
  Proof.
    induction ins as [|x ins IH]; intros st pre i o Hin; cbn [run] in Hin; [destruct Hin|].
    destruct (step validate6 st x) as [st1 o1] eqn:Es. destruct Hin as [Hin|Hin]; [|eapply IH; eauto].
    inversion Hin; subst; clear Hin. destruct i as [ua m| | |]; cbn [step] in Es; [|inversion Es; exact I..].
    destruct (rfc6492 validate6 pre ua m) as [s2 out] eqn:Er. inversion Es; subst.
    split.
    - intros Hne. destruct (acts_only_6492 _ sound6 _ _ _ _ _ Er Hne) as [ch (A & B & C & _)]. eauto.
    - intros c r ->. apply (reply_signed_6492 validate6) in Er. intuition.
  Qed.
End IdentityUpdates.

(** * The local shortcut *)

(** The statement for a local path [lp]: it acts only for a child whose registered ID key is the caller's. *)
Definition local_acts_only_for_registered_key_on (lp : parent -> caller -> req -> parent * outcome reply) : Prop :=
  forall st cl r st' out c,
    lp st cl r = (st', out) -> acted_for out = Some c ->
    exists ch, aget c (p_children st) = Some ch /\ ch_id ch = cl_id cl.

(** *** The repaired tree: the property holds on the local path. *)
Theorem local_acts_only_for_registered_key : local_acts_only_for_registered_key_on local6492.
Proof.
  intros st cl r st' out c. unfold local6492.
  destruct (aget (cl_contact_child cl) (p_children st)) as [ch|] eqn:Ec;
    [|intros H; inversion H; subst; discriminate].
  destruct (ch_id ch =? cl_id cl) eqn:E; [|intros H; inversion H; subst; discriminate].
  apply N.eqb_eq in E. unfold local6492_pinned.
  destruct (process st local_ua (cl_contact_child cl) r) as [s1 res].
  intros H Ha. assert (c = cl_contact_child cl) by (destruct res; inversion H; subst; cbn in Ha; congruence).
  subst c. eauto.
Qed.

(** A caller whose ID key is not the one registered for the child named in its contact (or whose
    contact names nobody) is refused, and a refusal changes nothing. *)
Theorem local_wrong_key_refused st cl r :
  (forall ch, aget (cl_contact_child cl) (p_children st) = Some ch -> ch_id ch <> cl_id cl) ->
  local6492 st cl r = (st, Refused).
Proof.
  intros H. unfold local6492. destruct (aget (cl_contact_child cl) (p_children st)) as [ch|]; [|reflexivity].
  destruct (ch_id ch =? cl_id cl) eqn:E; [|reflexivity]. apply N.eqb_eq in E. destruct (H ch eq_refl E).
Qed.

Theorem local_refused_no_change st cl r st' : local6492 st cl r = (st', Refused) -> st' = st.
Proof.
  unfold local6492. destruct (aget (cl_contact_child cl) (p_children st)) as [ch|]; [|congruence].
  destruct (ch_id ch =? cl_id cl); [|congruence]. unfold local6492_pinned.
  destruct (process st local_ua (cl_contact_child cl) r) as [s1 [| |rep|]]; congruence.
Qed.

(** The shortcut is exactly the remote path fed with the message the caller would have signed with
    its own ID key - served, failed and refused alike: it is only an optimisation. *)
Theorem local_equals_remote validate st cl r :
  cms_sound validate ->
  let m := mkMsg (cl_contact_child cl) (p_handle st) r (cl_id cl) true in
  fst (local6492 st cl r) = fst (rfc6492 validate st local_ua m) /\
  match snd (local6492 st cl r), snd (rfc6492 validate st local_ua m) with
  | Served c1 r1, Served c2 r2 => c1 = c2 /\ payload r1 = payload r2
  | Errored c1, Errored c2 | Failed c1, Failed c2 => c1 = c2
  | Panicked, Panicked | Refused, Refused => True
  | _, _ => False
  end.
Proof.
  intros Hs m. unfold local6492, local6492_pinned, rfc6492. cbn [sender payload m].
  destruct (aget (cl_contact_child cl) (p_children st)) as [ch|]; [|cbn; auto].
  destruct (ch_id ch =? cl_id cl) eqn:E.
  - apply N.eqb_eq in E.
    assert (V : validate (ch_id ch) m = true) by (apply Hs; split; [cbn; congruence|reflexivity]).
    rewrite V. destruct (process st local_ua (cl_contact_child cl) r) as [s1 [| |rep|]]; cbn; auto.
  - apply N.eqb_neq in E.
    destruct (validate (ch_id ch) m) eqn:V; [|cbn; auto].
    apply Hs in V. destruct V as [V _]. cbn in V. congruence.
Qed.

(** Whoever is served on the local path, the effects are confined to the child named in the contact. *)
Lemma local_pinned_effects_confined st cl r st' out ch0 :
  aget (cl_contact_child cl) (p_children st) = Some ch0 -> local6492_pinned st cl r = (st', out) ->
  confined (ch_ent ch0) (is_issued ch0) (cl_contact_child cl) st st'.
Proof.
  intros Hc. unfold local6492_pinned. destruct (process st local_ua (cl_contact_child cl) r) as [s1 res] eqn:Ep.
  pose proof (process_confined _ _ _ _ _ _ _ Hc Ep) as C. destruct res; intros H; inversion H; subst; exact C.
Qed.

Theorem local_effects_confined st cl r st' out :
  local6492 st cl r = (st', out) ->
  match aget (cl_contact_child cl) (p_children st) with
  | Some ch0 => confined (ch_ent ch0) (is_issued ch0) (cl_contact_child cl) st st'
  | None => st' = st
  end.
Proof.
  unfold local6492. destruct (aget (cl_contact_child cl) (p_children st)) as [ch|] eqn:Ec; [|congruence].
  destruct (ch_id ch =? cl_id cl).
  - apply local_pinned_effects_confined. exact Ec.
  - intros H; inversion H; subst. apply confined_refl.
Qed.

(** *** Regression witness: the originally pinned shortcut (finding F12a, fixed by 1a6ebc01).
    Parent 1 (ID key 10) has the child 2 (ID key 20, entitled to atoms 0-1, no certificate yet).
    The CA "mallory" (handle 3, ID key 99) is no child of the parent but stores a parent contact
    naming child handle 2. On the pinned path her issuance request was served: a certificate for
    her key 7 with the victim's resources. The repaired path refuses it. *)
Definition f12a_parent : parent :=
  mkParent 1 10 [(0, mkRC (Some 15) [] [])] [(2, mkChild 20 3 [] false None)] 5.
Definition f12a_mallory : caller := mkCaller 3 99 2.

Theorem local_pinned_refuted : ~ local_acts_only_for_registered_key_on local6492_pinned.
Proof.
  intros H.
  destruct (H f12a_parent f12a_mallory (RIssue 0 7 None true) _ _ 2 eq_refl eq_refl) as [ch [A B]].
  cbn in A. inversion A; subst. cbn in B. discriminate.
Qed.

Example f12a_pinned_outcome :
  local6492_pinned f12a_parent f12a_mallory (RIssue 0 7 None true) =
  (mkParent 1 10 [(0, mkRC (Some 15) [(7, mkIC 3 None)] [])]
            [(2, mkChild 20 3 [(7, InUse 0)] false (Some (0, true)))] 6,
   Served 2 (mkMsg 1 2 (RepIssue 0 7 3) 0 true)).
Proof. vm_compute. reflexivity. Qed.

Example f12a_repaired_outcome :
  local6492 f12a_parent f12a_mallory (RIssue 0 7 None true) = (f12a_parent, Refused).
Proof. vm_compute. reflexivity. Qed.

(** What was true of the pinned shortcut: it was right exactly for honest contacts. *)
Theorem local_pinned_acts_only_when_contact_matches st cl r st' out c :
  contact_handle_matches_registration st cl ->
  local6492_pinned st cl r = (st', out) -> acted_for out = Some c -> out <> Errored c ->
  exists ch, aget c (p_children st) = Some ch /\ ch_id ch = cl_id cl.
Proof.
  intros Hm Hl Ha Hne. unfold local6492_pinned in Hl.
  destruct (process st local_ua (cl_contact_child cl) r) as [s1 res] eqn:Ep.
  assert (Hc : c = cl_contact_child cl) by (destruct res; inversion Hl; subst; cbn in Ha; congruence).
  subst c. unfold process in Ep.
  destruct (aget (cl_contact_child cl) (p_children st)) as [ch|] eqn:Ec.
  - exists ch. split; [reflexivity|apply Hm; exact Ec].
  - inversion Ep; subst. inversion Hl; subst. congruence.
Qed.

(** * Non-vacuity: concrete states meeting the hypotheses of the implication theorems *)
Definition ex_parent : parent :=
  mkParent 1 10 [(0, mkRC (Some 255) [(5, mkIC 3 None)] [])]
           [(2, mkChild 20 3 [(5, InUse 0)] false None); (3, mkChild 30 12 [] false None);
            (4, mkChild 40 48 [] false None)] 7.
Definition ex_repo : repo :=
  mkRepo 50 [(2, mkPub 20 [2] [([2; 100], 1)]); (3, mkPub 30 [3] []); (4, mkPub 40 [4] [])] 0.

Example acts_only_nonvacuous :
  exists st' out, rfc6492 ideal_validate ex_parent 1 (mkMsg 3 1 (RIssue 0 6 None true) 30 true) = (st', out)
                  /\ out <> Refused
  /\ exists rp' out', rfc8181 ideal_validate ex_repo (mkMsg 3 0 (QDelta [EPub [3; 7] 9]) 30 true) = (rp', out')
                  /\ out' <> Refused.
Proof. eexists; eexists; split; [vm_compute; reflexivity|]. split; [discriminate|].
       eexists; eexists; split; [vm_compute; reflexivity|discriminate]. Qed.

Example refused_nonvacuous :
  (* child 3's request signed with child 2's key; child 2's request with flipped content;
     publisher 3's delta signed with publisher 4's key *)
  rfc6492 ideal_validate ex_parent 1 (mkMsg 3 1 (RIssue 0 6 None true) 20 true) = (ex_parent, Refused) /\
  rfc6492 ideal_validate ex_parent 1 (corrupted (mkMsg 2 1 (RRevoke 0 5) 20 true)) = (ex_parent, Refused) /\
  rfc8181 ideal_validate ex_repo (mkMsg 3 0 (QDelta [EPub [3; 7] 9]) 40 true) = (ex_repo, Refused).
Proof. repeat split; vm_compute; reflexivity. Qed.

Example effects_confined_nonvacuous :
  (* an issuance and a revocation that really change the state *)
  fst (rfc6492 ideal_validate ex_parent 1 (mkMsg 3 1 (RIssue 0 6 (Some 4) true) 30 true)) <> ex_parent /\
  fst (rfc6492 ideal_validate ex_parent 1 (mkMsg 2 1 (RRevoke 0 5) 20 true)) <> ex_parent /\
  fst (rfc8181 ideal_validate ex_repo (mkMsg 2 0 (QDelta [EUpd [2; 100] 1 2; EPub [2; 101] 3]) 20 true)) <> ex_repo.
Proof. repeat split; vm_compute; discriminate. Qed.

Example issue_within_entitlement_nonvacuous :
  snd (rfc6492 ideal_validate ex_parent 1 (mkMsg 3 1 (RIssue 0 6 (Some 4) true) 30 true))
  = Served 3 (mkMsg 1 3 (RepIssue 0 6 4) 10 true).
Proof. vm_compute. reflexivity. Qed.

Example publish_within_jail_nonvacuous :
  snd (rfc8181 ideal_validate ex_repo (mkMsg 2 0 (QDelta [EPub [2; 101] 3]) 20 true)) = Served 2 (mkMsg 0 0 PSuccess 50 true) /\
  (* ... and a URI in another publisher's jail is answered with an error reply, nothing changes *)
  rfc8181 ideal_validate ex_repo (mkMsg 2 0 (QDelta [EPub [3; 101] 3]) 20 true) = (ex_repo, Served 2 (mkMsg 0 0 PError 50 true)).
Proof. split; vm_compute; reflexivity. Qed.

Example reply_signed_nonvacuous :
  snd (rfc6492 ideal_validate (set_parent_id 11 ex_parent) 1 (mkMsg 2 1 RList 20 true))
  = Served 2 (mkMsg 1 2 (RepList [(0, 3, [(5, 3)])]) 11 true).
Proof. vm_compute. reflexivity. Qed.

Example replaced_child_key_nonvacuous :
  rfc6492 ideal_validate (set_child_id 2 21 ex_parent) 1 (mkMsg 2 1 RList 20 true) = (set_child_id 2 21 ex_parent, Refused) /\
  snd (rfc6492 ideal_validate (set_child_id 2 21 ex_parent) 1 (mkMsg 2 1 RList 21 true)) <> Refused.
Proof. split; vm_compute; [reflexivity|discriminate]. Qed.

Example local_nonvacuous :
  (* an honest local child (contact names handle 2, ID key 20) is served; the same child is refused while
     the parent still has its previous ID key registered, and served again once the parent is told *)
  snd (local6492 ex_parent (mkCaller 2 20 2) RList) = Served 2 (mkMsg 1 2 (RepList [(0, 3, [(5, 3)])]) 0 true) /\
  local6492 ex_parent (mkCaller 2 21 2) RList = (ex_parent, Refused) /\
  snd (local6492 (set_child_id 2 21 ex_parent) (mkCaller 2 21 2) RList) <> Refused.
Proof. split; [vm_compute; reflexivity|]. split; [vm_compute; reflexivity|vm_compute; discriminate]. Qed.

Example history_nonvacuous :
  (* the same child-2 message is served, then refused after the child's identity was replaced,
     and the reply after the parent's update carries the parent's new key *)
  map (fun x => snd x) (run ideal_validate ex_parent
       [InMsg 1 (mkMsg 2 1 RList 20 true); InSetChildId 2 21; InMsg 2 (mkMsg 2 1 RList 20 true);
        InSetParentId 11; InMsg 3 (mkMsg 2 1 RList 21 true)])
  = [Some (Served 2 (mkMsg 1 2 (RepList [(0, 3, [(5, 3)])]) 10 true)); None; Some Refused; None;
     Some (Served 2 (mkMsg 1 2 (RepList [(0, 3, [(5, 3)])]) 11 true))].
Proof. vm_compute. reflexivity. Qed.

(** * Self-test of the executable oracles (IdentCheck.v) on the F12a witness *)
From KV Require Import ident.IdentCheck.
Example oracle_flags_f12a :
  (* what the pinned tree did: not explained by the repaired model, and flagged by the oracle *)
  agrees f12a_case = false /\ c12_ok f12a_case = false /\
  (* what the repaired tree does *)
  agrees f12a_repaired_case = true /\ c12_ok f12a_repaired_case = true /\ c12_confined f12a_repaired_case = true.
Proof. vm_compute. repeat split; reflexivity. Qed.
Example oracle_accepts_honest_cases :
  let m := mkMsg 3 1 (RIssue 0 6 (Some 4) true) 30 true in
  let r := rfc6492 ideal_validate ex_parent 9 m in
  let c := C6492 ex_parent 9 m false false (fst r) (snd r) in
  agrees c = true /\ c12_ok c = true /\ c12_confined c = true /\ c12_reply c = true.
Proof. vm_compute. repeat split; reflexivity. Qed.
Example oracle_rejects_wrong_key_served :
  (* what a "validate against any child's key" mutant would produce: child 3 served on child 2's signature *)
  let m := mkMsg 3 1 RList 20 true in
  let r := rfc6492 ideal_validate ex_parent 9 (mkMsg 3 1 RList 30 true) in
  c12_ok (C6492 ex_parent 9 m false false (fst r) (snd r)) = false.
Proof. vm_compute. reflexivity. Qed.

(** * The publication shortcut *)

Definition local8181_acts_only_for_registered_key_on (lp : repo -> caller -> query -> repo * outcome preply) : Prop :=
  forall rp cl q rp' out h,
    lp rp cl q = (rp', out) -> acted_for out = Some h ->
    exists pb, aget h (r_pubs rp) = Some pb /\ pb_id pb = cl_id cl.

Lemma local8181_pinned_serves_own_handle rp cl q rp' out h :
  local8181_pinned rp cl q = (rp', out) -> acted_for out = Some h -> h = cl_handle cl.
Proof.
  unfold local8181_pinned. destruct (serve8181 rp (cl_handle cl) q) as [[rp1 [| |rep|]]|];
    intros H Ha; inversion H; subst; cbn in Ha; congruence.
Qed.

(** What the repaired shortcut does, case by case. *)
Lemma local8181_cases rp cl q :
  local8181 rp cl q = (rp, Refused) \/
  (exists pb, aget (cl_handle cl) (r_pubs rp) = Some pb /\ pb_id pb = cl_id cl /\ q <> QReply /\
              local8181 rp cl q = local8181_pinned rp cl q).
Proof.
  unfold local8181. destruct q as [|d|]; [| |left; reflexivity];
    (destruct (aget (cl_handle cl) (r_pubs rp)) as [pb|]; [|left; reflexivity];
     destruct (pb_id pb =? cl_id cl) eqn:E; [|left; reflexivity];
     apply N.eqb_eq in E; right; exists pb; repeat split; auto; discriminate).
Qed.

(** *** The repaired tree: the property holds on the local publication path. *)
Theorem local8181_acts_only_for_registered_key : local8181_acts_only_for_registered_key_on local8181.
Proof.
  intros rp cl q rp' out h Hl Ha. destruct (local8181_cases rp cl q) as [R|[pb (A & B & _ & E)]].
  - rewrite R in Hl. inversion Hl; subst. discriminate.
  - rewrite E in Hl. pose proof (local8181_pinned_serves_own_handle _ _ _ _ _ _ Hl Ha) as ->. eauto.
Qed.

Theorem local8181_serves_own_handle rp cl q rp' out h :
  local8181 rp cl q = (rp', out) -> acted_for out = Some h -> h = cl_handle cl.
Proof.
  intros Hl Ha. destruct (local8181_cases rp cl q) as [R|[pb (_ & _ & _ & E)]].
  - rewrite R in Hl. inversion Hl; subst. discriminate.
  - rewrite E in Hl. eapply local8181_pinned_serves_own_handle; eauto.
Qed.

Theorem local8181_wrong_key_refused rp cl q :
  (forall pb, aget (cl_handle cl) (r_pubs rp) = Some pb -> pb_id pb <> cl_id cl) ->
  local8181 rp cl q = (rp, Refused).
Proof.
  intros H. destruct (local8181_cases rp cl q) as [R|[pb (A & B & _)]]; [exact R|]. destruct (H pb A B).
Qed.

Theorem local8181_refused_no_change rp cl q rp' : local8181 rp cl q = (rp', Refused) -> rp' = rp.
Proof.
  destruct (local8181_cases rp cl q) as [R|[pb (_ & _ & _ & E)]]; [congruence|]. rewrite E.
  unfold local8181_pinned. destruct (serve8181 rp (cl_handle cl) q) as [[rp1 [| |rep|]]|]; congruence.
Qed.

Theorem local8181_effects_confined rp cl q rp' out :
  local8181 rp cl q = (rp', out) -> confined8181 (cl_handle cl) rp rp' \/ rp' = rp.
Proof.
  destruct (local8181_cases rp cl q) as [R|[pb (_ & _ & _ & E)]]; [rewrite R; intros H; inversion H; auto|].
  rewrite E. unfold local8181_pinned.
  destruct (serve8181 rp (cl_handle cl) q) as [[rp1 res]|] eqn:Es; [|intros H; inversion H; auto].
  apply serve8181_confined in Es. destruct res; intros H; inversion H; subst; auto.
Qed.

(** The shortcut is the remote path fed with the message the caller would have signed with its own ID
    key and posted to the URL of the publisher that carries its handle (for a query; a message that
    is no query fails on the local path before any key is looked at). *)
Theorem local8181_equals_remote validate rp cl q :
  cms_sound validate -> q <> QReply ->
  let m := mkMsg (cl_handle cl) 0 q (cl_id cl) true in
  fst (local8181 rp cl q) = fst (rfc8181 validate rp m) /\
  match snd (local8181 rp cl q), snd (rfc8181 validate rp m) with
  | Served h1 r1, Served h2 r2 => h1 = h2 /\ payload r1 = payload r2
  | Errored h1, Errored h2 | Failed h1, Failed h2 => h1 = h2
  | Panicked, Panicked | Refused, Refused => True
  | _, _ => False
  end.
Proof.
  intros Hs Hq m. unfold rfc8181. cbn [sender payload m].
  assert (L : local8181 rp cl q = match aget (cl_handle cl) (r_pubs rp) with
                                  | None => (rp, Refused)
                                  | Some pb => if pb_id pb =? cl_id cl then local8181_pinned rp cl q else (rp, Refused) end).
  { unfold local8181. destruct q; congruence. }
  rewrite L. destruct (aget (cl_handle cl) (r_pubs rp)) as [pb|]; [|cbn; auto].
  destruct (pb_id pb =? cl_id cl) eqn:E.
  - apply N.eqb_eq in E.
    assert (V : validate (pb_id pb) m = true) by (apply Hs; split; [cbn; congruence|reflexivity]).
    rewrite V. unfold local8181_pinned.
    destruct (serve8181 rp (cl_handle cl) q) as [[rp1 [| |rep|]]|]; cbn; auto.
  - apply N.eqb_neq in E. destruct (validate (pb_id pb) m) eqn:V; [|cbn; auto].
    apply Hs in V. destruct V as [V _]. cbn in V. congruence.
Qed.

(** *** Regression witness: the originally pinned publication shortcut (finding F12b, fixed by 346cb17c).
    The publisher 7 was registered with ID key 70 (a remote CA) and holds one object; a CA of the same
    instance that is also called 7 but has the ID key 99 withdrew it. The repaired path refuses. *)
Definition f12b_repo : repo := mkRepo 50 [(7, mkPub 70 [7] [([7; 1], 5)])] 0.
Definition f12b_caller : caller := mkCaller 7 99 0.

Theorem local8181_pinned_refuted : ~ local8181_acts_only_for_registered_key_on local8181_pinned.
Proof.
  intros H.
  destruct (H f12b_repo f12b_caller (QDelta [EWdr [7; 1] 5]) _ _ 7 eq_refl eq_refl) as [pb [A B]].
  cbn in A. inversion A; subst. cbn in B. discriminate.
Qed.

Example f12b_pinned_outcome :
  local8181_pinned f12b_repo f12b_caller (QDelta [EWdr [7; 1] 5]) =
  (mkRepo 50 [(7, mkPub 70 [7] [])] 1, Served 7 (mkMsg 0 0 PSuccess 0 true)).
Proof. vm_compute. reflexivity. Qed.

Example f12b_repaired_outcome :
  local8181 f12b_repo f12b_caller (QDelta [EWdr [7; 1] 5]) = (f12b_repo, Refused) /\
  local8181 f12b_repo f12b_caller QList = (f12b_repo, Refused).
Proof. split; vm_compute; reflexivity. Qed.

(** What was true of the pinned shortcut: it was right exactly when handle and registration matched. *)
Theorem local8181_pinned_acts_only_when_handle_matches rp cl q rp' out h :
  publisher_handle_matches_registration rp cl ->
  local8181_pinned rp cl q = (rp', out) -> acted_for out = Some h ->
  exists pb, aget h (r_pubs rp) = Some pb /\ pb_id pb = cl_id cl.
Proof.
  intros Hm Hl Ha. pose proof (local8181_pinned_serves_own_handle _ _ _ _ _ _ Hl Ha) as ->.
  unfold local8181_pinned, serve8181 in Hl. destruct (aget (cl_handle cl) (r_pubs rp)) as [pb|] eqn:E.
  - exists pb. split; [reflexivity|apply Hm; exact E].
  - inversion Hl; subst. discriminate.
Qed.

Example local8181_nonvacuous :
  (* the CA 2 with the ID key 20 registered for publisher 2 is served; with another ID key it is refused *)
  snd (local8181 ex_repo (mkCaller 2 20 0) QList) = Served 2 (mkMsg 0 0 (PList [([2; 100], 1)]) 0 true) /\
  local8181 ex_repo (mkCaller 2 21 0) QList = (ex_repo, Refused) /\
  fst (local8181 ex_repo (mkCaller 2 20 0) (QDelta [EWdr [2; 100] 1])) <> ex_repo.
Proof. split; [vm_compute; reflexivity|]. split; [vm_compute; reflexivity|vm_compute; discriminate]. Qed.

Example oracle_flags_f12b :
  agrees f12b_case = false /\ c12_ok f12b_case = false /\
  agrees f12b_repaired_case = true /\ c12_ok f12b_repaired_case = true /\ c12_confined f12b_repaired_case = true.
Proof. vm_compute. repeat split; reflexivity. Qed.

(** * The trust-anchor proxy as local parent *)

Lemma ta_slow_children st c ch k issue valid st' ok c' :
  ta_slow st c ch k issue valid = (st', ok) -> c' <> c -> aget c' (ta_children st') = aget c' (ta_children st).
Proof.
  assert (E : (c' =? c) = false -> forall f, aget c' (aupd c f (ta_children st)) = aget c' (ta_children st)).
  { intros E f. rewrite aget_aupd, E. reflexivity. }
  intros H Hne. apply N.eqb_neq in Hne. unfold ta_slow in H.
  repeat (destr_match; try discriminate); inversion H; subst; cbn [ta_children]; auto.
Qed.

Lemma ta_process_frame st ua c r st' res c' :
  ta_process st ua c r = (st', res) -> c' <> c -> aget c' (ta_children st') = aget c' (ta_children st).
Proof.
  unfold ta_process. destruct (aget c (ta_children st)) as [ch|] eqn:Ec; [|intros H; inversion H; reflexivity].
  intros H Hne.
  match type of H with (let '(st1, ok) := ?X in _) = _ => destruct X as [st1 ok] eqn:E1 end.
  inversion H; subst; clear H. cbn [ta_children].
  rewrite aget_aupd. assert (E : (c' =? c) = false) by (apply N.eqb_neq; exact Hne). rewrite E.
  destruct r; try (inversion E1; subst; reflexivity); eapply ta_slow_children; eauto.
Qed.

Lemma ta_process_known st ua c r ch : aget c (ta_children st) = Some ch -> exists ok, snd (ta_process st ua c r) = Some ok.
Proof.
  intros Hc. unfold ta_process. rewrite Hc.
  match goal with |- context [let '(st1, ok) := ?X in _] => destruct X as [st1 ok] end. cbn. eauto.
Qed.

(** The repaired shortcut acts only for a child of the TA whose registered ID key is the caller's ... *)
Theorem ta_local_acts_only_for_registered_key st cl r st' ok :
  ta_local6492 st cl r = (st', Some ok) ->
  exists ch, aget (cl_contact_child cl) (ta_children st) = Some ch /\ tc_id ch = cl_id cl.
Proof.
  unfold ta_local6492. destruct (aget (cl_contact_child cl) (ta_children st)) as [ch|]; [|discriminate].
  destruct (tc_id ch =? cl_id cl) eqn:E; [|discriminate]. apply N.eqb_eq in E. eauto.
Qed.

(** ... any other caller is refused, a refusal leaves the proxy untouched (no queued request, no status entry) ... *)
Theorem ta_local_wrong_key_refused st cl r :
  (forall ch, aget (cl_contact_child cl) (ta_children st) = Some ch -> tc_id ch <> cl_id cl) ->
  ta_local6492 st cl r = (st, None).
Proof.
  intros H. unfold ta_local6492. destruct (aget (cl_contact_child cl) (ta_children st)) as [ch|]; [|reflexivity].
  destruct (tc_id ch =? cl_id cl) eqn:E; [|reflexivity]. apply N.eqb_eq in E. destruct (H ch eq_refl E).
Qed.

Theorem ta_local_refused_no_change st cl r st' : ta_local6492 st cl r = (st', None) -> st' = st.
Proof.
  unfold ta_local6492. destruct (aget (cl_contact_child cl) (ta_children st)) as [ch|] eqn:Ec; [|congruence].
  destruct (tc_id ch =? cl_id cl); [|congruence]. unfold ta_local6492_pinned.
  destruct (ta_process_known st local_ua _ r _ Ec) as [ok Hk].
  destruct (ta_process st local_ua (cl_contact_child cl) r) as [s1 res]. cbn in Hk. congruence.
Qed.

(** ... and no other child of the TA is touched. *)
Theorem ta_local_effects_confined st cl r st' res c' :
  ta_local6492 st cl r = (st', res) -> c' <> cl_contact_child cl ->
  aget c' (ta_children st') = aget c' (ta_children st).
Proof.
  unfold ta_local6492. destruct (aget (cl_contact_child cl) (ta_children st)) as [ch|]; [|intros H; inversion H; reflexivity].
  destruct (tc_id ch =? cl_id cl); [|intros H; inversion H; reflexivity].
  unfold ta_local6492_pinned. apply ta_process_frame.
Qed.

(** Regression witness: without the comparison (the pinned tree; a check that only knows [CertAuth]
    parents) a CA whose contact names the TA's child 2 queues a certificate request in that child's name. *)
Definition ta_acts_only_for_registered_key_on (lp : taproxy -> caller -> req -> taproxy * option bool) : Prop :=
  forall st cl r st' ok, lp st cl r = (st', Some ok) ->
    exists ch, aget (cl_contact_child cl) (ta_children st) = Some ch /\ tc_id ch = cl_id cl.

Definition f12a_ta : taproxy := mkTa [(2, mkTaChild 20 255 [] [] [] None)] 4.

Theorem ta_local_pinned_refuted : ~ ta_acts_only_for_registered_key_on ta_local6492_pinned.
Proof.
  intros H. destruct (H f12a_ta (mkCaller 3 99 2) (RIssue ta_rcn 7 None true) _ _ eq_refl) as [ch [A B]].
  cbn in A. inversion A; subst. cbn in B. discriminate.
Qed.

Example ta_local_nonvacuous :
  ta_local6492_pinned f12a_ta (mkCaller 3 99 2) (RIssue ta_rcn 7 None true)
    = (mkTa [(2, mkTaChild 20 255 [] [(7, true)] [] (Some (0, true)))] 5, Some true) /\
  ta_local6492 f12a_ta (mkCaller 3 99 2) (RIssue ta_rcn 7 None true) = (f12a_ta, None) /\
  ta_local6492 f12a_ta (mkCaller 2 20 2) (RIssue ta_rcn 7 None true)
    = (mkTa [(2, mkTaChild 20 255 [] [(7, true)] [] (Some (0, true)))] 5, Some true).
Proof. repeat split; vm_compute; reflexivity. Qed.

(** * Child updates in every shape ([ca_child_update]: ID certificate, resources, or both in one request) *)

Lemma set_child_id_frame c k st :
  p_id (set_child_id c k st) = p_id st /\ p_handle (set_child_id c k st) = p_handle st /\
  p_classes (set_child_id c k st) = p_classes st /\
  forall c', c' <> c -> aget c' (p_children (set_child_id c k st)) = aget c' (p_children st).
Proof.
  unfold set_child_id. destruct (aget c (p_children st)) as [ch|]; [|cbn; auto].
  destruct (ch_id ch =? k); [auto|]. cbn [bump with_children p_id p_handle p_classes p_children].
  repeat split. intros c' Hne. rewrite aget_aupd. destruct (c' =? c) eqn:E; [apply N.eqb_eq in E; congruence|reflexivity].
Qed.

Lemma set_child_id_key c k st ch :
  aget c (p_children st) = Some ch ->
  exists ch', aget c (p_children (set_child_id c k st)) = Some ch' /\ ch_id ch' = k /\ ch_susp ch' = ch_susp ch.
Proof.
  intros Hc. unfold set_child_id. rewrite Hc. destruct (ch_id ch =? k) eqn:E.
  - apply N.eqb_eq in E. eauto.
  - cbn [bump with_children p_children]. rewrite aget_aupd, N.eqb_refl, Hc. cbn. eauto.
Qed.

Definition id_susp (ch : child) : key * bool := (ch_id ch, ch_susp ch).

(** A resource update touches nothing but the entitlement of the child it names. *)
Lemma set_child_res_frame c r st :
  p_id (fst (set_child_res c r st)) = p_id st /\ p_handle (fst (set_child_res c r st)) = p_handle st /\
  p_classes (fst (set_child_res c r st)) = p_classes st /\
  (forall c', c' <> c -> aget c' (p_children (fst (set_child_res c r st))) = aget c' (p_children st)) /\
  (forall c', option_map id_susp (aget c' (p_children (fst (set_child_res c r st)))) = option_map id_susp (aget c' (p_children st))).
Proof.
  unfold set_child_res. destruct (r =? 0); [cbn; auto 6|].
  destruct (negb (subset r (all_res st))); [cbn; auto 6|].
  destruct (aget c (p_children st)) as [ch|] eqn:Ec; [|cbn; auto 6].
  destruct (ch_ent ch =? r); [cbn; auto 6|].
  cbn [fst bump with_children p_id p_handle p_classes p_children]. repeat split.
  - intros c' Hne. rewrite aget_aupd. destruct (c' =? c) eqn:E; [apply N.eqb_eq in E; congruence|reflexivity].
  - intros c'. rewrite aget_aupd. destruct (c' =? c) eqn:E; [|reflexivity].
    destruct (aget c' (p_children st)); reflexivity.
Qed.

Lemma child_update_fst c u st :
  fst (child_update c u st) =
  let st1 := match u_id u with Some k => set_child_id c k st | None => st end in
  match u_id u, u_res u with
  | Some _, Some r => if amem c (p_children st) then fst (set_child_res c r st1) else st1
  | None, Some r => fst (set_child_res c r st1)
  | _, None => st1
  end.
Proof.
  unfold child_update. destruct (u_id u), (u_res u); cbn [fst]; try reflexivity.
  - destruct (amem c (p_children st)); reflexivity.
  - destruct (amem c (p_children st)); reflexivity.
Qed.

(** After an update that carries an ID certificate for an existing child, the registered key IS the new key -
    whatever else the update carries (nothing, resources that are accepted, resources that are refused). *)
Theorem update_with_id_replaces_key c u st k ch :
  aget c (p_children st) = Some ch -> u_id u = Some k ->
  exists ch', aget c (p_children (fst (child_update c u st))) = Some ch' /\ ch_id ch' = k /\ ch_susp ch' = ch_susp ch.
Proof.
  intros Hc Hu. rewrite child_update_fst, Hu. cbn zeta.
  destruct (set_child_id_key c k st ch Hc) as [ch1 (H1 & H2 & H3)].
  destruct (u_res u) as [r|]; [|eauto].
  unfold amem. rewrite Hc.
  destruct (set_child_res_frame c r (set_child_id c k st)) as (_ & _ & _ & _ & F).
  specialize (F c). rewrite H1 in F. cbn [option_map] in F.
  destruct (aget c (p_children (fst (set_child_res c r (set_child_id c k st))))) as [ch2|]; [|discriminate].
  unfold id_susp in F. cbn in F. inversion F. exists ch2. repeat split; congruence.
Qed.

(** An update without an ID certificate leaves every registered key alone. *)
Theorem update_without_id_keeps_keys c u st c' :
  u_id u = None ->
  option_map ch_id (aget c' (p_children (fst (child_update c u st)))) = option_map ch_id (aget c' (p_children st)).
Proof.
  intros Hu. rewrite child_update_fst, Hu. cbn zeta. destruct (u_res u) as [r|]; [|reflexivity].
  destruct (set_child_res_frame c r st) as (_ & _ & _ & _ & F). specialize (F c').
  destruct (aget c' (p_children (fst (set_child_res c r st)))), (aget c' (p_children st)); unfold id_susp in F; cbn in *;
    inversion F; congruence.
Qed.

(** No update touches another child, the parent's identity, or any certificate. *)
Theorem update_frame c u st :
  p_id (fst (child_update c u st)) = p_id st /\ p_handle (fst (child_update c u st)) = p_handle st /\
  p_classes (fst (child_update c u st)) = p_classes st /\
  forall c', c' <> c -> aget c' (p_children (fst (child_update c u st))) = aget c' (p_children st).
Proof.
  rewrite child_update_fst. cbn zeta.
  assert (A : forall st1, (p_id st1 = p_id st /\ p_handle st1 = p_handle st /\ p_classes st1 = p_classes st /\
                           forall c', c' <> c -> aget c' (p_children st1) = aget c' (p_children st)) ->
              forall r, (p_id (fst (set_child_res c r st1)) = p_id st /\ p_handle (fst (set_child_res c r st1)) = p_handle st /\
                         p_classes (fst (set_child_res c r st1)) = p_classes st /\
                         forall c', c' <> c -> aget c' (p_children (fst (set_child_res c r st1))) = aget c' (p_children st))).
  { intros st1 (A1 & A2 & A3 & A4) r. destruct (set_child_res_frame c r st1) as (B1 & B2 & B3 & B4 & _).
    repeat split; try congruence. intros c' Hne. rewrite B4, A4; auto. }
  destruct (u_id u) as [k|], (u_res u) as [r|].
  - destruct (amem c (p_children st)); [apply A|]; apply set_child_id_frame.
  - apply set_child_id_frame.
  - apply A. auto.
  - auto.
Qed.

(** A successful update that carries resources leaves exactly those as the child's entitlement. *)
Theorem update_sets_entitlement c u st st' r :
  child_update c u st = (st', true) -> u_res u = Some r ->
  exists ch', aget c (p_children st') = Some ch' /\ ch_ent ch' = r.
Proof.
  unfold child_update. intros H Hr. rewrite Hr in H.
  set (st1 := match u_id u with Some k => set_child_id c k st | None => st end) in *.
  destruct (match u_id u with Some _ => amem c (p_children st) | None => true end); [|inversion H].
  unfold set_child_res in H. destruct (r =? 0); [inversion H|].
  destruct (negb (subset r (all_res st1))); [inversion H|].
  destruct (aget c (p_children st1)) as [ch|] eqn:Ec; [|inversion H].
  destruct (ch_ent ch =? r) eqn:E; inversion H; subst; clear H.
  - apply N.eqb_eq in E. eauto.
  - cbn [bump with_children p_children]. rewrite aget_aupd, N.eqb_refl, Ec. cbn. eauto.
Qed.

Section UpdateThenRequest.
  Variable validate6 : validator req.
  Hypothesis sound6 : cms_sound validate6.

  (** After an update of any shape that carries a new ID certificate, a request signed with the replaced key is
      refused and changes nothing ... *)
  Theorem replaced_key_refused_after_update st c ch u knew ua m :
    aget c (p_children st) = Some ch -> u_id u = Some knew -> knew <> ch_id ch ->
    sender m = c -> signed_by m = ch_id ch ->
    rfc6492 validate6 (fst (child_update c u st)) ua m = (fst (child_update c u st), Refused).
  Proof.
    intros Hc Hu Hne Hs Hk. apply (wrong_key_or_content_refused_6492 _ sound6).
    intros ch'. rewrite Hs. destruct (update_with_id_replaces_key c u st knew ch Hc Hu) as [ch1 (H1 & H2 & _)].
    rewrite H1. intros H; inversion H; subst. left. congruence.
  Qed.

  (** ... and a request signed with the new key is validated and processed. *)
  Theorem new_key_served_after_update st c ch u knew ua m :
    aget c (p_children st) = Some ch -> u_id u = Some knew ->
    sender m = c -> signed_by m = knew -> intact m = true ->
    snd (rfc6492 validate6 (fst (child_update c u st)) ua m) <> Refused /\
    fst (rfc6492 validate6 (fst (child_update c u st)) ua m) = fst (process (fst (child_update c u st)) ua c (payload m)).
  Proof.
    intros Hc Hu Hs Hk Hi. destruct (update_with_id_replaces_key c u st knew ch Hc Hu) as [ch1 (H1 & H2 & _)].
    unfold rfc6492. rewrite Hs, H1.
    assert (V : validate6 (ch_id ch1) m = true) by (apply sound6; split; congruence). rewrite V.
    destruct (process (fst (child_update c u st)) ua c (payload m)) as [s1 [| |rep|]]; cbn; split; congruence.
  Qed.

  (** A list request of a child that is not suspended, signed with the new key, is answered. *)
  Theorem new_key_list_answered_after_update st c ch u knew ua m :
    aget c (p_children st) = Some ch -> u_id u = Some knew -> ch_susp ch = false ->
    sender m = c -> signed_by m = knew -> intact m = true -> payload m = RList ->
    exists rep st', rfc6492 validate6 (fst (child_update c u st)) ua m = (st', Served c rep).
  Proof.
    intros Hc Hu Hsu Hs Hk Hi Hp. destruct (update_with_id_replaces_key c u st knew ch Hc Hu) as [ch1 (H1 & H2 & H3)].
    unfold rfc6492. rewrite Hs, H1.
    assert (V : validate6 (ch_id ch1) m = true) by (apply sound6; split; congruence). rewrite V, Hp.
    unfold process. rewrite H1, H3, Hsu. cbn [handle_req]. eauto.
  Qed.
End UpdateThenRequest.

(** Along every history that also contains child updates of every shape, the statement of
    [acts_only_along_history] holds unchanged (the constructor [InChildUpdate] is covered by that theorem); here
    the non-vacuity: the three shapes, each followed by the old and the new key. *)
Example update_shapes_nonvacuous :
  map (fun x => snd x) (run ideal_validate ex_parent
       [InChildUpdate 2 (mkUpd (Some 21) None);           InMsg 1 (mkMsg 2 1 RList 20 true); InMsg 2 (mkMsg 2 1 RList 21 true);
        InChildUpdate 2 (mkUpd None (Some 7));            InMsg 3 (mkMsg 2 1 RList 20 true); InMsg 4 (mkMsg 2 1 RList 21 true);
        InChildUpdate 2 (mkUpd (Some 22) (Some 3));       InMsg 5 (mkMsg 2 1 RList 21 true); InMsg 6 (mkMsg 2 1 RList 22 true);
        (* resources the parent does not hold: the request fails, the ID certificate it carried is registered all the same *)
        InChildUpdate 2 (mkUpd (Some 23) (Some 256));     InMsg 7 (mkMsg 2 1 RList 22 true); InMsg 8 (mkMsg 2 1 RList 23 true)])
  = [None; Some Refused; Some (Served 2 (mkMsg 1 2 (RepList [(0, 3, [(5, 3)])]) 10 true));
     None; Some Refused; Some (Served 2 (mkMsg 1 2 (RepList [(0, 7, [(5, 3)])]) 10 true));
     None; Some Refused; Some (Served 2 (mkMsg 1 2 (RepList [(0, 3, [(5, 3)])]) 10 true));
     None; Some Refused; Some (Served 2 (mkMsg 1 2 (RepList [(0, 3, [(5, 3)])]) 10 true))].
Proof. vm_compute. reflexivity. Qed.

Example update_with_id_nonvacuous :
  child_update 2 (mkUpd (Some 21) (Some 7)) ex_parent
  = (mkParent 1 10 [(0, mkRC (Some 255) [(5, mkIC 3 None)] [])]
              [(2, mkChild 21 7 [(5, InUse 0)] false None); (3, mkChild 30 12 [] false None);
               (4, mkChild 40 48 [] false None)] 9, true) /\
  snd (child_update 2 (mkUpd (Some 21) (Some 256)) ex_parent) = false /\
  snd (child_update 9 (mkUpd (Some 21) None) ex_parent) = false.
Proof. repeat split; vm_compute; reflexivity. Qed.

(** * The jail of a publisher is its own directory *)

Theorem jail_is_own_directory h : h <> ta_name -> jail_of h = [h].
Proof. intros Hne. unfold jail_of. destruct (h =? ta_name) eqn:E; [apply N.eqb_eq in E; congruence|reflexivity]. Qed.

Theorem jail_of_ta : jail_of ta_name = [].
Proof. reflexivity. Qed.

Lemma prefix_singleton h u : prefix_b [h] u = true -> exists rest, u = h :: rest.
Proof.
  destruct u as [|x u]; cbn [prefix_b]; [discriminate|]. intros H. apply andb_true_iff in H. destruct H as [H _].
  apply N.eqb_eq in H. subst. eauto.
Qed.

(** A publisher that is added gets the given key, no objects, and the jail its handle determines. *)
Theorem create_publisher_jail h k rp rp' :
  create_publisher h k rp = (rp', true) ->
  exists pb, aget h (r_pubs rp') = Some pb /\ pb_id pb = k /\ pb_jail pb = jail_of h /\ pb_objs pb = [] /\
             forall h', h' <> h -> aget h' (r_pubs rp') = aget h' (r_pubs rp).
Proof.
  unfold create_publisher. destruct (amem h (r_pubs rp)); [discriminate|].
  intros H; inversion H; subst; clear H. cbn [r_pubs]. rewrite aget_ainsert, N.eqb_refl.
  eexists; repeat split. intros h' Hne. rewrite aget_ainsert.
  destruct (h' =? h) eqn:E; [apply N.eqb_eq in E; congruence|reflexivity].
Qed.

Lemma jails_wf_create h k rp : jails_wf rp -> jails_wf (fst (create_publisher h k rp)).
Proof.
  intros W. unfold create_publisher. destruct (amem h (r_pubs rp)); cbn [fst]; [exact W|].
  intros h' pb. cbn [r_pubs]. rewrite aget_ainsert. destruct (h' =? h) eqn:E.
  - apply N.eqb_eq in E. subst. intros H; inversion H; reflexivity.
  - apply W.
Qed.

Lemma jails_wf_remove h rp : jails_wf rp -> jails_wf (remove_publisher h rp).
Proof.
  intros W h' pb. unfold remove_publisher. cbn [r_pubs]. rewrite aget_aremove.
  destruct (h' =? h); [discriminate|apply W].
Qed.

Lemma serve8181_jails rp h q rp' res h' :
  serve8181 rp h q = Some (rp', res) ->
  option_map pb_jail (aget h' (r_pubs rp')) = option_map pb_jail (aget h' (r_pubs rp)).
Proof.
  unfold serve8181. destruct (aget h (r_pubs rp)) as [pb|] eqn:Epb; [|discriminate].
  destruct q as [|d|]; try (intros H; inversion H; subst; reflexivity).
  destruct d as [|e d]; [intros H; inversion H; subst; reflexivity|].
  destruct (delta_ok (pb_jail pb) (pb_objs pb) (e :: d)); intros H; inversion H; subst; [|reflexivity].
  cbn [r_pubs]. rewrite aget_aupd. destruct (h' =? h); [|reflexivity].
  destruct (aget h' (r_pubs rp)); reflexivity.
Qed.

Lemma jails_wf_rfc8181 validate rp m : jails_wf rp -> jails_wf (fst (rfc8181 validate rp m)).
Proof.
  intros W. unfold rfc8181. destruct (aget (sender m) (r_pubs rp)) as [pb|]; [|exact W].
  destruct (validate (pb_id pb) m); [|exact W].
  destruct (serve8181 rp (sender m) (payload m)) as [[rp1 res]|] eqn:Es; [|exact W].
  assert (W1 : jails_wf rp1).
  { intros h' pb' Hh. pose proof (serve8181_jails _ _ _ _ _ h' Es) as J. rewrite Hh in J. cbn in J.
    destruct (aget h' (r_pubs rp)) as [pb0|] eqn:E0; [|discriminate]. cbn in J. inversion J.
    rewrite H0. apply W. exact E0. }
  destruct res; exact W1.
Qed.

(** Along every history of publishers being added, removed (an identity change is remove + add) and of messages,
    starting from a server without publishers: every stored jail is the one its handle determines. *)
Theorem jails_wf_along_history validate ins : forall rp, jails_wf rp -> jails_wf (rrun validate rp ins).
Proof.
  induction ins as [|i ins IH]; intros rp W; [exact W|]. cbn [rrun fold_left]. apply IH.
  destruct i; cbn [rstep]; [apply jails_wf_rfc8181|apply jails_wf_create|apply jails_wf_remove]; exact W.
Qed.

Theorem jails_wf_no_publishers k v : jails_wf (mkRepo k [] v).
Proof. intros h pb H. discriminate H. Qed.

(** An accepted delta names only URIs inside the jail the SENDER'S HANDLE determines ... *)
Theorem publish_within_own_directory validate rp m rp' h r d :
  jails_wf rp ->
  rfc8181 validate rp m = (rp', Served h r) -> payload m = QDelta d -> payload r = PSuccess ->
  forall e, In e d -> prefix_b (jail_of (sender m)) (elem_uri e) = true.
Proof.
  intros W H Hq Hr e Hin.
  destruct (aget (sender m) (r_pubs rp)) as [pb|] eqn:Epb.
  - rewrite <- (W _ _ Epb). eapply publish_within_jail; eauto.
  - unfold rfc8181 in H. rewrite Epb in H. inversion H.
Qed.

(** ... so for every sender other than exactly "ta": inside the directory named like the sender, whatever the
    sender's handle starts with. *)
Theorem publish_only_under_own_handle validate rp m rp' h r d :
  jails_wf rp -> sender m <> ta_name ->
  rfc8181 validate rp m = (rp', Served h r) -> payload m = QDelta d -> payload r = PSuccess ->
  forall e, In e d -> exists rest, elem_uri e = sender m :: rest.
Proof.
  intros W Hne H Hq Hr e Hin. apply prefix_singleton.
  pose proof (publish_within_own_directory validate rp m rp' h r d W H Hq Hr e Hin) as P.
  rewrite (jail_is_own_directory _ Hne) in P. exact P.
Qed.

Theorem publish_only_under_own_handle_along_history validate ins k v m rp' h r d :
  sender m <> ta_name ->
  rfc8181 validate (rrun validate (mkRepo k [] v) ins) m = (rp', Served h r) -> payload m = QDelta d -> payload r = PSuccess ->
  forall e, In e d -> exists rest, elem_uri e = sender m :: rest.
Proof.
  intros Hne. apply publish_only_under_own_handle; [|exact Hne].
  apply jails_wf_along_history, jails_wf_no_publishers.
Qed.

(** Near-miss handles in the shared numbering: 1 = "ta"; 11, 12, 13 stand for "tango", "alice", "alice2". *)
Example own_directory_nonvacuous :
  let rp := rrun ideal_validate (mkRepo 50 [] 0) [RInCreate 1 60; RInCreate 11 70; RInCreate 12 80; RInCreate 13 90] in
  (* in its own directory: accepted *)
  snd (rfc8181 ideal_validate rp (mkMsg 11 0 (QDelta [EPub [11; 100] 3]) 70 true)) = Served 11 (mkMsg 0 0 PSuccess 50 true) /\
  (* in a sibling's directory, in the parent directory, alice2 in alice's and alice in alice2's: error reply, nothing changes *)
  rfc8181 ideal_validate rp (mkMsg 11 0 (QDelta [EPub [12; 100] 3]) 70 true) = (rp, Served 11 (mkMsg 0 0 PError 50 true)) /\
  rfc8181 ideal_validate rp (mkMsg 11 0 (QDelta [EPub [100] 3]) 70 true) = (rp, Served 11 (mkMsg 0 0 PError 50 true)) /\
  rfc8181 ideal_validate rp (mkMsg 13 0 (QDelta [EPub [12; 100] 3]) 90 true) = (rp, Served 13 (mkMsg 0 0 PError 50 true)) /\
  rfc8181 ideal_validate rp (mkMsg 12 0 (QDelta [EPub [13; 100] 3]) 80 true) = (rp, Served 12 (mkMsg 0 0 PError 50 true)) /\
  (* the trust anchor itself publishes at the base *)
  snd (rfc8181 ideal_validate rp (mkMsg 1 0 (QDelta [EPub [100] 3]) 60 true)) = Served 1 (mkMsg 0 0 PSuccess 50 true) /\
  (* remove + add with a new key: same jail, the replaced key is refused *)
  (let rp2 := rrun ideal_validate rp [RInRemove 11; RInCreate 11 71] in
   rfc8181 ideal_validate rp2 (mkMsg 11 0 QList 70 true) = (rp2, Refused) /\
   option_map pb_jail (aget 11 (r_pubs rp2)) = Some [11]).
Proof. vm_compute. repeat split; reflexivity. Qed.

(** Self-test of the oracles on the two administrative cases (IdentCheck.v). *)
Example oracle_flags_dropped_id_update :
  agrees upd_dropped_id_case = false /\ c12_ok upd_dropped_id_case = false /\
  agrees upd_honest_case = true /\ c12_ok upd_honest_case = true /\ c12_confined upd_honest_case = true /\
  c12_reply upd_honest_case = true.
Proof. vm_compute. repeat split; reflexivity. Qed.
Example oracle_flags_wide_jail :
  agrees wide_jail_add_case = false /\ c12_confined wide_jail_add_case = false /\
  (* the model follows the STORED jail, so it explains the acceptance; the oracle, which derives the jail from the handle, does not *)
  agrees wide_jail_publish_case = true /\ c12_confined wide_jail_publish_case = false /\
  agrees honest_add_case = true /\ c12_ok honest_add_case = true /\ c12_confined honest_add_case = true.
Proof. vm_compute. repeat split; reflexivity. Qed.
