(** * ident/Updown.v - the server side of the two signed protocols (C12)

    Executable model (definitions only) of

    - the REMOTE path of [CaManager::rfc6492] (src/server/ca/manager.rs:997-1045):
      decode (1126-1139), look the child up BY THE SENDER HANDLE OF THE MESSAGE and validate the
      CMS against the ID certificate stored for that child ([CertAuth::verify_rfc6492],
      certauth.rs:898-922), process ([rfc6492_process_request], manager.rs:1048-1123: implicit
      unsuspend, list / issue / revoke, child status), sign the reply with the parent's ID key
      ([sign_rfc6492_response], certauth.rs:925-933). The recipient handle is never looked at
      (manager.rs:1056 [_recipient]).
    - the parent-side commands reached from there, event-sourced as in the code (events are
      computed against the state BEFORE the command, then applied; [apply] panics = [None]):
      child certify (certauth.rs:1338-1416, rc.rs:665-687, signing/misc.rs:122-153), child revoke
      key (1422-1466), child unsuspend (1589-1657), [apply] (368-438), the list and issuance
      responses (942-1059); command bookkeeping of the aggregate store
      (commons/eventsourcing/store.rs:417-487: a command that FAILS is stored too - the history
      grows -, a command without events is not stored).
    - [RepositoryManager::rfc8181] (src/server/pubd/manager.rs:114-166): publisher looked up by
      the handle of the request URL, CMS validated against that publisher's ID certificate
      ([decode_and_validate], pubd/access.rs:225-235), [as_query], list / delta
      ([rfc8181_message] 169-191, [publish] 199-214, [verify_delta_applies] / [apply_delta]
      pubd/rrdp.rs:1337-1400 with the jail = the publisher's stored base URI), reply signed with
      the repository's key ([create_response], access.rs:238-247).

    - the administrative identity changes: [CaManager::ca_child_update] (manager.rs:919-972; ID certificate,
      resources, or both in one request - the suspend and class-name-mapping parts are left out) and
      [RepositoryManager::create_publisher] with the jail the handle determines
      ([publisher_rsync_base], pubd/access.rs:413-431).

    Outside the model: the embedded trust anchor as parent ([rfc6492] refuses "ta", 1005-1009),
    resource-class name mappings of imported children ([rcn_map], child.rs:99-125; C03/F03a),
    certificate validity / the one-day expiry test of unsuspend (assumed not to fire), CSR
    contents (a flag), URI spelling rules of the publication server (C10), RRDP. A request limit
    is one optional atom mask (the harness always limits all three families at once).
    Identity keys, child keys (the keys certificates are issued for), handles, class names and
    object contents are numbers chosen by the harness. Line numbers refer to /repo at 66ff1465
    (later fix commits shift certauth.rs by a few lines). *)
From KV Require Import base.Tac ident.Msg.
Open Scope N_scope.

(** * 1. Parent CA state *)

Inductive ukstate := InUse (rcn : N) | Revoked.                      (* child.rs UsedKeyState *)

Record child := mkChild {
  ch_id : key;                    (* ChildDetails::id_cert (its public key) *)
  ch_ent : N;                     (* ChildDetails::resources *)
  ch_used : list (N * ukstate);   (* ChildDetails::used_keys *)
  ch_susp : bool;                 (* ChildDetails::state *)
  ch_last : option (N * bool) }.  (* status store: user agent and result of the last exchange *)

Record icert := mkIC { ic_res : N; ic_limit : option N }.            (* IssuedCertificate: resources, limit *)

Record rclass := mkRC {
  rc_res : option N;              (* resources of the current key's certificate; None = no current key *)
  rc_issued : list (N * icert);   (* ChildCertificates::issued, by child key *)
  rc_susp : list (N * icert) }.   (* ChildCertificates::suspended *)

Record parent := mkParent {
  p_handle : handle;
  p_id : key;                     (* CertAuth::id: the key replies are signed with *)
  p_classes : list (N * rclass);
  p_children : list (handle * child);
  p_hist : N }.                   (* number of stored commands (= aggregate version) *)

Definition with_children (st : parent) (l : list (handle * child)) : parent :=
  mkParent (p_handle st) (p_id st) (p_classes st) l (p_hist st).
Definition with_classes (st : parent) (l : list (N * rclass)) : parent :=
  mkParent (p_handle st) (p_id st) l (p_children st) (p_hist st).
Definition bump (st : parent) : parent :=
  mkParent (p_handle st) (p_id st) (p_classes st) (p_children st) (p_hist st + 1).

Definition is_issued (ch : child) (k : N) : bool :=                  (* child.rs:147-149 *)
  match aget k (ch_used ch) with Some (InUse _) => true | _ => false end.
Definition set_used (k : N) (u : ukstate) (ch : child) : child :=
  mkChild (ch_id ch) (ch_ent ch) (ainsert k u (ch_used ch)) (ch_susp ch) (ch_last ch).
Definition set_susp (b : bool) (ch : child) : child :=
  mkChild (ch_id ch) (ch_ent ch) (ch_used ch) b (ch_last ch).
Definition set_last (l : option (N * bool)) (ch : child) : child :=
  mkChild (ch_id ch) (ch_ent ch) (ch_used ch) (ch_susp ch) l.
Definition set_id (k : key) (ch : child) : child :=
  mkChild k (ch_ent ch) (ch_used ch) (ch_susp ch) (ch_last ch).
Definition revoke_if_issued (k : N) (ch : child) : child :=
  if is_issued ch k then set_used k Revoked ch else ch.

(** Keys of the child that are in use in class [rcn] ([ChildDetails::issued], child.rs:128-144). *)
Definition keys_in_use (ch : child) (rcn : N) : list N :=
  filter (fun k => match aget k (ch_used ch) with Some (InUse r) => r =? rcn | _ => false end)
         (map fst (ch_used ch)).

Definition rc_add (k : N) (ic : icert) (rc : rclass) : rclass :=      (* child.rs add_issued_certificate *)
  mkRC (rc_res rc) (ainsert k ic (rc_issued rc)) (aremove k (rc_susp rc)).
Definition rc_remove (k : N) (rc : rclass) : rclass :=                (* child.rs remove_revoked_key *)
  mkRC (rc_res rc) (aremove k (rc_issued rc)) (aremove k (rc_susp rc)).

(** ** Events and [CertAuth::apply] (certauth.rs:368-438); [None] = an [unwrap] on a missing
    class or child panics. *)
Inductive event :=
| EvIssued (c : handle) (rcn k : N) (ic : icert)  (* ChildCertificateIssued + ChildCertificatesUpdated{issued} *)
| EvKeyRevoked (c : handle) (rcn k : N)           (* ChildKeyRevoked *)
| EvRemoved (rcn k : N)                           (* ChildCertificatesUpdated{removed} *)
| EvUnsuspended (c : handle).                     (* ChildUnsuspended *)

Definition apply_event (st : parent) (e : event) : option parent :=
  match e with
  | EvIssued c rcn k ic =>
      match aget c (p_children st), aget rcn (p_classes st) with
      | Some _, Some _ =>
          Some (with_classes (with_children st (aupd c (set_used k (InUse rcn)) (p_children st)))
                             (aupd rcn (rc_add k ic) (p_classes st)))
      | _, _ => None
      end
  | EvKeyRevoked c rcn k =>
      match aget c (p_children st), aget rcn (p_classes st) with
      | Some _, Some _ =>
          Some (with_classes (with_children st (aupd c (set_used k Revoked) (p_children st)))
                             (aupd rcn (rc_remove k) (p_classes st)))
      | _, _ => None
      end
  | EvRemoved rcn k =>
      (* 416-433: the key is marked revoked for EVERY child that has it in use *)
      match aget rcn (p_classes st) with
      | Some _ =>
          Some (with_classes (with_children st (amap (revoke_if_issued k) (p_children st)))
                             (aupd rcn (rc_remove k) (p_classes st)))
      | None => None
      end
  | EvUnsuspended c =>
      match aget c (p_children st) with
      | Some _ => Some (with_children st (aupd c (set_susp false) (p_children st)))
      | None => None
      end
  end.

Fixpoint apply_events (st : parent) (evs : list event) : option parent :=
  match evs with
  | [] => Some st
  | e :: r => match apply_event st e with Some st' => apply_events st' r | None => None end
  end.

(** [AggregateStore::execute_opt_command] (store.rs:417-487). *)
Inductive cmd_res := CmdOk (st : parent) | CmdErr (st : parent) | CmdPanic.
Definition run_cmd (st : parent) (evs : option (list event)) : cmd_res :=
  match evs with
  | None => CmdErr (bump st)                    (* stored with the error *)
  | Some [] => CmdOk st                         (* no-op: nothing stored *)
  | Some evs => match apply_events st evs with Some st' => CmdOk (bump st') | None => CmdPanic end
  end.

(** ** Commands (events computed against the state before the command) *)

(** [RequestResourceLimit::apply_to] on the intersection (rc.rs:673-675, misc.rs:130). *)
Definition issue_mask (pres res : N) (limit : option N) : option N :=
  let r := N.land pres res in
  match limit with
  | None => Some r
  | Some l => if subset l r then Some l else None
  end.

(** [append_child_certify] (certauth.rs:1367-1416). *)
Definition certify_events (st : parent) (c : handle) (res rcn k : N) (limit : option N)
  : option (list event) :=
  match aget rcn (p_classes st) with
  | None => None                                  (* ResourceClassUnknown *)
  | Some rc =>
      match rc_res rc with
      | None => None                              (* get_current_key()? *)
      | Some pres =>
          match issue_mask pres res limit with
          | None => None
          | Some r => Some [EvIssued c rcn k (mkIC r limit)]
          end
      end
  end.

(** [process_child_certify] (1338-1363). *)
Definition certify_cmd (st : parent) (c : handle) (rcn k : N) (limit : option N) (csr_ok : bool)
  : option (list event) :=
  match aget c (p_children st) with
  | None => None
  | Some ch => if csr_ok then certify_events st c (ch_ent ch) rcn k limit else None
  end.

(** [process_child_revoke_key] (1422-1466): the child is looked up first, then the class (a request
    for a class the parent does not have is answered positively without doing anything). Note that
    the key only has to be in use by the child, in whatever class. *)
Definition revoke_cmd (st : parent) (c : handle) (rcn k : N) : option (list event) :=
  match aget c (p_children st) with
  | None => None
  | Some ch =>
      if negb (amem rcn (p_classes st)) then Some []
      else if is_issued ch k then Some [EvKeyRevoked c rcn k; EvRemoved rcn k] else None
  end.

Fixpoint concat_opt {A} (l : list (option (list A))) : option (list A) :=
  match l with
  | [] => Some []
  | None :: _ => None
  | Some x :: r => match concat_opt r with Some y => Some (x ++ y) | None => None end
  end.

(** [process_child_unsuspend] (1589-1657): every suspended certificate of the child is re-issued
    when it is still within the entitlement, removed otherwise. (The code emits the removals of a
    class after its re-issues; they concern different keys, the resulting state is the same.) *)
Definition unsuspend_key_events (st : parent) (c : handle) (ch : child) (rcn : N) (rc : rclass) (k : N)
  : option (list event) :=
  match aget k (rc_susp rc) with
  | None => Some []
  | Some s => if subset (ic_res s) (ch_ent ch)
              then certify_events st c (ic_res s) rcn k (ic_limit s)
              else Some [EvRemoved rcn k]
  end.

Definition unsuspend_cmd (st : parent) (c : handle) : option (list event) :=
  match aget c (p_children st) with
  | None => None
  | Some ch =>
      if negb (ch_susp ch) then Some []
      else match concat_opt (flat_map (fun '(rcn, rc) => map (unsuspend_key_events st c ch rcn rc) (keys_in_use ch rcn))
                                      (p_classes st)) with
           | None => None
           | Some evs => Some (evs ++ [EvUnsuspended c])
           end
  end.

(** ** Requests and replies *)
Inductive req :=
| RList
| RIssue (rcn k : N) (limit : option N) (csr_ok : bool)
| RRevoke (rcn k : N)
| ROther.                                          (* any other payload: "Unsupported RFC6492 message" *)

Inductive reply :=
| RepList (classes : list (N * N * list (N * N)))  (* class, entitled resources, (child key, cert resources) *)
| RepIssue (rcn k res : N)
| RepRevoke (rcn k : N).

(** [entitlement_class] (certauth.rs:986-1059). *)
Definition ent_class (st : parent) (c : handle) (rcn : N) : option (N * N * list (N * N)) :=
  match aget rcn (p_classes st) with
  | None => None
  | Some rc =>
      match rc_res rc with
      | None => None
      | Some pres =>
          match aget c (p_children st) with
          | None => None
          | Some ch =>
              let r := N.land pres (ch_ent ch) in
              if r =? 0 then None
              else Some (rcn, r, flat_map (fun k => match aget k (rc_issued rc) with
                                                    | Some ic => [(k, ic_res ic)] | None => [] end)
                                          (keys_in_use ch rcn))
          end
      end
  end.

Definition entitlements (st : parent) (c : handle) : list (N * N * list (N * N)) :=   (* [list] 942-958 *)
  flat_map (fun '(rcn, _) => match ent_class st c rcn with Some e => [e] | None => [] end) (p_classes st).

Definition issue_response (st : parent) (c : handle) (rcn k : N) : option reply :=    (* 965-979 *)
  match ent_class st c rcn with
  | None => None
  | Some (_, _, certs) => match aget k certs with Some cr => Some (RepIssue rcn k cr) | None => None end
  end.

(** What [rfc6492_process_request] did for the child it was called for. *)
Inductive result (R : Type) :=
| RsErrored          (* an error before the child status is touched (unknown child, failed unsuspend) *)
| RsFailed           (* an error from the handler: recorded as a failure in the child status *)
| RsServed (r : R)
| RsPanicked.
Arguments RsErrored {R}.
Arguments RsFailed {R}.
Arguments RsServed {R}.
Arguments RsPanicked {R}.

(** manager.rs:1086-1101 with [rfc6492_list] 1144-1168, [rfc6492_issue] 1173-1221,
    [rfc6492_revoke] 1224-1251. [None] = panic. *)
Definition handle_req (st : parent) (c : handle) (r : req) : option (parent * option reply) :=
  match r with
  | RList => Some (st, Some (RepList (entitlements st c)))
  | RIssue rcn k limit csr_ok =>
      match run_cmd st (certify_cmd st c rcn k limit csr_ok) with
      | CmdPanic => None
      | CmdErr st' => Some (st', None)
      | CmdOk st' => Some (st', issue_response st' c rcn k)   (* may fail AFTER the certificate was issued *)
      end
  | RRevoke rcn k =>
      match run_cmd st (revoke_cmd st c rcn k) with
      | CmdPanic => None
      | CmdErr st' => Some (st', None)
      | CmdOk st' => Some (st', Some (RepRevoke rcn k))
      end
  | ROther => Some (st, None)
  end.

Definition record_exchange (c : handle) (ua : N) (ok : bool) (st : parent) : parent :=
  with_children st (aupd c (set_last (Some (ua, ok))) (p_children st)).

(** [rfc6492_process_request] (manager.rs:1048-1123) for child [c]: no key is involved here. *)
Definition process (st : parent) (ua : N) (c : handle) (r : req) : parent * result reply :=
  match aget c (p_children st) with
  | None => (st, RsErrored)                                  (* 1068 get_child? *)
  | Some ch =>
      match (if ch_susp ch then run_cmd st (unsuspend_cmd st c) else CmdOk st) with   (* 1069-1083 *)
      | CmdPanic => (st, RsPanicked)
      | CmdErr st1 => (st1, RsErrored)
      | CmdOk st1 =>
          match handle_req st1 c r with
          | None => (st1, RsPanicked)
          | Some (st2, Some rep) => (record_exchange c ua true st2, RsServed rep)    (* 1104-1111 *)
          | Some (st2, None) => (record_exchange c ua false st2, RsFailed)           (* 1112-1119 *)
          end
      end
  end.

(** What the server did with a request. *)
Inductive outcome (R : Type) :=
| Refused                                  (* not validated: no handler ran *)
| Errored (c : handle)
| Failed (c : handle)
| Served (c : handle) (r : msg R)          (* the signed reply *)
| Panicked.
Arguments Refused {R}.
Arguments Errored {R}.
Arguments Failed {R}.
Arguments Served {R}.
Arguments Panicked {R}.

(** The child / publisher a non-refused outcome acted for. *)
Definition acted_for {R} (o : outcome R) : option handle :=
  match o with Errored c | Failed c | Served c _ => Some c | Refused | Panicked => None end.

Section Remote6492.
  Variable validate : validator req.

  (** [CaManager::rfc6492] for a parent other than "ta". *)
  Definition rfc6492 (st : parent) (ua : N) (m : msg req) : parent * outcome reply :=
    match aget (sender m) (p_children st) with
    | None => (st, Refused)                                   (* certauth.rs:903-910 *)
    | Some ch =>
        if validate (ch_id ch) m then                         (* certauth.rs:912-919 *)
          let c := sender m in
          match process st ua c (payload m) with
          | (st', RsErrored) => (st', Errored c)
          | (st', RsFailed) => (st', Failed c)
          | (st', RsPanicked) => (st', Panicked)
          | (st', RsServed rep) =>
              (* manager.rs:1027: signed with the ID key of the CA as fetched at 1011;
                 reply sender = the parent, recipient = the child (1163-1167, 1215-1219, 1240-1244) *)
              (st', Served c (mkMsg (p_handle st) c rep (p_id st) true))
          end
        else (st, Refused)
    end.
End Remote6492.

(** ** Identity updates (administrative) *)
(** [ca_update_id] on the parent (manager.rs:593-605, GenerateNewIdKey). *)
Definition set_parent_id (k : key) (st : parent) : parent :=
  mkParent (p_handle st) k (p_classes st) (p_children st) (p_hist st + 1).
(** [ca_child_update] with a new ID certificate (certauth.rs:1266-1294, apply 440-442). *)
Definition set_child_id (c : handle) (k : key) (st : parent) : parent :=
  match aget c (p_children st) with
  | None => bump st                                            (* error, stored *)
  | Some ch => if ch_id ch =? k then st
               else bump (with_children st (aupd c (set_id k) (p_children st)))
  end.

(** ** [CaManager::ca_child_update] (manager.rs:919-972): ONE administrative request that may carry a new ID
    certificate, a new resource set, or both. The parts are applied one after the other, each as its own
    command, in the order ID certificate, resources (then suspension and the class-name mapping, which the
    scenario leaves absent); the first command that fails ends the request with its error - whatever was applied
    before stays applied. So after an update that carries an ID certificate for an existing child the registered
    key IS the new key, whatever else the update carries and whether or not a later part fails. *)
Record child_upd := mkUpd { u_id : option key; u_res : option N }.

(** [CertAuth::all_resources] (certauth.rs:815-823): the union over the classes that have a current key. *)
Definition all_res (st : parent) : N :=
  fold_right (fun '(_, rc) acc => match rc_res rc with Some r => N.lor r acc | None => acc end) 0 (p_classes st).
Definition set_ent (r : N) (ch : child) : child :=
  mkChild (ch_id ch) r (ch_used ch) (ch_susp ch) (ch_last ch).
(** [process_child_update_resources] (certauth.rs:1225-1268, apply 445-449): empty set, resources the CA does
    not hold, unknown child: error (stored); same set: no-op; otherwise ONLY the entitlement changes - nothing is
    revoked or re-issued. [true] = the command succeeded. *)
Definition set_child_res (c : handle) (r : N) (st : parent) : parent * bool :=
  if r =? 0 then (bump st, false)
  else if negb (subset r (all_res st)) then (bump st, false)
  else match aget c (p_children st) with
       | None => (bump st, false)
       | Some ch => if ch_ent ch =? r then (st, true)
                    else (bump (with_children st (aupd c (set_ent r) (p_children st))), true)
       end.
Definition child_update (c : handle) (u : child_upd) (st : parent) : parent * bool :=
  let st1 := match u_id u with Some k => set_child_id c k st | None => st end in
  let ok1 := match u_id u with Some _ => amem c (p_children st) | None => true end in
  if ok1 then match u_res u with Some r => set_child_res c r st1 | None => (st1, true) end
  else (st1, false).

(** * 2. Publication server *)

Definition uri : Type := list N.                               (* path segments below the server's rsync base *)
Fixpoint prefix_b (p q : list N) : bool :=
  match p, q with
  | [], _ => true
  | x :: p', y :: q' => (x =? y) && prefix_b p' q'
  | _ :: _, [] => false
  end.
Fixpoint uri_eqb (a b : uri) : bool :=
  match a, b with
  | [], [] => true
  | x :: a', y :: b' => (x =? y) && uri_eqb a' b'
  | _, _ => false
  end.
Fixpoint uget (u : uri) (l : list (uri * N)) : option N :=
  match l with [] => None | (u', o) :: r => if uri_eqb u' u then Some o else uget u r end.
Fixpoint udel (u : uri) (l : list (uri * N)) : list (uri * N) :=
  match l with [] => [] | (u', o) :: r => if uri_eqb u' u then udel u r else (u', o) :: udel u r end.
Definition uput (u : uri) (o : N) (l : list (uri * N)) : list (uri * N) := (u, o) :: udel u l.

Record publisher := mkPub {
  pb_id : key;                    (* Publisher::id_cert *)
  pb_jail : uri;                  (* Publisher::base_uri *)
  pb_objs : list (uri * N) }.     (* current objects of this publisher (published + staged), content ids *)

Record repo := mkRepo {
  r_id : key;                     (* RepositoryAccess::key_id *)
  r_pubs : list (handle * publisher);
  r_ver : N }.                    (* number of non-empty deltas accepted (content revision) *)

Inductive elem := EPub (u : uri) (o : N) | EUpd (u : uri) (old o : N) | EWdr (u : uri) (old : N).
Inductive query := QList | QDelta (d : list elem) | QReply.     (* QReply: a reply message sent as a request *)
Inductive preply := PList (l : list (uri * N)) | PSuccess | PError.

Definition elem_uri (e : elem) : uri := match e with EPub u _ | EUpd u _ _ | EWdr u _ => u end.

(** [verify_delta_applies] (pubd/rrdp.rs:1337-1370): every element against the objects before the delta. *)
Definition elem_ok (jail : uri) (objs : list (uri * N)) (e : elem) : bool :=
  prefix_b jail (elem_uri e) &&
  match e with
  | EPub u _ => match uget u objs with None => true | Some _ => false end
  | EUpd u old _ | EWdr u old => match uget u objs with Some o => o =? old | None => false end
  end.
Definition delta_ok (jail : uri) (objs : list (uri * N)) (d : list elem) : bool := forallb (elem_ok jail objs) d.

(** [apply_delta] (1384-1400): publishes, then updates, then withdraws. *)
Definition apply_pub (objs : list (uri * N)) (e : elem) := match e with EPub u o => uput u o objs | _ => objs end.
Definition apply_upd (objs : list (uri * N)) (e : elem) := match e with EUpd u _ o => uput u o objs | _ => objs end.
Definition apply_wdr (objs : list (uri * N)) (e : elem) := match e with EWdr u _ => udel u objs | _ => objs end.
Definition apply_delta (objs : list (uri * N)) (d : list elem) : list (uri * N) :=
  fold_left apply_wdr d (fold_left apply_upd d (fold_left apply_pub d objs)).

Definition set_objs (l : list (uri * N)) (pb : publisher) : publisher := mkPub (pb_id pb) (pb_jail pb) l.

(** [rfc8181_message] (manager.rs:169-191) for publisher [h]; [None] = unknown publisher. *)
Definition serve8181 (rp : repo) (h : handle) (q : query) : option (repo * result preply) :=
  match aget h (r_pubs rp) with
  | None => None
  | Some pb =>
      Some match q with
           | QReply => (rp, RsErrored)                                  (* as_query()? *)
           | QList => (rp, RsServed (PList (pb_objs pb)))
           | QDelta d =>
               match d with
               | [] => (rp, RsServed PSuccess)                          (* content.rs:548 *)
               | _ => if delta_ok (pb_jail pb) (pb_objs pb) d
                      then (mkRepo (r_id rp) (aupd h (set_objs (apply_delta (pb_objs pb) d)) (r_pubs rp)) (r_ver rp + 1),
                            RsServed PSuccess)
                      else (rp, RsServed PError)                        (* manager.rs:145-153: signed error reply *)
               end
           end
  end.

Section Remote8181.
  Variable validate : validator query.

  (** [RepositoryManager::rfc8181]; [sender m] is the publisher handle of the request URL. *)
  Definition rfc8181 (rp : repo) (m : msg query) : repo * outcome preply :=
    match aget (sender m) (r_pubs rp) with
    | None => (rp, Refused)                                             (* access.rs:230 *)
    | Some pb =>
        if validate (pb_id pb) m then                                   (* access.rs:231-233 *)
          let h := sender m in
          match serve8181 rp h (payload m) with
          | None => (rp, Refused)
          | Some (rp', RsServed rep) => (rp', Served h (mkMsg 0 0 rep (r_id rp) true))   (* access.rs:238-247 *)
          | Some (rp', RsPanicked) => (rp', Panicked)
          | Some (rp', _) => (rp', Errored h)
          end
        else (rp, Refused)
    end.
End Remote8181.

(** Publisher identity changes are remove + add (pubd/access.rs:372-405): *)
Definition add_publisher (h : handle) (k : key) (jail : uri) (rp : repo) : repo :=
  if amem h (r_pubs rp) then rp else mkRepo (r_id rp) (ainsert h (mkPub k jail []) (r_pubs rp)) (r_ver rp).
Definition remove_publisher (h : handle) (rp : repo) : repo :=
  mkRepo (r_id rp) (aremove h (r_pubs rp)) (r_ver rp).

(** The jail a publisher is given when it is added ([RepositoryAccess::publisher_rsync_base],
    pubd/access.rs:413-431, called from [RepositoryManager::create_publisher]): the server's rsync base itself
    for the handle that is EXACTLY "ta", [<rsync base><handle>/] for every other handle - whatever the handle
    starts with. Handles and URI path segments share one numbering (the harness interns both as plain names, "ta"
    first), so the directory named like handle [h] is the segment [h]. *)
Definition ta_name : handle := 1.
Definition jail_of (h : handle) : uri := if h =? ta_name then [] else [h].
(** [RepositoryManager::create_publisher] (pubd/manager.rs:321-330): a duplicate handle is an error
    ([process_add_publisher], access.rs:372-388) and nothing changes; otherwise the publisher is stored with the
    jail above and the content store records it as well (one more content revision, content.rs:136-147). *)
Definition create_publisher (h : handle) (k : key) (rp : repo) : repo * bool :=
  if amem h (r_pubs rp) then (rp, false)
  else (mkRepo (r_id rp) (ainsert h (mkPub k (jail_of h) []) (r_pubs rp)) (r_ver rp + 1), true).
(** Every stored jail is the one the handle determines. *)
Definition jails_wf (rp : repo) : Prop :=
  forall h pb, aget h (r_pubs rp) = Some pb -> pb_jail pb = jail_of h.

(** Histories of the publication server: messages interleaved with publishers being added and removed. *)
Inductive rinput :=
| RInMsg (m : msg query)
| RInCreate (h : handle) (k : key)
| RInRemove (h : handle).
Section RHistory.
  Variable validate : validator query.
  Definition rstep (rp : repo) (i : rinput) : repo :=
    match i with
    | RInMsg m => fst (rfc8181 validate rp m)
    | RInCreate h k => fst (create_publisher h k rp)
    | RInRemove h => remove_publisher h rp
    end.
  Definition rrun (rp : repo) (ins : list rinput) : repo := fold_left rstep ins rp.
End RHistory.

(** * 3. Specification vocabulary (used by the statements in IdentProofs.v / props/C12.v) *)

Definition opt_rel {A} (R : A -> A -> Prop) (a b : option A) : Prop :=
  match a, b with
  | None, None => True
  | Some x, Some y => R x y
  | _, _ => False
  end.

(** How a used-key entry, an issued certificate and a suspended certificate may differ after a
    request of a sender with entitlement [ent]; [b] says whether the sender itself had the key in
    use before the request. *)
Definition used_rel (b : bool) (u0 u : option ukstate) : Prop :=
  u = u0 \/ (u = Some Revoked /\ b = true).
Definition cert_rel (ent : N) (b : bool) (i0 i : option icert) : Prop :=
  i = i0 \/ (exists ic, i = Some ic /\ subset (ic_res ic) ent = true) \/ (i = None /\ b = true).
Definition susp_rel (s0 s : option icert) : Prop := s = s0 \/ s = None.

(** A child record before ([x]) and after ([y]); [strict] for every child other than the sender. *)
Definition child_rel (inuse0 : N -> bool) (strict : bool) (x y : child) : Prop :=
  ch_id y = ch_id x /\ ch_ent y = ch_ent x /\
  (strict = true -> ch_susp y = ch_susp x /\ ch_last y = ch_last x /\
                    forall k, used_rel (inuse0 k) (aget k (ch_used x)) (aget k (ch_used y))).
Definition class_rel (ent : N) (inuse0 : N -> bool) (x y : rclass) : Prop :=
  rc_res y = rc_res x /\
  (forall k, cert_rel ent (inuse0 k) (aget k (rc_issued x)) (aget k (rc_issued y))) /\
  (forall k, susp_rel (aget k (rc_susp x)) (aget k (rc_susp y))).

(** [confined ent inuse0 c st0 st]: [st] differs from [st0] only by effects a child [c] with
    entitlement [ent] and in-use keys [inuse0] is allowed to cause: the parent's identity, every
    other child's identity, entitlement, state and status are untouched; other children lose at
    most keys that [c] itself had in use (shared keys); certificates that appear or change are
    within [ent]; certificates that disappear belonged to keys [c] had in use. *)
Definition confined (ent : N) (inuse0 : N -> bool) (c : handle) (st0 st : parent) : Prop :=
  p_handle st = p_handle st0 /\ p_id st = p_id st0 /\
  (forall c', opt_rel (child_rel inuse0 (negb (c' =? c))) (aget c' (p_children st0)) (aget c' (p_children st))) /\
  (forall rcn, opt_rel (class_rel ent inuse0) (aget rcn (p_classes st0)) (aget rcn (p_classes st))).

(** Publication: only the sender's own objects change, and only at URIs under its jail. *)
Definition pub_rel (x y : publisher) : Prop :=
  pb_id y = pb_id x /\ pb_jail y = pb_jail x /\
  forall u, uget u (pb_objs y) = uget u (pb_objs x) \/ prefix_b (pb_jail x) u = true.
Definition confined8181 (h : handle) (rp0 rp : repo) : Prop :=
  r_id rp = r_id rp0 /\
  (forall h', h' <> h -> aget h' (r_pubs rp) = aget h' (r_pubs rp0)) /\
  opt_rel pub_rel (aget h (r_pubs rp0)) (aget h (r_pubs rp)).

(** Histories: messages interleaved with identity updates on either side. *)
Inductive input :=
| InMsg (ua : N) (m : msg req)
| InSetParentId (k : key)
| InSetChildId (c : handle) (k : key)
| InChildUpdate (c : handle) (u : child_upd).

Section History.
  Variable validate : validator req.
  Definition step (st : parent) (i : input) : parent * option (outcome reply) :=
    match i with
    | InMsg ua m => let (st', o) := rfc6492 validate st ua m in (st', Some o)
    | InSetParentId k => (set_parent_id k st, None)
    | InSetChildId c k => (set_child_id c k st, None)
    | InChildUpdate c u => (fst (child_update c u st), None)
    end.
  (** The trace: state before each input, the input, what came out. *)
  Fixpoint run (st : parent) (ins : list input) : list (parent * input * option (outcome reply)) :=
    match ins with
    | [] => []
    | i :: r => let (st', o) := step st i in (st, i, o) :: run st' r
    end.
End History.
