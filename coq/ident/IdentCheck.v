(** * ident/IdentCheck.v - correspondence checker and executable oracles for C12

    The harness (harness/src/bin/c12.rs) feeds CMS bytes it built itself to the real
    [CaManager::rfc6492] / [RepositoryManager::rfc8181] and writes, per message, a [case]: the
    abstracted parent CA / repository state before and after, the message (who signed it, the
    sender / recipient / payload it decodes to), whether bits were flipped after signing
    ([corrupt]) and if so whether the flipped bytes still decode to the identical sender,
    recipient and payload ([same]), and the observed outcome class:

    - [Served c r] : a reply came back; [c] is the child whose status entry carries this message's
      user agent (for RFC 8181: the publisher handle of the URL); [r] is the decoded reply with
      [signed_by] = the known identity key under which the reply CMS validates (0 = none);
    - [Failed c]   : an error came back and child [c]'s status entry carries this message's user agent;
    - [Refused]    : an error came back and no status entry carries it.
    The harness never writes [Errored] / [Panicked] (a panic is reported as an impl failure).

    Administrative steps are cases of their own: [CUpdChild] (one [ca_child_update] and the signed requests sent right
    after it; the key that has to be registered afterwards is decided from the request, not read back from the server)
    and [CAddPub] (one [create_publisher]; the jail is derived from the handle, [jail_of]).

    [agrees] asks whether the model (with the ideal validator) does the same; the oracles evaluate
    the conclusions of the C12 theorems directly on what the implementation did. *)
From KV Require Import base.Tac ident.Msg ident.Updown ident.Local.
Open Scope N_scope.

(** ** Equality of observed values (maps compared as maps; keys are unique in observed data) *)
Definition opt_eqb {A} (eqb : A -> A -> bool) (a b : option A) : bool :=
  match a, b with Some x, Some y => eqb x y | None, None => true | _, _ => false end.
Definition amap_le {V} (veqb : V -> V -> bool) (a b : list (N * V)) : bool :=
  forallb (fun '(k, v) => match aget k b with Some v' => veqb v v' | None => false end) a.
Definition amap_eqb {V} (veqb : V -> V -> bool) (a b : list (N * V)) : bool := amap_le veqb a b && amap_le veqb b a.
Definition umap_le (a b : list (uri * N)) : bool :=
  forallb (fun '(u, o) => match uget u b with Some o' => o =? o' | None => false end) a.
Definition umap_eqb (a b : list (uri * N)) : bool := umap_le a b && umap_le b a.

Definition uk_eqb (a b : ukstate) : bool :=
  match a, b with InUse x, InUse y => x =? y | Revoked, Revoked => true | _, _ => false end.
Definition last_eqb (a b : N * bool) : bool := (fst a =? fst b) && Bool.eqb (snd a) (snd b).
Definition child_eqb (a b : child) : bool :=
  (ch_id a =? ch_id b) && (ch_ent a =? ch_ent b) && amap_eqb uk_eqb (ch_used a) (ch_used b)
  && Bool.eqb (ch_susp a) (ch_susp b) && opt_eqb last_eqb (ch_last a) (ch_last b).
Definition ic_eqb (a b : icert) : bool := (ic_res a =? ic_res b) && opt_eqb N.eqb (ic_limit a) (ic_limit b).
Definition rc_eqb (a b : rclass) : bool :=
  opt_eqb N.eqb (rc_res a) (rc_res b) && amap_eqb ic_eqb (rc_issued a) (rc_issued b) && amap_eqb ic_eqb (rc_susp a) (rc_susp b).
Definition parent_eqb (a b : parent) : bool :=
  (p_handle a =? p_handle b) && (p_id a =? p_id b) && amap_eqb rc_eqb (p_classes a) (p_classes b)
  && amap_eqb child_eqb (p_children a) (p_children b) && (p_hist a =? p_hist b).

Definition pub_eqb (a b : publisher) : bool :=
  (pb_id a =? pb_id b) && uri_eqb (pb_jail a) (pb_jail b) && umap_eqb (pb_objs a) (pb_objs b).
Definition repo_eqb (a b : repo) : bool :=
  (r_id a =? r_id b) && amap_eqb pub_eqb (r_pubs a) (r_pubs b) && (r_ver a =? r_ver b).

Definition class_entry_eqb (a b : N * list (N * N)) : bool := (fst a =? fst b) && amap_eqb N.eqb (snd a) (snd b).
Definition reply_eqb (a b : reply) : bool :=
  match a, b with
  | RepList x, RepList y =>
      amap_eqb class_entry_eqb (map (fun '(r, e, cs) => (r, (e, cs))) x) (map (fun '(r, e, cs) => (r, (e, cs))) y)
  | RepIssue r k s, RepIssue r' k' s' => (r =? r') && (k =? k') && (s =? s')
  | RepRevoke r k, RepRevoke r' k' => (r =? r') && (k =? k')
  | _, _ => false
  end.
Definition preply_eqb (a b : preply) : bool :=
  match a, b with
  | PList x, PList y => umap_eqb x y
  | PSuccess, PSuccess | PError, PError => true
  | _, _ => false
  end.
Definition msg_eqb {R} (eqb : R -> R -> bool) (a b : msg R) : bool :=
  (sender a =? sender b) && (recipient a =? recipient b) && eqb (payload a) (payload b)
  && (signed_by a =? signed_by b) && Bool.eqb (intact a) (intact b).

(** Model outcome vs observed outcome: an [Errored] exchange looks like a refusal from outside. *)
Definition outcome_eqb {R} (eqb : R -> R -> bool) (model observed : outcome R) : bool :=
  match model, observed with
  | Refused, Refused | Errored _, Refused => true
  | Failed c, Failed c' => c =? c'
  | Served c r, Served c' r' => (c =? c') && msg_eqb eqb r r'
  | _, _ => false
  end.

(** ** Cases *)
Inductive case :=
| C6492 (pre : parent) (ua : N) (m : msg req) (corrupt same : bool) (post : parent) (out : outcome reply)
| C8181 (pre : repo) (m : msg query) (corrupt same : bool) (post : repo) (out : outcome preply)
  (** one [ca_sync_parent] of a CA whose parent is local: the requests the parent state shows to have been
      served (derived by the harness from the state difference; a sync that ended in an error without any
      trace at the parent is recorded as its first request, the list query), and as which child *)
| CLocal (pre : parent) (cl : caller) (reqs : list req) (post : parent) (served_as : option handle)
  (** one repository exchange ([update_repo] with check / [cas_repo_sync_single]) of a CA whose repository is
      local: the queries the repository state shows to have been served (a list query, then one delta derived
      from the difference of the publisher's objects; an exchange that ended in an error: the list query), and
      as which publisher *)
| CLocal8181 (pre : repo) (cl : caller) (qs : list query) (post : repo) (served_as : option handle)
  (** one [ca_sync_parent] of a CA whose parent is the embedded trust anchor: the TA proxy's child table before and
      after, the requests it shows to have been served (list; a request queued or a waiting response handed out,
      per key), and as which child *)
| CLocalTa (pre : taproxy) (cl : caller) (reqs : list req) (post : taproxy) (served_as : option handle)
  (** one [ca_child_update] for child [c] (a new ID certificate, a new resource set, or both in ONE request; [ok] =
      it returned without error), the parent right after it ([mid]), and the signed requests sent next, in order
      (user agent, message, parent afterwards, outcome) - at least one signed with the key registered before the
      update and one signed with the key of the ID certificate the update carried *)
| CUpdChild (pre : parent) (c : handle) (u : child_upd) (ok : bool) (mid : parent)
            (probes : list (N * msg req * parent * outcome reply))
  (** one [create_publisher] for handle [h] with ID key [k] ([ok] = no error) *)
| CAddPub (pre : repo) (h : handle) (k : key) (ok : bool) (post : repo).

(** What the model may be given for an observed message: untouched bytes are intact; flipped bytes
    are not intact - unless they still decode to the identical content, in which case either. *)
Definition variants {P} (m : msg P) (corrupt same : bool) : list (msg P) :=
  if corrupt then corrupted m :: (if same then [m] else []) else [m].

Fixpoint local_run (st : parent) (cl : caller) (reqs : list req) : parent * option handle :=
  match reqs with
  | [] => (st, None)
  | r :: rest =>
      let (st', o) := local6492 st cl r in
      let (st'', who) := local_run st' cl rest in
      (st'', match who with Some c => Some c | None => match o with Served c _ | Failed c => Some c | _ => None end end)
  end.

Fixpoint local8181_run (rp : repo) (cl : caller) (qs : list query) : repo * option handle :=
  match qs with
  | [] => (rp, None)
  | q :: rest =>
      let (rp', o) := local8181 rp cl q in
      let (rp'', who) := local8181_run rp' cl rest in
      (rp'', match who with Some h => Some h | None => match o with Served h _ => Some h | _ => None end end)
  end.

Fixpoint ta_run (st : taproxy) (cl : caller) (reqs : list req) : taproxy * option handle :=
  match reqs with
  | [] => (st, None)
  | r :: rest =>
      let (st', o) := ta_local6492 st cl r in
      let (st'', who) := ta_run st' cl rest in
      (st'', match who with Some c => Some c | None => match o with Some _ => Some (cl_contact_child cl) | None => None end end)
  end.

Definition nb_eqb (a b : N * bool) : bool := (fst a =? fst b) && Bool.eqb (snd a) (snd b).
Definition tachild_eqb (a b : tachild) : bool :=
  (tc_id a =? tc_id b) && (tc_ent a =? tc_ent b) && amap_eqb uk_eqb (tc_used a) (tc_used b)
  && amap_eqb Bool.eqb (tc_open_req a) (tc_open_req b) && amap_eqb Bool.eqb (tc_open_resp a) (tc_open_resp b)
  && opt_eqb nb_eqb (tc_last a) (tc_last b).
Definition ta_eqb (a b : taproxy) : bool := amap_eqb tachild_eqb (ta_children a) (ta_children b) && (ta_hist a =? ta_hist b).

Fixpoint probes_agree (st : parent) (ps : list (N * msg req * parent * outcome reply)) : bool :=
  match ps with
  | [] => true
  | (ua, m, post, out) :: r =>
      (let (st', o) := rfc6492 ideal_validate st ua m in parent_eqb st' post && outcome_eqb reply_eqb o out)
      && probes_agree post r
  end.

Definition agrees (c : case) : bool :=
  match c with
  | C6492 pre ua m corrupt same post out =>
      existsb (fun m' => let (st', o) := rfc6492 ideal_validate pre ua m' in
                         parent_eqb st' post && outcome_eqb reply_eqb o out) (variants m corrupt same)
  | C8181 pre m corrupt same post out =>
      existsb (fun m' => let (rp', o) := rfc8181 ideal_validate pre m' in
                         repo_eqb rp' post && outcome_eqb preply_eqb o out) (variants m corrupt same)
  | CLocal pre cl reqs post who =>
      let (st', w) := local_run pre cl reqs in parent_eqb st' post && opt_eqb N.eqb w who
  | CLocal8181 pre cl qs post who =>
      let (rp', w) := local8181_run pre cl qs in repo_eqb rp' post && opt_eqb N.eqb w who
  | CLocalTa pre cl reqs post who =>
      let (st', w) := ta_run pre cl reqs in ta_eqb st' post && opt_eqb N.eqb w who
  | CUpdChild pre c u ok mid probes =>
      (let (st', ok') := child_update c u pre in parent_eqb st' mid && Bool.eqb ok ok') && probes_agree mid probes
  | CAddPub pre h k ok post =>
      let (rp', ok') := create_publisher h k pre in repo_eqb rp' post && Bool.eqb ok ok'
  end.

(** ** Oracle 1: [c12_ok] - acted upon => signed by the key registered for the claimed sender and
    identical to what was signed; refused => state and history unchanged
    (acts_only_for_registered_key, refused_no_change; local path: local_acts_only_for_registered_key, local_refused_no_change). *)
Definition registered_key_is (st : parent) (c : handle) (k : key) : bool :=
  match aget c (p_children st) with Some ch => ch_id ch =? k | None => false end.
Definition publisher_key_is (rp : repo) (h : handle) (k : key) : bool :=
  match aget h (r_pubs rp) with Some pb => pb_id pb =? k | None => false end.

(** After a child update. The key that has to be registered for child [c] afterwards is decided here, from the
    request alone and NOT from what the server shows: an update that carried an ID certificate and returned
    without error leaves the new key registered, whatever else it carried; one without an ID certificate leaves
    the key alone. (An update with an ID certificate that returned an error may have stopped before or after the
    ID part: either key, and the probes are judged by what is registered.) *)
Definition registered_key (st : parent) (c : handle) : option key := option_map ch_id (aget c (p_children st)).
Definition key_after_update (pre : parent) (c : handle) (u : child_upd) (ok : bool) : option key :=
  match aget c (p_children pre) with
  | None => None
  | Some ch => match u_id u with Some k => if ok then Some k else None | None => Some (ch_id ch) end
  end.
Definition upd_key_ok (pre : parent) (c : handle) (u : child_upd) (ok : bool) (mid : parent) : bool :=
  match aget c (p_children pre) with
  | None => negb (amem c (p_children mid))
  | Some ch => match key_after_update pre c u ok, u_id u with
               | Some k, _ => registered_key_is mid c k
               | None, Some k => registered_key_is mid c k || registered_key_is mid c (ch_id ch)
               | None, None => false
               end
  end.
(** Every request after the update: acted upon only if signed with the key that has to be registered for its sender
    (for [c]: the key decided above); refused: nothing changed - and an intact list request signed with exactly
    that key must not be refused. *)
Fixpoint probes_ok (kexp : option key) (c : handle) (st : parent) (ps : list (N * msg req * parent * outcome reply)) : bool :=
  match ps with
  | [] => true
  | (ua, m, post, out) :: r =>
      let k := if sender m =? c then match kexp with Some k => Some k | None => registered_key st c end
               else registered_key st (sender m) in
      match out with
      | Refused => parent_eqb st post &&
                   negb (match payload m with RList => true | _ => false end && intact m && opt_eqb N.eqb k (Some (signed_by m)))
      | Errored c' | Failed c' | Served c' _ => (c' =? sender m) && opt_eqb N.eqb k (Some (signed_by m)) && intact m
      | Panicked => false
      end && probes_ok kexp c post r
  end.

Definition c12_ok (c : case) : bool :=
  match c with
  | C6492 pre _ m corrupt same post out =>
      match out with
      | Refused => parent_eqb pre post
      | Errored c | Failed c | Served c _ =>
          (c =? sender m) && registered_key_is pre (sender m) (signed_by m) && (negb corrupt || same)
      | Panicked => false
      end
  | C8181 pre m corrupt same post out =>
      match out with
      | Refused => repo_eqb pre post
      | Errored h | Failed h | Served h _ =>
          (h =? sender m) && publisher_key_is pre (sender m) (signed_by m) && (negb corrupt || same)
      | Panicked => false
      end
  | CLocal pre cl _ post who =>
      match who with
      | None => parent_eqb pre post                       (* refused: nothing changes at the parent *)
      | Some c => registered_key_is pre c (cl_id cl)
      end
  | CLocal8181 pre cl _ post who =>
      match who with
      | None => repo_eqb pre post                         (* refused: nothing changes at the repository *)
      | Some h => publisher_key_is pre h (cl_id cl)
      end
  | CLocalTa pre cl _ post who =>
      match who with
      | None => ta_eqb pre post                           (* refused: no queued request, no status entry *)
      | Some c => match aget c (ta_children pre) with Some ch => tc_id ch =? cl_id cl | None => false end
      end
  | CUpdChild pre c u ok mid probes =>
      upd_key_ok pre c u ok mid && probes_ok (key_after_update pre c u ok) c mid probes
  | CAddPub pre h k ok post =>
      if ok then publisher_key_is post h k && negb (amem h (r_pubs pre)) else repo_eqb pre post
  end.

(** ** Oracle 2: [c12_confined] - the boolean form of [confined] / [confined8181] plus the
    reply-level statements (issue_within_entitlement, publish_within_jail). *)
Definition keys_of {V} (a b : list (N * V)) : list N := map fst a ++ map fst b.

Definition used_rel_b (b : bool) (u0 u : option ukstate) : bool :=
  opt_eqb uk_eqb u u0 || (match u with Some Revoked => b | _ => false end).
Definition cert_rel_b (ent : N) (b : bool) (i0 i : option icert) : bool :=
  opt_eqb ic_eqb i i0 || match i with Some ic => subset (ic_res ic) ent | None => b end.
Definition susp_rel_b (s0 s : option icert) : bool :=
  opt_eqb ic_eqb s s0 || match s with None => true | Some _ => false end.

Definition child_rel_b (inuse0 : N -> bool) (strict : bool) (x y : child) : bool :=
  (ch_id y =? ch_id x) && (ch_ent y =? ch_ent x) &&
  (negb strict ||
   (Bool.eqb (ch_susp y) (ch_susp x) && opt_eqb last_eqb (ch_last y) (ch_last x) &&
    forallb (fun k => used_rel_b (inuse0 k) (aget k (ch_used x)) (aget k (ch_used y))) (keys_of (ch_used x) (ch_used y)))).
Definition class_rel_b (ent : N) (inuse0 : N -> bool) (x y : rclass) : bool :=
  opt_eqb N.eqb (rc_res y) (rc_res x) &&
  forallb (fun k => cert_rel_b ent (inuse0 k) (aget k (rc_issued x)) (aget k (rc_issued y))) (keys_of (rc_issued x) (rc_issued y)) &&
  forallb (fun k => susp_rel_b (aget k (rc_susp x)) (aget k (rc_susp y))) (keys_of (rc_susp x) (rc_susp y)).
Definition opt_rel_b {A} (f : A -> A -> bool) (a b : option A) : bool :=
  match a, b with None, None => true | Some x, Some y => f x y | _, _ => false end.

Definition confined_b (ent : N) (inuse0 : N -> bool) (c : handle) (st0 st : parent) : bool :=
  (p_handle st =? p_handle st0) && (p_id st =? p_id st0) &&
  forallb (fun c' => opt_rel_b (child_rel_b inuse0 (negb (c' =? c))) (aget c' (p_children st0)) (aget c' (p_children st)))
          (keys_of (p_children st0) (p_children st)) &&
  forallb (fun r => opt_rel_b (class_rel_b ent inuse0) (aget r (p_classes st0)) (aget r (p_classes st)))
          (keys_of (p_classes st0) (p_classes st)).

Definition pub_rel_b (x y : publisher) : bool :=
  (pb_id y =? pb_id x) && uri_eqb (pb_jail y) (pb_jail x) &&
  forallb (fun u => opt_eqb N.eqb (uget u (pb_objs y)) (uget u (pb_objs x)) || prefix_b (pb_jail x) u)
          (map fst (pb_objs x) ++ map fst (pb_objs y)).
Definition confined8181_b (h : handle) (rp0 rp : repo) : bool :=
  (r_id rp =? r_id rp0) &&
  forallb (fun h' => if h' =? h then opt_rel_b pub_rel_b (aget h' (r_pubs rp0)) (aget h' (r_pubs rp))
                     else opt_eqb pub_eqb (aget h' (r_pubs rp)) (aget h' (r_pubs rp0)))
          (keys_of (r_pubs rp0) (r_pubs rp)).

Definition confined_for (pre post : parent) (c : handle) : bool :=
  match aget c (p_children pre) with
  | Some ch0 => confined_b (ch_ent ch0) (is_issued ch0) c pre post
  | None => parent_eqb pre post
  end.

(** The jail is derived from the HANDLE ([jail_of]: the directory named like the handle, for every handle other
    than exactly "ta"), not from the base URI the server stores or reports. *)
Definition own_dir_b (h : handle) (rp0 rp : repo) : bool :=
  match aget h (r_pubs rp0), aget h (r_pubs rp) with
  | Some x, Some y =>
      forallb (fun u => opt_eqb N.eqb (uget u (pb_objs y)) (uget u (pb_objs x)) || prefix_b (jail_of h) u)
              (map fst (pb_objs x) ++ map fst (pb_objs y))
  | _, _ => true
  end.

(** What a child update may change: identity and entitlement of child [c] - nothing else. *)
Definition upd_confined (pre : parent) (c : handle) (u : child_upd) (ok : bool) (mid : parent) : bool :=
  (p_handle mid =? p_handle pre) && (p_id mid =? p_id pre) && amap_eqb rc_eqb (p_classes pre) (p_classes mid) &&
  forallb (fun c' => if c' =? c
                     then match aget c (p_children pre), aget c (p_children mid) with
                          | Some x, Some y =>
                              amap_eqb uk_eqb (ch_used x) (ch_used y) && Bool.eqb (ch_susp x) (ch_susp y)
                              && opt_eqb last_eqb (ch_last x) (ch_last y)
                              && match u_res u with
                                 | Some r => if ok then ch_ent y =? r else (ch_ent y =? r) || (ch_ent y =? ch_ent x)
                                 | None => ch_ent y =? ch_ent x
                                 end
                          | None, None => true
                          | _, _ => false
                          end
                     else opt_eqb child_eqb (aget c' (p_children mid)) (aget c' (p_children pre)))
          (keys_of (p_children pre) (p_children mid)).
Fixpoint probes_confined (st : parent) (ps : list (N * msg req * parent * outcome reply)) : bool :=
  match ps with
  | [] => true
  | (_, m, post, _) :: r => confined_for st post (sender m) && probes_confined post r
  end.

Definition c12_confined (c : case) : bool :=
  match c with
  | C6492 pre _ m _ _ post out =>
      confined_for pre post (sender m) &&
      match out, payload m with
      | Served _ r, RIssue _ _ _ _ =>
          match payload r, aget (sender m) (p_children pre) with
          | RepIssue _ _ res, Some ch0 => subset res (ch_ent ch0)
          | _, _ => false
          end
      | _, _ => true
      end
  | C8181 pre m _ _ post out =>
      (confined8181_b (sender m) pre post || repo_eqb pre post) && own_dir_b (sender m) pre post &&
      match out, payload m, aget (sender m) (r_pubs pre) with
      | Served _ r, QDelta d, Some pb =>
          match payload r with
          | PSuccess => forallb (fun e => prefix_b (pb_jail pb) (elem_uri e) && prefix_b (jail_of (sender m)) (elem_uri e)) d
          | _ => repo_eqb pre post
          end
      | _, _, _ => true
      end
  | CLocal pre cl _ post _ => confined_for pre post (cl_contact_child cl)
  | CLocal8181 pre cl _ post _ => (confined8181_b (cl_handle cl) pre post || repo_eqb pre post) && own_dir_b (cl_handle cl) pre post
  | CLocalTa pre cl _ post _ =>
      forallb (fun c' => (c' =? cl_contact_child cl) || opt_eqb tachild_eqb (aget c' (ta_children post)) (aget c' (ta_children pre)))
              (keys_of (ta_children pre) (ta_children post))
  | CUpdChild pre c u ok mid probes => upd_confined pre c u ok mid && probes_confined mid probes
  | CAddPub pre h k ok post =>
      if ok then
        match aget h (r_pubs post) with
        | Some pb => uri_eqb (pb_jail pb) (jail_of h) && match pb_objs pb with [] => true | _ => false end
        | None => false
        end &&
        (r_id post =? r_id pre) &&
        forallb (fun h' => (h' =? h) || opt_eqb pub_eqb (aget h' (r_pubs post)) (aget h' (r_pubs pre)))
                (keys_of (r_pubs pre) (r_pubs post))
      else repo_eqb pre post
  end.

(** ** Oracle 3: [c12_reply] - replies are signed with the server side's current identity key
    (reply_signed_with_current_id). *)
Definition reply_ok6492 (pre : parent) (m : msg req) (post : parent) (out : outcome reply) : bool :=
  match out with
  | Served c r => (signed_by r =? p_id pre) && (p_id post =? p_id pre) && intact r
                  && (sender r =? p_handle pre) && (recipient r =? sender m)
  | _ => true
  end.
Fixpoint probes_reply (st : parent) (ps : list (N * msg req * parent * outcome reply)) : bool :=
  match ps with
  | [] => true
  | (_, m, post, out) :: r => reply_ok6492 st m post out && probes_reply post r
  end.

Definition c12_reply (c : case) : bool :=
  match c with
  | C6492 pre _ m _ _ post out => reply_ok6492 pre m post out
  | C8181 pre m _ _ post out =>
      match out with
      | Served _ r => (signed_by r =? r_id pre) && (r_id post =? r_id pre) && intact r
      | _ => true
      end
  | CLocal _ _ _ _ _ => true
  | CLocal8181 _ _ _ _ _ => true
  | CLocalTa _ _ _ _ _ => true
  | CUpdChild _ _ _ _ mid probes => probes_reply mid probes
  | CAddPub _ _ _ _ _ => true
  end.

(** Indices of cases on which a predicate fails. *)
Fixpoint failing_from {A} (f : A -> bool) (i : N) (l : list A) : list N :=
  match l with
  | [] => []
  | x :: r => if f x then failing_from f (i + 1) r else i :: failing_from f (i + 1) r
  end.
Definition failing {A} (f : A -> bool) (base : N) (l : list A) : list N := failing_from f base l.

(** Self-test of the oracles on the F12a witness of IdentProofs.v (model-side). [f12a_case] is what the
    originally pinned tree did (regression witness: no longer explained by the model, and failing
    [c12_ok]); [f12a_repaired_case] is what the repaired tree does. *)
Definition f12a_case : case :=
  CLocal (mkParent 1 10 [(0, mkRC (Some 15) [] [])] [(2, mkChild 20 3 [] false None)] 5)
         (mkCaller 3 99 2) [RList; RIssue 0 7 None true]
         (mkParent 1 10 [(0, mkRC (Some 15) [(7, mkIC 3 None)] [])]
                   [(2, mkChild 20 3 [(7, InUse 0)] false (Some (0, true)))] 6)
         (Some 2).
Definition f12a_repaired_case : case :=
  let p := mkParent 1 10 [(0, mkRC (Some 15) [] [])] [(2, mkChild 20 3 [] false None)] 5 in
  CLocal p (mkCaller 3 99 2) [RList] p None.

(** The same for the F12b witness: what the pinned publication shortcut did, and what the repaired one does. *)
Definition f12b_case : case :=
  CLocal8181 (mkRepo 50 [(7, mkPub 70 [7] [([7; 1], 5)])] 0) (mkCaller 7 99 0) [QList; QDelta [EWdr [7; 1] 5]]
             (mkRepo 50 [(7, mkPub 70 [7] [])] 1) (Some 7).
Definition f12b_repaired_case : case :=
  let r := mkRepo 50 [(7, mkPub 70 [7] [([7; 1], 5)])] 0 in
  CLocal8181 r (mkCaller 7 99 0) [QList] r None.

(** Self-test for the two administrative cases: what a tree does that drops the ID certificate of an update which
    also carries resources (the update succeeds, the replaced key is still served, the new one refused), and what a
    tree does that gives a publisher whose handle merely starts like "ta" the whole repository as its jail. *)
Definition upd_parent : parent :=
  mkParent 2 10 [(0, mkRC (Some 255) [] [])] [(5, mkChild 20 3 [] false None); (6, mkChild 30 12 [] false None)] 7.
Definition upd_dropped_id_case : case :=
  let mid := mkParent 2 10 [(0, mkRC (Some 255) [] [])] [(5, mkChild 20 7 [] false None); (6, mkChild 30 12 [] false None)] 8 in
  let post := mkParent 2 10 [(0, mkRC (Some 255) [] [])] [(5, mkChild 20 7 [] false (Some (4, true))); (6, mkChild 30 12 [] false None)] 8 in
  CUpdChild upd_parent 5 (mkUpd (Some 21) (Some 7)) true mid
            [(4, mkMsg 5 2 RList 20 true, post, Served 5 (mkMsg 2 5 (RepList [(0, 7, [])]) 10 true));
             (5, mkMsg 5 2 RList 21 true, post, Refused)].
Definition upd_honest_case : case :=
  let mid := mkParent 2 10 [(0, mkRC (Some 255) [] [])] [(5, mkChild 21 7 [] false None); (6, mkChild 30 12 [] false None)] 9 in
  let post := mkParent 2 10 [(0, mkRC (Some 255) [] [])] [(5, mkChild 21 7 [] false (Some (5, true))); (6, mkChild 30 12 [] false None)] 9 in
  CUpdChild upd_parent 5 (mkUpd (Some 21) (Some 7)) true mid
            [(4, mkMsg 5 2 RList 20 true, mid, Refused);
             (5, mkMsg 5 2 RList 21 true, post, Served 5 (mkMsg 2 5 (RepList [(0, 7, [])]) 10 true))].
Definition wide_jail_add_case : case :=
  CAddPub (mkRepo 50 [(7, mkPub 70 [7] [])] 0) 8 80 true (mkRepo 50 [(8, mkPub 80 [] []); (7, mkPub 70 [7] [])] 1).
Definition wide_jail_publish_case : case :=
  C8181 (mkRepo 50 [(8, mkPub 80 [] []); (7, mkPub 70 [7] [])] 0) (mkMsg 8 0 (QDelta [EPub [7; 100] 3]) 80 true) false false
        (mkRepo 50 [(8, mkPub 80 [] [([7; 100], 3)]); (7, mkPub 70 [7] [])] 1) (Served 8 (mkMsg 0 0 PSuccess 50 true)).
Definition honest_add_case : case :=
  CAddPub (mkRepo 50 [(7, mkPub 70 [7] [])] 0) 8 80 true (mkRepo 50 [(8, mkPub 80 [8] []); (7, mkPub 70 [7] [])] 1).
