(** * ident/Msg.v - signed protocol messages and the CMS modelling assumption (C12)

    A provisioning (RFC 6492) or publication (RFC 8181) request as the server sees it after
    [ProvisioningCms::decode] / [PublicationCms::decode] (rpki-0.19.2 ca/provisioning.rs,
    ca/publication.rs): the decoded content (sender, recipient, payload) plus two facts about the
    CMS wrapper that the model does not compute but takes from the outside:

    - [signed_by] : the identity key whose private half produced the signature;
    - [intact]    : the bytes handed to the server decode, and decode to exactly the content that
                    was signed (no bit of signature, signed attributes or eContent was altered in
                    a way that changes what is decoded or invalidates the digest/signature).

    For RFC 8181 the message itself carries no handles: [sender] is the publisher handle of the
    request URL ([RepositoryManager::rfc8181]'s first argument, pubd/manager.rs:114-119) and is NOT
    covered by the signature; [recipient] is unused (0).

    Everything the model says about cryptography is the single assumption [cms_sound] about the
    validation function (a Section variable wherever it is used - never an axiom): validation under
    key k succeeds iff the message was signed by k and is intact. Unforgeability of RSA signatures
    and correctness of the DER/CMS decoder are NOT proved; the bit-flip sweep of the harness is
    testing. Definitions only. *)
From KV Require Import base.Tac.
Open Scope N_scope.

Definition key : Type := N.      (* identity keys, numbered by the harness by first appearance *)
Definition handle : Type := N.   (* CA / child / publisher handles, interned *)

Record msg (P : Type) : Type := mkMsg {
  sender : handle;
  recipient : handle;
  payload : P;
  signed_by : key;
  intact : bool }.
Arguments mkMsg {P}.
Arguments sender {P}.
Arguments recipient {P}.
Arguments payload {P}.
Arguments signed_by {P}.
Arguments intact {P}.

(** The same message after tampering that the decoder or the signature check can notice. *)
Definition corrupted {P} (m : msg P) : msg P :=
  mkMsg (sender m) (recipient m) (payload m) (signed_by m) false.

Definition validator (P : Type) : Type := key -> msg P -> bool.

Section Validation.
  Context {P : Type}.
  Variable validate : validator P.
  (** [SignedObject::validate] / [cms.validate(&id_cert.public_key)] as the model sees it. *)
  Definition cms_sound : Prop :=
    forall k m, validate k m = true <-> (signed_by m = k /\ intact m = true).
End Validation.

(** The validator used when observed cases are evaluated (IdentCheck.v); it satisfies [cms_sound]
    (IdentProofs.ideal_validate_sound). *)
Definition ideal_validate {P} : validator P := fun k m => (signed_by m =? k) && intact m.

(** ** Association lists (HashMap semantics: first match wins, insert replaces) *)
Fixpoint aget {V} (k : N) (l : list (N * V)) : option V :=
  match l with
  | [] => None
  | (k', v) :: r => if k' =? k then Some v else aget k r
  end.
Fixpoint aremove {V} (k : N) (l : list (N * V)) : list (N * V) :=
  match l with
  | [] => []
  | (k', v) :: r => if k' =? k then aremove k r else (k', v) :: aremove k r
  end.
Definition ainsert {V} (k : N) (v : V) (l : list (N * V)) : list (N * V) := (k, v) :: aremove k l.
Definition amem {V} (k : N) (l : list (N * V)) : bool := match aget k l with Some _ => true | None => false end.
Definition amap {V} (f : V -> V) (l : list (N * V)) : list (N * V) := map (fun '(k, v) => (k, f v)) l.
(** In-place update of the value stored under [k] (no-op when absent). *)
Definition aupd {V} (k : N) (f : V -> V) (l : list (N * V)) : list (N * V) :=
  map (fun '(k', v) => if k' =? k then (k', f v) else (k', v)) l.

(** Resource sets are atom bit masks (DESIGN.md section 3, Bits). *)
Definition subset (a b : N) : bool := N.land a b =? a.
