(** Abstract relying party (C01): top-down validation of a repository of abstract objects, starting
    from the trust anchor certificate.

    What is checked is what RFC 6487 / 9286 / 6482 / 8209 and the ASPA profile require at this level of
    abstraction: the signature bit (set by the harness from the real cryptographic checks of the [rpki]
    crate), issuer key = subject key of the CA certificate under which the object is found, validity
    window contains [now], serial not on the issuer's current CRL, resources within the issuer's, a
    current manifest that lists the directory content with matching hashes, the CRL named by the
    manifest's EE certificate listed on the manifest and current.

    Identities are interned by the harness: keys, file names, directories (the URI up to the last
    slash), hashes (content identity) and prefixes are numbers; resource sets are atom bit masks.
    Recursion is on explicit fuel (the depth of the tree); running out of fuel is reported in the result
    and excluded by the theorem statements. No proofs in this file. *)
From KV Require Import base.Tac.
Open Scope N_scope.

(** * Objects *)
Definition uri : Type := (N * N)%type.                 (* directory id, file name id *)
Definition uri_eqb (a b : uri) : bool := (fst a =? fst b) && (snd a =? snd b).

Definition subset (a b : N) : bool := N.land a b =? a.

(** What a CA certificate says about its holder. *)
Record cainfo := mkCI {
  ci_key : N;                                           (* subject key *)
  ci_res : N;                                           (* resources (atom mask) *)
  ci_dir : N;                                           (* SIA caRepository *)
  ci_mft : N }.                                         (* file name of SIA rpkiManifest (inside ci_dir) *)

Record vrp := mkVrp { v_asn : N; v_pfx : N; v_max : N }.
Definition vrp_eqb (a b : vrp) : bool := (v_asn a =? v_asn b) && (v_pfx a =? v_pfx b) && (v_max a =? v_max b).

Inductive body :=
| BCa (c : cainfo)
| BMft (num : N) (crl : N) (entries : list (N * N))     (* number; file name of the CRL its EE certificate points to; (file name, hash) *)
| BCrl (num : N) (revoked : list N)
| BRoa (asn : N) (pfxs : list (N * N)) (res : N)        (* (prefix id, effective max length); resources of the EE certificate *)
| BAspa (customer : N) (providers : list N) (res : N)
| BRouter (asn : N) (key : N) (res : N)                 (* router certificate: AS number, router key, AS resources *)
| BOther.                                                (* anything that does not decode as one of the above *)

Record robj := mkRO {
  r_issuer : N;                                         (* authority key *)
  r_serial : N;                                         (* serial of the (EE) certificate; unused for CRLs *)
  r_from : Z; r_until : Z;                              (* validity window / this-update, next-update *)
  r_sig : bool;                                         (* all cryptographic and profile checks of the decoder passed *)
  r_hash : N;                                           (* content identity *)
  r_body : body }.

Definition repo : Type := list (uri * robj).

Fixpoint lookup (u : uri) (r : repo) : option robj :=
  match r with
  | [] => None
  | (u', o) :: r' => if uri_eqb u' u then Some o else lookup u r'
  end.

(** * Verdicts *)
Inductive reason :=
| RNoManifest | RNotManifest | RNoCrl | RCrlUnlisted | RNotCrl
| RWrongIssuer | RBadSig | RNotCurrent | RRevoked | ROverclaim | RBadHash | RUnknownType.

Definition reason_code (r : reason) : N :=
  match r with
  | RNoManifest => 1 | RNotManifest => 2 | RNoCrl => 3 | RCrlUnlisted => 4 | RNotCrl => 5
  | RWrongIssuer => 6 | RBadSig => 7 | RNotCurrent => 8 | RRevoked => 9 | ROverclaim => 10 | RBadHash => 11
  | RUnknownType => 12
  end.

Record result := mkRes {
  accepted : list uri;
  rejected : list (uri * reason);
  missing : list uri;                                   (* listed on a valid manifest, not in the repository *)
  listed : list uri;                                    (* everything a visited manifest lists, and the manifests themselves *)
  dirs : list N;                                        (* directories of the CA certificates that were accepted *)
  vrps : list vrp;
  aspas : list (N * list N);
  rkeys : list (N * N);
  nofuel : bool }.

Definition rempty : result := mkRes [] [] [] [] [] [] [] [] false.
Definition rapp (a b : result) : result :=
  mkRes (accepted a ++ accepted b) (rejected a ++ rejected b) (missing a ++ missing b) (listed a ++ listed b)
        (dirs a ++ dirs b) (vrps a ++ vrps b) (aspas a ++ aspas b) (rkeys a ++ rkeys b) (nofuel a || nofuel b).
Definition racc (u : uri) : result := mkRes [u] [] [] [] [] [] [] [] false.
Definition rrej (u : uri) (why : reason) : result := mkRes [] [(u, why)] [] [] [] [] [] [] false.
Definition rmiss (u : uri) : result := mkRes [] [] [u] [] [] [] [] [] false.

Definition current (now : Z) (o : robj) : bool := (r_from o <=? now)%Z && (now <? r_until o)%Z.

(** Checks common to everything found under a CA certificate. *)
Definition check_signed (now : Z) (ca : cainfo) (o : robj) : option reason :=
  if negb (r_issuer o =? ci_key ca) then Some RWrongIssuer
  else if negb (r_sig o) then Some RBadSig
  else if negb (current now o) then Some RNotCurrent
  else None.

Definition body_res (b : body) : N :=
  match b with
  | BCa c => ci_res c
  | BRoa _ _ r | BAspa _ _ r | BRouter _ _ r => r
  | _ => 0
  end.

(** A certificate or signed object listed on the manifest of [ca]. *)
Definition check_object (now : Z) (ca : cainfo) (revoked : list N) (o : robj) : option reason :=
  match check_signed now ca o with
  | Some why => Some why
  | None =>
      if existsb (N.eqb (r_serial o)) revoked then Some RRevoked
      else if negb (subset (body_res (r_body o)) (ci_res ca)) then Some ROverclaim
      else None
  end.

(** The publication point of [ca]: its manifest and the CRL the manifest's EE certificate names.
    Ok (manifest entries, CRL file name, revoked serials) or the reason the whole point is unusable. *)
Inductive ppres := PPOk (entries : list (N * N)) (crl : N) (revoked : list N) | PPErr (why : reason).

Definition pub_point (now : Z) (rp : repo) (ca : cainfo) : ppres :=
  match lookup (ci_dir ca, ci_mft ca) rp with
  | None => PPErr RNoManifest
  | Some m =>
      match r_body m with
      | BMft _ crl entries =>
          match check_signed now ca m with
          | Some why => PPErr why
          | None =>
              match find (fun e => fst e =? crl) entries with
              | None => PPErr RCrlUnlisted
              | Some (_, h) =>
                  match lookup (ci_dir ca, crl) rp with
                  | None => PPErr RNoCrl
                  | Some c =>
                      match r_body c with
                      | BCrl _ revoked =>
                          if negb (r_hash c =? h) then PPErr RBadHash
                          else match check_signed now ca c with
                               | Some why => PPErr why
                               | None => if existsb (N.eqb (r_serial m)) revoked then PPErr RRevoked
                                         else PPOk entries crl revoked
                               end
                      | _ => PPErr RNotCrl
                      end
                  end
              end
          end
      | _ => PPErr RNotManifest
      end
  end.

(** Payload of an accepted object. *)
Definition payload (u : uri) (o : robj) : result :=
  match r_body o with
  | BRoa asn pfxs _ => mkRes [u] [] [] [] [] (map (fun '(p, m) => mkVrp asn p m) pfxs) [] [] false
  | BAspa c ps _ => mkRes [u] [] [] [] [] [] [(c, ps)] [] false
  | BRouter asn k _ => mkRes [u] [] [] [] [] [] [] [(asn, k)] false
  | _ => racc u
  end.

Fixpoint validate_ca (fuel : nat) (now : Z) (rp : repo) (ca : cainfo) : result :=
  match fuel with
  | O => mkRes [] [] [] [] [] [] [] [] true
  | S f =>
      let mu := (ci_dir ca, ci_mft ca) in
      match pub_point now rp ca with
      | PPErr why => mkRes [] [(mu, why)] [] [mu] [ci_dir ca] [] [] [] false
      | PPOk entries crl revoked =>
          let here := mkRes [mu] [] [] (mu :: map (fun e => (ci_dir ca, fst e)) entries) [ci_dir ca] [] [] [] false in
          fold_left (fun acc '(name, h) =>
            let u := (ci_dir ca, name) in
            rapp acc
              match lookup u rp with
              | None => rmiss u
              | Some o =>
                  if negb (r_hash o =? h) then rrej u RBadHash
                  else if name =? crl then racc u
                  else match r_body o with
                       | BMft _ _ _ | BCrl _ _ | BOther => rrej u RUnknownType
                       | BCa c =>
                           match check_object now ca revoked o with
                           | Some why => rrej u why
                           | None => rapp (racc u) (validate_ca f now rp c)
                           end
                       | _ =>
                           match check_object now ca revoked o with
                           | Some why => rrej u why
                           | None => payload u o
                           end
                       end
              end) entries here
      end
  end.

(** Files in a directory the relying party fetched that no visited manifest lists. *)
Definition unlisted (rp : repo) (r : result) : list uri :=
  filter (fun u => existsb (N.eqb (fst u)) (dirs r) && negb (existsb (uri_eqb u) (listed r))) (map fst rp).

Record report := mkRep { rep_res : result; rep_unlisted : list uri }.

Definition validate (fuel : nat) (now : Z) (rp : repo) (ta : cainfo) : report :=
  let r := validate_ca fuel now rp ta in mkRep r (unlisted rp r).
