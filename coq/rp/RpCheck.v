(** Correspondence checker and executable oracle for C01.

    One case = one quiescent point of a history on the real code (background tasks pumped until nothing
    is due): the abstracted REAL repository content (every publisher's current files), the trust anchor
    certificate, the time of the observation, the verdicts and payload sets of the harness's own top-down
    validation with the [rpki] crate (real signatures, hashes, resource sets), the payload sets expected
    from the API's configured view and the CAs' current certificates, the objects the API reports, the
    RRDP snapshot, and the ROA, ASPA and router-certificate derivation steps (create_updates / renewal) observed
    since the previous quiescent point.

    [agrees]: the model relying party ([Rp.validate] evaluated here) accepts and rejects exactly what
    the reference validation accepts and rejects and produces the same payload sets; the model of the ROA
    derivation predicts exactly the stored ROA updates and the resulting ROA state.
    [c01_ok]: the executable form of the property on what the implementation published. *)
From KV Require Import base.Tac ca.Ca rp.Rp rp.RoaDerive.
Open Scope N_scope.

(** ** Finite sets as lists *)
Definition sub_by {A} (eqb : A -> A -> bool) (a b : list A) : bool := forallb (fun x => existsb (eqb x) b) a.
Definition seq_by {A} (eqb : A -> A -> bool) (a b : list A) : bool := sub_by eqb a b && sub_by eqb b a.

Definition pair_eqb (a b : N * N) : bool := (fst a =? fst b) && (snd a =? snd b).
Definition aspa_eqb (a b : N * list N) : bool := (fst a =? fst b) && nlist_eqb (snd a) (snd b).
Definition uh_eqb (a b : uri * N) : bool := uri_eqb (fst a) (fst b) && (snd a =? snd b).

(** ** ROA derivation steps *)
Record dcase := mkD {
  d_deagg : N; d_agg : N;                                   (* roa_deaggregate_threshold, roa_aggregate_threshold *)
  d_cert : N;                                               (* resources of the certificate create_updates was given *)
  d_asn : list (N * N); d_res : list (N * N);               (* payload -> origin AS, payload -> atoms of its prefix *)
  d_routes : list N;                                        (* configured payloads when the derivation ran *)
  d_pre_simple : list N; d_pre_aggr : list (N * list N);    (* ROAs of the class before: simple keys, aggregate (AS, authorisations) *)
  d_renew : bool;                                           (* key-roll activation: renewal instead of derivation *)
  d_upd : list N; d_rem : list N;                           (* the stored RoasUpdated event (all empty if none was stored) *)
  d_aupd : list (N * list N); d_arem : list N;
  d_post_simple : list N; d_post_aggr : list (N * list N) }.

Definition tbl (t : list (N * N)) (k : N) : N := match aget k t with Some v => v | None => 0 end.
Definition dummy : obj := mkObj 0 0 0%Z.
Definition d_roas (simple : list N) (aggr : list (N * list N)) : roas :=
  mkRoas (map (fun k => (k, mkRI [k] dummy)) simple) (map (fun '(a, l) => (a, mkRI l dummy)) aggr).
Definition aggr_view (l : list (N * rinfo)) : list (N * list N) := map (fun '(a, i) => (a, isort (ri_auths i))) l.
Definition sorted_view (l : list (N * list N)) : list (N * list N) := map (fun '(a, x) => (a, isort x)) l.

(** The renewal of a key-roll activation is [renewal_fixed] under the NEW key's certificate ([d_cert] of a renewal
    step), the code of record since the repair of F04c (0ff85b31). *)
Definition d_model_updates (d : dcase) : option rupd :=
  let r := d_roas (d_pre_simple d) (d_pre_aggr d) in
  if d_renew d then Some (renewal_fixed (tbl (d_res d)) id id (fun _ _ => dummy) (d_cert d) r)
  else create_updates (tbl (d_asn d)) (tbl (d_res d)) id id (fun _ _ => dummy) r (d_routes d) (d_cert d) (d_deagg d) (d_agg d).

Definition derive_agrees (d : dcase) : bool :=
  match d_model_updates d with
  | None => false
  | Some u =>
      let r' := apply_updates (d_roas (d_pre_simple d) (d_pre_aggr d)) u in
      seq_by N.eqb (map fst (u_upd u)) (d_upd d) && seq_by N.eqb (u_rem u) (d_rem d)
      && seq_by aspa_eqb (aggr_view (u_aupd u)) (sorted_view (d_aupd d)) && seq_by N.eqb (u_arem u) (d_arem d)
      && seq_by N.eqb (map fst (ro_simple r')) (d_post_simple d)
      && seq_by aspa_eqb (aggr_view (ro_aggr r')) (sorted_view (d_post_aggr d))
  end.

(** What the theorems of L1 say about the state the IMPLEMENTATION reached: never simple and aggregate ROAs side by side;
    after a derivation the ROAs carry exactly the configured payloads the certificate holds; after the renewal of a
    key-roll activation exactly the payloads carried before that the new key's certificate holds
    ([renewal_fixed_exact]); a simple ROA carries its own payload, an aggregate ROA payloads of its AS only. *)
Definition derive_ok (d : dcase) : bool :=
  (match d_post_simple d, d_post_aggr d with [], _ | _, [] => true | _, _ => false end)
  && forallb (fun '(a, l) => match l with [] => false | _ => forallb (fun p => tbl (d_asn d) p =? a) l end) (d_post_aggr d)
  && seq_by N.eqb (d_post_simple d ++ flat_map snd (d_post_aggr d))
       (if d_renew d then filter (held (tbl (d_res d)) (d_cert d)) (d_pre_simple d ++ flat_map snd (d_pre_aggr d))
        else relevant (tbl (d_res d)) (d_routes d) (d_cert d)).

(** ** ASPA and router-certificate derivation steps *)
Record acase := mkA {
  a_cert : N;                                               (* resources of the certificate the step ran under (the NEW one) *)
  a_res : list (N * N);                                     (* customer AS -> atoms *)
  a_defs : list (N * list N);                               (* configured definitions when the step ran *)
  a_pre : list (N * list N);                                (* ASPA objects of the class before: customer, providers *)
  a_renew : bool;                                           (* key-roll activation *)
  a_upd : list (N * list N); a_rem : list N;                (* the stored AspaObjectsUpdated event (empty if none was stored) *)
  a_post : list (N * list N) }.

Definition a_objs (l : list (N * list N)) : aobjs := map (fun '(c, ps) => (c, mkAI ps dummy)) l.
Definition a_view (o : list (N * ainfo)) : list (N * list N) := map (fun '(c, i) => (c, ai_providers i)) o.
Definition a_model (a : acase) : option (list (N * ainfo) * list N) :=
  if a_renew a then Some (aspa_renewal (tbl (a_res a)) (fun _ _ => dummy) (a_cert a) (a_objs (a_pre a)))
  else aspa_create_updates (tbl (a_res a)) (fun _ _ => dummy) (fun _ _ => true) (a_objs (a_pre a)) (a_defs a) (a_cert a).
Definition aspa_agrees (a : acase) : bool :=
  match a_model a with
  | None => false
  | Some u => seq_by aspa_eqb (a_view (fst u)) (a_upd a) && seq_by N.eqb (snd u) (a_rem a)
              && seq_by aspa_eqb (a_view (aspa_apply (a_objs (a_pre a)) u)) (a_post a)
  end.
(** [aspa_exact] / [aspa_renewal_contained] on the implementation's state: after a derivation exactly the configured
    definitions whose customer the certificate holds; after an activation the objects held before, within the new
    certificate. *)
Definition aspa_ok (a : acase) : bool :=
  seq_by aspa_eqb (a_post a)
    (filter (fun '(c, _) => aheld (tbl (a_res a)) (a_cert a) c) (if a_renew a then a_pre a else a_defs a)).

Record bcase := mkB {
  b_cert : N; b_res : list (N * N);                         (* (AS, key) pair -> atoms of the AS *)
  b_defs : list N; b_pre : list N; b_renew : bool;
  b_upd : list N; b_rem : list N; b_post : list N }.
Definition b_objs (l : list N) : list (N * obj) := map (fun k => (k, dummy)) l.
Definition b_model (b : bcase) : list (N * obj) * list N :=
  if b_renew b then bgp_renewal (tbl (b_res b)) (fun _ => dummy) (b_cert b) (b_objs (b_pre b))
  else bgp_create_updates (tbl (b_res b)) (fun _ => dummy) (b_objs (b_pre b)) (b_defs b) (b_cert b).
Definition bgp_agrees (b : bcase) : bool :=
  let u := b_model b in
  (if b_renew b then seq_by N.eqb (map fst (fst u)) (b_upd b) else seq_by N.eqb (map fst (fst u)) (b_upd b))
  && seq_by N.eqb (snd u) (b_rem b)
  && seq_by N.eqb (map fst (bgp_apply (b_objs (b_pre b)) u)) (b_post b).
Definition bgp_ok (b : bcase) : bool :=
  seq_by N.eqb (b_post b) (filter (bheld (tbl (b_res b)) (b_cert b)) (if b_renew b then b_pre b else b_defs b)).

(** ** The case *)
Record case := mkCase {
  k_now : Z;
  k_ta : cainfo;
  k_fuel : N;
  k_repo : repo;
  (* the harness's own validation with the rpki crate *)
  k_ref_acc : list uri; k_ref_rej : list uri; k_ref_missing : list uri;
  k_ref_vrps : list vrp; k_ref_aspas : list (N * list N); k_ref_rkeys : list (N * N);
  (* expected from the API's configured view and the current certificates of the connected CAs *)
  k_exp_vrps : list vrp; k_exp_aspas : list (N * list N); k_exp_rkeys : list (N * N);
  (* objects the API reports (uri, content identity): configured_roas[*].roa_objects, ASPA and router certificate views *)
  k_api : list (uri * N);
  (* RRDP snapshot: (uri, content identity) *)
  k_rrdp : list (uri * N);
  k_derive : list dcase;
  k_aderive : list acase;
  k_bderive : list bcase }.

Definition run (c : case) : report := validate (N.to_nat (k_fuel c)) (k_now c) (k_repo c) (k_ta c).

Definition rp_agrees (c : case) : bool :=
  let r := rep_res (run c) in
  seq_by uri_eqb (accepted r) (k_ref_acc c)
  && seq_by uri_eqb (map fst (rejected r)) (k_ref_rej c)
  && seq_by uri_eqb (missing r) (k_ref_missing c)
  && seq_by vrp_eqb (vrps r) (k_ref_vrps c)
  && seq_by aspa_eqb (aspas r) (k_ref_aspas c)
  && seq_by pair_eqb (rkeys r) (k_ref_rkeys c)
  && negb (nofuel r).

Definition agrees (c : case) : bool :=
  rp_agrees c && forallb derive_agrees (k_derive c) && forallb aspa_agrees (k_aderive c) && forallb bgp_agrees (k_bderive c).

Definition is_nil {A} (l : list A) : bool := match l with [] => true | _ => false end.

Definition is_product (o : robj) : bool :=
  match r_body o with BRoa _ _ _ | BAspa _ _ _ | BRouter _ _ _ => true | _ => false end.

(** Everything accepted, nothing missing or unlisted, payloads exactly the expected ones. *)
Definition rp_valid (c : case) : bool :=
  let rep := run c in
  let r := rep_res rep in
  is_nil (rejected r) && is_nil (missing r) && is_nil (rep_unlisted rep) && negb (nofuel r).
Definition rp_exact (c : case) : bool :=
  let r := rep_res (run c) in
  seq_by vrp_eqb (vrps r) (k_exp_vrps c) && seq_by aspa_eqb (aspas r) (k_exp_aspas c) && seq_by pair_eqb (rkeys r) (k_exp_rkeys c).
(** The objects the API reports are in the repository with that very content, and every product the relying
    party accepts is one the API reports. *)
Definition api_ok (c : case) : bool :=
  let r := rep_res (run c) in
  forallb (fun '(u, h) => match lookup u (k_repo c) with Some o => r_hash o =? h | None => false end) (k_api c)
  && forallb (fun u => match lookup u (k_repo c) with
                       | Some o => negb (is_product o) || existsb (fun '(u', h) => uri_eqb u u' && (r_hash o =? h)) (k_api c)
                       | None => false
                       end) (accepted r).
(** The RRDP snapshot serves exactly the publishers' current files. *)
Definition rrdp_ok (c : case) : bool := seq_by uh_eqb (map (fun '(u, o) => (u, r_hash o)) (k_repo c)) (k_rrdp c).

Definition c01_ok (c : case) : bool :=
  rp_valid c && rp_exact c && api_ok c && rrdp_ok c && forallb derive_ok (k_derive c)
  && forallb aspa_ok (k_aderive c) && forallb bgp_ok (k_bderive c).

Fixpoint failing_from {A} (f : A -> bool) (i : N) (l : list A) : list N :=
  match l with
  | [] => []
  | x :: r => if f x then failing_from f (i + 1) r else i :: failing_from f (i + 1) r
  end.
Definition failing {A} (f : A -> bool) (base : N) (l : list A) : list N := failing_from f base l.

(** For the replay output: what the model relying party found wrong (reason codes of [Rp.reason_code]). *)
Definition diagnose (c : case) : list (uri * N) * list uri * list uri :=
  let rep := run c in
  (map (fun '(u, w) => (u, reason_code w)) (rejected (rep_res rep)), missing (rep_res rep), rep_unlisted rep).
