(** C01, layers L3 (manifest exactness), L4 (containment), L5 (repository = object store after a sync) and the
    top theorem (relying-party validity and exactness of a quiescent hierarchy of arbitrary shape).
    Proofs about [rp/Sys.v] and [rp/Rp.v]; L2 is [CaCheck.products_ok] / the Mirror invariant of
    [ca/CaMirrorProofs.v]. *)
From KV Require Import base.Tac ca.Ca ca.CaProofs ca.CaObjProofs rp.Rp rp.RoaDerive rp.RoaDeriveProofs rp.Sys.
Open Scope N_scope.

(** * L3: after every listener run, every key set's manifest lists exactly {CRL} + published objects *)

Definition x_exact (x : xset) : Prop := x_crl x = build_crl (x_set x) /\ x_mft x = build_mft (x_set x) (x_crl x).
Definition xk_exact (k : xkeys) : Prop := forall x, In x (xk_sets k) -> x_exact x.
Definition xo_exact (xo : xobjects) : Prop := forall c k, In (c, k) xo -> xk_exact k.

Lemma x_sign_exact s : x_exact (x_sign s).
Proof. split; reflexivity. Qed.
Lemma xk_reissue_exact now next k : xk_exact (xk_reissue now next k).
Proof. destruct k; intros x H; simpl in H; repeat (destruct H as [H|H]; [subst x; apply x_sign_exact|]); destruct H. Qed.

Lemma in_aremove {V} c (k : V) c0 l : In (c, k) (aremove c0 l) -> In (c, k) l.
Proof.
  induction l as [|[c1 k1] l IH]; simpl; [tauto|]. destruct (c1 =? c0); simpl; intuition.
Qed.
Lemma in_ainsert {V} c (k : V) c0 k0 l : In (c, k) (ainsert c0 k0 l) -> (c = c0 /\ k = k0) \/ In (c, k) l.
Proof. unfold ainsert. simpl. intros [E|H]; [inv E; auto|right; eapply in_aremove; eauto]. Qed.

Lemma xo_exact_insert xo c k : xo_exact xo -> xk_exact k -> xo_exact (ainsert c k xo).
Proof. intros X K c' k' H. apply in_ainsert in H. destruct H as [[_ ->]|H]; [exact K|eapply X; eauto]. Qed.

(** Every content-changing arm of the listener forces re-issuance: an event that does not force leaves every
    signed set as it was, or adds a freshly signed one. *)
Theorem noforce_keeps_exact env cn xo e xo' : xo_exact xo -> x_listen1 env cn xo e = Ok (xo', false) -> xo_exact xo'.
Proof.
  intros X H. destruct e; simpl in H; try (inv H; exact X).
  - (* child certificates: always forces *) destruct (aget c xo); inv H.
  - (* certificate received *)
    destruct (aget c xo) as [k|] eqn:G; [|discriminate]. destruct (ok_received_cert (xk_proj k) ki); inv H.
    apply xo_exact_insert; [exact X|]. eapply X. apply aget_in. exact G.
  - (* pending -> new: a freshly signed staging set *)
    destruct (aget c xo) as [[cur| |]|] eqn:G; inv H.
    apply xo_exact_insert; [exact X|]. apply aget_in in G. intros x Hx. simpl in Hx.
    destruct Hx as [<-|[<-|[]]]; [apply x_sign_exact|]. apply (X _ _ G). left. reflexivity.
  - (* pending -> active: a freshly signed set *)
    destruct (amem c xo); inv H. apply xo_exact_insert; [exact X|]. intros x [<-|[]]. apply x_sign_exact.
  - (* activated: forces *) destruct (aget c xo) as [[| |]|]; inv H.
  - (* finished: the old set is dropped *)
    destruct (aget c xo) as [[| |cur old]|] eqn:G; inv H.
    apply xo_exact_insert; [exact X|]. apply aget_in in G. intros x [<-|[]]. apply (X _ _ G). left. reflexivity.
  - (* products: always forces *) destruct (aget c xo); inv H.
Qed.

Lemma listen_all_inv env cn evs : forall xo force xo' force',
  (force = true \/ xo_exact xo) -> x_listen_all env cn xo force evs = Ok (xo', force') -> (force' = true \/ xo_exact xo').
Proof.
  induction evs as [|e evs IH]; intros xo force xo' force' I H; simpl in H; [inv H; exact I|].
  destruct (x_listen1 env cn xo e) as [[xo1 f]|] eqn:E; [|discriminate].
  apply (IH _ _ _ _) in H; [exact H|].
  destruct I as [->|X]; [left; reflexivity|]. destruct f; [left; apply orb_true_r|]. right. eapply noforce_keeps_exact; eauto.
Qed.

Lemma x_re_issue_exact env force xo : (force = true \/ xo_exact xo) -> xo_exact (x_re_issue env force xo).
Proof.
  intros I c k H. unfold x_re_issue in H. apply in_map_iff in H. destruct H as [[c0 k0] [E H]]. inv E.
  destruct (force || ok_requires (e_now env) (e_margin env) (xk_proj k0)) eqn:Q; [apply xk_reissue_exact|].
  destruct I as [->|X]; [discriminate|]. eapply X; eauto.
Qed.

(** L3. After any run of the pre-save listener (any command), for every key set of every class the stored CRL carries
    exactly the set's revocations and the stored manifest lists exactly that CRL and the published objects with their
    content identities. *)
Theorem manifest_exact env cn xo evs xo' : xo_exact xo -> x_listener env cn xo evs = Ok xo' -> xo_exact xo'.
Proof.
  intros X H. unfold x_listener in H. destruct (x_listen_all env cn xo false evs) as [[xo1 force]|] eqn:E; inv H.
  apply x_re_issue_exact. eapply listen_all_inv; [|exact E]. right. exact X.
Qed.

(** The republish task (reissue_if_needed, publishing.rs:289-303) keeps it too. *)
Theorem republish_exact env force xo : xo_exact xo -> xo_exact (x_re_issue env force xo).
Proof. intro X. apply x_re_issue_exact. right. exact X. Qed.

Lemma xo_exact_nil : xo_exact [].
Proof. intros c k []. Qed.

(** What exactness says about the files a key set hands to the repository. *)
Theorem exact_elements x mft_name crl_name : x_exact x ->
  x_elements mft_name crl_name x =
  (mft_name, PMft (mkMft (s_num (x_set x)) (mkCrl (s_num (x_set x)) (map fst (s_rev (x_set x)))) (map (fun '(n, o) => (n, o_ser o)) (s_pub (x_set x)))))
  :: (crl_name, PCrl (mkCrl (s_num (x_set x)) (map fst (s_rev (x_set x)))))
  :: map (fun '(n, o) => (n, PObj (o_ser o))) (s_pub (x_set x)).
Proof. intros [C M]. unfold x_elements. rewrite M, C. reflexivity. Qed.

(** The signed store is [Ca.listener] / [Ca.re_issue] plus the signed pair: projecting commutes. *)
Lemma xo_proj_aget c xo : aget c (xo_proj xo) = option_map xk_proj (aget c xo).
Proof. apply aget_map_snd. Qed.
Lemma xo_proj_aremove c xo : xo_proj (aremove c xo) = aremove c (xo_proj xo).
Proof. induction xo as [|[c' k] xo IH]; simpl; [reflexivity|]. destruct (c' =? c); simpl; congruence. Qed.
Lemma xo_proj_ainsert c k xo : xo_proj (ainsert c k xo) = ainsert c (xk_proj k) (xo_proj xo).
Proof. unfold ainsert. simpl. rewrite xo_proj_aremove. reflexivity. Qed.
Lemma xk_proj_content k f : xk_proj (xk_with_current k (x_content f (xk_current k))) = ok_with_current (xk_proj k) (f (ok_current (xk_proj k))).
Proof. destruct k; reflexivity. Qed.
Lemma received_cert_same k ki k' : ok_received_cert k ki = Ok k' -> k' = k.
Proof. destruct k; simpl; repeat destr_match; intro H; inv H; reflexivity. Qed.

Definition lift_res {A B} (f : A -> B) (r : Ca.result A) : Ca.result B := match r with Ok a => Ok (f a) | Err => Err end.

Lemma x_listen1_proj env cn xo e :
  listen1 env cn (xo_proj xo) e = lift_res (fun '(xo', f) => (xo_proj xo', f)) (x_listen1 env cn xo e).
Proof.
  destruct e; unfold listen1, x_listen1; cbv zeta; unfold amem; rewrite ?xo_proj_aget; try reflexivity.
  all: destruct (aget c xo) as [kk|]; cbn [option_map lift_res]; try reflexivity.
  all: rewrite ?xo_proj_ainsert, ?xk_proj_content, ?xo_proj_aremove; try reflexivity.
  - destruct (ok_received_cert (xk_proj kk) ki) as [k'|] eqn:E; cbn [lift_res]; [|reflexivity].
    apply received_cert_same in E. subst. rewrite xo_proj_ainsert. reflexivity.
  - destruct kk; cbn [xk_proj lift_res]; try reflexivity. rewrite xo_proj_ainsert. reflexivity.
  - destruct kk; cbn [xk_proj lift_res]; try reflexivity. rewrite xo_proj_ainsert. reflexivity.
  - destruct kk; cbn [xk_proj lift_res]; try reflexivity. rewrite xo_proj_ainsert. reflexivity.
Qed.

Lemma x_re_issue_proj env force xo : re_issue env force (xo_proj xo) = xo_proj (x_re_issue env force xo).
Proof.
  unfold re_issue, x_re_issue, xo_proj. rewrite !map_map. apply map_ext. intros [c k].
  destruct (force || ok_requires (e_now env) (e_margin env) (xk_proj k)); [|reflexivity]. destruct k; reflexivity.
Qed.

Theorem x_listener_proj env cn xo evs : listener env cn (xo_proj xo) evs = lift_res xo_proj (x_listener env cn xo evs).
Proof.
  unfold listener, x_listener.
  assert (A : forall evs xo force, listen_all env cn (xo_proj xo) force evs
              = lift_res (fun '(xo', f) => (xo_proj xo', f)) (x_listen_all env cn xo force evs)).
  { induction evs0 as [|e evs0 IH]; intros xo0 force; simpl; [reflexivity|].
    rewrite x_listen1_proj. destruct (x_listen1 env cn xo0 e) as [[xo1 f]|]; simpl; [apply IH|reflexivity]. }
  rewrite A. destruct (x_listen_all env cn xo false evs) as [[xo1 f]|]; simpl; [|reflexivity]. rewrite x_re_issue_proj. reflexivity.
Qed.

Example manifest_exact_nonvacuous :
  let env := mkEnv 100 10 1000 in
  match x_listener env id [] [EPendingToActive 0 (mkCert 7 3 1); EObjectsUpdated 0 KRoa [(5, mkObj 5 11 500%Z)] []] with
  | Ok [(0, XCur x)] => x_mft x = mkMft 2 (mkCrl 2 []) [(5, 11)] /\ x_crl x = mkCrl 2 []
  | _ => False
  end.
Proof. vm_compute. auto. Qed.

(** * L4: what a class publishes lies within its signing certificate *)

Lemma subset_lor a b c : subset a c = true -> subset b c = true -> subset (N.lor a b) c = true.
Proof.
  unfold subset. rewrite !N.eqb_eq. intros A B. rewrite N.land_lor_distr_l, A, B. reflexivity.
Qed.
Lemma subset_zero c : subset 0 c = true.
Proof. unfold subset. rewrite N.land_0_l. reflexivity. Qed.

(** Resources of the EE certificate of a ROA: the prefixes of its authorisations (make_roa, roa.rs:834-855). *)
Definition roa_res (res_of : N -> N) (auths : list N) : N := fold_right (fun p acc => N.lor (res_of p) acc) 0 auths.
Lemma roa_res_contained res_of auths cert :
  (forall p, In p auths -> subset (res_of p) cert = true) -> subset (roa_res res_of auths) cert = true.
Proof.
  induction auths as [|p l IH]; simpl; intro H; [apply subset_zero|].
  apply subset_lor; [apply H; left; reflexivity|apply IH; intros q Hq; apply H; right; exact Hq].
Qed.

(** Resources of everything a class publishes after a derivation: ROAs, ASPAs, router certificates and the child
    certificates (file key, resources). *)
Definition published_resources (res_of ares_of kres_of : N -> N) (r : roas) (ao : aobjs) (bo : list (N * obj)) (children : list (N * N)) : list N :=
  map (fun '(_, i) => roa_res res_of (ri_auths i)) (ro_simple r ++ ro_aggr r)
  ++ map (fun '(c, _) => ares_of c) ao ++ map (fun '(k, _) => kres_of k) bo ++ map snd children.

(** L4. After a derivation under [cert] every published product's resources lie within [cert]; child certificates
    do by C02 ([never_overclaims]: the hypothesis [children_within]). *)
Theorem contained asn_of res_of simple_name aggr_name sign r routes cert deagg agg u
        ares_of asign buildable ao adefs au kres_of bsign bo bdefs children :
  wf asn_of r -> create_updates asn_of res_of simple_name aggr_name sign r routes cert deagg agg = Some u ->
  NoDup (map fst adefs) -> NoDup (map fst ao) -> aspa_create_updates ares_of asign buildable ao adefs cert = Some au ->
  NoDup (map fst bo) ->
  (forall k res, In (k, res) children -> subset res cert = true) ->
  forall res, In res (published_resources res_of ares_of kres_of (apply_updates r u) (aspa_apply ao au)
                        (bgp_apply bo (bgp_create_updates kres_of bsign bo bdefs cert)) children) ->
  subset res cert = true.
Proof.
  intros W C NDd NDa CA NDb CH res H.
  destruct (roas_exact _ _ _ _ _ _ _ _ _ _ _ W C) as [[_ [_ [_ [N1 N2]]]] E].
  unfold published_resources in H. repeat (apply in_app_or in H; destruct H as [H|H]).
  - apply in_map_iff in H. destruct H as [[k i] [<- H]]. apply roa_res_contained. intros p Hp.
    assert (Cr : carries (apply_updates r u) p).
    { apply in_app_or in H. destruct H as [H|H]; [left|right]; exists k, i; (split; [|exact Hp]); apply in_nodup_aget; assumption. }
    apply E in Cr. destruct Cr as [_ Hh]. exact Hh.
  - apply in_map_iff in H. destruct H as [[c i] [<- H]].
    assert (ND : NoDup (map fst (aspa_apply ao au))) by (unfold aspa_apply; apply NoDup_rem_all, NoDup_ins_all, NDa).
    pose proof (in_nodup_aget _ _ _ ND H) as G.
    apply (proj1 (aspa_exact _ _ _ _ _ _ _ NDd CA c (ai_providers i))). exists i. split; [exact G|reflexivity].
  - apply in_map_iff in H. destruct H as [[k o] [<- H]].
    assert (M : amem k (bgp_apply bo (bgp_create_updates kres_of bsign bo bdefs cert)) = true).
    { apply amem_spec. apply (in_map fst) in H. exact H. }
    apply bgpsec_exact in M. destruct M as [_ B]. exact B.
  - apply in_map_iff in H. destruct H as [[k res'] [<- H]]. eapply CH; eauto.
Qed.

(** L4 at key-roll activation (rc.rs:560-638, since the repair of F04c): what the class publishes after the renewal
    under the NEW key's certificate lies within that certificate - no exception for activations any more. Child
    certificates again by C02 (activate_key reduces them to the new certificate, child.rs:243-275). *)
Theorem contained_at_activation asn_of res_of simple_name aggr_name sign r cert
        ares_of asign ao kres_of bsign bo children :
  wf asn_of r -> NoDup (map fst ao) -> NoDup (map fst bo) ->
  (forall k res, In (k, res) children -> subset res cert = true) ->
  forall res, In res (published_resources res_of ares_of kres_of
                        (apply_updates r (renewal_fixed res_of simple_name aggr_name sign cert r))
                        (aspa_apply ao (aspa_renewal ares_of asign cert ao))
                        (bgp_apply bo (bgp_renewal kres_of bsign cert bo)) children) ->
  subset res cert = true.
Proof.
  intros W NDa NDb CH res H.
  destruct (renewal_fixed_exact asn_of res_of simple_name aggr_name sign cert r W) as [[_ [_ [_ [N1 N2]]]] E].
  unfold published_resources in H. repeat (apply in_app_or in H; destruct H as [H|H]).
  - apply in_map_iff in H. destruct H as [[k i] [<- H]]. apply roa_res_contained. intros p Hp.
    assert (Cr : carries (apply_updates r (renewal_fixed res_of simple_name aggr_name sign cert r)) p).
    { apply in_app_or in H. destruct H as [H|H]; [left|right]; exists k, i; (split; [|exact Hp]); apply in_nodup_aget; assumption. }
    apply E in Cr. destruct Cr as [_ Hh]. exact Hh.
  - apply in_map_iff in H. destruct H as [[c i] [<- H]].
    assert (ND : NoDup (map fst (aspa_apply ao (aspa_renewal ares_of asign cert ao)))) by (unfold aspa_apply; apply NoDup_rem_all, NoDup_ins_all, NDa).
    eapply aspa_renewal_contained. apply (in_nodup_aget _ _ _ ND H).
  - apply in_map_iff in H. destruct H as [[k o] [<- H]].
    assert (ND : NoDup (map fst (bgp_apply bo (bgp_renewal kres_of bsign cert bo)))) by (unfold bgp_apply; apply NoDup_rem_all, NoDup_ins_all, NDb).
    eapply bgp_renewal_contained. apply (in_nodup_aget _ _ _ ND H).
  - apply in_map_iff in H. destruct H as [[k res'] [<- H]]. eapply CH; eauto.
Qed.

(** F04c, regression witness at this layer: the renewal of the originally pinned tree under a smaller certificate
    published a ROA outside it; the repaired renewal does not. *)
Example contained_fails_after_renewal :
  match ex_run [SDerive [1; 3] 3] with
  | Some r0 => let r := apply_updates r0 (renewal_pinned id id ex_sign r0) in
               existsb (fun '(_, i) => negb (subset (roa_res ex_res (ri_auths i)) 1)) (ro_simple r ++ ro_aggr r) = true
  | None => False
  end
  /\ match ex_run [SDerive [1; 3] 3; SRenew 1] with
     | Some r => forallb (fun '(_, i) => subset (roa_res ex_res (ri_auths i)) 1) (ro_simple r ++ ro_aggr r) = true /\ payloads r = [1]
     | None => False
     end.
Proof. vm_compute. auto. Qed.

Example contained_nonvacuous :
  match create_updates ex_asn ex_res id id ex_sign roas_empty [1; 3] 1 2 3 with
  | Some u => forallb (fun '(_, i) => subset (roa_res ex_res (ri_auths i)) 1) (ro_simple (apply_updates roas_empty u)) = true
              /\ map fst (ro_simple (apply_updates roas_empty u)) = [1]
  | None => False
  end.
Proof. vm_compute. auto. Qed.

(** * L5: after a successful synchronisation the publisher's content is the object store's elements *)

(** The server side, to be discharged by C10 (publish_iff / atomic verified deltas): a delta over distinct URIs whose
    every element verifies against the current content (RFC 8181: publish needs a free URI, update and withdraw
    the current hash) is applied as a whole. *)
Definition server_applies_verified_delta (srv : list (N * N) -> list delem -> option (list (N * N))) : Prop :=
  forall content d, NoDup (map d_uri d) -> forallb (d_ok content) d = true ->
    exists content', srv content d = Some content' /\ NoDup (map fst content')
                     /\ forall u, aget u content' = aget u (delta_applied content d).

Lemma aget_none_notin {V} k (l : list (N * V)) : aget k l = None <-> ~ In k (map fst l).
Proof.
  split.
  - intros H I. apply in_keys_aget in I. destruct I as [v E]. congruence.
  - intro H. destruct (aget k l) eqn:E; [|reflexivity]. exfalso. apply H. eapply aget_in_keys; eauto.
Qed.
Lemma mapof_nodup l : NoDup (map fst (mapof l)).
Proof. unfold mapof. apply NoDup_ins_all. constructor. Qed.
Lemma mapof_aget l u : NoDup (map fst l) -> aget u (mapof l) = aget u l.
Proof.
  intro ND. unfold mapof. destruct (in_dec N.eq_dec u (map fst l)) as [I|I].
  - destruct (aget_ins_all_in l [] u I) as [v [Hv E]]. rewrite E. symmetry. apply in_nodup_aget; assumption.
  - rewrite aget_ins_all_notin by exact I. symmetry. apply aget_none_notin. exact I.
Qed.
Lemma in_rem_all {V} ks (l : list (N * V)) u c : NoDup (map fst l) -> In (u, c) (rem_all ks l) -> ~ In u ks /\ aget u l = Some c.
Proof.
  intros ND H. assert (G : aget u (rem_all ks l) = Some c) by (apply in_nodup_aget; [apply NoDup_rem_all; exact ND|exact H]).
  rewrite aget_rem_all in G. destruct (nmem u ks) eqn:E; [discriminate|]. apply nmem_false in E. auto.
Qed.
Lemma NoDup_app' {A} (l1 l2 : list A) : NoDup l1 -> NoDup l2 -> (forall x, In x l1 -> ~ In x l2) -> NoDup (l1 ++ l2).
Proof.
  induction l1 as [|a l1 IH]; simpl; intros N1 N2 D; [exact N2|]. inv N1. constructor.
  - intro I. apply in_app_or in I. destruct I as [I|I]; [contradiction|]. apply (D a); auto.
  - apply IH; auto.
Qed.

Section Sync.
  Variables content elements : list (N * N).
  Hypothesis NDc : NoDup (map fst content).

  Let all := mapof elements.
  Let reply := mapof content.
  Let step := fun '(u, h) => match aget u all with
                             | Some c => if c =? h then [] else [DUpdate u c h]
                             | None => [DWithdraw u h]
                             end.

  Lemma reply_in u h : In (u, h) reply <-> aget u content = Some h.
  Proof.
    subst reply. split.
    - intro H. rewrite <- mapof_aget by exact NDc. apply in_nodup_aget; [apply mapof_nodup|exact H].
    - intro H. apply aget_in. rewrite mapof_aget by exact NDc. exact H.
  Qed.

  Lemma delta_split : sync_delta content elements = flat_map step reply ++ map (fun '(u, c) => DPublish u c) (rem_all (map fst reply) all).
  Proof. reflexivity. Qed.

  Lemma step_in e u h : In e (step (u, h)) -> d_uri e = u /\
    ((exists c, e = DUpdate u c h /\ aget u all = Some c /\ c <> h) \/ (e = DWithdraw u h /\ aget u all = None)).
  Proof.
    unfold step. destruct (aget u all) as [c|] eqn:G.
    - destruct (c =? h) eqn:Q; [intros []|]. intros [<-|[]]. split; [reflexivity|]. left. exists c. apply N.eqb_neq in Q. auto.
    - intros [<-|[]]. split; [reflexivity|]. right. auto.
  Qed.

  Lemma first_part_uris : forall l, NoDup (map fst l) -> NoDup (map d_uri (flat_map step l)) /\ forall e, In e (flat_map step l) -> In (d_uri e) (map fst l).
  Proof.
    induction l as [|[u h] l IH]; simpl; intro ND; [split; [constructor|intros e []]|]. inv ND.
    destruct (IH H2) as [N1 I1]. split.
    - rewrite map_app. apply NoDup_app'; [|exact N1|].
      + unfold step. destruct (aget u all) as [c|]; [destruct (c =? h)|]; simpl; repeat constructor; intros [].
      + intros x Hx Hy. apply in_map_iff in Hx. destruct Hx as [e [<- He]]. apply step_in in He. destruct He as [Eu _].
        apply in_map_iff in Hy. destruct Hy as [e' [E' He']]. apply I1 in He'. rewrite E', Eu in He'. contradiction.
    - intros e He. apply in_app_or in He. destruct He as [He|He]; [left; apply step_in in He; symmetry; tauto|right; auto].
  Qed.

  Lemma delta_uris_distinct : NoDup (map d_uri (sync_delta content elements)).
  Proof.
    rewrite delta_split, map_app. destruct (first_part_uris reply (mapof_nodup content)) as [N1 I1].
    apply NoDup_app'; [exact N1| |].
    - rewrite map_map. erewrite map_ext; [apply (NoDup_rem_all (map fst reply) all (mapof_nodup elements))|]. intros [u c]. reflexivity.
    - intros x Hx Hy. apply in_map_iff in Hx. destruct Hx as [e [<- He]]. apply I1 in He.
      rewrite map_map in Hy. apply in_map_iff in Hy. destruct Hy as [[u' c'] [E Hy]]. simpl in E.
      apply in_rem_all in Hy; [|apply mapof_nodup]. destruct Hy as [Hn _]. rewrite E in Hn. contradiction.
  Qed.

  Lemma delta_verifies : forallb (d_ok content) (sync_delta content elements) = true.
  Proof.
    apply forallb_forall. intros e He. rewrite delta_split in He. apply in_app_or in He. destruct He as [He|He].
    - apply in_flat_map in He. destruct He as [[u h] [Hr He]]. apply reply_in in Hr. apply step_in in He.
      destruct He as [_ [[c [-> _]]|[-> _]]]; simpl; rewrite Hr; apply N.eqb_refl.
    - apply in_map_iff in He. destruct He as [[u c] [<- He]]. apply in_rem_all in He; [|apply mapof_nodup]. destruct He as [Hn _].
      simpl. unfold amem. assert (G : aget u content = None).
      { rewrite <- mapof_aget by exact NDc. apply aget_none_notin. exact Hn. }
      rewrite G. reflexivity.
  Qed.

  Lemma dels_in u : In u (d_dels (sync_delta content elements)) <-> (exists h, aget u content = Some h) /\ aget u all = None.
  Proof.
    unfold d_dels. rewrite in_flat_map. split.
    - intros [e [He Hu]]. rewrite delta_split in He. apply in_app_or in He. destruct He as [He|He].
      + apply in_flat_map in He. destruct He as [[u' h] [Hr He]]. apply reply_in in Hr. apply step_in in He.
        destruct He as [_ [[c [-> _]]|[-> A]]]; [destruct Hu|]. destruct Hu as [<-|[]]. eauto.
      + apply in_map_iff in He. destruct He as [[u' c] [<- _]]. destruct Hu.
    - intros [[h Hc] A]. exists (DWithdraw u h). split; [|left; reflexivity]. rewrite delta_split. apply in_or_app. left.
      apply in_flat_map. exists (u, h). split; [apply reply_in; exact Hc|]. unfold step. rewrite A. left. reflexivity.
  Qed.

  Lemma puts_in u v : In (u, v) (d_puts (sync_delta content elements)) <->
    aget u all = Some v /\ aget u content <> Some v.
  Proof.
    unfold d_puts. rewrite in_flat_map. split.
    - intros [e [He Hu]]. rewrite delta_split in He. apply in_app_or in He. destruct He as [He|He].
      + apply in_flat_map in He. destruct He as [[u' h] [Hr He]]. apply reply_in in Hr. apply step_in in He.
        destruct He as [_ [[c [-> [A Nq]]]|[-> _]]]; [|destruct Hu]. destruct Hu as [E|[]]. inv E. split; [exact A|]. rewrite Hr. congruence.
      + apply in_map_iff in He. destruct He as [[u' c] [<- He]]. destruct Hu as [E|[]]. inv E.
        apply in_rem_all in He; [|apply mapof_nodup]. destruct He as [Hn G]. split; [exact G|].
        assert (Z : aget u content = None) by (rewrite <- mapof_aget by exact NDc; apply aget_none_notin; exact Hn). rewrite Z. discriminate.
    - intros [A Nq]. destruct (aget u content) as [h|] eqn:G.
      + exists (DUpdate u v h). split; [|left; reflexivity]. rewrite delta_split. apply in_or_app. left.
        apply in_flat_map. exists (u, h). split; [apply reply_in; exact G|]. unfold step. rewrite A.
        destruct (v =? h) eqn:Q; [apply N.eqb_eq in Q; congruence|left; reflexivity].
      + exists (DPublish u v). split; [|left; reflexivity]. rewrite delta_split. apply in_or_app. right.
        apply in_map_iff. exists (u, v). split; [reflexivity|]. apply aget_in. rewrite aget_rem_all.
        assert (Z : nmem u (map fst reply) = false).
        { apply nmem_false. apply aget_none_notin. subst reply. rewrite mapof_aget by exact NDc. exact G. }
        rewrite Z. exact A.
  Qed.

  Lemma delta_result u : aget u (delta_applied content (sync_delta content elements)) = aget u all.
  Proof.
    unfold delta_applied. rewrite aget_rem_all.
    destruct (nmem u (d_dels (sync_delta content elements))) eqn:D.
    - apply nmem_spec in D. apply dels_in in D. destruct D as [_ A]. rewrite A. reflexivity.
    - apply nmem_false in D.
      destruct (in_dec N.eq_dec u (map fst (d_puts (sync_delta content elements)))) as [P|P].
      + destruct (aget_ins_all_in _ content u P) as [v [Hv E]]. rewrite E. apply puts_in in Hv. symmetry. tauto.
      + rewrite aget_ins_all_notin by exact P.
        destruct (aget u all) as [c|] eqn:A.
        * destruct (aget u content) as [h|] eqn:G.
          -- destruct (N.eq_dec h c) as [->|Nq]; [reflexivity|]. exfalso. apply P. apply in_map_iff. exists (u, c). split; [reflexivity|].
             apply puts_in. split; [exact A|]. rewrite G. congruence.
          -- exfalso. apply P. apply in_map_iff. exists (u, c). split; [reflexivity|]. apply puts_in. split; [exact A|]. rewrite G. discriminate.
        * destruct (aget u content) as [h|] eqn:G; [|reflexivity]. exfalso. apply D. apply dels_in. split; [eauto|exact A].
  Qed.
End Sync.

(** L5. The list reply is the publisher's current content; the delta computed from it (manager.rs:2662-2687) is over
    distinct URIs and verifies, so the server applies it, and afterwards the publisher's content is exactly the map
    of the elements the object store handed over. *)
Theorem repo_equals_objects_after_sync srv content elements :
  server_applies_verified_delta srv -> NoDup (map fst content) ->
  exists content', srv content (sync_delta content elements) = Some content' /\ NoDup (map fst content')
                   /\ forall u, aget u content' = aget u (mapof elements).
Proof.
  intros S ND. destruct (S content (sync_delta content elements) (delta_uris_distinct content elements) (delta_verifies content elements ND))
    as [c' [E [N' A]]]. exists c'. split; [exact E|]. split; [exact N'|]. intro u. rewrite A. apply delta_result. exact ND.
Qed.

(** ... and a second synchronisation has nothing to send (delta.is_empty(), manager.rs:2689). *)
Theorem sync_idempotent content elements :
  NoDup (map fst content) -> (forall u, aget u content = aget u (mapof elements)) -> sync_delta content elements = [].
Proof.
  intros ND A. rewrite delta_split.
  assert (F : flat_map (fun '(u, h) => match aget u (mapof elements) with
                                        | Some c => if c =? h then [] else [DUpdate u c h]
                                        | None => [DWithdraw u h]
                                        end) (mapof content) = []).
  { assert (G : forall l, (forall u h, In (u, h) l -> aget u (mapof elements) = Some h) ->
                 flat_map (fun '(u, h) => match aget u (mapof elements) with
                                          | Some c => if c =? h then [] else [DUpdate u c h]
                                          | None => [DWithdraw u h]
                                          end) l = []).
    { induction l as [|[u h] l IH]; intro H; [reflexivity|]. simpl. rewrite (H u h) by (left; reflexivity). rewrite N.eqb_refl. simpl. apply IH.
      intros u' h' I. apply H. right. exact I. }
    apply G. intros u h I. rewrite <- A. apply (reply_in content ND). exact I. }
  rewrite F. simpl.
  rewrite rem_all_keys_nil; [reflexivity|]. intros k I. apply in_keys_aget in I. destruct I as [v G].
  rewrite <- A in G. rewrite <- mapof_aget in G by exact ND. eapply aget_in_keys; eauto.
Qed.

Example sync_nonvacuous :
  sync_delta [(1, 10); (2, 20); (3, 30)] [(2, 20); (3, 31); (4, 40)] = [DUpdate 3 31 30; DWithdraw 1 10; DPublish 4 40]
  /\ delta_applied [(1, 10); (2, 20); (3, 30)] (sync_delta [(1, 10); (2, 20); (3, 30)] [(2, 20); (3, 31); (4, 40)]) = [(4, 40); (3, 31); (2, 20)].
Proof. vm_compute. auto. Qed.

(** * Top: a quiescent, well-formed hierarchy of arbitrary shape validates completely and says exactly its payloads *)

Lemma uri_eqb_eq a b : uri_eqb a b = true <-> a = b.
Proof.
  destruct a as [a1 a2], b as [b1 b2]. unfold uri_eqb. simpl. rewrite andb_true_iff, !N.eqb_eq. split; [intros [-> ->]; reflexivity|intro H; inv H; auto].
Qed.
Lemma lookup_in R u o : NoDup (map fst R) -> In (u, o) R -> lookup u R = Some o.
Proof.
  induction R as [|[u' o'] R IH]; simpl; intros ND I; [destruct I|]. inv ND.
  destruct (uri_eqb u' u) eqn:E.
  - apply uri_eqb_eq in E. subst u'. destruct I as [I|I]; [inv I; reflexivity|]. exfalso. apply H1. apply (in_map fst) in I. exact I.
  - destruct I as [I|I]; [inv I; rewrite (proj2 (uri_eqb_eq u u) eq_refl) in E; discriminate|auto].
Qed.

Lemma rapp_assoc a b c : rapp (rapp a b) c = rapp a (rapp b c).
Proof. unfold rapp. simpl. rewrite !app_assoc, orb_assoc. reflexivity. Qed.
Lemma rapp_empty_r a : rapp a rempty = a.
Proof. destruct a. unfold rapp. simpl. rewrite !app_nil_r, orb_false_r. reflexivity. Qed.
Lemma rapp_empty_l a : rapp rempty a = a.
Proof. destruct a. reflexivity. Qed.

Notation rconcat l := (fold_right rapp rempty l).
Lemma rconcat_app l1 l2 : rconcat (l1 ++ l2) = rapp (rconcat l1) (rconcat l2).
Proof. induction l1 as [|a l1 IH]; simpl; [rewrite rapp_empty_l; reflexivity|]. rewrite IH, rapp_assoc. reflexivity. Qed.

Lemma fold_entries (G : N -> N -> Rp.result) es : forall init,
  fold_left (fun acc '(name, h) => rapp acc (G name h)) es init = rapp init (rconcat (map (fun '(name, h) => G name h) es)).
Proof.
  induction es as [|[n h] es IH]; intro init; simpl; [rewrite rapp_empty_r; reflexivity|]. rewrite IH, rapp_assoc. reflexivity.
Qed.

(** One manifest entry, as [Rp.validate_ca] treats it. *)
Definition entry_result (f : nat) (now : Z) (rp : repo) (ca : cainfo) (crl : N) (revoked : list N) (name h : N) : Rp.result :=
  let u := (ci_dir ca, name) in
  match lookup u rp with
  | None => rmiss u
  | Some o =>
      if negb (r_hash o =? h) then rrej u RBadHash
      else if name =? crl then racc u
      else match r_body o with
           | BMft _ _ _ | BCrl _ _ | BOther => rrej u RUnknownType
           | BCa c =>
               match check_object now ca revoked o with
               | Some why => rrej u why
               | None => rapp (racc u) (validate_ca f now rp c)
               end
           | _ =>
               match check_object now ca revoked o with
               | Some why => rrej u why
               | None => payload u o
               end
           end
  end.

Lemma validate_ca_S f now rp ca :
  validate_ca (S f) now rp ca =
  match pub_point now rp ca with
  | PPErr why => mkRes [] [((ci_dir ca, ci_mft ca), why)] [] [(ci_dir ca, ci_mft ca)] [ci_dir ca] [] [] [] false
  | PPOk entries crl revoked =>
      fold_left (fun acc '(name, h) => rapp acc (entry_result f now rp ca crl revoked name h)) entries
        (mkRes [(ci_dir ca, ci_mft ca)] [] [] ((ci_dir ca, ci_mft ca) :: map (fun e => (ci_dir ca, fst e)) entries) [ci_dir ca] [] [] [] false)
  end.
Proof. reflexivity. Qed.

Lemma depth_child (n : N) (o : robj) (t' : tree) (children : list (N * robj * tree)%type) f :
  In (n, o, t') children -> (S (fold_right Nat.max O (map (fun '(_, _, t0) => depth t0) children)) <= S f)%nat -> (depth t' <= f)%nat.
Proof.
  intros I H. apply le_S_n in H. revert H. induction children as [|[[n0 o0] t0] l IH]; simpl; [destruct I|]. intro H.
  destruct I as [E|I]; [inv E; lia|]. apply IH; [exact I|lia].
Qed.

Lemma repo_of_child (n : N) (o : robj) (t' : tree) i crl_name mft crl products (children : list (N * robj * tree)%type) f :
  In (n, o, t') children -> In f (repo_of t') -> In f (repo_of (Node i crl_name mft crl products children)).
Proof.
  intros I H. simpl. right. right. apply in_or_app. right. apply in_or_app. right. apply in_flat_map. exists (n, o, t'). auto.
Qed.

Theorem validate_is_tree_result now R : NoDup (map fst R) -> forall fuel t,
  (forall f, In f (repo_of t) -> In f R) -> good now t -> (depth t <= fuel)%nat ->
  validate_ca fuel now R (t_info t) = tree_result t.
Proof.
  intro ND. induction fuel as [|f IH]; intros t Incl G D; [destruct t; simpl in D; lia|].
  destruct t as [i crl_name mft crl products children]. inversion G as [? ? ? ? ? ? num revoked cnum Bm Sm Bc Sc Rv NDn Fp Fc Fg]. subst.
  cbn [t_info]. rewrite validate_ca_S.
  assert (Lm : lookup (ci_dir i, ci_mft i) R = Some mft) by (apply lookup_in; [exact ND|apply Incl; simpl; auto]).
  assert (Lc : lookup (ci_dir i, crl_name) R = Some crl) by (apply lookup_in; [exact ND|apply Incl; simpl; auto]).
  assert (PP : pub_point now R i = PPOk (expected_entries crl_name crl products children) crl_name revoked).
  { unfold pub_point. rewrite Lm, Bm, Sm. unfold expected_entries at 1. cbn [find fst]. rewrite N.eqb_refl, Lc, Bc, N.eqb_refl. cbn [negb].
    rewrite Sc, Rv. reflexivity. }
  rewrite PP, fold_entries. cbn [tree_result]. f_equal.
  unfold expected_entries. cbn [map]. rewrite map_app. cbn [fold_right]. rewrite rconcat_app, !map_map.
  (* names are distinct *)
  inversion NDn as [|? ? Nm NDn']. inversion NDn' as [|? ? Nc NDn'']. subst.
  f_equal; [|f_equal].
  - (* the CRL entry *)
    unfold entry_result. rewrite Lc, N.eqb_refl. cbn [negb]. rewrite N.eqb_refl. reflexivity.
  - (* products *)
    f_equal. apply map_ext_in. intros [n o] I. rewrite Forall_forall in Fp. destruct (Fp _ I) as [Pb Co]. cbn [snd] in *.
    assert (L : lookup (ci_dir i, n) R = Some o).
    { apply lookup_in; [exact ND|]. apply Incl. simpl. right. right. apply in_or_app. left. apply in_map_iff. exists (n, o). auto. }
    assert (Nq : (n =? crl_name) = false).
    { apply N.eqb_neq. intro E. subst. apply Nc. apply in_or_app. left. apply (in_map fst) in I. exact I. }
    unfold entry_result. rewrite L, N.eqb_refl. cbn [negb]. rewrite Nq, Co.
    destruct (r_body o); simpl in Pb; try discriminate; reflexivity.
  - (* children *)
    f_equal. apply map_ext_in. intros [[n o] t'] I. rewrite Forall_forall in Fc, Fg. destruct (Fc _ I) as [Bo Co]. pose proof (Fg _ I) as Gt. cbn [fst snd] in *.
    assert (L : lookup (ci_dir i, n) R = Some o).
    { apply lookup_in; [exact ND|]. apply Incl. simpl. right. right. apply in_or_app. right. apply in_or_app. left. apply in_map_iff. exists (n, o, t'). auto. }
    assert (Nq : (n =? crl_name) = false).
    { apply N.eqb_neq. intro E. subst. apply Nc. apply in_or_app. right. apply in_map_iff. exists (crl_name, o, t'). auto. }
    unfold entry_result. rewrite L, N.eqb_refl. cbn [negb]. rewrite Nq, Bo, Co. f_equal.
    apply IH; [|exact Gt|eapply depth_child; eauto].
    intros x Hx. apply Incl. eapply repo_of_child; eauto.
Qed.

(** ** What [tree_result] reports *)
Lemma tree_ind_depth (P : tree -> Prop) :
  (forall i c m cr ps (ch : list (N * robj * tree)%type), (forall n o t', In (n, o, t') ch -> P t') -> P (Node i c m cr ps ch)) -> forall t, P t.
Proof.
  intro H. assert (A : forall n t, (depth t <= n)%nat -> P t).
  { induction n as [|n IH]; intros t D; [destruct t; simpl in D; lia|].
    destruct t as [i c m cr ps ch]. apply H. intros n0 o t' I. apply IH. eapply depth_child; eauto. }
  intro t. apply (A (depth t)). lia.
Qed.

Lemma rconcat_field {A} (F : Rp.result -> list A) :
  (forall a b, F (rapp a b) = F a ++ F b) -> F rempty = [] -> forall l, F (rconcat l) = flat_map F l.
Proof. intros HF H0. induction l as [|a l IH]; simpl; [exact H0|]. rewrite HF, IH. reflexivity. Qed.
Lemma rconcat_nofuel l : nofuel (rconcat l) = existsb nofuel l.
Proof. induction l as [|a l IH]; simpl; [reflexivity|]. rewrite IH. reflexivity. Qed.
Lemma flat_map_map {A B C} (f : B -> list C) (g : A -> B) l : flat_map f (map g l) = flat_map (fun x => f (g x)) l.
Proof. induction l as [|a l IH]; simpl; [reflexivity|]. rewrite IH. reflexivity. Qed.
Lemma flat_map_ext_in {A B} (f g : A -> list B) l : (forall x, In x l -> f x = g x) -> flat_map f l = flat_map g l.
Proof. induction l as [|a l IH]; simpl; intro H; [reflexivity|]. rewrite H by auto. rewrite IH by auto. reflexivity. Qed.
Lemma flat_map_nil {A B} (f : A -> list B) l : (forall x, In x l -> f x = []) -> flat_map f l = [].
Proof. induction l as [|a l IH]; simpl; intro H; [reflexivity|]. rewrite H by auto. apply IH. auto. Qed.
Lemma filter_nil {A} (f : A -> bool) l : (forall x, In x l -> f x = false) -> filter f l = [].
Proof. induction l as [|a l IH]; simpl; intro H; [reflexivity|]. rewrite H by auto. apply IH. auto. Qed.

Lemma payload_fields u o :
  accepted (payload u o) = [u] /\ rejected (payload u o) = [] /\ missing (payload u o) = [] /\ listed (payload u o) = [] /\ dirs (payload u o) = []
  /\ vrps (payload u o) = product_vrps o /\ aspas (payload u o) = product_aspas o /\ rkeys (payload u o) = product_rkeys o /\ nofuel (payload u o) = false.
Proof. unfold payload, product_vrps, product_aspas, product_rkeys. destruct (r_body o); simpl; repeat split; reflexivity. Qed.

Lemma acc_app a b : accepted (rapp a b) = accepted a ++ accepted b. Proof. reflexivity. Qed.
Lemma rej_app a b : rejected (rapp a b) = rejected a ++ rejected b. Proof. reflexivity. Qed.
Lemma mis_app a b : missing (rapp a b) = missing a ++ missing b. Proof. reflexivity. Qed.
Lemma lst_app a b : listed (rapp a b) = listed a ++ listed b. Proof. reflexivity. Qed.
Lemma dir_app a b : dirs (rapp a b) = dirs a ++ dirs b. Proof. reflexivity. Qed.
Lemma vrp_app a b : vrps (rapp a b) = vrps a ++ vrps b. Proof. reflexivity. Qed.
Lemma asp_app a b : aspas (rapp a b) = aspas a ++ aspas b. Proof. reflexivity. Qed.
Lemma rk_app a b : rkeys (rapp a b) = rkeys a ++ rkeys b. Proof. reflexivity. Qed.
Lemma nf_app a b : nofuel (rapp a b) = nofuel a || nofuel b. Proof. reflexivity. Qed.

(** A list-valued field of [tree_result] of a node, in terms of the fields of its parts. *)
Lemma tree_result_field {A} (F : Rp.result -> list A) (Fapp : forall a b, F (rapp a b) = F a ++ F b) (F0 : F rempty = [])
      i c m cr ps (ch : list (N * robj * tree)%type) :
  F (tree_result (Node i c m cr ps ch)) =
  F (mkRes [(ci_dir i, ci_mft i)] [] [] ((ci_dir i, ci_mft i) :: map (fun e => (ci_dir i, fst e)) (expected_entries c cr ps ch)) [ci_dir i] [] [] [] false)
  ++ F (racc (ci_dir i, c))
  ++ flat_map (fun '(n, o) => F (payload (ci_dir i, n) o)) ps
  ++ flat_map (fun '(n, _, t') => F (racc (ci_dir i, n)) ++ F (tree_result t')) ch.
Proof.
  cbn [tree_result]. cbv zeta. rewrite !Fapp, !(rconcat_field F Fapp F0), !flat_map_map.
  f_equal. f_equal. f_equal.
  - apply flat_map_ext_in. intros [n o] _. reflexivity.
  - apply flat_map_ext_in. intros [[n o] t'] _. apply Fapp.
Qed.

Theorem tree_result_rejected t : rejected (tree_result t) = [].
Proof.
  induction t as [i c m cr ps ch IH] using tree_ind_depth. rewrite (tree_result_field rejected rej_app eq_refl). simpl.
  rewrite flat_map_nil; [|intros [n o] _; apply payload_fields]. simpl.
  apply flat_map_nil. intros [[n o] t'] I. simpl. eapply IH; eauto.
Qed.
Theorem tree_result_missing t : missing (tree_result t) = [].
Proof.
  induction t as [i c m cr ps ch IH] using tree_ind_depth. rewrite (tree_result_field missing mis_app eq_refl). simpl.
  rewrite flat_map_nil; [|intros [n o] _; apply payload_fields]. simpl.
  apply flat_map_nil. intros [[n o] t'] I. simpl. eapply IH; eauto.
Qed.
Theorem tree_result_fuel t : nofuel (tree_result t) = false.
Proof.
  induction t as [i c m cr ps ch IH] using tree_ind_depth. cbn [tree_result]. cbv zeta. rewrite !nf_app, !rconcat_nofuel. simpl.
  apply orb_false_iff. split; apply existsb_false; intros x Hx; apply in_map_iff in Hx.
  - destruct Hx as [[n o] [<- _]]. apply payload_fields.
  - destruct Hx as [[[n o] t'] [<- I]]. rewrite nf_app. simpl. eapply IH; eauto.
Qed.

Theorem tree_result_vrps t : vrps (tree_result t) = tree_vrps t.
Proof.
  induction t as [i c m cr ps ch IH] using tree_ind_depth. rewrite (tree_result_field vrps vrp_app eq_refl). simpl. f_equal.
  - apply flat_map_ext_in. intros [n o] _. apply payload_fields.
  - apply flat_map_ext_in. intros [[n o] t'] I. eapply IH; eauto.
Qed.
Theorem tree_result_aspas t : aspas (tree_result t) = tree_aspas t.
Proof.
  induction t as [i c m cr ps ch IH] using tree_ind_depth. rewrite (tree_result_field aspas asp_app eq_refl). simpl. f_equal.
  - apply flat_map_ext_in. intros [n o] _. apply payload_fields.
  - apply flat_map_ext_in. intros [[n o] t'] I. eapply IH; eauto.
Qed.
Theorem tree_result_rkeys t : rkeys (tree_result t) = tree_rkeys t.
Proof.
  induction t as [i c m cr ps ch IH] using tree_ind_depth. rewrite (tree_result_field rkeys rk_app eq_refl). simpl. f_equal.
  - apply flat_map_ext_in. intros [n o] _. apply payload_fields.
  - apply flat_map_ext_in. intros [[n o] t'] I. eapply IH; eauto.
Qed.
Theorem tree_result_dirs t : dirs (tree_result t) = tree_dirs t.
Proof.
  induction t as [i c m cr ps ch IH] using tree_ind_depth. rewrite (tree_result_field dirs dir_app eq_refl). simpl. f_equal.
  rewrite flat_map_nil; [|intros [n o] _; apply payload_fields]. simpl.
  apply flat_map_ext_in. intros [[n o] t'] I. eapply IH; eauto.
Qed.

Theorem tree_result_accepted t u : In u (accepted (tree_result t)) <-> In u (map fst (repo_of t)).
Proof.
  revert u. induction t as [i c m cr ps ch IH] using tree_ind_depth. intro u.
  rewrite (tree_result_field accepted acc_app eq_refl). cbn [accepted racc app repo_of map fst].
  rewrite !map_app, !map_map. simpl.
  rewrite !in_app_iff, !in_flat_map, !in_map_iff.
  split.
  - intros [H|[H|[[[n o] [I H]]|[[[n o] t'] [I H]]]]]; auto.
    + right. right. left. exists (n, o). split; [|exact I]. destruct (payload_fields (ci_dir i, n) o) as [E _]. rewrite E in H. destruct H as [H|[]]. exact H.
    + simpl in H. destruct H as [H|H].
      * right. right. right. left. exists (n, o, t'). auto.
      * right. right. right. right. apply (IH _ _ _ I) in H. apply in_map_iff in H. destruct H as [[u' o'] [E H]]. simpl in E. subst u'.
        exists (u, o'). split; [reflexivity|]. apply in_flat_map. exists (n, o, t'). auto.
  - intros [H|[H|[[[n o] [E I]]|[[[[n o] t'] [E I]]|[[u' o'] [E H]]]]]]; auto.
    + right. right. left. exists (n, o). split; [exact I|]. destruct (payload_fields (ci_dir i, n) o) as [Ea _]. rewrite Ea. left. exact E.
    + right. right. right. exists (n, o, t'). split; [exact I|]. left. exact E.
    + simpl in E. subst u'. apply in_flat_map in H. destruct H as [[[n o] t'] [I H]].
      right. right. right. exists (n, o, t'). split; [exact I|]. right. apply (IH _ _ _ I). apply in_map_iff. exists (u, o'). auto.
Qed.

Theorem tree_result_lists_all t u : In u (map fst (repo_of t)) -> In u (listed (tree_result t)).
Proof.
  revert u. induction t as [i c m cr ps ch IH] using tree_ind_depth. intro u.
  rewrite (tree_result_field listed lst_app eq_refl). cbn [listed racc app repo_of map fst]. unfold expected_entries.
  rewrite !map_app, !map_map. simpl.
  rewrite !in_app_iff, !in_flat_map, !in_map_iff.
  intros [H|[H|[[[n o] [E I]]|[[[[n o] t'] [E I]]|[[u' o'] [E H]]]]]]; auto.
  - right. right. left. exists (n, r_hash o). split; [exact E|]. apply in_or_app. left. apply in_map_iff. exists (n, o). auto.
  - right. right. left. exists (n, r_hash o). split; [exact E|]. apply in_or_app. right. apply in_map_iff. exists (n, o, t'). auto.
  - simpl in E. subst u'. apply in_flat_map in H. destruct H as [[[n o] t'] [I H]].
    right. right. right. right. exists (n, o, t'). split; [exact I|]. simpl. apply (IH _ _ _ I). apply in_map_iff. exists (u, o'). auto.
Qed.

(** ** The top theorem.
    Premises, spelled out: [t] is the published tree of the hierarchy at [now], every publication point exact, signed,
    current, contained and chained ([good]: L2-L6, i.e. Quiescent - every CA's repository synchronised and every
    child certificate as published by its parent); the repository [R] holds the files of the tree under distinct
    URIs, and whatever else it holds lies in directories no CA of the tree publishes in (other publishers' jails,
    C10); the fuel covers the depth of the tree.
    Conclusion: the relying party rejects nothing, misses nothing, finds nothing unlisted, accepts exactly the
    files of the tree, and its VRPs, ASPAs and router keys are exactly those of the tree's products. *)
Theorem rp_valid_and_exact now R t fuel :
  NoDup (map fst R) ->
  (forall f, In f (repo_of t) -> In f R) ->
  (forall u o, In (u, o) R -> In (fst u) (tree_dirs t) -> In u (map fst (repo_of t))) ->
  good now t -> (depth t <= fuel)%nat ->
  let rep := validate fuel now R (t_info t) in
  rejected (rep_res rep) = [] /\ missing (rep_res rep) = [] /\ rep_unlisted rep = [] /\ nofuel (rep_res rep) = false
  /\ (forall u, In u (accepted (rep_res rep)) <-> In u (map fst (repo_of t)))
  /\ vrps (rep_res rep) = tree_vrps t /\ aspas (rep_res rep) = tree_aspas t /\ rkeys (rep_res rep) = tree_rkeys t.
Proof.
  intros ND Incl Jail G D rep. subst rep. unfold validate. cbn [rep_res rep_unlisted].
  rewrite (validate_is_tree_result now R ND fuel t Incl G D).
  split; [apply tree_result_rejected|]. split; [apply tree_result_missing|]. split.
  - unfold unlisted. apply filter_nil. intros u Hu. apply in_map_iff in Hu. destruct Hu as [[u' o] [E Hu]]. simpl in E. subst u'.
    destruct (existsb (N.eqb (fst u)) (dirs (tree_result t))) eqn:Dv; [|reflexivity]. simpl. apply negb_false_iff.
    apply existsb_exists. exists u. split; [|apply uri_eqb_eq; reflexivity].
    apply tree_result_lists_all. apply (Jail u o Hu). rewrite <- tree_result_dirs.
    apply existsb_exists in Dv. destruct Dv as [d [Hd E]]. apply N.eqb_eq in E. rewrite E. exact Hd.
  - split; [apply tree_result_fuel|]. split; [intro u; apply tree_result_accepted|].
    split; [apply tree_result_vrps|]. split; [apply tree_result_aspas|apply tree_result_rkeys].
Qed.

(** The repository holding exactly the tree. *)
Corollary rp_valid_and_exact_own now t fuel :
  NoDup (map fst (repo_of t)) -> good now t -> (depth t <= fuel)%nat ->
  let rep := validate fuel now (repo_of t) (t_info t) in
  rejected (rep_res rep) = [] /\ missing (rep_res rep) = [] /\ rep_unlisted rep = [] /\ nofuel (rep_res rep) = false
  /\ (forall u, In u (accepted (rep_res rep)) <-> In u (map fst (repo_of t)))
  /\ vrps (rep_res rep) = tree_vrps t /\ aspas (rep_res rep) = tree_aspas t /\ rkeys (rep_res rep) = tree_rkeys t.
Proof.
  intros ND G D. apply rp_valid_and_exact; auto. intros u o H _. apply (in_map fst) in H. exact H.
Qed.

(** A concrete quiescent hierarchy (trust anchor, one child CA with a ROA) meeting the premises. *)
Definition ex_a : cainfo := mkCI 2 1 20 200.
Definition ex_ta : cainfo := mkCI 1 3 10 100.
Definition ex_roa : robj := mkRO 2 5 0 100 true 71 (BRoa 64512 [(7, 24)] 1).
Definition ex_a_crl : robj := mkRO 2 0 0 100 true 72 (BCrl 1 []).
Definition ex_a_mft : robj := mkRO 2 6 0 100 true 73 (BMft 1 201 [(201, 72); (301, 71)]).
Definition ex_ta_crl : robj := mkRO 1 0 0 100 true 74 (BCrl 1 [9]).
Definition ex_a_cer : robj := mkRO 1 7 0 100 true 75 (BCa ex_a).
Definition ex_ta_mft : robj := mkRO 1 8 0 100 true 76 (BMft 1 101 [(101, 74); (102, 75)]).
Definition ex_tree : tree :=
  Node ex_ta 101 ex_ta_mft ex_ta_crl [] [(102, ex_a_cer, Node ex_a 201 ex_a_mft ex_a_crl [(301, ex_roa)] [])].

Example rp_valid_and_exact_nonvacuous :
  NoDup (map fst (repo_of ex_tree)) /\ good 50 ex_tree /\ (depth ex_tree <= 5)%nat
  /\ vrps (rep_res (validate 5 50 (repo_of ex_tree) ex_ta)) = [mkVrp 64512 7 24].
Proof.
  split; [|split; [|split; [simpl; lia|reflexivity]]].
  - simpl. repeat constructor; simpl; intuition congruence.
  - eapply (good_node 50 ex_ta 101 ex_ta_mft ex_ta_crl [] _ 1 [9] 1); try reflexivity.
    + simpl. repeat constructor; simpl; intuition congruence.
    + constructor.
    + repeat constructor.
    + constructor; [|constructor]. simpl.
      eapply (good_node 50 ex_a 201 ex_a_mft ex_a_crl [(301, ex_roa)] [] 1 [] 1); try reflexivity.
      * simpl. repeat constructor; simpl; intuition congruence.
      * repeat constructor.
      * constructor.
      * constructor.
Qed.

(** How the layers feed the premise [good]: for a key set whose signed pair is exact (L3) and whose published
    objects are what the repository holds for it, by content (L2 + L5), the manifest in the repository lists exactly
    [expected_entries], and the CRL in the repository carries exactly the set's revocations. *)
Theorem manifest_of_exact_set x crl_name (crl : robj) (products : list (N * robj)) (children : list (N * robj * tree)%type) :
  x_exact x ->
  map (fun '(n, o) => (n, r_hash o)) products ++ map (fun '(n, o, _) => (n, r_hash o)) children
    = map (fun '(n, o) => (n, o_ser o)) (s_pub (x_set x)) ->
  expected_entries crl_name crl products children = (crl_name, r_hash crl) :: mf_entries (x_mft x)
  /\ mf_crl (x_mft x) = x_crl x /\ cr_revoked (x_crl x) = map fst (s_rev (x_set x)) /\ mf_num (x_mft x) = cr_num (x_crl x).
Proof.
  intros [C M] E. unfold expected_entries. rewrite E, M, C. simpl. auto.
Qed.
