(** System-level models for C01 (layers L3, L5 and the published tree). Definitions only.

    - Signed sets: the published-object store of [ca/Ca.v] ([oset], [okeys], [listen1], [re_issue]) extended with
      what is stored SIGNED per key set: the last CRL and the last manifest (publishing.rs:1051-1120).  Content
      operations change the published objects and the revocations and leave manifest and CRL alone
      (publishing.rs:1245-1338); only [create] (1150-1185) and [reissue] (1341-1374) build them, the CRL first,
      then the manifest over that CRL and the published objects (ManifestBuilder::with_objects, 1691-1705);
      [retire] keeps the old pair (1379-1397).  The listener is [Ca.listen1] arm by arm (publishing.rs:95-192).
    - Repository synchronisation: ca_repo_sync (manager.rs:2644-2705): list, then a delta computed from the reply.
    - The published tree: what a quiescent hierarchy has in the repository, as input of [Rp.validate]. *)
From KV Require Import base.Tac ca.Ca rp.Rp rp.RoaDerive.
Open Scope N_scope.

(** * L3: signed sets *)
Record crlv := mkCrl { cr_num : N; cr_revoked : list N }.
Record mftv := mkMft { mf_num : N; mf_crl : crlv; mf_entries : list (N * N) }.   (* number; the CRL it lists; (file name, content id) *)
Record xset := mkX { x_set : oset; x_crl : crlv; x_mft : mftv }.

Definition build_crl (s : oset) : crlv := mkCrl (s_num s) (map fst (s_rev s)).
Definition build_mft (s : oset) (c : crlv) : mftv := mkMft (s_num s) c (map (fun '(n, o) => (n, o_ser o)) (s_pub s)).
Definition x_sign (s : oset) : xset := let c := build_crl s in mkX s c (build_mft s c).

Definition x_create (key : N) (next : Z) : xset := x_sign (os_create key next).
Definition x_reissue (now next : Z) (x : xset) : xset := x_sign (os_reissue now next (x_set x)).
Definition x_content (f : oset -> oset) (x : xset) : xset := mkX (f (x_set x)) (x_crl x) (x_mft x).
Definition x_retire (now : Z) (x : xset) : xset := x_content (os_retire now) x.

Inductive xkeys := XCur (c : xset) | XStg (s c : xset) | XOld (c o : xset).
Definition xobjects : Type := list (N * xkeys).

Definition xk_proj (k : xkeys) : okeys :=
  match k with
  | XCur c => OCur (x_set c)
  | XStg s c => OStg (x_set s) (x_set c)
  | XOld c o => OOld (x_set c) (x_set o)
  end.
Definition xo_proj (xo : xobjects) : objects := map (fun '(c, k) => (c, xk_proj k)) xo.

Definition xk_sets (k : xkeys) : list xset := match k with XCur c => [c] | XStg s c => [s; c] | XOld c o => [c; o] end.
Definition xk_current (k : xkeys) : xset := match k with XCur c | XStg _ c | XOld c _ => c end.
Definition xk_with_current (k : xkeys) (c : xset) : xkeys :=
  match k with XCur _ => XCur c | XStg s _ => XStg s c | XOld _ o => XOld c o end.
Definition xk_reissue (now next : Z) (k : xkeys) : xkeys :=
  match k with
  | XCur c => XCur (x_reissue now next c)
  | XStg s c => XStg (x_reissue now next s) (x_reissue now next c)
  | XOld c o => XOld (x_reissue now next c) (x_reissue now next o)
  end.

(** One event in the pre-save listener: [Ca.listen1] on signed sets. *)
Definition x_listen1 (env : env) (cer_name : N -> N) (xo : xobjects) (e : event) : Ca.result (xobjects * bool) :=
  let on_current c (f : oset -> oset) :=
      match aget c xo with
      | None => Err
      | Some k => Ok (ainsert c (xk_with_current k (x_content f (xk_current k))) xo, true)
      end in
  match e with
  | EObjectsUpdated c _ updated removed => on_current c (fun s => os_update_objs s updated removed)
  | EChildCertsUpdated c issued removed suspended unsuspended =>
      on_current c (fun s => os_update_certs s issued (map cer_name removed) suspended unsuspended)
  | EPendingToActive c crt =>
      if amem c xo then Err
      else Ok (ainsert c (XCur (x_create (c_key crt) (e_next env))) xo, false)
  | EPendingToNew c crt =>
      match aget c xo with
      | Some (XCur cur) => Ok (ainsert c (XStg (x_create (c_key crt) (e_next env)) cur) xo, false)
      | _ => Err
      end
  | ERollActivated c =>
      match aget c xo with
      | Some (XStg stg cur) => Ok (ainsert c (XOld stg (x_retire (e_now env) cur)) xo, true)
      | _ => Err
      end
  | ERollFinished c =>
      match aget c xo with
      | Some (XOld cur _) => Ok (ainsert c (XCur cur) xo, false)
      | _ => Err
      end
  | ECertReceived c ki _ =>
      match aget c xo with
      | None => Err
      | Some k => match ok_received_cert (xk_proj k) ki with Ok _ => Ok (ainsert c k xo, false) | Err => Err end
      end
  | EClassRemoved c => Ok (aremove c xo, true)
  | ERepoUpdated => Ok (xo, true)
  | _ => Ok (xo, false)
  end.

Fixpoint x_listen_all (env : env) (cer_name : N -> N) (xo : xobjects) (force : bool) (evs : list event) : Ca.result (xobjects * bool) :=
  match evs with
  | [] => Ok (xo, force)
  | e :: r => match x_listen1 env cer_name xo e with
              | Err => Err
              | Ok (xo', f) => x_listen_all env cer_name xo' (force || f) r
              end
  end.

Definition x_re_issue (env : env) (force : bool) (xo : xobjects) : xobjects :=
  map (fun '(c, k) => (c, if force || ok_requires (e_now env) (e_margin env) (xk_proj k) then xk_reissue (e_now env) (e_next env) k else k)) xo.

Definition x_listener (env : env) (cer_name : N -> N) (xo : xobjects) (evs : list event) : Ca.result xobjects :=
  match x_listen_all env cer_name xo false evs with
  | Err => Err
  | Ok (xo', force) => Ok (x_re_issue env force xo')
  end.

(** What a key set hands to the repository (KeyObjectSet::add_elements, 1192-1213): manifest, CRL, published objects. *)
Inductive pfile := PMft (m : mftv) | PCrl (c : crlv) | PObj (content : N).
Definition x_elements (mft_name crl_name : N) (x : xset) : list (N * pfile) :=
  (mft_name, PMft (x_mft x)) :: (crl_name, PCrl (x_crl x)) :: map (fun '(n, o) => (n, PObj (o_ser o))) (s_pub (x_set x)).

(** * L5: synchronisation with the repository (manager.rs:2644-2705) *)
Inductive delem := DPublish (u c : N) | DUpdate (u c old : N) | DWithdraw (u old : N).
Definition mapof (l : list (N * N)) : list (N * N) := ins_all l [].        (* collect into a HashMap *)

Definition sync_delta (listed elements : list (N * N)) : list delem :=
  let all := mapof elements in
  let reply := mapof listed in
  flat_map (fun '(u, h) => match aget u all with
                           | Some c => if c =? h then [] else [DUpdate u c h]
                           | None => [DWithdraw u h]
                           end) reply
  ++ map (fun '(u, c) => DPublish u c) (rem_all (map fst reply) all).

(** RFC 8181 on the server side: a publish needs a free URI, update and withdraw need the current hash; the delta
    is applied as a whole. *)
Definition d_uri (e : delem) : N := match e with DPublish u _ | DUpdate u _ _ | DWithdraw u _ => u end.
Definition d_ok (content : list (N * N)) (e : delem) : bool :=
  match e with
  | DPublish u _ => negb (amem u content)
  | DUpdate u _ old | DWithdraw u old => match aget u content with Some h => h =? old | None => false end
  end.
Definition d_puts (d : list delem) : list (N * N) :=
  flat_map (fun e => match e with DPublish u c | DUpdate u c _ => [(u, c)] | DWithdraw _ _ => [] end) d.
Definition d_dels (d : list delem) : list N := flat_map (fun e => match e with DWithdraw u _ => [u] | _ => [] end) d.
Definition delta_applied (content : list (N * N)) (d : list delem) : list (N * N) := rem_all (d_dels d) (ins_all (d_puts d) content).

(** * The published tree *)
(** A CA as the repository shows it: the certificate it holds, its CRL's file name, manifest, CRL, the products with
    their file names, and the child CAs with the file name and the certificate published for each. *)
Inductive tree :=
| Node (info : cainfo) (crl_name : N) (mft crl : robj) (products : list (N * robj)) (children : list (N * robj * tree)).

Definition t_info (t : tree) : cainfo := match t with Node i _ _ _ _ _ => i end.

Fixpoint repo_of (t : tree) : repo :=
  match t with
  | Node i crl_name mft crl products children =>
      ((ci_dir i, ci_mft i), mft) :: ((ci_dir i, crl_name), crl)
      :: map (fun '(n, o) => ((ci_dir i, n), o)) products
      ++ map (fun '(n, o, _) => ((ci_dir i, n), o)) children
      ++ flat_map (fun '(_, _, t') => repo_of t') children
  end.

Fixpoint depth (t : tree) : nat :=
  match t with
  | Node _ _ _ _ _ children => S (fold_right Nat.max O (map (fun '(_, _, t') => depth t') children))
  end.

Definition product_vrps (o : robj) : list vrp := match r_body o with BRoa asn pfxs _ => map (fun '(p, m) => mkVrp asn p m) pfxs | _ => [] end.
Definition product_aspas (o : robj) : list (N * list N) := match r_body o with BAspa c ps _ => [(c, ps)] | _ => [] end.
Definition product_rkeys (o : robj) : list (N * N) := match r_body o with BRouter a k _ => [(a, k)] | _ => [] end.

Fixpoint tree_vrps (t : tree) : list vrp :=
  match t with
  | Node _ _ _ _ products children => flat_map (fun '(_, o) => product_vrps o) products ++ flat_map (fun '(_, _, t') => tree_vrps t') children
  end.
Fixpoint tree_aspas (t : tree) : list (N * list N) :=
  match t with
  | Node _ _ _ _ products children => flat_map (fun '(_, o) => product_aspas o) products ++ flat_map (fun '(_, _, t') => tree_aspas t') children
  end.
Fixpoint tree_rkeys (t : tree) : list (N * N) :=
  match t with
  | Node _ _ _ _ products children => flat_map (fun '(_, o) => product_rkeys o) products ++ flat_map (fun '(_, _, t') => tree_rkeys t') children
  end.

Definition is_product_body (b : body) : bool := match b with BRoa _ _ _ | BAspa _ _ _ | BRouter _ _ _ => true | _ => false end.

(** The manifest entries a key set with these files must carry: the CRL, the products, the child certificates,
    each with its content identity (L3 + L5). *)
Definition expected_entries (crl_name : N) (crl : robj) (products : list (N * robj)) (children : list (N * robj * tree)) : list (N * N) :=
  (crl_name, r_hash crl) :: map (fun '(n, o) => (n, r_hash o)) products ++ map (fun '(n, o, _) => (n, r_hash o)) children.

(** Quiescent and well-formed at [now]: per CA the layers L2-L5 (manifest lists exactly CRL + published set with their
    hashes and that is what the repository holds), everything signed by the CA's key, current, not revoked, within
    the CA's certificate (L4 for products, C02 for child certificates); and the chain (L6): the certificate the
    parent publishes for a child is the certificate the child's publication point was built for. *)
Inductive good (now : Z) : tree -> Prop :=
| good_node i crl_name mft crl products children num revoked cnum :
    r_body mft = BMft num crl_name (expected_entries crl_name crl products children) ->
    check_signed now i mft = None ->
    r_body crl = BCrl cnum revoked ->
    check_signed now i crl = None ->
    existsb (N.eqb (r_serial mft)) revoked = false ->
    NoDup (ci_mft i :: crl_name :: map fst products ++ map (fun '(n, _, _) => n) children) ->
    Forall (fun p => is_product_body (r_body (snd p)) = true /\ check_object now i revoked (snd p) = None) products ->
    Forall (fun c => r_body (snd (fst c)) = BCa (t_info (snd c)) /\ check_object now i revoked (snd (fst c)) = None) children ->
    Forall (fun c => good now (snd c)) children ->
    good now (Node i crl_name mft crl products children).

(** What the relying party reports for a good tree, computed from the tree alone. *)
Fixpoint tree_result (t : tree) : Rp.result :=
  match t with
  | Node i crl_name mft crl products children =>
      let d := ci_dir i in
      let mu := (d, ci_mft i) in
      rapp (mkRes [mu] [] [] (mu :: map (fun e => (d, fst e)) (expected_entries crl_name crl products children)) [d] [] [] [] false)
        (rapp (racc (d, crl_name))
           (rapp (fold_right rapp rempty (map (fun '(n, o) => payload (d, n) o) products))
                 (fold_right rapp rempty (map (fun '(n, _, t') => rapp (racc (d, n)) (tree_result t')) children))))
  end.

Fixpoint tree_dirs (t : tree) : list N :=
  match t with
  | Node i _ _ _ _ children => ci_dir i :: flat_map (fun '(_, _, t') => tree_dirs t') children
  end.
