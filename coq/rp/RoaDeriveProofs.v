(** C01, layer L1: the products a class publishes say exactly what is configured and held.
    Proofs about [rp/RoaDerive.v]. *)
From KV Require Import base.Tac ca.Ca ca.CaProofs ca.CaObjProofs rp.Rp rp.RoaDerive.
Open Scope N_scope.

(** * Lists and finite maps *)
Lemma nmem_spec x l : nmem x l = true <-> In x l.
Proof.
  unfold nmem. rewrite existsb_exists. split.
  - intros [y [Hy E]]. apply N.eqb_eq in E. subst. exact Hy.
  - intros H. exists x. split; [exact H|apply N.eqb_refl].
Qed.
Lemma nmem_false x l : nmem x l = false <-> ~ In x l.
Proof. rewrite <- nmem_spec. destruct (nmem x l); split; intros; congruence. Qed.

Lemma ins_sorted_In x y l : In y (ins_sorted x l) <-> y = x \/ In y l.
Proof.
  induction l as [|z l IH]; simpl.
  - intuition.
  - destruct (x <=? z); simpl; [intuition|]. rewrite IH. intuition.
Qed.
Lemma isort_In x l : In x (isort l) <-> In x l.
Proof.
  induction l as [|y l IH]; simpl; [tauto|]. rewrite ins_sorted_In, IH. intuition.
Qed.
Lemma isort_nil l : isort l = [] -> l = [].
Proof.
  destruct l as [|x l]; [reflexivity|]. intro H. exfalso.
  assert (I : In x (isort (x :: l))) by (apply isort_In; left; reflexivity). rewrite H in I. exact I.
Qed.
Lemma nlist_eqb_eq a : forall b, nlist_eqb a b = true -> a = b.
Proof.
  induction a as [|x a IH]; intros [|y b] H; simpl in H; try discriminate; [reflexivity|].
  apply andb_true_iff in H. destruct H as [E H]. apply N.eqb_eq in E. subst. f_equal. apply IH. exact H.
Qed.
Lemma ndedup_In x l : In x (ndedup l) <-> In x l.
Proof.
  induction l as [|y l IH]; simpl; [tauto|].
  destruct (nmem y l) eqn:E.
  - rewrite IH. apply nmem_spec in E. split; [auto|]. intros [->|H]; auto.
  - simpl. rewrite IH. tauto.
Qed.

Lemma aget_map_self {V} (f : N -> V) a l : aget a (map (fun x => (x, f x)) l) = if nmem a l then Some (f a) else None.
Proof.
  induction l as [|y l IH]; simpl; [reflexivity|].
  rewrite (N.eqb_sym a y). destruct (y =? a) eqn:E; simpl.
  - apply N.eqb_eq in E. subst. reflexivity.
  - exact IH.
Qed.

Lemma aget_some_in {V} k (v : V) l : aget k l = Some v -> In (k, v) l.
Proof. apply aget_in. Qed.
Lemma in_keys_aget {V} k (l : list (N * V)) : In k (map fst l) -> exists v, aget k l = Some v.
Proof.
  induction l as [|[k' v'] l IH]; simpl; [tauto|].
  intros [E|H].
  - subst. rewrite N.eqb_refl. eauto.
  - destruct (k' =? k); eauto.
Qed.
Lemma aget_in_keys {V} k (v : V) l : aget k l = Some v -> In k (map fst l).
Proof. intro H. apply aget_some_in in H. apply (in_map fst) in H. exact H. Qed.
Lemma amem_spec {V} k (l : list (N * V)) : amem k l = true <-> In k (map fst l).
Proof.
  unfold amem. split.
  - destruct (aget k l) eqn:E; [intros _; eapply aget_in_keys; eauto|discriminate].
  - intros H. apply in_keys_aget in H. destruct H as [v ->]. reflexivity.
Qed.
Lemma aget_nil_all {V} (l : list (N * V)) : (forall k, aget k l = None) -> l = [].
Proof.
  destruct l as [|[k v] l]; [reflexivity|]. intro H. specialize (H k). simpl in H. rewrite N.eqb_refl in H. discriminate.
Qed.

Lemma aget_ins_all_notin {V} (upd : list (N * V)) : forall l k, ~ In k (map fst upd) -> aget k (ins_all upd l) = aget k l.
Proof.
  induction upd as [|[k0 v0] upd IH]; intros l k H; [reflexivity|].
  unfold ins_all in *. simpl in *. rewrite IH by tauto. apply aget_ainsert_neq. intro E. apply H. left. congruence.
Qed.
Lemma aget_ins_all_in {V} (upd : list (N * V)) : forall l k, In k (map fst upd) ->
  exists v, In (k, v) upd /\ aget k (ins_all upd l) = Some v.
Proof.
  induction upd as [|[k0 v0] upd IH]; intros l k H; [destruct H|].
  destruct (in_dec N.eq_dec k (map fst upd)) as [I|I].
  - destruct (IH (ainsert k0 v0 l) k I) as [v [Hv E]]. exists v. split; [right; exact Hv|exact E].
  - simpl in H. destruct H as [E|H]; [|contradiction]. subst k0. exists v0. split; [left; reflexivity|].
    unfold ins_all. simpl. fold (ins_all upd (ainsert k v0 l)). rewrite aget_ins_all_notin by exact I. apply aget_ainsert_eq.
Qed.
Lemma aget_rem_all {V} (rem : list N) : forall (l : list (N * V)) k, aget k (rem_all rem l) = if nmem k rem then None else aget k l.
Proof.
  induction rem as [|r rem IH]; intros l k; [reflexivity|].
  unfold rem_all in *. simpl. rewrite IH. unfold nmem. simpl. fold (nmem k rem).
  destruct (nmem k rem); [rewrite orb_true_r; reflexivity|]. rewrite orb_false_r.
  destruct (k =? r) eqn:E.
  - apply N.eqb_eq in E. subst. apply aget_aremove_eq.
  - apply N.eqb_neq in E. apply aget_aremove_neq. exact E.
Qed.
Lemma rem_all_keys_nil {V} (l : list (N * V)) ks : (forall k, In k (map fst l) -> In k ks) -> rem_all ks l = [].
Proof.
  intro H. apply aget_nil_all. intro k. rewrite aget_rem_all.
  destruct (nmem k ks) eqn:E; [reflexivity|]. apply nmem_false in E.
  destruct (aget k l) eqn:G; [|reflexivity]. exfalso. apply E, H. eapply aget_in_keys; eauto.
Qed.

Lemma aremove_keys {V} k k' (l : list (N * V)) : In k' (map fst (aremove k l)) <-> k' <> k /\ In k' (map fst l).
Proof.
  induction l as [|[k0 v0] l IH]; simpl; [tauto|].
  destruct (k0 =? k) eqn:E.
  - apply N.eqb_eq in E. subst. rewrite IH. intuition (subst; congruence).
  - apply N.eqb_neq in E. simpl. rewrite IH. intuition (subst; congruence).
Qed.
Lemma NoDup_aremove {V} k (l : list (N * V)) : NoDup (map fst l) -> NoDup (map fst (aremove k l)).
Proof.
  induction l as [|[k0 v0] l IH]; simpl; intro H; [constructor|]. inv H.
  destruct (k0 =? k); [auto|]. simpl. constructor; [|auto]. rewrite aremove_keys. tauto.
Qed.
Lemma NoDup_ainsert {V} k (v : V) l : NoDup (map fst l) -> NoDup (map fst (ainsert k v l)).
Proof.
  intro H. unfold ainsert. simpl. constructor; [rewrite aremove_keys; tauto|apply NoDup_aremove; exact H].
Qed.
Lemma NoDup_ins_all {V} (upd : list (N * V)) : forall l, NoDup (map fst l) -> NoDup (map fst (ins_all upd l)).
Proof.
  induction upd as [|[k v] upd IH]; intros l H; [exact H|]. unfold ins_all in *. simpl. apply IH. apply NoDup_ainsert. exact H.
Qed.
Lemma NoDup_rem_all {V} (rem : list N) : forall (l : list (N * V)), NoDup (map fst l) -> NoDup (map fst (rem_all rem l)).
Proof.
  induction rem as [|k rem IH]; intros l H; [exact H|]. unfold rem_all in *. simpl. apply IH. apply NoDup_aremove. exact H.
Qed.
Lemma in_nodup_aget {V} k (v : V) l : NoDup (map fst l) -> In (k, v) l -> aget k l = Some v.
Proof.
  induction l as [|[k0 v0] l IH]; simpl; intros N I; [destruct I|]. inv N.
  destruct I as [E|I].
  - inv E. rewrite N.eqb_refl. reflexivity.
  - destruct (k0 =? k) eqn:E; [|auto]. apply N.eqb_eq in E. subst. exfalso. apply H1. apply (in_map fst) in I. exact I.
Qed.

(** * ROAs *)
Section DeriveProofs.
  Variable asn_of : N -> N.
  Variable res_of : N -> N.
  Variable simple_name : N -> N.
  Variable aggr_name : N -> N.
  Variable sign : N -> list N -> obj.

  Notation make_simple := (make_simple simple_name sign).
  Notation make_aggr := (make_aggr aggr_name sign).
  Notation simple_updated := (simple_updated simple_name sign).
  Notation aggr_updated := (aggr_updated asn_of aggr_name sign).
  Notation to_aggregates := (to_aggregates asn_of).
  Notation aggr_removed := (aggr_removed asn_of).
  Notation updates_for := (updates_for asn_of simple_name aggr_name sign).
  Notation create_updates := (create_updates asn_of res_of simple_name aggr_name sign).
  Notation relevant := (relevant res_of).
  Notation renewal_pinned := (renewal_pinned simple_name aggr_name sign).
  Notation roa_ok := (roa_ok asn_of).

  (** A payload is carried by a simple or an aggregate ROA of the class. *)
  Definition carries (r : roas) (p : N) : Prop :=
    (exists k i, aget k (ro_simple r) = Some i /\ In p (ri_auths i)) \/
    (exists a i, aget a (ro_aggr r) = Some i /\ In p (ri_auths i)).

  (** Invariant of the ROAs of a class: never simple and aggregate ROAs side by side; a simple ROA carries its own
      payload; an aggregate ROA carries at least one payload and only payloads of its AS. *)
  Definition wf (r : roas) : Prop :=
    (ro_simple r = [] \/ ro_aggr r = []) /\
    (forall k i, aget k (ro_simple r) = Some i -> ri_auths i = [k]) /\
    (forall a i, aget a (ro_aggr r) = Some i -> ri_auths i <> [] /\ forall p, In p (ri_auths i) -> asn_of p = a) /\
    NoDup (map fst (ro_simple r)) /\ NoDup (map fst (ro_aggr r)).

  Lemma wf_empty : wf roas_empty.
  Proof. split; [left; reflexivity|]. split; [intros ? ? H; discriminate H|]. split; [intros ? ? H; discriminate H|]. split; constructor. Qed.

  (** ** to_aggregates *)
  Lemma to_aggregates_get rel a :
    aget a (to_aggregates rel) = if nmem a (map asn_of rel) then Some (isort (filter (fun p => asn_of p =? a) rel)) else None.
  Proof.
    unfold RoaDerive.to_aggregates. rewrite aget_map_self.
    destruct (nmem a (ndedup (map asn_of rel))) eqn:E, (nmem a (map asn_of rel)) eqn:F; try reflexivity.
    - exfalso. apply (proj1 (nmem_spec _ _)) in E. apply (proj1 (ndedup_In _ _)) in E. apply (proj2 (nmem_spec _ _)) in E. congruence.
    - exfalso. apply (proj1 (nmem_spec _ _)) in F. apply (proj2 (ndedup_In _ _)) in F. apply (proj2 (nmem_spec _ _)) in F. congruence.
  Qed.
  Lemma to_aggregates_spec rel a auths :
    aget a (to_aggregates rel) = Some auths -> (forall p, In p auths <-> In p rel /\ asn_of p = a) /\ auths <> [].
  Proof.
    rewrite to_aggregates_get. destruct (nmem a (map asn_of rel)) eqn:E; [|discriminate]. intro H. inv H.
    assert (S : forall p, In p (isort (filter (fun p0 => asn_of p0 =? a) rel)) <-> In p rel /\ asn_of p = a).
    { intro p. rewrite isort_In, filter_In, N.eqb_eq. tauto. }
    split; [exact S|].
    apply nmem_spec in E. apply in_map_iff in E. destruct E as [p [Ea Hp]].
    intro Z. assert (I : In p (isort (filter (fun p0 => asn_of p0 =? a) rel))) by (apply S; auto). rewrite Z in I. exact I.
  Qed.
  Lemma to_aggregates_has rel p : In p rel -> exists auths, aget (asn_of p) (to_aggregates rel) = Some auths /\ In p auths.
  Proof.
    intro H. rewrite to_aggregates_get.
    assert (E : nmem (asn_of p) (map asn_of rel) = true) by (apply nmem_spec, in_map, H). rewrite E.
    eexists. split; [reflexivity|]. rewrite isort_In, filter_In, N.eqb_eq. auto.
  Qed.
  Lemma to_aggregates_nodup rel a x y : In (a, x) (to_aggregates rel) -> aget a (to_aggregates rel) = Some y -> x = y.
  Proof.
    intros I G. unfold RoaDerive.to_aggregates in I. apply in_map_iff in I. destruct I as [a' [E _]]. inv E.
    rewrite to_aggregates_get in G. destruct (nmem a (map asn_of rel)); inv G. reflexivity.
  Qed.

  (** ** The simple part *)
  Lemma simple_part r rel k :
    (forall k i, aget k (ro_simple r) = Some i -> ri_auths i = [k]) ->
    let s' := rem_all (simple_removed r rel) (ins_all (simple_updated r rel) (ro_simple r)) in
    (forall i, aget k s' = Some i -> ri_auths i = [k] /\ In k rel) /\ (In k rel -> exists i, aget k s' = Some i).
  Proof.
    intros W s'. subst s'. rewrite aget_rem_all.
    destruct (nmem k (simple_removed r rel)) eqn:R.
    - (* removed: not relevant *)
      apply nmem_spec in R. unfold simple_removed in R. apply in_map_iff in R. destruct R as [[k' i'] [E R]]. simpl in E. subst k'.
      apply filter_In in R. destruct R as [_ R]. apply negb_true_iff in R. apply nmem_false in R.
      split; [intros i H; discriminate|intro H; contradiction].
    - apply nmem_false in R.
      destruct (in_dec N.eq_dec k (map fst (simple_updated r rel))) as [U|U].
      + destruct (aget_ins_all_in _ (ro_simple r) k U) as [v [Hv E]]. rewrite E.
        unfold RoaDerive.simple_updated in Hv. apply in_map_iff in Hv. destruct Hv as [p [Ep Hp]]. inv Ep.
        apply filter_In in Hp. destruct Hp as [Hp _].
        split; [intros i H; inv H; split; [reflexivity|exact Hp]|eauto].
      + rewrite aget_ins_all_notin by exact U.
        split.
        * intros i H. split; [apply W; exact H|].
          destruct (nmem k rel) eqn:Q; [apply nmem_spec; exact Q|]. exfalso. apply R.
          unfold simple_removed. apply in_map_iff. exists (k, i). split; [reflexivity|].
          apply filter_In. split; [apply aget_some_in; exact H|]. rewrite Q. reflexivity.
        * intro Hk. destruct (aget k (ro_simple r)) eqn:G; [eauto|]. exfalso. apply U.
          apply in_map_iff. exists (k, make_simple k). split; [reflexivity|].
          unfold RoaDerive.simple_updated. apply in_map_iff. exists k. split; [reflexivity|].
          apply filter_In. split; [exact Hk|]. unfold amem. rewrite G. reflexivity.
  Qed.

  (** ** The aggregate part *)
  Lemma aggr_updated_in r rel a i :
    In (a, i) (aggr_updated r rel) -> exists auths, aget a (to_aggregates rel) = Some auths /\ i = make_aggr a auths.
  Proof.
    unfold RoaDerive.aggr_updated. rewrite in_flat_map. intros [[a' auths] [Hd Hi]].
    assert (G : aget a' (to_aggregates rel) = Some auths).
    { pose proof Hd as Hd'. unfold RoaDerive.to_aggregates in Hd'. apply in_map_iff in Hd'. destruct Hd' as [x [E Hx]]. inv E.
      rewrite to_aggregates_get. rewrite (proj2 (nmem_spec _ _)); [reflexivity|]. apply ndedup_In. exact Hx. }
    destruct (aget a' (ro_aggr r)) as [ex|].
    - destruct (nlist_eqb auths (isort (ri_auths ex))); [destruct Hi|].
      destruct Hi as [E|[]]. inv E. eauto.
    - destruct Hi as [E|[]]. inv E. eauto.
  Qed.
  Lemma aggr_updated_notin r rel a auths :
    aget a (to_aggregates rel) = Some auths -> ~ In a (map fst (aggr_updated r rel)) ->
    exists ex, aget a (ro_aggr r) = Some ex /\ auths = isort (ri_auths ex).
  Proof.
    intros G U.
    assert (Hd : In (a, auths) (to_aggregates rel)) by (apply aget_some_in; exact G).
    destruct (aget a (ro_aggr r)) as [ex|] eqn:Gx.
    - destruct (nlist_eqb auths (isort (ri_auths ex))) eqn:Q.
      + exists ex. split; [reflexivity|]. apply nlist_eqb_eq. exact Q.
      + exfalso. apply U. apply in_map_iff. exists (a, make_aggr a auths). split; [reflexivity|].
        unfold RoaDerive.aggr_updated. apply in_flat_map. exists (a, auths). split; [exact Hd|]. rewrite Gx, Q. left. reflexivity.
    - exfalso. apply U. apply in_map_iff. exists (a, make_aggr a auths). split; [reflexivity|].
      unfold RoaDerive.aggr_updated. apply in_flat_map. exists (a, auths). split; [exact Hd|]. rewrite Gx. left. reflexivity.
  Qed.

  Lemma aggr_part r rel a :
    let g' := rem_all (aggr_removed r rel) (ins_all (aggr_updated r rel) (ro_aggr r)) in
    (forall i, aget a g' = Some i -> exists auths, aget a (to_aggregates rel) = Some auths /\ forall p, In p (ri_auths i) <-> In p auths)
    /\ (forall auths, aget a (to_aggregates rel) = Some auths -> exists i, aget a g' = Some i).
  Proof.
    intro g'. subst g'. rewrite aget_rem_all.
    destruct (nmem a (aggr_removed r rel)) eqn:R.
    - apply nmem_spec in R. unfold RoaDerive.aggr_removed in R. apply in_map_iff in R. destruct R as [[a' i'] [E R]]. simpl in E. subst a'.
      apply filter_In in R. destruct R as [_ R]. apply negb_true_iff in R.
      split; [intros i H; discriminate|]. intros auths G. unfold amem in R. rewrite G in R. discriminate.
    - apply nmem_false in R.
      destruct (in_dec N.eq_dec a (map fst (aggr_updated r rel))) as [U|U].
      + destruct (aget_ins_all_in _ (ro_aggr r) a U) as [v [Hv E]]. rewrite E.
        destruct (aggr_updated_in _ _ _ _ Hv) as [auths [G Ev]]. subst v.
        split; [|eauto]. intros i H. inv H. exists auths. split; [exact G|]. simpl. tauto.
      + rewrite aget_ins_all_notin by exact U.
        split.
        * intros i H.
          destruct (aget a (to_aggregates rel)) as [auths|] eqn:G.
          -- destruct (aggr_updated_notin _ _ _ _ G U) as [ex [Gx Ea]]. rewrite H in Gx. inv Gx.
             exists (isort (ri_auths ex)). split; [reflexivity|]. intro p. rewrite isort_In. tauto.
          -- exfalso. apply R. unfold RoaDerive.aggr_removed. apply in_map_iff. exists (a, i). split; [reflexivity|].
             apply filter_In. split; [apply aget_some_in; exact H|]. unfold amem. rewrite G. reflexivity.
        * intros auths G. destruct (aggr_updated_notin _ _ _ _ G U) as [ex [Gx _]]. eauto.
  Qed.

  Lemma all_removed {V} (l : list (N * V)) : rem_all (map fst l) (ins_all [] l) = [].
  Proof. apply rem_all_keys_nil. auto. Qed.

  (** ** L1: exactness in all four modes *)
  Lemma length_zero_nil {A} (l : list A) : N.of_nat (length l) = 0 -> l = [].
  Proof. destruct l; [reflexivity|]. simpl. lia. Qed.

  Theorem updates_exact r rel deagg agg :
    wf r ->
    let r' := apply_updates r (updates_for r rel deagg agg) in
    wf r' /\ forall p, carries r' p <-> In p rel.
  Proof.
    intros [W1 [W2 [W3 [W4 W5]]]] r'. subst r'. unfold RoaDerive.updates_for, select_mode.
    (* facts used in every mode *)
    assert (SP := fun k => simple_part r rel k W2).
    assert (AP := aggr_part r rel).
    assert (NS : forall X Y, NoDup (map fst (rem_all X (ins_all Y (ro_simple r))))) by (intros; apply NoDup_rem_all, NoDup_ins_all, W4).
    assert (NG : forall X Y, NoDup (map fst (rem_all X (ins_all Y (ro_aggr r))))) by (intros; apply NoDup_rem_all, NoDup_ins_all, W5).
    assert (WS : forall k i, aget k (rem_all (simple_removed r rel) (ins_all (simple_updated r rel) (ro_simple r))) = Some i -> ri_auths i = [k]).
    { intros k i H. apply (proj1 (SP k)) in H. tauto. }
    assert (WA : forall a i, aget a (rem_all (aggr_removed r rel) (ins_all (aggr_updated r rel) (ro_aggr r))) = Some i ->
                 ri_auths i <> [] /\ forall p, In p (ri_auths i) -> asn_of p = a).
    { intros a i H. apply (proj1 (AP a)) in H. destruct H as [auths [G E]].
      destruct (to_aggregates_spec _ _ _ G) as [S NE]. split.
      - intro Z. destruct auths as [|p auths]; [congruence|]. assert (I : In p (ri_auths i)) by (apply E; left; reflexivity). rewrite Z in I. exact I.
      - intros p Hp. apply E in Hp. apply S in Hp. tauto. }
    assert (CS : forall p, (exists k i, aget k (rem_all (simple_removed r rel) (ins_all (simple_updated r rel) (ro_simple r))) = Some i /\ In p (ri_auths i)) <-> In p rel).
    { intro p. split.
      - intros [k [i [H Hp]]]. apply (proj1 (SP k)) in H. destruct H as [E Hk]. rewrite E in Hp. destruct Hp as [->|[]]. exact Hk.
      - intro Hp. destruct (proj2 (SP p) Hp) as [i H]. exists p, i. split; [exact H|]. apply (proj1 (SP p)) in H. destruct H as [E _]. rewrite E. left. reflexivity. }
    assert (CA : forall p, (exists a i, aget a (rem_all (aggr_removed r rel) (ins_all (aggr_updated r rel) (ro_aggr r))) = Some i /\ In p (ri_auths i)) <-> In p rel).
    { intro p. split.
      - intros [a [i [H Hp]]]. apply (proj1 (AP a)) in H. destruct H as [auths [G E]]. apply E in Hp.
        apply (proj1 (to_aggregates_spec _ _ _ G)) in Hp. tauto.
      - intro Hp. destruct (to_aggregates_has _ _ Hp) as [auths [G Ha]].
        destruct (proj2 (AP (asn_of p)) _ G) as [i H]. exists (asn_of p), i. split; [exact H|].
        destruct (proj1 (AP (asn_of p)) _ H) as [auths' [G' E]]. rewrite G in G'. inv G'. apply E. exact Ha. }
    assert (only_simple : forall s', (forall k i, aget k s' = Some i -> ri_auths i = [k]) -> NoDup (map fst s') ->
              (forall p, (exists k i, aget k s' = Some i /\ In p (ri_auths i)) <-> In p rel) ->
              wf (mkRoas s' []) /\ forall p, carries (mkRoas s' []) p <-> In p rel).
    { intros s' A B C. split.
      - split; [right; reflexivity|]. split; [exact A|]. split; [intros a i H; discriminate H|]. split; [exact B|constructor].
      - intro p. unfold carries. simpl. rewrite <- C. split; [intros [H|[a [i [H _]]]]; [exact H|discriminate H]|intro H; left; exact H]. }
    assert (only_aggr : forall g', (forall a i, aget a g' = Some i -> ri_auths i <> [] /\ forall p, In p (ri_auths i) -> asn_of p = a) -> NoDup (map fst g') ->
              (forall p, (exists a i, aget a g' = Some i /\ In p (ri_auths i)) <-> In p rel) ->
              wf (mkRoas [] g') /\ forall p, carries (mkRoas [] g') p <-> In p rel).
    { intros g' A B C. split.
      - split; [left; reflexivity|]. split; [intros k i H; discriminate H|]. split; [exact A|]. split; [constructor|exact B].
      - intro p. unfold carries. simpl. rewrite <- C. split; [intros [[k [i [H _]]]|H]; [discriminate H|exact H]|intro H; right; exact H]. }
    assert (simple_mode : ro_aggr r = [] ->
      wf (apply_updates r (mkRU (simple_updated r rel) (simple_removed r rel) [] [])) /\
      forall p, carries (apply_updates r (mkRU (simple_updated r rel) (simple_removed r rel) [] [])) p <-> In p rel).
    { intro Z. unfold apply_updates. simpl. rewrite Z. apply only_simple; [exact WS|apply NS|exact CS]. }
    assert (aggr_mode : ro_simple r = [] ->
      wf (apply_updates r (mkRU [] [] (aggr_updated r rel) (aggr_removed r rel))) /\
      forall p, carries (apply_updates r (mkRU [] [] (aggr_updated r rel) (aggr_removed r rel))) p <-> In p rel).
    { intro Z. unfold apply_updates. simpl. rewrite Z. apply only_aggr; [exact WA|apply NG|exact CA]. }
    assert (stop_mode :
      wf (apply_updates r (mkRU (simple_updated r rel) (simple_removed r rel) [] (map fst (ro_aggr r)))) /\
      forall p, carries (apply_updates r (mkRU (simple_updated r rel) (simple_removed r rel) [] (map fst (ro_aggr r)))) p <-> In p rel).
    { unfold apply_updates. simpl. rewrite all_removed. apply only_simple; [exact WS|apply NS|exact CS]. }
    assert (start_mode :
      wf (apply_updates r (mkRU [] (map fst (ro_simple r)) (aggr_updated r rel) (aggr_removed r rel))) /\
      forall p, carries (apply_updates r (mkRU [] (map fst (ro_simple r)) (aggr_updated r rel) (aggr_removed r rel))) p <-> In p rel).
    { unfold apply_updates. simpl. rewrite all_removed. apply only_aggr; [exact WA|apply NG|exact CA]. }
    assert (NA : aggregating r = false -> ro_aggr r = []) by (unfold aggregating; destruct (ro_aggr r); [reflexivity|discriminate]).
    assert (YA : aggregating r = true -> ro_simple r = []).
    { unfold aggregating. destruct W1 as [Z|Z]; [intros _; exact Z|rewrite Z; discriminate]. }
    destruct (N.of_nat (length rel) =? 0) eqn:T0.
    - destruct (aggregating r) eqn:Ag; [apply aggr_mode, YA; reflexivity|apply simple_mode, NA; reflexivity].
    - destruct (aggregating r) eqn:Ag.
      + destruct (N.of_nat (length rel) <? deagg); [exact stop_mode|apply aggr_mode, YA; reflexivity].
      + destruct (agg <? N.of_nat (length rel)); [exact start_mode|apply simple_mode, NA; reflexivity].
  Qed.

  (** make_roa never fails on what create_updates asks it to sign. *)
  Theorem create_updates_total r routes cert deagg agg : create_updates r routes cert deagg agg <> None.
  Proof.
    unfold RoaDerive.create_updates.
    match goal with |- (if ?b then _ else _) <> None => assert (E : b = true); [|rewrite E; discriminate] end.
    apply forallb_forall. intros [k i] H. apply in_app_or in H.
    assert (S : forall rel, In (k, i) (simple_updated r rel) -> roa_ok (ri_auths i) = true).
    { intros rel I. unfold RoaDerive.simple_updated in I. apply in_map_iff in I. destruct I as [p [E _]]. inv E. simpl. rewrite N.eqb_refl. reflexivity. }
    assert (A : forall rel, In (k, i) (aggr_updated r rel) -> roa_ok (ri_auths i) = true).
    { intros rel I. destruct (aggr_updated_in _ _ _ _ I) as [auths [G E]]. subst i. simpl.
      destruct (to_aggregates_spec _ _ _ G) as [Sp NE]. destruct auths as [|p auths]; [congruence|].
      unfold RoaDerive.roa_ok. apply forallb_forall. intros q Hq. apply N.eqb_eq.
      assert (Ep : asn_of p = k) by (apply Sp; left; reflexivity). assert (Eq : asn_of q = k) by (apply Sp; exact Hq). congruence. }
    unfold RoaDerive.updates_for in H. destruct (select_mode _ _ _ _); simpl in H; destruct H as [H|H]; try contradiction; eauto.
  Qed.

  (** L1 for ROAs: after create_updates + apply, the payloads carried by the simple and aggregate ROAs of the class
      are exactly the configured routes the certificate holds - in every mode and across every mode switch. *)
  Theorem roas_exact r routes cert deagg agg u :
    wf r -> create_updates r routes cert deagg agg = Some u ->
    wf (apply_updates r u) /\ forall p, carries (apply_updates r u) p <-> (In p routes /\ held res_of cert p = true).
  Proof.
    intros W H. unfold RoaDerive.create_updates in H.
    destruct (forallb _ _); [|discriminate]. inv H.
    destruct (updates_exact r (relevant routes cert) deagg agg W) as [W' E]. split; [exact W'|].
    intro p. rewrite E. unfold RoaDerive.relevant. apply filter_In.
  Qed.

  (** The renewal of the originally pinned tree (before the repair of F04c) keeps the invariant and the payloads; it
      does NOT look at the certificate of the key it renews under. Regression witness. *)
  Lemma ins_all_renew {V} (f : N -> V -> V) (l : list (N * V)) k : NoDup (map fst l) ->
    aget k (ins_all (map (fun '(k, v) => (k, f k v)) l) l) = match aget k l with Some v => Some (f k v) | None => None end.
  Proof.
    intro ND.
    assert (K : map fst (map (fun '(k, v) => (k, f k v)) l) = map fst l).
    { rewrite map_map. apply map_ext. intros [a b]. reflexivity. }
    destruct (in_dec N.eq_dec k (map fst l)) as [I|I].
    - rewrite <- K in I. destruct (aget_ins_all_in _ l k I) as [v [Hv E]]. rewrite E.
      apply in_map_iff in Hv. destruct Hv as [[k0 v0] [E0 H0]]. inv E0.
      rewrite (in_nodup_aget _ _ _ ND H0). reflexivity.
    - rewrite aget_ins_all_notin by (rewrite K; exact I).
      destruct (aget k l) eqn:G; [|reflexivity]. exfalso. apply I. eapply aget_in_keys; eauto.
  Qed.

  Theorem renewal_pinned_keeps r :
    wf r -> wf (apply_updates r (renewal_pinned r)) /\ forall p, carries (apply_updates r (renewal_pinned r)) p <-> carries r p.
  Proof.
    intros [W1 [W2 [W3 [W4 W5]]]].
    assert (S : forall k, aget k (ro_simple (apply_updates r (renewal_pinned r))) = match aget k (ro_simple r) with Some _ => Some (make_simple k) | None => None end).
    { intro k. unfold apply_updates, RoaDerive.renewal_pinned. simpl. apply (ins_all_renew (fun k _ => make_simple k)). exact W4. }
    assert (G : forall a, aget a (ro_aggr (apply_updates r (renewal_pinned r))) = match aget a (ro_aggr r) with Some i => Some (make_aggr a (ri_auths i)) | None => None end).
    { intro a. unfold apply_updates, RoaDerive.renewal_pinned. simpl. apply (ins_all_renew (fun a i => make_aggr a (ri_auths i))). exact W5. }
    split.
    - split.
      + destruct W1 as [Z|Z]; [left|right]; apply aget_nil_all; intro k; [rewrite S|rewrite G]; rewrite Z; reflexivity.
      + split; [|split; [|split]].
        * intros k i H. rewrite S in H. destruct (aget k (ro_simple r)); inv H. reflexivity.
        * intros a i H. rewrite G in H. destruct (aget a (ro_aggr r)) as [i0|] eqn:E; inv H. simpl. apply W3. exact E.
        * unfold apply_updates. simpl. apply NoDup_ins_all. exact W4.
        * unfold apply_updates. simpl. apply NoDup_ins_all. exact W5.
    - intro p. unfold carries. split.
      + intros [[k [i [H Hp]]]|[a [i [H Hp]]]].
        * rewrite S in H. destruct (aget k (ro_simple r)) as [i0|] eqn:E; inv H. left. exists k, i0. split; [exact E|].
          rewrite (W2 _ _ E). exact Hp.
        * rewrite G in H. destruct (aget a (ro_aggr r)) as [i0|] eqn:E; inv H. right. exists a, i0. split; [exact E|exact Hp].
      + intros [[k [i [H Hp]]]|[a [i [H Hp]]]].
        * left. exists k, (make_simple k). split; [rewrite S, H; reflexivity|]. rewrite (W2 _ _ H) in Hp. exact Hp.
        * right. exists a, (make_aggr a (ri_auths i)). split; [rewrite G, H; reflexivity|exact Hp].
  Qed.

  (** The renewal of a key-roll activation (code of record since the repair of F04c): invariant kept, and the payloads
      afterwards are exactly the payloads before that the certificate of the NEW key holds. *)
  Notation renewal_fixed := (renewal_fixed res_of simple_name aggr_name sign).
  Notation held := (held res_of).

  Lemma fixed_simple cert r k v : wf r ->
    aget k (ro_simple (apply_updates r (renewal_fixed cert r))) = Some v <->
    (v = make_simple k /\ In k (map fst (ro_simple r)) /\ held cert k = true).
  Proof.
    intros [_ [_ [_ [W4 _]]]]. unfold apply_updates, RoaDerive.renewal_fixed. cbn [ro_simple u_upd u_rem]. rewrite aget_rem_all.
    set (upd := map (fun '(k0, _) => (k0, make_simple k0)) (filter (fun '(k0, _) => held cert k0) (ro_simple r))).
    set (rem := map fst (filter (fun '(k0, _) => negb (held cert k0)) (ro_simple r))).
    assert (Hrem : In k rem <-> In k (map fst (ro_simple r)) /\ held cert k = false).
    { subst rem. rewrite in_map_iff. split.
      - intros [[k0 i0] [E H]]. simpl in E. subst k0. apply filter_In in H. destruct H as [H Q]. apply negb_true_iff in Q.
        split; [apply (in_map fst) in H; exact H|exact Q].
      - intros [H Q]. apply in_map_iff in H. destruct H as [[k0 i0] [E H]]. simpl in E. subst k0. exists (k, i0). split; [reflexivity|].
        apply filter_In. split; [exact H|]. rewrite Q. reflexivity. }
    assert (Hupd : forall w, In (k, w) upd <-> w = make_simple k /\ In k (map fst (ro_simple r)) /\ held cert k = true).
    { intro w. subst upd. rewrite in_map_iff. split.
      - intros [[k0 i0] [E H]]. inv E. apply filter_In in H. destruct H as [H Q]. split; [reflexivity|]. split; [apply (in_map fst) in H; exact H|exact Q].
      - intros [-> [H Q]]. apply in_map_iff in H. destruct H as [[k0 i0] [E H]]. simpl in E. subst k0. exists (k, i0). split; [reflexivity|].
        apply filter_In. split; [exact H|exact Q]. }
    destruct (nmem k rem) eqn:R.
    - apply nmem_spec in R. apply Hrem in R. destruct R as [_ Q]. split; [discriminate|]. intros [_ [_ Q']]. congruence.
    - apply nmem_false in R.
      destruct (in_dec N.eq_dec k (map fst upd)) as [U|U].
      + destruct (aget_ins_all_in _ (ro_simple r) k U) as [w [Hw E]]. rewrite E. apply Hupd in Hw.
        split; [intro X; inv X; exact Hw|]. intros [-> _]. destruct Hw as [-> _]. reflexivity.
      + rewrite aget_ins_all_notin by exact U. split.
        * intro G. exfalso. apply aget_in_keys in G. destruct (held cert k) eqn:Q.
          -- apply U. apply in_map_iff. exists (k, make_simple k). split; [reflexivity|]. apply Hupd. auto.
          -- apply R. apply Hrem. auto.
        * intros [_ [H Q]]. exfalso. apply U. apply in_map_iff. exists (k, make_simple k). split; [reflexivity|]. apply Hupd. auto.
  Qed.

  Lemma fixed_aggr cert r a v : wf r ->
    aget a (ro_aggr (apply_updates r (renewal_fixed cert r))) = Some v <->
    (exists i, aget a (ro_aggr r) = Some i /\ filter (held cert) (ri_auths i) <> [] /\ v = make_aggr a (filter (held cert) (ri_auths i))).
  Proof.
    intros [_ [_ [_ [_ W5]]]]. unfold apply_updates, RoaDerive.renewal_fixed. cbn [ro_aggr u_aupd u_arem]. rewrite aget_rem_all.
    set (upd := flat_map (fun '(a0, i) => match filter (held cert) (ri_auths i) with [] => [] | l => [(a0, make_aggr a0 l)] end) (ro_aggr r)).
    set (rem := flat_map (fun '(a0, i) => match filter (held cert) (ri_auths i) with [] => [a0] | _ => [] end) (ro_aggr r)).
    assert (Hrem : In a rem <-> exists i, aget a (ro_aggr r) = Some i /\ filter (held cert) (ri_auths i) = []).
    { subst rem. rewrite in_flat_map. split.
      - intros [[a0 i0] [H Q]]. destruct (filter (held cert) (ri_auths i0)) eqn:F; [|destruct Q]. destruct Q as [<-|[]].
        exists i0. split; [apply in_nodup_aget; assumption|exact F].
      - intros [i [G F]]. exists (a, i). split; [apply aget_some_in; exact G|]. rewrite F. left. reflexivity. }
    assert (Hupd : forall w, In (a, w) upd <-> exists i, aget a (ro_aggr r) = Some i /\ filter (held cert) (ri_auths i) <> [] /\ w = make_aggr a (filter (held cert) (ri_auths i))).
    { intro w. subst upd. rewrite in_flat_map. split.
      - intros [[a0 i0] [H Q]]. destruct (filter (held cert) (ri_auths i0)) eqn:F; [destruct Q|]. destruct Q as [E|[]]. inv E.
        exists i0. split; [apply in_nodup_aget; assumption|]. rewrite F. split; [discriminate|reflexivity].
      - intros [i [G [F ->]]]. exists (a, i). split; [apply aget_some_in; exact G|].
        destruct (filter (held cert) (ri_auths i)) eqn:Q; [congruence|]. left. reflexivity. }
    destruct (nmem a rem) eqn:R.
    - apply nmem_spec in R. apply Hrem in R. destruct R as [i [G F]]. split; [discriminate|]. intros [i' [G' [F' _]]]. rewrite G in G'. inv G'. congruence.
    - apply nmem_false in R.
      destruct (in_dec N.eq_dec a (map fst upd)) as [U|U].
      + destruct (aget_ins_all_in _ (ro_aggr r) a U) as [w [Hw E]]. rewrite E. apply Hupd in Hw.
        split; [intro X; inv X; exact Hw|]. intros [i [G [F ->]]]. destruct Hw as [i' [G' [_ ->]]]. rewrite G in G'. inv G'. reflexivity.
      + rewrite aget_ins_all_notin by exact U. split.
        * intro G. exfalso. destruct (filter (held cert) (ri_auths v)) eqn:F.
          -- apply R. apply Hrem. eauto.
          -- apply U. apply in_map_iff. exists (a, make_aggr a (filter (held cert) (ri_auths v))). split; [reflexivity|]. apply Hupd.
             exists v. split; [exact G|]. split; [rewrite F; discriminate|reflexivity].
        * intros [i [G [F ->]]]. exfalso. apply U. apply in_map_iff. exists (a, make_aggr a (filter (held cert) (ri_auths i))). split; [reflexivity|].
          apply Hupd. eauto.
  Qed.

  Theorem renewal_fixed_exact cert r :
    wf r ->
    wf (apply_updates r (renewal_fixed cert r)) /\
    forall p, carries (apply_updates r (renewal_fixed cert r)) p <-> (carries r p /\ held cert p = true).
  Proof.
    intro W. pose proof W as [W1 [W2 [W3 [W4 W5]]]].
    assert (FS := fun k v => fixed_simple cert r k v W). assert (FA := fun a v => fixed_aggr cert r a v W).
    split.
    - split; [|split; [|split; [|split]]].
      + destruct W1 as [Z|Z]; [left|right]; apply aget_nil_all; intro k.
        * destruct (aget k (ro_simple (apply_updates r (renewal_fixed cert r)))) eqn:G; [|reflexivity]. apply FS in G. rewrite Z in G. simpl in G. tauto.
        * destruct (aget k (ro_aggr (apply_updates r (renewal_fixed cert r)))) eqn:G; [|reflexivity]. apply FA in G. rewrite Z in G. destruct G as [i [G _]]. discriminate.
      + intros k i G. apply FS in G. destruct G as [-> _]. reflexivity.
      + intros a i G. apply FA in G. destruct G as [i0 [G [F ->]]]. simpl. split; [exact F|].
        intros p Hp. apply filter_In in Hp. destruct Hp as [Hp _]. apply (proj2 (W3 _ _ G)). exact Hp.
      + unfold apply_updates. simpl. apply NoDup_rem_all, NoDup_ins_all, W4.
      + unfold apply_updates. simpl. apply NoDup_rem_all, NoDup_ins_all, W5.
    - intro p. unfold carries. split.
      + intros [[k [i [G Hp]]]|[a [i [G Hp]]]].
        * apply FS in G. destruct G as [-> [Hk Q]]. simpl in Hp. destruct Hp as [->|[]]. split; [|exact Q].
          left. apply in_keys_aget in Hk. destruct Hk as [i0 G0]. exists p, i0. split; [exact G0|]. rewrite (W2 _ _ G0). left. reflexivity.
        * apply FA in G. destruct G as [i0 [G0 [_ ->]]]. simpl in Hp. apply filter_In in Hp. destruct Hp as [Hp Q]. split; [|exact Q].
          right. exists a, i0. auto.
      + intros [[[k [i [G Hp]]]|[a [i [G Hp]]]] Q].
        * rewrite (W2 _ _ G) in Hp. destruct Hp as [->|[]]. left. exists p, (make_simple p). split; [|left; reflexivity].
          apply FS. split; [reflexivity|]. split; [eapply aget_in_keys; eauto|exact Q].
        * right. exists a, (make_aggr a (filter (held cert) (ri_auths i))).
          assert (I : In p (filter (held cert) (ri_auths i))) by (apply filter_In; auto).
          split; [|exact I]. apply FA. exists i. split; [exact G|]. split; [|reflexivity]. intro Z. rewrite Z in I. exact I.
  Qed.

  (** Across any history of derivations and renewals, starting from a class without ROAs: the invariant holds and
      after every derivation the ROAs say exactly what is configured and held (shrink-then-regrow while aggregated,
      mode switches at the thresholds, emptying and refilling included, since [routes] and [cert] are arbitrary
      at every step); a renewal under any certificate keeps the invariant. *)
  Theorem roas_exact_history deagg agg steps : forall r r',
    wf r -> rsteps_run asn_of res_of simple_name aggr_name sign deagg agg r steps = Some r' -> wf r'.
  Proof.
    unfold rsteps_run. induction steps as [|s steps IH]; intros r r' W H; simpl in H; [inv H; exact W|].
    destruct (rstep_run asn_of res_of simple_name aggr_name sign deagg agg r s) as [r1|] eqn:E.
    - apply (IH r1); [|exact H]. destruct s as [routes cert|ncert]; simpl in E.
      + destruct (create_updates r routes cert deagg agg) as [u|] eqn:C; inv E. apply (roas_exact _ _ _ _ _ _ W C).
      + inv E. apply renewal_fixed_exact. exact W.
    - exfalso. clear -H. induction steps as [|s' steps IH]; simpl in H; [discriminate|auto].
  Qed.
  Theorem roas_history_total deagg agg steps r :
    rsteps_run asn_of res_of simple_name aggr_name sign deagg agg r steps <> None.
  Proof.
    unfold rsteps_run. revert r. induction steps as [|s steps IH]; intro r; simpl; [discriminate|].
    destruct s as [routes cert|ncert]; simpl.
    - destruct (create_updates r routes cert deagg agg) as [u|] eqn:C; [apply IH|]. exfalso. eapply create_updates_total; eauto.
    - apply IH.
  Qed.
  Theorem roas_exact_last deagg agg steps routes cert r r' :
    wf r -> rsteps_run asn_of res_of simple_name aggr_name sign deagg agg r (steps ++ [SDerive routes cert]) = Some r' ->
    forall p, carries r' p <-> (In p routes /\ held cert p = true).
  Proof.
    intros W H. unfold rsteps_run in H. rewrite fold_left_app in H. simpl in H.
    fold (rsteps_run asn_of res_of simple_name aggr_name sign deagg agg r steps) in H.
    destruct (rsteps_run asn_of res_of simple_name aggr_name sign deagg agg r steps) as [r1|] eqn:E; [|discriminate].
    simpl in H. destruct (create_updates r1 routes cert deagg agg) as [u|] eqn:C; inv H.
    apply (roas_exact r1 routes cert deagg agg u); [|exact C]. eapply roas_exact_history; eauto.
  Qed.
  (** The objects the API reports for a payload are exactly the class's ROA objects that carry it - and every one of
      them is among the products the class hands to the published-object store ([roa_objects], L2). *)
  Theorem api_reports_repo_objects r p o :
    In o (reported r p) <-> exists k i, In (k, i) (ro_simple r ++ ro_aggr r) /\ In p (ri_auths i) /\ ri_obj i = o.
  Proof.
    unfold reported. rewrite in_map_iff. split.
    - intros [[k i] [E H]]. apply filter_In in H. destruct H as [H M]. apply nmem_spec in M. exists k, i. auto.
    - intros [k [i [H [M E]]]]. exists (k, i). split; [exact E|]. apply filter_In. split; [exact H|]. apply nmem_spec. exact M.
  Qed.
  Theorem reported_are_products r p o :
    In o (reported r p) -> In o (map snd (roa_objects simple_name aggr_name r)).
  Proof.
    intro H. apply api_reports_repo_objects in H. destruct H as [k [i [H [_ E]]]]. subst o.
    unfold roa_objects. rewrite map_app, !map_map. apply in_app_or in H. apply in_or_app.
    destruct H as [H|H]; [left|right]; apply in_map_iff; exists (k, i); auto.
  Qed.
End DeriveProofs.

(** * ASPA objects *)
Section AspaProofs.
  Variable ares_of : N -> N.
  Variable sign : N -> list N -> obj.
  Variable buildable : N -> list N -> bool.

  Notation aspa_updated := (aspa_updated ares_of sign).
  Notation aspa_removed := (aspa_removed ares_of).
  Notation aheld := (aheld ares_of).

  Lemma aspa_updated_in o defs cert c i :
    In (c, i) (aspa_updated o defs cert) -> exists ps, In (c, ps) defs /\ aheld cert c = true /\ ai_providers i = ps.
  Proof.
    unfold RoaDerive.aspa_updated. rewrite in_flat_map. intros [[c' ps] [Hd Hi]].
    destruct (RoaDerive.aheld ares_of cert c') eqn:Hh; [|destruct Hi].
    destruct (aget c' o) as [ex|].
    - destruct (nlist_eqb (ai_providers ex) ps); [destruct Hi|]. destruct Hi as [E|[]]. inv E. eauto.
    - destruct Hi as [E|[]]. inv E. eauto.
  Qed.
  Lemma aspa_updated_notin o defs cert c ps :
    In (c, ps) defs -> aheld cert c = true -> ~ In c (map fst (aspa_updated o defs cert)) ->
    exists ex, aget c o = Some ex /\ ai_providers ex = ps.
  Proof.
    intros Hd Hh U.
    assert (X : forall v, In (c, v) (aspa_updated o defs cert) -> False).
    { intros v I. apply U. apply in_map_iff. exists (c, v). split; [reflexivity|exact I]. }
    destruct (aget c o) as [ex|] eqn:G.
    - destruct (nlist_eqb (ai_providers ex) ps) eqn:Q; [exists ex; split; [reflexivity|apply nlist_eqb_eq; exact Q]|].
      exfalso. apply (X (mkAI ps (sign c ps))). unfold RoaDerive.aspa_updated. apply in_flat_map. exists (c, ps). split; [exact Hd|].
      rewrite Hh, G, Q. left. reflexivity.
    - exfalso. apply (X (mkAI ps (sign c ps))). unfold RoaDerive.aspa_updated. apply in_flat_map. exists (c, ps). split; [exact Hd|].
      rewrite Hh, G. left. reflexivity.
  Qed.

  (** L1 for ASPAs: after create_updates + apply the class holds, for exactly the configured customers whose AS the
      certificate holds, an object carrying exactly the configured providers. *)
  Theorem aspa_exact o defs cert u :
    NoDup (map fst defs) ->
    aspa_create_updates ares_of sign buildable o defs cert = Some u ->
    forall c ps, (exists i, aget c (aspa_apply o u) = Some i /\ ai_providers i = ps) <-> (aget c defs = Some ps /\ aheld cert c = true).
  Proof.
    intros ND H c ps. unfold aspa_create_updates in H. destruct (forallb _ _); [|discriminate]. inv H.
    unfold aspa_apply. simpl. rewrite aget_rem_all.
    destruct (nmem c (aspa_removed o defs cert)) eqn:R.
    - apply nmem_spec in R. unfold RoaDerive.aspa_removed in R. apply in_map_iff in R. destruct R as [[c' i'] [E R]]. simpl in E. subst c'.
      apply filter_In in R. destruct R as [_ R]. split; [intros [i [X _]]; discriminate|].
      intros [G Hh]. exfalso. apply orb_true_iff in R. destruct R as [R|R]; apply negb_true_iff in R.
      + unfold amem in R. rewrite G in R. discriminate.
      + unfold RoaDerive.aheld in *. congruence.
    - apply nmem_false in R.
      assert (NR : forall i, aget c o = Some i -> amem c defs = true /\ aheld cert c = true).
      { intros i G. destruct (amem c defs) eqn:A, (RoaDerive.aheld ares_of cert c) eqn:B; try tauto; exfalso; apply R;
          unfold RoaDerive.aspa_removed; apply in_map_iff; exists (c, i); (split; [reflexivity|]); apply filter_In;
          (split; [apply aget_some_in; exact G|]); rewrite A, B; reflexivity. }
      destruct (in_dec N.eq_dec c (map fst (aspa_updated o defs cert))) as [U|U].
      + destruct (aget_ins_all_in _ o c U) as [v [Hv E]]. rewrite E.
        destruct (aspa_updated_in _ _ _ _ _ Hv) as [ps' [Hd [Hh Ep]]].
        pose proof (in_nodup_aget _ _ _ ND Hd) as G.
        split.
        * intros [i [X Y]]. inv X. rewrite G. split; [reflexivity|exact Hh].
        * intros [G' _]. rewrite G in G'. inv G'. exists v. split; reflexivity.
      + rewrite aget_ins_all_notin by exact U.
        split.
        * intros [i [X Y]]. destruct (NR _ X) as [A B]. split; [|exact B].
          unfold amem in A. destruct (aget c defs) as [ps'|] eqn:G; [|discriminate].
          destruct (aspa_updated_notin o defs cert c ps' (aget_some_in _ _ _ G) B U) as [ex [Gx Ex]]. rewrite X in Gx. inv Gx. reflexivity.
        * intros [G B]. destruct (aspa_updated_notin o defs cert c ps (aget_some_in _ _ _ G) B U) as [ex [Gx Ex]]. eauto.
  Qed.

  (** create_updates fails only where AspaBuilder refuses a definition. *)
  Theorem aspa_create_updates_total o defs cert :
    (forall c ps, In (c, ps) defs -> buildable c ps = true) -> aspa_create_updates ares_of sign buildable o defs cert <> None.
  Proof.
    intro B. unfold aspa_create_updates.
    match goal with |- (if ?b then _ else _) <> None => assert (E : b = true); [|rewrite E; discriminate] end.
    apply forallb_forall. intros [c i] H. destruct (aspa_updated_in _ _ _ _ _ H) as [ps [Hd [_ Ep]]]. rewrite Ep. apply B. exact Hd.
  Qed.
End AspaProofs.

(** * Router certificates *)
Section BgpsecProofs.
  Variable kres_of : N -> N.
  Variable sign : N -> obj.

  (** L1 for router keys: after create_updates + apply the class holds a certificate for exactly the configured
      (AS, key) pairs whose AS the certificate holds. *)
  Theorem bgpsec_exact o defs cert k :
    amem k (bgp_apply o (bgp_create_updates kres_of sign o defs cert)) = true <-> (nmem k defs = true /\ bheld kres_of cert k = true).
  Proof.
    unfold bgp_apply, bgp_create_updates, amem. simpl. rewrite aget_rem_all.
    destruct (nmem k (bgp_removed kres_of o defs cert)) eqn:R.
    - apply nmem_spec in R. unfold bgp_removed in R. apply in_map_iff in R. destruct R as [[k' i'] [E R]]. simpl in E. subst k'.
      apply filter_In in R. destruct R as [_ R]. split; [discriminate|]. intros [A B]. rewrite A, B in R. discriminate.
    - apply nmem_false in R.
      destruct (in_dec N.eq_dec k (map fst (bgp_updated kres_of sign o defs cert))) as [U|U].
      + destruct (aget_ins_all_in _ o k U) as [v [Hv E]]. rewrite E.
        unfold bgp_updated in Hv. apply in_map_iff in Hv. destruct Hv as [k' [E' Hk]]. inv E'.
        apply filter_In in Hk. destruct Hk as [Hk F]. apply andb_true_iff in F.
        split; [intros _; split; [apply nmem_spec; exact Hk|tauto]|reflexivity].
      + rewrite aget_ins_all_notin by exact U.
        destruct (aget k o) as [v|] eqn:G.
        * split; [intros _|reflexivity].
          destruct (nmem k defs) eqn:A, (bheld kres_of cert k) eqn:B; try tauto; exfalso; apply R;
            unfold bgp_removed; apply in_map_iff; exists (k, v); (split; [reflexivity|]); apply filter_In;
            (split; [apply aget_some_in; exact G|]); rewrite A, B; reflexivity.
        * split; [discriminate|]. intros [A B]. exfalso. apply U. apply in_map_iff. exists (k, sign k). split; [reflexivity|].
          unfold bgp_updated. apply in_map_iff. exists k. split; [reflexivity|]. apply filter_In. split; [apply nmem_spec; exact A|].
          unfold amem. rewrite G, B. reflexivity.
  Qed.
End BgpsecProofs.

(** * Concrete instances (non-vacuity, and the finding F04c at model level) *)
Definition ex_asn (p : N) : N := if p <? 10 then 64512 else 64513.
Definition ex_res (p : N) : N := if p =? 3 then 2 else 1.            (* payload 3 lies in atom 1, all others in atom 0 *)
Definition ex_sign (n : N) (l : list N) : obj := mkObj n 0 0%Z.

Definition ex_run := rsteps_run ex_asn ex_res id id ex_sign 2 3 roas_empty.

(** thresholds 2/3: four routes aggregate, shrinking to one de-aggregates, regrowing aggregates again *)
Example roas_exact_nonvacuous :
  match ex_run [SDerive [1; 2; 3; 11] 3; SDerive [1] 3; SDerive [1; 2; 3; 4; 11] 1] with
  | Some r => map fst (ro_simple r) = [] /\ map fst (ro_aggr r) = [64513; 64512] /\ payloads r = [11; 1; 2; 4]
  | None => False
  end.
Proof. vm_compute. auto. Qed.

(** F04c, regression witnesses. Payload 3 needs atom 1. The class holds atoms {0,1}; the key roll renews under the
    new key, whose certificate holds atom 0 only.  The originally pinned renewal left payload 3 published
    (over-claiming); the repaired renewal (code of record) drops it, as a derivation under that certificate does. *)
Example renewal_overclaims :
  match ex_run [SDerive [1; 3] 3] with
  | Some r => payloads (apply_updates r (renewal_pinned id id ex_sign r)) = [1; 3] /\ held ex_res 1 3 = false
  | None => False
  end.
Proof. vm_compute. auto. Qed.

Example renewal_fixed_no_overclaim :
  match ex_run [SDerive [1; 3] 3; SRenew 1] with Some r => payloads r = [1] | None => False end
  /\ match ex_run [SDerive [1; 3] 3; SDerive [1; 3] 1] with Some r => payloads r = [1] | None => False end
  /\ match ex_run [SDerive [1; 2; 3; 11] 3; SRenew 1] with        (* aggregated: AS 64512 keeps 1 and 2, loses 3 *)
     | Some r => payloads r = [1; 2; 11] /\ map fst (ro_simple r) = []
     | None => False
     end.
Proof. vm_compute. auto. Qed.

(** * ASPA objects and router certificates at key-roll activation (since the repair of F04c) *)
Lemma renew_filtered_get {V} (keep : N -> bool) (f : N -> V -> V) (o : list (N * V)) k v :
  aget k (rem_all (map fst (filter (fun '(c, _) => negb (keep c)) o))
                  (ins_all (map (fun '(c, i) => (c, f c i)) (filter (fun '(c, _) => keep c) o)) o)) = Some v ->
  keep k = true /\ In k (map fst o).
Proof.
  rewrite aget_rem_all.
  destruct (nmem k (map fst (filter (fun '(c, _) => negb (keep c)) o))) eqn:R; [discriminate|]. apply nmem_false in R.
  set (upd := map (fun '(c, i) => (c, f c i)) (filter (fun '(c, _) => keep c) o)).
  destruct (in_dec N.eq_dec k (map fst upd)) as [U|U].
  - intros _. subst upd. apply in_map_iff in U. destruct U as [[c w] [E U]]. simpl in E. subst c.
    apply in_map_iff in U. destruct U as [[c i] [E U]]. inv E. apply filter_In in U. destruct U as [U Q].
    split; [exact Q|]. apply (in_map fst) in U. exact U.
  - rewrite aget_ins_all_notin by exact U. intro G. pose proof (aget_some_in _ _ _ G) as I.
    destruct (keep k) eqn:Q; [split; [reflexivity|apply (in_map fst) in I; exact I]|].
    exfalso. apply R. apply in_map_iff. exists (k, v). split; [reflexivity|]. apply filter_In. split; [exact I|]. rewrite Q. reflexivity.
Qed.

Theorem aspa_renewal_contained ares_of sign cert o c i :
  aget c (aspa_apply o (aspa_renewal ares_of sign cert o)) = Some i -> aheld ares_of cert c = true.
Proof.
  unfold aspa_apply, aspa_renewal. simpl. intro H.
  apply (renew_filtered_get (aheld ares_of cert) (fun c i => mkAI (ai_providers i) (sign c (ai_providers i)))) in H. tauto.
Qed.
Theorem bgp_renewal_contained kres_of sign cert o k v :
  aget k (bgp_apply o (bgp_renewal kres_of sign cert o)) = Some v -> bheld kres_of cert k = true.
Proof.
  unfold bgp_apply, bgp_renewal. simpl. intro H.
  apply (renew_filtered_get (bheld kres_of cert) (fun k _ => sign k)) in H. tauto.
Qed.
