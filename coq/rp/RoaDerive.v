(** Derivation of published products from configuration (C01, layer L1), as the Rust is:

    - src/server/ca/roa.rs    Routes::filter (41-51), Roas::create_updates (498-546), mode (563-599),
                              update_simple / update_stop_aggregating / update_start_aggregating /
                              update_aggregate (602-744), create_renewal (750-795), make_roa (817-855: errors on an
                              empty or mixed-AS authorisation list), Roas::apply_updates (450-466)
    - src/server/ca/aspa.rs   AspaObjects::create_updates (232-276), create_renewal (282-310), apply_updates (353-360)
    - src/server/ca/bgpsec.rs BgpSecCertificates::create_updates (235-273), create_renewal (281-307)
    - src/server/ca/rc.rs     process_received_cert: re-derivation iff the resources of the received certificate
                              differ (354-473); append_keyroll_activate: renewal of everything under the new key,
                              filtered by the new key's certificate since the repair of F04c (560-638)

    Payloads (asn, prefix, max length) are interned as numbers by the harness; [asn_of] gives the origin AS
    and [res_of] the atoms the prefix lies in.  Maps are association lists with HashMap semantics
    ([Ca.ainsert] / [Ca.aremove] / [Ca.aget]); iteration orders of the Rust hash maps do not influence the
    resulting maps.  Aggregate keys are AS numbers: the optional group of [RoaAggregateKey] is [None] in
    every key the code constructs (roa.rs:101), hence "is currently aggregating" = "has an aggregate ROA".
    The object a ROA / ASPA / router certificate is published as (file name, serial, expiry: [Ca.obj]) is
    chosen by the signer and the clock: oracle functions of the section.  No proofs in this file. *)
From KV Require Import base.Tac ca.Ca rp.Rp.
Open Scope N_scope.

Fixpoint ins_sorted (x : N) (l : list N) : list N :=
  match l with
  | [] => [x]
  | y :: r => if x <=? y then x :: l else y :: ins_sorted x r
  end.
Definition isort (l : list N) : list N := fold_right ins_sorted [] l.
Fixpoint nlist_eqb (a b : list N) : bool :=
  match a, b with
  | [], [] => true
  | x :: a', y :: b' => (x =? y) && nlist_eqb a' b'
  | _, _ => false
  end.
Definition nmem (x : N) (l : list N) : bool := existsb (N.eqb x) l.
Fixpoint ndedup (l : list N) : list N :=
  match l with
  | [] => []
  | x :: r => if nmem x r then ndedup r else x :: ndedup r
  end.

Section Derive.
  Variable asn_of : N -> N.                 (* origin AS of a payload *)
  Variable res_of : N -> N.                 (* atoms the prefix of a payload lies in *)
  Variable simple_name : N -> N.            (* ObjectName::from(payload) *)
  Variable aggr_name : N -> N.              (* RoaAggregateKey::object_name *)
  Variable sign : N -> list N -> obj.       (* the signed object for (file name, authorisations) *)

  Record rinfo := mkRI { ri_auths : list N; ri_obj : obj }.
  Record roas := mkRoas { ro_simple : list (N * rinfo); ro_aggr : list (N * rinfo) }.
  Definition roas_empty : roas := mkRoas [] [].

  Record rupd := mkRU {
    u_upd : list (N * rinfo); u_rem : list N;            (* simple: updated, removed *)
    u_aupd : list (N * rinfo); u_arem : list N }.        (* aggregate: updated, removed *)

  (** Routes::filter: the configured payloads whose prefix the certificate holds. *)
  Definition held (cert : N) (p : N) : bool := subset (res_of p) cert.
  Definition relevant (routes : list N) (cert : N) : list N := filter (held cert) routes.

  Inductive mode := MSimple | MStop | MStart | MAggr.
  Definition aggregating (r : roas) : bool := match ro_aggr r with [] => false | _ => true end.

  (** roa.rs:563-599 *)
  Definition select_mode (r : roas) (total deagg agg : N) : mode :=
    if total =? 0 then (if aggregating r then MAggr else MSimple)
    else if aggregating r then (if total <? deagg then MStop else MAggr)
    else if agg <? total then MStart else MSimple.

  (** make_roa (817-855): "Attempt to create ROA without prefixes" / "for multiple ASNs". *)
  Definition roa_ok (auths : list N) : bool :=
    match auths with
    | [] => false
    | p :: _ => forallb (fun q => asn_of q =? asn_of p) auths
    end.
  Definition make_simple (p : N) : rinfo := mkRI [p] (sign (simple_name p) [p]).
  Definition make_aggr (a : N) (auths : list N) : rinfo := mkRI auths (sign (aggr_name a) auths).

  (** update_simple (602-636) *)
  Definition simple_updated (r : roas) (rel : list N) : list (N * rinfo) :=
    map (fun p => (p, make_simple p)) (filter (fun p => negb (amem p (ro_simple r))) rel).
  Definition simple_removed (r : roas) (rel : list N) : list N :=
    map fst (filter (fun '(k, _) => negb (nmem k rel)) (ro_simple r)).

  (** Routes::to_aggregates (94-110): per origin AS the sorted list of its payloads. *)
  Definition to_aggregates (rel : list N) : list (N * list N) :=
    map (fun a => (a, isort (filter (fun p => asn_of p =? a) rel))) (ndedup (map asn_of rel)).

  (** update_aggregate (690-744) *)
  Definition aggr_updated (r : roas) (rel : list N) : list (N * rinfo) :=
    flat_map (fun '(a, auths) =>
      match aget a (ro_aggr r) with
      | Some ex => if nlist_eqb auths (isort (ri_auths ex)) then [] else [(a, make_aggr a auths)]
      | None => [(a, make_aggr a auths)]
      end) (to_aggregates rel).
  Definition aggr_removed (r : roas) (rel : list N) : list N :=
    map fst (filter (fun '(a, _) => negb (amem a (to_aggregates rel))) (ro_aggr r)).

  (** create_updates (498-546) without the failure of make_roa *)
  Definition updates_for (r : roas) (rel : list N) (deagg agg : N) : rupd :=
    match select_mode r (N.of_nat (length rel)) deagg agg with
    | MSimple => mkRU (simple_updated r rel) (simple_removed r rel) [] []
    | MStop => mkRU (simple_updated r rel) (simple_removed r rel) [] (map fst (ro_aggr r))
    | MStart => mkRU [] (map fst (ro_simple r)) (aggr_updated r rel) (aggr_removed r rel)
    | MAggr => mkRU [] [] (aggr_updated r rel) (aggr_removed r rel)
    end.

  (** create_updates: [None] = the error of make_roa propagated by [?]. *)
  Definition create_updates (r : roas) (routes : list N) (cert deagg agg : N) : option rupd :=
    let u := updates_for r (relevant routes cert) deagg agg in
    if forallb (fun '(_, i) => roa_ok (ri_auths i)) (u_upd u ++ u_aupd u) then Some u else None.

  (** Roas::apply_updates (450-466) *)
  Definition ins_all {V} (upd : list (N * V)) (l : list (N * V)) : list (N * V) := fold_left (fun l '(k, v) => ainsert k v l) upd l.
  Definition rem_all {V} (rem : list N) (l : list (N * V)) : list (N * V) := fold_left (fun l k => aremove k l) rem l.
  Definition apply_updates (r : roas) (u : rupd) : roas :=
    mkRoas (rem_all (u_rem u) (ins_all (u_upd u) (ro_simple r))) (rem_all (u_arem u) (ins_all (u_aupd u) (ro_aggr r))).

  (** create_renewal with force = true (roa.rs:750-815, used by key-roll activation, rc.rs:581-592), code of record
      since the repair of finding F04c: the renewal re-issues only what the certificate of the signing key holds - a
      simple ROA outside it is removed, an aggregate ROA is re-issued with the authorisations that remain, or removed
      if none does. *)
  Definition renewal_fixed (cert : N) (r : roas) : rupd :=
    mkRU (map (fun '(k, _) => (k, make_simple k)) (filter (fun '(k, _) => held cert k) (ro_simple r)))
         (map fst (filter (fun '(k, _) => negb (held cert k)) (ro_simple r)))
         (flat_map (fun '(a, i) => match filter (held cert) (ri_auths i) with [] => [] | l => [(a, make_aggr a l)] end) (ro_aggr r))
         (flat_map (fun '(a, i) => match filter (held cert) (ri_auths i) with [] => [a] | _ => [] end) (ro_aggr r)).

  (** The originally pinned tree (before the repair of F04c): every ROA issued again with the authorisations it has,
      nothing filtered. Kept as a regression witness. *)
  Definition renewal_pinned (r : roas) : rupd :=
    mkRU (map (fun '(k, _) => (k, make_simple k)) (ro_simple r)) []
         (map (fun '(a, i) => (a, make_aggr a (ri_auths i))) (ro_aggr r)) [].

  (** The payloads the ROAs of a class carry. *)
  Definition payloads (r : roas) : list N :=
    flat_map (fun '(_, i) => ri_auths i) (ro_simple r) ++ flat_map (fun '(_, i) => ri_auths i) (ro_aggr r).

  (** The products as the CA model carries them (file name -> object), Ca.rc_roas. *)
  Definition roa_objects (r : roas) : list (N * obj) :=
    map (fun '(k, i) => (simple_name k, ri_obj i)) (ro_simple r) ++ map (fun '(a, i) => (aggr_name a, ri_obj i)) (ro_aggr r).

  (** What the API reports for a configured payload (Roas::matching_roa_infos, roa.rs:469-493): the objects of the
      simple and aggregate ROAs whose authorisations contain it. *)
  Definition reported (r : roas) (p : N) : list obj :=
    map (fun '(_, i) => ri_obj i) (filter (fun '(_, i) => nmem p (ri_auths i)) (ro_simple r ++ ro_aggr r)).

  (** One step of a class's history as far as ROAs are concerned: a change of the routes or of the certificate
      re-derives (certauth.rs route updates; rc.rs:408-424), a key-roll activation renews. *)
  Inductive rstep := SDerive (routes : list N) (cert : N) | SRenew (cert : N).      (* SRenew: under the NEW key's certificate *)
  Definition rstep_run (deagg agg : N) (r : roas) (s : rstep) : option roas :=
    match s with
    | SDerive routes cert => match create_updates r routes cert deagg agg with Some u => Some (apply_updates r u) | None => None end
    | SRenew cert => Some (apply_updates r (renewal_fixed cert r))
    end.
  Definition rsteps_run (deagg agg : N) (r : roas) (l : list rstep) : option roas :=
    fold_left (fun o s => match o with Some r => rstep_run deagg agg r s | None => None end) l (Some r).
End Derive.

(** * ASPA objects (aspa.rs:232-276) *)
Section Aspa.
  Variable ares_of : N -> N.                       (* atoms of a customer AS *)
  Variable sign : N -> list N -> obj.              (* the signed ASPA object for (customer, providers) *)
  Variable buildable : N -> list N -> bool.        (* AspaBuilder::new accepts (customer, providers) *)

  Record ainfo := mkAI { ai_providers : list N; ai_obj : obj }.
  Definition adefs : Type := list (N * list N).    (* customer -> providers: AspaDefinitions *)
  Definition aobjs : Type := list (N * ainfo).     (* customer -> object: AspaObjects *)

  Definition aheld (cert : N) (c : N) : bool := subset (ares_of c) cert.          (* resources.contains_asn(customer) *)
  Definition aspa_updated (o : aobjs) (defs : adefs) (cert : N) : list (N * ainfo) :=
    flat_map (fun '(c, ps) =>
      if aheld cert c then
        match aget c o with
        | Some ex => if nlist_eqb (ai_providers ex) ps then [] else [(c, mkAI ps (sign c ps))]
        | None => [(c, mkAI ps (sign c ps))]
        end
      else []) defs.
  Definition aspa_removed (o : aobjs) (defs : adefs) (cert : N) : list N :=
    map fst (filter (fun '(c, _) => negb (amem c defs) || negb (aheld cert c)) o).
  Definition aspa_create_updates (o : aobjs) (defs : adefs) (cert : N) : option (list (N * ainfo) * list N) :=
    let u := aspa_updated o defs cert in
    if forallb (fun '(c, i) => buildable c (ai_providers i)) u then Some (u, aspa_removed o defs cert) else None.
  Definition aspa_apply (o : aobjs) (u : list (N * ainfo) * list N) : aobjs := rem_all (snd u) (ins_all (fst u) o).
  (** create_renewal without threshold (aspa.rs:282-316, key-roll activation): every object whose customer AS the
      certificate of the signing key holds again, with the definition it has; the others removed (repair of F04c). *)
  Definition aspa_renewal (cert : N) (o : aobjs) : list (N * ainfo) * list N :=
    (map (fun '(c, i) => (c, mkAI (ai_providers i) (sign c (ai_providers i)))) (filter (fun '(c, _) => aheld cert c) o),
     map fst (filter (fun '(c, _) => negb (aheld cert c)) o)).
End Aspa.

(** * Router certificates (bgpsec.rs:235-273). Keys are interned (AS, router key) pairs. *)
Section Bgpsec.
  Variable kres_of : N -> N.                       (* atoms of the AS of an (AS, key) pair *)
  Variable sign : N -> obj.

  Definition bheld (cert : N) (k : N) : bool := subset (kres_of k) cert.
  Definition bgp_updated (o : list (N * obj)) (defs : list N) (cert : N) : list (N * obj) :=
    map (fun k => (k, sign k)) (filter (fun k => negb (amem k o) && bheld cert k) defs).
  Definition bgp_removed (o : list (N * obj)) (defs : list N) (cert : N) : list N :=
    map fst (filter (fun '(k, _) => negb (nmem k defs) || negb (bheld cert k)) o).
  Definition bgp_apply (o : list (N * obj)) (u : list (N * obj) * list N) : list (N * obj) := rem_all (snd u) (ins_all (fst u) o).
  Definition bgp_create_updates (o : list (N * obj)) (defs : list N) (cert : N) : list (N * obj) * list N :=
    (bgp_updated o defs cert, bgp_removed o defs cert).
  (** create_renewal without threshold (bgpsec.rs:281-318, key-roll activation): certificates whose AS the certificate of
      the signing key holds are issued again, the others removed (repair of F04c). *)
  Definition bgp_renewal (cert : N) (o : list (N * obj)) : list (N * obj) * list N :=
    (map (fun '(k, _) => (k, sign k)) (filter (fun '(k, _) => bheld cert k) o), map fst (filter (fun '(k, _) => negb (bheld cert k)) o)).
End Bgpsec.
