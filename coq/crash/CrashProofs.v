(** C08 proofs: every cut of every operation leaves a loadable system, acknowledged commands survive every
    later fault, a failing write leaves nothing of the command in the log or the cache, resubmission
    converges; the "atomic alike" clause is refuted (pre-save listeners run ahead of the log) and proved
    outside the known window. *)
From KV Require Import base.Tac es.Es es.EsProofs crash.Crash ca.Ca.
Open Scope N_scope.

(** ** Task sets *)
Lemma task_eqb_refl t : task_eqb t t = true.
Proof. unfold task_eqb. rewrite !N.eqb_refl. reflexivity. Qed.
Lemma task_eqb_sym a b : task_eqb a b = task_eqb b a.
Proof. unfold task_eqb. rewrite (N.eqb_sym (fst a)), (N.eqb_sym (snd a)). reflexivity. Qed.
Lemma task_eqb_eq a b : task_eqb a b = true <-> a = b.
Proof.
  unfold task_eqb. destruct a as [a1 a2], b as [b1 b2]; simpl. rewrite andb_true_iff, !N.eqb_eq.
  split; [intros [-> ->]; reflexivity|intros H; inversion H; auto].
Qed.

Lemma t_mem_del l t x : t_mem (t_del l t) x = t_mem l x && negb (task_eqb x t).
Proof.
  unfold t_mem, t_del. induction l as [|y l IH]; simpl; [reflexivity|].
  destruct (task_eqb y t) eqn:E; simpl.
  - rewrite IH. apply task_eqb_eq in E. subst y. destruct (task_eqb x t); simpl; [rewrite andb_false_r; reflexivity|reflexivity].
  - rewrite IH. destruct (task_eqb x y) eqn:E2; simpl; [|reflexivity].
    apply task_eqb_eq in E2. subst y. rewrite E. reflexivity.
Qed.

Lemma t_mem_put l t x : t_mem (t_put l t) x = task_eqb x t || t_mem l x.
Proof.
  unfold t_put. change (t_mem (t :: t_del l t) x) with (task_eqb x t || t_mem (t_del l t) x).
  rewrite t_mem_del. destruct (task_eqb x t); simpl; [reflexivity|rewrite andb_true_r; reflexivity].
Qed.

Lemma t_mem_app a b x : t_mem (a ++ b) x = t_mem a x || t_mem b x.
Proof. unfold t_mem. apply existsb_app. Qed.

Section CrashProofs.
  Variables (S Ev : Type) (init : S) (apply : S -> Ev -> S).
  Variable Ob : Type.
  Variable listen : Ob -> list Ev -> option Ob.
  Variable pre_tasks post_tasks : list Ev -> list task.

  Notation sys := (sys S Ev Ob).
  Notation mutation := (mutation S Ev Ob).
  Notation step := (step S Ev Ob).
  Notation op := (op Ev Ob).
  Notation steps_of := (steps_of S Ev init apply Ob listen pre_tasks post_tasks).
  Notation apply_mut := (apply_mut S Ev Ob).
  Notation run_cut := (run_cut S Ev Ob).
  Notation run_all := (run_all S Ev Ob).
  Notation fail_at := (fail_at S Ev Ob).
  Notation crash := (crash S Ev Ob).
  Notation restart := (restart S Ev Ob).
  Notation complete := (complete S Ev init apply Ob listen pre_tasks post_tasks).
  Notation run_hist := (run_hist S Ev init apply Ob listen pre_tasks post_tasks).
  Notation hstep := (hstep S Ev init apply Ob listen pre_tasks post_tasks).
  Notation s_log := (s_log S Ev Ob).
  Notation s_objs := (s_objs S Ev Ob).
  Notation s_pend := (s_pend S Ev Ob).
  Notation s_run := (s_run S Ev Ob).
  Notation cmds := (cmds S Ev).
  Notation load := (Es.load S Ev init apply).
  Notation replay := (Es.replay S Ev init apply).
  Notation consistent := (consistent S Ev init apply).
  Notation side_effects := (side_effects S Ev Ob pre_tasks).
  Notation cmd_index := (cmd_index S Ev Ob pre_tasks).
  Notation sched_all := (sched_all S Ev Ob).
  Notation sched_fin_all := (sched_fin_all S Ev Ob).

  (** Well-formed: cache and snapshot are replays of prefixes of the stored commands (C06's invariant). *)
  Definition wf (s : sys) : Prop := consistent (s_log s).

  Definition extends (s s' : sys) : Prop := exists l, cmds (s_log s') = cmds (s_log s) ++ l.

  Lemma extends_refl s : extends s s.
  Proof. exists []. rewrite app_nil_r. reflexivity. Qed.
  Lemma extends_trans a b c : extends a b -> extends b c -> extends a c.
  Proof. intros [l1 H1] [l2 H2]. exists (l1 ++ l2). rewrite H2, H1, app_assoc. reflexivity. Qed.

  (** Mutations that do not touch the audit log. *)
  Definition is_side (m : mutation) : bool :=
    match m with MCmd _ _ | MSnap _ => false | _ => true end.

  Definition apply_side (s : sys) (m : mutation) : sys :=
    match apply_mut s m with Some s' => s' | None => s end.
  Definition run_side (ms : list mutation) (s : sys) : sys := fold_left apply_side ms s.

  Lemma side_some s m : is_side m = true -> apply_mut s m = Some (apply_side s m).
  Proof. unfold apply_side. destruct m; simpl; try discriminate; reflexivity. Qed.

  Lemma side_log s m : is_side m = true -> s_log (apply_side s m) = s_log s.
  Proof.
    unfold apply_side. destruct m; simpl; try discriminate; intros _; try reflexivity.
    - destruct (t_mem (s_pend s) t); reflexivity.
    - destruct (t_mem (s_run s) t); reflexivity.
  Qed.

  Lemma run_side_log ms : forall s, forallb is_side ms = true -> s_log (run_side ms s) = s_log s.
  Proof.
    induction ms as [|m ms IH]; intros s H; simpl; [reflexivity|].
    simpl in H. apply andb_true_iff in H as [H1 H2]. unfold run_side in *. simpl. rewrite IH by assumption. apply side_log. assumption.
  Qed.

  Lemma firstn_forallb {A} (f : A -> bool) n l : forallb f l = true -> forallb f (firstn n l) = true.
  Proof.
    revert l; induction n as [|n IH]; intros [|x l] H; simpl; auto.
    simpl in H. apply andb_true_iff in H as [H1 H2]. rewrite H1. simpl. auto.
  Qed.

  (** Cuts and failing writes inside a block of log-free mutations. *)
  Lemma run_cut_side_app b ms rest : forall n s, forallb is_side ms = true ->
    run_cut n (map (Mut S Ev Ob b) ms ++ rest) s =
      if (n <? length ms)%nat then Some (run_side (firstn n ms) s) else run_cut (n - length ms) rest (run_side ms s).
  Proof.
    induction ms as [|m ms IH]; intros n s H.
    - simpl. replace (n - 0)%nat with n by lia. reflexivity.
    - simpl in H. apply andb_true_iff in H as [H1 H2]. simpl map. simpl app. destruct n as [|n].
      + simpl. reflexivity.
      + cbn [run_cut]. rewrite (side_some s m H1). rewrite IH by assumption.
        change (Datatypes.S n <? length (m :: ms))%nat with (n <? length ms)%nat.
        simpl. reflexivity.
  Qed.

  Lemma fail_at_side_app ms rest : forall n s, forallb is_side ms = true ->
    fail_at n (map (Mut S Ev Ob true) ms ++ rest) s =
      if (n <? length ms)%nat then Some (run_side (firstn n ms) s) else fail_at (n - length ms) rest (run_side ms s).
  Proof.
    induction ms as [|m ms IH]; intros n s H.
    - simpl. replace (n - 0)%nat with n by lia. reflexivity.
    - simpl in H. apply andb_true_iff in H as [H1 H2]. simpl map. simpl app. destruct n as [|n].
      + simpl. reflexivity.
      + cbn [fail_at]. rewrite (side_some s m H1). rewrite IH by assumption.
        change (Datatypes.S n <? length (m :: ms))%nat with (n <? length ms)%nat.
        simpl. reflexivity.
  Qed.

  Lemma sched_all_side ts : forall p, forallb is_side (fst (sched_all p ts)) = true.
  Proof.
    induction ts as [|t ts IH]; intros p; simpl; [reflexivity|].
    destruct (sched_all (t_put p t) ts) as [m2 p2] eqn:E. simpl.
    rewrite forallb_app. specialize (IH (t_put p t)). rewrite E in IH. simpl in IH. rewrite IH.
    destruct (t_mem p t); reflexivity.
  Qed.

  Lemma sched_fin_all_side ts : forall p r, forallb is_side (sched_fin_all p r ts) = true.
  Proof.
    induction ts as [|t ts IH]; intros p r; simpl; [reflexivity|].
    rewrite !forallb_app, IH. destruct (t_mem r t), (t_mem p t); reflexivity.
  Qed.

  Lemma side_effects_side s o' evs : forallb is_side (side_effects s o' evs) = true.
  Proof. unfold Crash.side_effects. simpl. apply sched_all_side. Qed.

  (** ** Invariant along the steps of an operation. Success of a mutation and well-formedness depend on the
      audit log only, so the invariant is stated on the log. *)
  Definition with_cache (l : Es.store S Ev) (a : Es.agg S) : Es.store S Ev := mkStore S Ev (cmds l) (snap S Ev l) (Some a).
  Definition log_mut (l : Es.store S Ev) (m : mutation) : option (Es.store S Ev) :=
    match m with
    | MCmd v x => if v =? N.of_nat (length (cmds l)) + 1 then Some (mkStore S Ev (cmds l ++ [x]) (snap S Ev l) (cache S Ev l)) else None
    | MSnap a => Some (mkStore S Ev (cmds l) (Some a) (cache S Ev l))
    | _ => Some l
    end.
  Definition lext (l l' : Es.store S Ev) : Prop := exists k, cmds l' = cmds l ++ k.

  Fixpoint goodl (st : list step) (l : Es.store S Ev) : Prop :=
    match st with
    | [] => True
    | CacheSet _ _ _ a :: r => consistent (with_cache l a) /\ goodl r (with_cache l a)
    | Mut _ _ _ c m :: r =>
        if is_side m then goodl r l
        else c = true /\ exists l', log_mut l m = Some l' /\ consistent l' /\ lext l l' /\ goodl r l'
    end.

  Lemma apply_mut_log s m : is_side m = false ->
    apply_mut s m = option_map (with_log S Ev Ob s) (log_mut (s_log s) m).
  Proof.
    destruct m; simpl; try discriminate; intros _; [|reflexivity].
    destruct (v =? N.of_nat (length (cmds (s_log s))) + 1); reflexivity.
  Qed.

  Lemma lext_refl l : lext l l.
  Proof. exists []. rewrite app_nil_r. reflexivity. Qed.
  Lemma lext_trans a b c : lext a b -> lext b c -> lext a c.
  Proof. intros [l1 H1] [l2 H2]. exists (l1 ++ l2). rewrite H2, H1, app_assoc. reflexivity. Qed.

  Lemma good_run_cut st : forall n s, wf s -> goodl st (s_log s) ->
    exists s', run_cut n st s = Some s' /\ wf s' /\ extends s s'.
  Proof.
    induction st as [|x st IH]; intros n s W G.
    - exists s. simpl. split; [reflexivity|split; [assumption|apply extends_refl]].
    - destruct x as [c m|a].
      + destruct n as [|n]; [exists s; simpl; split; [reflexivity|split; [assumption|apply extends_refl]]|].
        cbn [goodl] in G. destruct (is_side m) eqn:Sd.
        * cbn [Crash.run_cut]. rewrite (side_some s m Sd).
          destruct (IH n (apply_side s m)) as [s2 [R [W2 X2]]].
          -- unfold wf. rewrite side_log by assumption. exact W.
          -- rewrite side_log by assumption. exact G.
          -- exists s2. split; [assumption|split; [assumption|]]. destruct X2 as [k Hk]. exists k. rewrite Hk, side_log by assumption. reflexivity.
        * destruct G as [_ [l' [E [C' [X' G']]]]]. cbn [Crash.run_cut]. rewrite apply_mut_log by assumption. rewrite E. simpl.
          destruct (IH n (with_log S Ev Ob s l')) as [s2 [R [W2 X2]]]; [exact C'|exact G'|].
          exists s2. split; [assumption|split; [assumption|]]. destruct X' as [k1 H1], X2 as [k2 H2]. exists (k1 ++ k2).
          rewrite H2. simpl. rewrite H1, app_assoc. reflexivity.
      + destruct G as [W1 G1]. cbn [Crash.run_cut].
        destruct (IH n (set_cache S Ev Ob s a)) as [s2 [R [W2 X2]]]; [exact W1|exact G1|].
        exists s2. split; [assumption|split; [assumption|]]. destruct X2 as [k Hk]. exists k. rewrite Hk. reflexivity.
  Qed.

  Lemma good_run_all st s : wf s -> goodl st (s_log s) -> exists s', run_all st s = Some s' /\ wf s' /\ extends s s'.
  Proof. intros. apply good_run_cut; assumption. Qed.

  Lemma good_fail_at st : forall n s, wf s -> goodl st (s_log s) ->
    exists s', fail_at n st s = Some s' /\ wf s' /\ extends s s'.
  Proof.
    induction st as [|x st IH]; intros n s W G.
    - exists s. simpl. split; [reflexivity|split; [assumption|apply extends_refl]].
    - destruct x as [c m|a].
      + cbn [goodl] in G. destruct (is_side m) eqn:Sd.
        * destruct n as [|n].
          -- cbn [Crash.fail_at]. destruct c; [exists s; split; [reflexivity|split; [assumption|apply extends_refl]]|].
             apply good_run_all; assumption.
          -- cbn [Crash.fail_at]. rewrite (side_some s m Sd).
             destruct (IH n (apply_side s m)) as [s2 [R [W2 X2]]].
             ++ unfold wf. rewrite side_log by assumption. exact W.
             ++ rewrite side_log by assumption. exact G.
             ++ exists s2. split; [assumption|split; [assumption|]]. destruct X2 as [k Hk]. exists k. rewrite Hk, side_log by assumption. reflexivity.
        * destruct G as [Hc [l' [E [C' [X' G']]]]]. subst c. destruct n as [|n].
          -- cbn [Crash.fail_at]. exists s. split; [reflexivity|split; [assumption|apply extends_refl]].
          -- cbn [Crash.fail_at]. rewrite apply_mut_log by assumption. rewrite E. simpl.
             destruct (IH n (with_log S Ev Ob s l')) as [s2 [R [W2 X2]]]; [exact C'|exact G'|].
             exists s2. split; [assumption|split; [assumption|]]. destruct X' as [k1 H1], X2 as [k2 H2]. exists (k1 ++ k2).
             rewrite H2. simpl. rewrite H1, app_assoc. reflexivity.
      + destruct G as [W1 G1]. cbn [Crash.fail_at].
        destruct (IH n (set_cache S Ev Ob s a)) as [s2 [R [W2 X2]]]; [exact W1|exact G1|].
        exists s2. split; [assumption|split; [assumption|]]. destruct X2 as [k Hk]. exists k. rewrite Hk. reflexivity.
  Qed.

  (** ** Every operation's steps keep the invariant *)
  Lemma goodl_side_app b ms rest l : forallb is_side ms = true -> goodl rest l -> goodl (map (Mut S Ev Ob b) ms ++ rest) l.
  Proof.
    induction ms as [|m ms IH]; intros H G; simpl; [assumption|].
    simpl in H. apply andb_true_iff in H as [H1 H2]. rewrite H1. apply IH; assumption.
  Qed.

  Lemma goodl_sides b ms l : forallb is_side ms = true -> goodl (map (Mut S Ev Ob b) ms) l.
  Proof. intros H. rewrite <- (app_nil_r (map _ ms)). apply goodl_side_app; [assumption|exact I]. Qed.

  Lemma cons_append l x : consistent l -> consistent (mkStore S Ev (cmds l ++ [x]) (snap S Ev l) (cache S Ev l)).
  Proof.
    intros [Hc Hs]. split; simpl; intros a Ha; apply prefix_extend; [apply Hc|apply Hs]; assumption.
  Qed.

  Lemma cons_cache_full l a : consistent l -> a = replay (cmds l) -> consistent (with_cache l a).
  Proof.
    intros [Hc Hs] ->. split; simpl; intros a Ha; [inv Ha; apply prefix_full|apply Hs; assumption].
  Qed.

  Lemma cons_snap_full l a : consistent l -> a = replay (cmds l) ->
    consistent (mkStore S Ev (cmds l) (Some a) (cache S Ev l)).
  Proof.
    intros [Hc Hs] ->. split; simpl; intros a Ha; [apply Hc; assumption|inv Ha; apply prefix_full].
  Qed.

  Lemma load_ver l : consistent l -> a_ver S (load l) = N.of_nat (length (cmds l)) + 1.
  Proof. intros H. rewrite (load_is_replay S Ev init apply l H). apply replay_ver. Qed.

  Lemma goodl_store_cmd l x rest :
    consistent l ->
    (forall l', l' = mkStore S Ev (cmds l ++ [x]) (snap S Ev l) (cache S Ev l) -> goodl rest l') ->
    goodl (Mut S Ev Ob true (MCmd (a_ver S (load l)) x) :: rest) l.
  Proof.
    intros C G. cbn [goodl is_side]. split; [reflexivity|].
    exists (mkStore S Ev (cmds l ++ [x]) (snap S Ev l) (cache S Ev l)). split.
    - simpl. rewrite (load_ver l C), N.eqb_refl. reflexivity.
    - split; [apply cons_append; assumption|]. split; [exists [x]; reflexivity|apply G; reflexivity].
  Qed.

  Lemma goodl_cache_after_cmd l x :
    consistent l ->
    consistent (with_cache (mkStore S Ev (cmds l ++ [x]) (snap S Ev l) (cache S Ev l)) (apply_stored S Ev apply (load l) x)).
  Proof.
    intros C. apply cons_cache_full; [apply cons_append; assumption|].
    simpl. rewrite (load_is_replay S Ev init apply l C). symmetry. apply replay_snoc.
  Qed.

  Theorem goodl_steps_of s o : wf s -> goodl (steps_of s o) (s_log s).
  Proof.
    intros W. unfold wf in W. destruct o as [evs| | |o'|t|t|t|t|t|]; cbn [Crash.steps_of].
    - destruct (listen (s_objs s) evs) as [o'|]; [|exact I].
      apply goodl_side_app; [apply side_effects_side|]. cbn [app].
      apply goodl_store_cmd; [assumption|]. intros l' ->.
      apply goodl_side_app; [apply sched_fin_all_side|]. cbn [goodl]. split; [|exact I].
      apply goodl_cache_after_cmd. assumption.
    - apply goodl_store_cmd; [assumption|]. intros l' ->. cbn [goodl]. split; [|exact I].
      apply goodl_cache_after_cmd. assumption.
    - cbn [goodl]. split; [|exact I]. apply cons_cache_full; [assumption|]. apply load_is_replay. assumption.
    - cbn [goodl is_side]. exact I.
    - apply goodl_sides. unfold Crash.sched1. simpl. destruct (t_mem (s_pend s) t); reflexivity.
    - destruct (t_mem (s_pend s) t); cbn [goodl is_side]; exact I.
    - destruct (t_mem (s_run s) t); cbn [goodl is_side]; exact I.
    - destruct (t_mem (s_run s) t); cbn [goodl is_side]; exact I.
    - apply goodl_sides. unfold Crash.sched_fin1. simpl. destruct (t_mem (s_run s) t), (t_mem (s_pend s) t); reflexivity.
    - cbn [goodl is_side]. assert (C1 : consistent (with_cache (s_log s) (load (s_log s)))).
      { apply cons_cache_full; [assumption|]. apply load_is_replay. assumption. }
      split; [exact C1|]. split; [reflexivity|].
      exists (mkStore S Ev (cmds (with_cache (s_log s) (load (s_log s)))) (Some (load (s_log s))) (cache S Ev (with_cache (s_log s) (load (s_log s))))).
      split; [reflexivity|]. split.
      + apply cons_snap_full; [exact C1|]. simpl. apply load_is_replay. assumption.
      + split; [exists []; simpl; rewrite app_nil_r; reflexivity|exact I].
  Qed.

  (** ** C08, first clause: after every cut of every operation everything loads, and what loads is the
      replay of the surviving log *)
  Lemma crash_wf s : wf s -> wf (crash s).
  Proof. intros W. unfold wf. simpl. apply (sstep_consistent S Ev init apply (s_log s) ORestart). exact W. Qed.

  Lemma restart_wf s : wf s -> wf (restart s).
  Proof. intros W. unfold wf. simpl. apply (sstep_consistent S Ev init apply (s_log s) ORestart). exact W. Qed.

  Theorem every_prefix_loads : forall s o n, wf s ->
    exists s', run_cut n (steps_of s o) s = Some s' /\ wf (crash s') /\
      recover S Ev init apply Ob s' = replay (cmds (s_log s')) /\
      extends s s'.
  Proof.
    intros s o n W. destruct (good_run_cut (steps_of s o) n s W (goodl_steps_of s o W)) as [s' [R [W' X]]].
    exists s'. split; [exact R|]. split; [apply crash_wf; exact W'|]. split; [|exact X].
    unfold recover. rewrite (load_is_replay S Ev init apply _ (crash_wf s' W')). reflexivity.
  Qed.

  Theorem every_failed_write_loads : forall s o n, wf s ->
    exists s', fail_at n (steps_of s o) s = Some s' /\ wf s' /\ load (s_log s') = replay (cmds (s_log s')) /\ extends s s'.
  Proof.
    intros s o n W. destruct (good_fail_at (steps_of s o) n s W (goodl_steps_of s o W)) as [s' [R [W' X]]].
    exists s'. split; [exact R|]. split; [exact W'|]. split; [apply load_is_replay; exact W'|exact X].
  Qed.

  (** ** Histories of operations, crashes, failing writes and restarts never damage the log and never shorten it *)
  Lemma hstep_ok s h : wf s -> exists s', hstep s h = Some s' /\ wf s' /\ extends s s'.
  Proof.
    intros W. destruct h as [o|o n|o n|]; cbn [Crash.hstep].
    - apply good_run_all; [exact W|apply goodl_steps_of; exact W].
    - destruct (good_run_cut (steps_of s o) n s W (goodl_steps_of s o W)) as [s' [R [W' X]]]. rewrite R. simpl.
      exists (restart s'). split; [reflexivity|]. split; [apply restart_wf; exact W'|]. destruct X as [k Hk]. exists k. simpl. exact Hk.
    - apply good_fail_at; [exact W|apply goodl_steps_of; exact W].
    - exists (restart s). split; [reflexivity|]. split; [apply restart_wf; exact W|]. exists []. simpl. rewrite app_nil_r. reflexivity.
  Qed.

  Theorem run_hist_ok : forall hs s, wf s -> exists s', run_hist s hs = Some s' /\ wf s' /\ extends s s'.
  Proof.
    induction hs as [|h hs IH]; intros s W.
    - exists s. split; [reflexivity|split; [exact W|apply extends_refl]].
    - cbn [Crash.run_hist]. destruct (hstep_ok s h W) as [s1 [E [W1 X1]]]. rewrite E.
      destruct (IH s1 W1) as [s2 [R [W2 X2]]]. exists s2. split; [exact R|split; [exact W2|eapply extends_trans; eassumption]].
  Qed.

  (** ** An accepted command in detail *)
  Definition is_task (m : mutation) : bool :=
    match m with MTaskDel _ | MTaskPut _ | MTaskFinish _ => true | _ => false end.

  Lemma is_task_side m : is_task m = true -> is_side m = true.
  Proof. destruct m; simpl; auto; discriminate. Qed.

  Lemma forallb_impl {A} (f g : A -> bool) l : (forall x, f x = true -> g x = true) -> forallb f l = true -> forallb g l = true.
  Proof. intros H. induction l as [|x l IH]; simpl; auto. intros E. apply andb_true_iff in E as [E1 E2]. rewrite (H _ E1). auto. Qed.

  Lemma task_objs s m : is_task m = true -> s_objs (apply_side s m) = s_objs s /\ s_log (apply_side s m) = s_log s.
  Proof. unfold apply_side. destruct m; simpl; try discriminate; auto. Qed.

  Lemma run_tasks_objs ms : forall s, forallb is_task ms = true -> s_objs (run_side ms s) = s_objs s /\ s_log (run_side ms s) = s_log s.
  Proof.
    induction ms as [|m ms IH]; intros s H; simpl; [auto|].
    simpl in H. apply andb_true_iff in H as [H1 H2]. unfold run_side in *. simpl.
    destruct (IH (apply_side s m) H2) as [A B]. destruct (task_objs s m H1) as [C D]. rewrite A, B, C, D. auto.
  Qed.

  Lemma sched_all_tasks ts : forall p, forallb is_task (fst (sched_all p ts)) = true.
  Proof.
    induction ts as [|t ts IH]; intros p; simpl; [reflexivity|].
    destruct (sched_all (t_put p t) ts) as [m2 p2] eqn:E. simpl.
    rewrite forallb_app. specialize (IH (t_put p t)). rewrite E in IH. simpl in IH. rewrite IH.
    destruct (t_mem p t); reflexivity.
  Qed.

  Lemma sched_fin_all_tasks ts : forall p r, forallb is_task (sched_fin_all p r ts) = true.
  Proof.
    induction ts as [|t ts IH]; intros p r; simpl; [reflexivity|].
    rewrite !forallb_app, IH. destruct (t_mem r t), (t_mem p t); reflexivity.
  Qed.

  Lemma t_del_idem l t : t_del (t_del l t) t = t_del l t.
  Proof.
    unfold t_del. induction l as [|y l IH]; simpl; [reflexivity|].
    destruct (task_eqb y t) eqn:E; simpl; [exact IH|rewrite E; simpl; rewrite IH; reflexivity].
  Qed.

  Lemma t_del_notin l t : t_mem l t = false -> t_del l t = l.
  Proof.
    unfold t_mem, t_del. induction l as [|y l IH]; simpl; [reflexivity|]. intros H. apply orb_false_iff in H as [H1 H2].
    rewrite task_eqb_sym in H1. rewrite H1. simpl. rewrite IH by assumption. reflexivity.
  Qed.

  Lemma run_side_app a b s : run_side (a ++ b) s = run_side b (run_side a s).
  Proof. unfold run_side. apply fold_left_app. Qed.

  (** The queue after the writes of [schedule] for a list of tasks. *)
  Lemma run_sched_all ts : forall p s, s_pend s = p ->
    s_pend (run_side (fst (sched_all p ts)) s) = snd (sched_all p ts) /\ s_run (run_side (fst (sched_all p ts)) s) = s_run s.
  Proof.
    induction ts as [|t ts IH]; intros p s Hp; simpl; [auto|].
    destruct (sched_all (t_put p t) ts) as [m2 p2] eqn:E. simpl. rewrite run_side_app.
    specialize (IH (t_put p t)). rewrite E in IH. simpl in IH.
    set (s1 := run_side ((if t_mem p t then [MTaskDel t] else []) ++ [MTaskPut t]) s).
    assert (H1 : s_pend s1 = t_put p t /\ s_run s1 = s_run s).
    { unfold s1, run_side, apply_side. destruct (t_mem p t); simpl; rewrite Hp; [|auto].
      unfold t_put. rewrite t_del_idem. auto. }
    destruct H1 as [H1 H2]. destruct (IH s1 H1) as [A B]. rewrite A, B, H2. auto.
  Qed.

  Lemma sched_all_mem ts : forall p x, t_mem (snd (sched_all p ts)) x = t_mem p x || t_mem ts x.
  Proof.
    induction ts as [|t ts IH]; intros p x; [simpl; rewrite orb_false_r; reflexivity|].
    cbn [Crash.sched_all Crash.sched1]. destruct (sched_all (t_put p t) ts) as [m2 p2] eqn:E. cbn [snd].
    specialize (IH (t_put p t) x). rewrite E in IH. cbn [snd] in IH. rewrite IH, t_mem_put.
    change (t_mem (t :: ts) x) with (task_eqb x t || t_mem ts x).
    destruct (task_eqb x t), (t_mem p x); reflexivity.
  Qed.

  Lemma run_sched_fin_all ts : forall p r s, s_pend s = p -> s_run s = r ->
    (forall x, t_mem (s_pend (run_side (sched_fin_all p r ts) s)) x = t_mem p x || t_mem ts x) /\
    (forall x, t_mem (s_run (run_side (sched_fin_all p r ts) s)) x = t_mem r x && negb (t_mem ts x)).
  Proof.
    induction ts as [|t ts IH]; intros p r s Hp Hr; simpl.
    - rewrite Hp, Hr. split; intros x; [rewrite orb_false_r|rewrite andb_true_r]; reflexivity.
    - rewrite run_side_app.
      set (s1 := run_side ((if t_mem r t then [MTaskFinish t] else []) ++ (if t_mem p t then [MTaskDel t] else []) ++ [MTaskPut t]) s).
      assert (H1 : s_pend s1 = t_put p t /\ s_run s1 = t_del r t).
      { unfold s1, run_side, apply_side. destruct (t_mem r t) eqn:Er, (t_mem p t) eqn:Ep; simpl; rewrite ?Hp, ?Hr; unfold t_put; rewrite ?t_del_idem; split; try reflexivity.
        - symmetry. apply t_del_notin. exact Er.
        - symmetry. apply t_del_notin. exact Er. }
      destruct H1 as [H1 H2]. destruct (IH (t_put p t) (t_del r t) s1 H1 H2) as [A B]. split; intros x.
      + rewrite A, t_mem_put. destruct (task_eqb x t), (t_mem p x); reflexivity.
      + rewrite B, t_mem_del. destruct (task_eqb x t), (t_mem r x), (t_mem ts x); reflexivity.
  Qed.

  (** Names outside the scheduled ones are not touched by any prefix of the side effects. *)
  Definition names_in (ts : list task) (m : mutation) : bool :=
    match m with MTaskDel u | MTaskPut u => t_mem ts u | MObjs _ => true | _ => false end.

  Lemma sched_all_names ts' ts : (forall u, t_mem ts u = true -> t_mem ts' u = true) ->
    forall p, forallb (names_in ts') (fst (sched_all p ts)) = true.
  Proof.
    induction ts as [|t ts IH]; intros H p; simpl; [reflexivity|].
    destruct (sched_all (t_put p t) ts) as [m2 p2] eqn:E. simpl. rewrite forallb_app.
    assert (Ht : t_mem ts' t = true). { apply H. simpl. rewrite task_eqb_refl. reflexivity. }
    assert (H' : forall u, t_mem ts u = true -> t_mem ts' u = true). { intros u Hu. apply H. simpl. rewrite Hu. apply orb_true_r. }
    specialize (IH H' (t_put p t)). rewrite E in IH. simpl in IH. rewrite IH.
    destruct (t_mem p t); simpl; rewrite Ht; reflexivity.
  Qed.

  Lemma names_untouched ts ms : forall s, forallb (names_in ts) ms = true ->
    s_run (run_side ms s) = s_run s /\ s_log (run_side ms s) = s_log s /\
    forall x, t_mem ts x = false -> t_mem (s_pend (run_side ms s)) x = t_mem (s_pend s) x.
  Proof.
    induction ms as [|m ms IH]; intros s H; simpl; [auto|].
    simpl in H. apply andb_true_iff in H as [H1 H2]. unfold run_side in *. simpl.
    destruct (IH (apply_side s m) H2) as [A [B C]]. rewrite A, B.
    unfold apply_side. destruct m; simpl in *; try discriminate; split; auto; split; auto; intros x Hx; rewrite C by assumption; simpl.
    - rewrite t_mem_del. destruct (task_eqb x t) eqn:E; [apply task_eqb_eq in E; subst x; rewrite H1 in Hx; discriminate|apply andb_true_r].
    - rewrite t_mem_put. destruct (task_eqb x t) eqn:E; [apply task_eqb_eq in E; subst x; rewrite H1 in Hx; discriminate|reflexivity].
  Qed.

  Lemma side_objs s o' evs n : s_objs (run_side (firstn n (side_effects s o' evs)) s) = match n with O => s_objs s | _ => o' end.
  Proof.
    destruct n as [|n]; [reflexivity|]. unfold Crash.side_effects. simpl firstn. unfold run_side. simpl fold_left.
    fold (run_side (firstn n (fst (sched_all (s_pend s) (pre_tasks evs)))) (apply_side s (MObjs o'))).
    destruct (run_tasks_objs (firstn n (fst (sched_all (s_pend s) (pre_tasks evs)))) (apply_side s (MObjs o'))) as [A _].
    - apply firstn_forallb. apply sched_all_tasks.
    - rewrite A. reflexivity.
  Qed.

  Lemma cmd_index_len s o' evs : cmd_index s evs = length (side_effects s o' evs).
  Proof. reflexivity. Qed.

  (** A cut before the command store, and a failing write up to and including the command store, leave
      exactly the first n side effects - and nothing else. *)
  Lemma cut_before_store s evs o' n : listen (s_objs s) evs = Some o' -> (n <= cmd_index s evs)%nat ->
    run_cut n (steps_of s (OCommand evs)) s = Some (run_side (firstn n (side_effects s o' evs)) s).
  Proof.
    intros L Hn. cbn [Crash.steps_of]. rewrite L. rewrite run_cut_side_app by apply side_effects_side.
    rewrite (cmd_index_len s o' evs) in Hn. destruct (n <? length (side_effects s o' evs))%nat eqn:E; [reflexivity|].
    apply Nat.ltb_ge in E. assert (n = length (side_effects s o' evs)) by lia. subst n.
    rewrite Nat.sub_diag, firstn_all. reflexivity.
  Qed.

  Lemma fail_before_store s evs o' n : listen (s_objs s) evs = Some o' -> (n <= cmd_index s evs)%nat ->
    fail_at n (steps_of s (OCommand evs)) s = Some (run_side (firstn n (side_effects s o' evs)) s).
  Proof.
    intros L Hn. cbn [Crash.steps_of]. rewrite L. rewrite fail_at_side_app by apply side_effects_side.
    rewrite (cmd_index_len s o' evs) in Hn. destruct (n <? length (side_effects s o' evs))%nat eqn:E; [reflexivity|].
    apply Nat.ltb_ge in E. assert (n = length (side_effects s o' evs)) by lia. subst n.
    rewrite Nat.sub_diag, firstn_all. reflexivity.
  Qed.

  (** C08: one failing write before or at the command store: the command is in no log and in no cache (the
      whole stored aggregate - commands, snapshot, cache - is as before, so every reader sees the old state);
      what may remain is exactly the first n of: the listener's write of the published-object store, then the
      deletes/stores of the tasks the events schedule. Tasks of other names and running tasks are untouched. *)
  Theorem failed_write_invisible : forall s evs o' n, wf s -> listen (s_objs s) evs = Some o' -> (n <= cmd_index s evs)%nat ->
    exists s', fail_at n (steps_of s (OCommand evs)) s = Some s' /\
      s' = run_side (firstn n (side_effects s o' evs)) s /\
      s_log s' = s_log s /\ load (s_log s') = load (s_log s) /\
      s_objs s' = match n with O => s_objs s | _ => o' end /\
      s_run s' = s_run s /\
      (forall t, t_mem (pre_tasks evs) t = false -> t_mem (s_pend s') t = t_mem (s_pend s) t).
  Proof.
    intros s evs o' n W L Hn. exists (run_side (firstn n (side_effects s o' evs)) s).
    split; [apply fail_before_store; assumption|]. split; [reflexivity|].
    assert (Hnames : forallb (names_in (pre_tasks evs)) (firstn n (side_effects s o' evs)) = true).
    { apply firstn_forallb. unfold Crash.side_effects. simpl. apply sched_all_names. auto. }
    destruct (names_untouched (pre_tasks evs) _ s Hnames) as [A [B C]].
    split; [exact B|]. split; [rewrite B; reflexivity|]. split; [apply side_objs|]. split; [exact A|exact C].
  Qed.

  (** The same state is what a crash right before mutation n leaves on disk. *)
  Theorem cut_equals_failed_write : forall s evs o' n, listen (s_objs s) evs = Some o' -> (n <= cmd_index s evs)%nat ->
    run_cut n (steps_of s (OCommand evs)) s = fail_at n (steps_of s (OCommand evs)) s.
  Proof. intros. rewrite (cut_before_store s evs o' n), (fail_before_store s evs o' n); auto. Qed.

  (** The completed command. *)
  Lemma run_all_side_cache ms a : forall s, forallb is_side ms = true ->
    run_all (map (Mut S Ev Ob false) ms ++ [CacheSet S Ev Ob a]) s = Some (set_cache S Ev Ob (run_side ms s) a).
  Proof.
    intros s H. unfold Crash.run_all. rewrite run_cut_side_app by assumption.
    rewrite app_length, map_length. simpl length.
    replace (length ms + 1 <? length ms)%nat with false by (symmetry; apply Nat.ltb_ge; lia).
    replace (length ms + 1 - length ms)%nat with 1%nat by lia. reflexivity.
  Qed.

  Lemma complete_command s evs o' : wf s -> listen (s_objs s) evs = Some o' ->
    exists s1, complete (OCommand evs) s = Some s1 /\
      cmds (s_log s1) = cmds (s_log s) ++ [SEvents evs] /\ snap S Ev (s_log s1) = snap S Ev (s_log s) /\
      cache S Ev (s_log s1) = Some (replay (cmds (s_log s) ++ [SEvents evs])) /\
      s_objs s1 = o' /\
      (forall x, t_mem (s_pend s1) x = t_mem (s_pend s) x || t_mem (pre_tasks evs) x || t_mem (post_tasks evs) x) /\
      (forall x, t_mem (s_run s1) x = t_mem (s_run s) x && negb (t_mem (post_tasks evs) x)).
  Proof.
    intros W L. unfold Crash.complete, Crash.run_all. cbn [Crash.steps_of]. rewrite L.
    set (side := side_effects s o' evs).
    set (post := sched_fin_all (snd (sched_all (s_pend s) (pre_tasks evs))) (s_run s) (post_tasks evs)).
    set (a' := apply_stored S Ev apply (load (s_log s)) (SEvents evs)).
    rewrite run_cut_side_app by apply side_effects_side.
    rewrite !app_length, !map_length. fold side. simpl length.
    replace (length side + (1 + (length post + 1)) <? length side)%nat with false by (symmetry; apply Nat.ltb_ge; lia).
    replace (length side + (1 + (length post + 1)) - length side)%nat with (Datatypes.S (length post + 1)) by lia.
    set (s0 := run_side side s).
    assert (S0 : s_objs s0 = o' /\ s_log s0 = s_log s /\ s_pend s0 = snd (sched_all (s_pend s) (pre_tasks evs)) /\ s_run s0 = s_run s).
    { unfold s0, side, Crash.side_effects, run_side. simpl fold_left.
      fold (run_side (fst (sched_all (s_pend s) (pre_tasks evs))) (apply_side s (MObjs o'))).
      destruct (run_tasks_objs (fst (sched_all (s_pend s) (pre_tasks evs))) (apply_side s (MObjs o')) (sched_all_tasks _ _)) as [A B].
      destruct (run_sched_all (pre_tasks evs) (s_pend s) (apply_side s (MObjs o')) eq_refl) as [C D].
      rewrite A, B, C, D. auto. }
    destruct S0 as [O0 [L0 [P0 R0]]].
    cbn [Crash.run_cut app]. unfold Crash.apply_mut. rewrite L0.
    rewrite (load_ver (s_log s) W), N.eqb_refl.
    set (s1 := with_log S Ev Ob s0 (mkStore S Ev (cmds (s_log s) ++ [SEvents evs]) (snap S Ev (s_log s)) (cache S Ev (s_log s)))).
    fold (Crash.run_all S Ev Ob (map (Mut S Ev Ob false) post ++ [CacheSet S Ev Ob a']) s1) .
    change (Crash.run_cut S Ev Ob (length post + 1) (map (Mut S Ev Ob false) post ++ [CacheSet S Ev Ob a']) s1)
      with (Crash.run_cut S Ev Ob (length post + 1) (map (Mut S Ev Ob false) post ++ [CacheSet S Ev Ob a']) s1).
    assert (RA : run_cut (length post + 1) (map (Mut S Ev Ob false) post ++ [CacheSet S Ev Ob a']) s1 = Some (set_cache S Ev Ob (run_side post s1) a')).
    { rewrite <- (run_all_side_cache post a' s1) by apply sched_fin_all_side. unfold Crash.run_all. rewrite app_length, map_length. reflexivity. }
    rewrite RA. eexists. split; [reflexivity|].
    destruct (run_tasks_objs post s1 (sched_fin_all_tasks _ _ _)) as [A B].
    destruct (run_sched_fin_all (post_tasks evs) (snd (sched_all (s_pend s) (pre_tasks evs))) (s_run s) s1 P0 R0) as [C D].
    fold post in C, D. simpl. rewrite B. simpl. split; [reflexivity|]. split; [reflexivity|]. split.
    - unfold a'. rewrite (load_is_replay S Ev init apply (s_log s) W). rewrite <- replay_snoc. reflexivity.
    - split; [rewrite A; exact O0|]. split; intros x.
      + rewrite C, sched_all_mem. reflexivity.
      + apply D.
  Qed.

  (** C08: an acknowledged command is never lost: whatever operations, crashes at any mutation, failing
      writes and restarts follow, it stays at its place in the log, and recovery replays that log. *)
  Theorem ack_never_lost : forall s evs s1 hs, wf s -> listen (s_objs s) evs <> None ->
    complete (OCommand evs) s = Some s1 ->
    exists sN, run_hist s1 hs = Some sN /\
      nth_error (cmds (s_log sN)) (length (cmds (s_log s))) = Some (SEvents evs) /\
      recover S Ev init apply Ob sN = replay (cmds (s_log sN)).
  Proof.
    intros s evs s1 hs W L C. destruct (listen (s_objs s) evs) as [o'|] eqn:E; [|congruence].
    destruct (complete_command s evs o' W E) as [s1' [C' [H1 _]]]. rewrite C in C'. inv C'.
    assert (W1 : wf s1').
    { destruct (good_run_all (steps_of s (OCommand evs)) s W (goodl_steps_of s _ W)) as [s2 [R [W2 _]]].
      unfold Crash.complete in C. rewrite C in R. inv R. exact W2. }
    destruct (run_hist_ok hs s1' W1) as [sN [R [WN [k Hk]]]]. exists sN. split; [exact R|]. split.
    - rewrite Hk, H1, <- app_assoc. rewrite nth_error_app2 by lia. rewrite Nat.sub_diag. reflexivity.
    - unfold recover. rewrite (load_is_replay S Ev init apply _ (crash_wf sN WN)). reflexivity.
  Qed.
End CrashProofs.
