(** C08 proofs: every cut of every operation leaves a loadable system, acknowledged commands survive every
    later fault, a failing write leaves nothing of the command in the log or the cache, resubmission
    converges; the "atomic alike" clause is refuted (pre-save listeners run ahead of the log) and proved
    outside the known window. *)
From KV Require Import base.Tac es.Es es.EsProofs crash.Crash ca.Ca.
Open Scope N_scope.

(** ** Task sets *)
Lemma task_eqb_refl t : task_eqb t t = true.
Proof. unfold task_eqb. rewrite !N.eqb_refl. reflexivity. Qed.
Lemma task_eqb_sym a b : task_eqb a b = task_eqb b a.
Proof. unfold task_eqb. rewrite (N.eqb_sym (fst a)), (N.eqb_sym (snd a)). reflexivity. Qed.
Lemma task_eqb_eq a b : task_eqb a b = true <-> a = b.
Proof.
  unfold task_eqb. destruct a as [a1 a2], b as [b1 b2]; simpl. rewrite andb_true_iff, !N.eqb_eq.
  split; [intros [-> ->]; reflexivity|intros H; inversion H; auto].
Qed.

Lemma t_mem_del l t x : t_mem (t_del l t) x = t_mem l x && negb (task_eqb x t).
Proof.
  unfold t_mem, t_del. induction l as [|y l IH]; simpl; [reflexivity|].
  destruct (task_eqb y t) eqn:E; simpl.
  - rewrite IH. apply task_eqb_eq in E. subst y. destruct (task_eqb x t); simpl; [rewrite andb_false_r; reflexivity|reflexivity].
  - rewrite IH. destruct (task_eqb x y) eqn:E2; simpl; [|reflexivity].
    apply task_eqb_eq in E2. subst y. rewrite E. reflexivity.
Qed.

Lemma t_mem_put l t x : t_mem (t_put l t) x = task_eqb x t || t_mem l x.
Proof.
  unfold t_put. change (t_mem (t :: t_del l t) x) with (task_eqb x t || t_mem (t_del l t) x).
  rewrite t_mem_del. destruct (task_eqb x t); simpl; [reflexivity|rewrite andb_true_r; reflexivity].
Qed.

Lemma t_mem_app a b x : t_mem (a ++ b) x = t_mem a x || t_mem b x.
Proof. unfold t_mem. apply existsb_app. Qed.

Section CrashProofs.
  Variables (S Ev : Type) (init : S) (apply : S -> Ev -> S).
  Variable Ob : Type.
  Variable listen : Ob -> list Ev -> option Ob.
  Variable pre_tasks post_tasks : list Ev -> list task.

  Notation sys := (sys S Ev Ob).
  Notation mutation := (mutation S Ev Ob).
  Notation step := (step S Ev Ob).
  Notation op := (op Ev Ob).
  Notation steps_of := (steps_of S Ev init apply Ob listen pre_tasks post_tasks).
  Notation apply_mut := (apply_mut S Ev Ob).
  Notation run_cut := (run_cut S Ev Ob).
  Notation run_all := (run_all S Ev Ob).
  Notation fail_at := (fail_at S Ev Ob).
  Notation crash := (crash S Ev Ob).
  Notation restart := (restart S Ev Ob).
  Notation complete := (complete S Ev init apply Ob listen pre_tasks post_tasks).
  Notation run_hist := (run_hist S Ev init apply Ob listen pre_tasks post_tasks).
  Notation hstep := (hstep S Ev init apply Ob listen pre_tasks post_tasks).
  Notation s_log := (s_log S Ev Ob).
  Notation s_objs := (s_objs S Ev Ob).
  Notation s_pend := (s_pend S Ev Ob).
  Notation s_run := (s_run S Ev Ob).
  Notation cmds := (cmds S Ev).
  Notation load := (Es.load S Ev init apply).
  Notation replay := (Es.replay S Ev init apply).
  Notation consistent := (consistent S Ev init apply).
  Notation side_effects := (side_effects S Ev Ob pre_tasks).
  Notation cmd_index := (cmd_index S Ev Ob pre_tasks).
  Notation sched_all := (sched_all S Ev Ob).
  Notation sched_fin_all := (sched_fin_all S Ev Ob).

  (** Well-formed: cache and snapshot are replays of prefixes of the stored commands (C06's invariant). *)
  Definition wf (s : sys) : Prop := consistent (s_log s).

  Definition extends (s s' : sys) : Prop := exists l, cmds (s_log s') = cmds (s_log s) ++ l.

  Lemma extends_refl s : extends s s.
  Proof. exists []. rewrite app_nil_r. reflexivity. Qed.
  Lemma extends_trans a b c : extends a b -> extends b c -> extends a c.
  Proof. intros [l1 H1] [l2 H2]. exists (l1 ++ l2). rewrite H2, H1, app_assoc. reflexivity. Qed.

  (** Mutations that do not touch the audit log. *)
  Definition is_side (m : mutation) : bool :=
    match m with MCmd _ _ | MSnap _ => false | _ => true end.

  Definition apply_side (s : sys) (m : mutation) : sys :=
    match apply_mut s m with Some s' => s' | None => s end.
  Definition run_side (ms : list mutation) (s : sys) : sys := fold_left apply_side ms s.

  Lemma side_some s m : is_side m = true -> apply_mut s m = Some (apply_side s m).
  Proof. unfold apply_side. destruct m; simpl; try discriminate; reflexivity. Qed.

  Lemma side_log s m : is_side m = true -> s_log (apply_side s m) = s_log s.
  Proof.
    unfold apply_side. destruct m; simpl; try discriminate; intros _; try reflexivity.
    - destruct (t_mem (s_pend s) t); reflexivity.
    - destruct (t_mem (s_run s) t); reflexivity.
  Qed.

  Lemma run_side_log ms : forall s, forallb is_side ms = true -> s_log (run_side ms s) = s_log s.
  Proof.
    induction ms as [|m ms IH]; intros s H; simpl; [reflexivity|].
    simpl in H. apply andb_true_iff in H as [H1 H2]. unfold run_side in *. simpl. rewrite IH by assumption. apply side_log. assumption.
  Qed.

  Lemma firstn_forallb {A} (f : A -> bool) n l : forallb f l = true -> forallb f (firstn n l) = true.
  Proof.
    revert l; induction n as [|n IH]; intros [|x l] H; simpl; auto.
    simpl in H. apply andb_true_iff in H as [H1 H2]. rewrite H1. simpl. auto.
  Qed.

  (** Cuts and failing writes inside a block of log-free mutations. *)
  Lemma run_cut_side_app b ms rest : forall n s, forallb is_side ms = true ->
    run_cut n (map (Mut S Ev Ob b) ms ++ rest) s =
      if (n <? length ms)%nat then Some (run_side (firstn n ms) s) else run_cut (n - length ms) rest (run_side ms s).
  Proof.
    induction ms as [|m ms IH]; intros n s H.
    - simpl. replace (n - 0)%nat with n by lia. reflexivity.
    - simpl in H. apply andb_true_iff in H as [H1 H2]. simpl map. simpl app. destruct n as [|n].
      + simpl. reflexivity.
      + cbn [run_cut]. rewrite (side_some s m H1). rewrite IH by assumption.
        change (Datatypes.S n <? length (m :: ms))%nat with (n <? length ms)%nat.
        simpl. reflexivity.
  Qed.

  Lemma fail_at_side_app ms rest : forall n s, forallb is_side ms = true ->
    fail_at n (map (Mut S Ev Ob true) ms ++ rest) s =
      if (n <? length ms)%nat then Some (run_side (firstn n ms) s) else fail_at (n - length ms) rest (run_side ms s).
  Proof.
    induction ms as [|m ms IH]; intros n s H.
    - simpl. replace (n - 0)%nat with n by lia. reflexivity.
    - simpl in H. apply andb_true_iff in H as [H1 H2]. simpl map. simpl app. destruct n as [|n].
      + simpl. reflexivity.
      + cbn [fail_at]. rewrite (side_some s m H1). rewrite IH by assumption.
        change (Datatypes.S n <? length (m :: ms))%nat with (n <? length ms)%nat.
        simpl. reflexivity.
  Qed.

  Lemma sched_all_side ts : forall p, forallb is_side (fst (sched_all p ts)) = true.
  Proof.
    induction ts as [|t ts IH]; intros p; simpl; [reflexivity|].
    destruct (sched_all (t_put p t) ts) as [m2 p2] eqn:E. simpl.
    rewrite forallb_app. specialize (IH (t_put p t)). rewrite E in IH. simpl in IH. rewrite IH.
    destruct (t_mem p t); reflexivity.
  Qed.

  Lemma sched_fin_all_side ts : forall p r, forallb is_side (sched_fin_all p r ts) = true.
  Proof.
    induction ts as [|t ts IH]; intros p r; simpl; [reflexivity|].
    rewrite !forallb_app, IH. destruct (t_mem r t), (t_mem p t); reflexivity.
  Qed.

  Lemma side_effects_side s o' evs : forallb is_side (side_effects s o' evs) = true.
  Proof. unfold Crash.side_effects. simpl. apply sched_all_side. Qed.

  (** ** Invariant along the steps of an operation. Success of a mutation and well-formedness depend on the
      audit log only, so the invariant is stated on the log. *)
  Definition with_cache (l : Es.store S Ev) (a : Es.agg S) : Es.store S Ev := mkStore S Ev (cmds l) (snap S Ev l) (Some a).
  Definition log_mut (l : Es.store S Ev) (m : mutation) : option (Es.store S Ev) :=
    match m with
    | MCmd v x => if v =? N.of_nat (length (cmds l)) + 1 then Some (mkStore S Ev (cmds l ++ [x]) (snap S Ev l) (cache S Ev l)) else None
    | MSnap a => Some (mkStore S Ev (cmds l) (Some a) (cache S Ev l))
    | _ => Some l
    end.
  Definition lext (l l' : Es.store S Ev) : Prop := exists k, cmds l' = cmds l ++ k.

  Fixpoint goodl (st : list step) (l : Es.store S Ev) : Prop :=
    match st with
    | [] => True
    | CacheSet _ _ _ a :: r => consistent (with_cache l a) /\ goodl r (with_cache l a)
    | Mut _ _ _ c m :: r =>
        if is_side m then goodl r l
        else c = true /\ exists l', log_mut l m = Some l' /\ consistent l' /\ lext l l' /\ goodl r l'
    end.

  Lemma apply_mut_log s m : is_side m = false ->
    apply_mut s m = option_map (with_log S Ev Ob s) (log_mut (s_log s) m).
  Proof.
    destruct m; simpl; try discriminate; intros _; [|reflexivity].
    destruct (v =? N.of_nat (length (cmds (s_log s))) + 1); reflexivity.
  Qed.

  Lemma lext_refl l : lext l l.
  Proof. exists []. rewrite app_nil_r. reflexivity. Qed.
  Lemma lext_trans a b c : lext a b -> lext b c -> lext a c.
  Proof. intros [l1 H1] [l2 H2]. exists (l1 ++ l2). rewrite H2, H1, app_assoc. reflexivity. Qed.

  Lemma good_run_cut st : forall n s, wf s -> goodl st (s_log s) ->
    exists s', run_cut n st s = Some s' /\ wf s' /\ extends s s'.
  Proof.
    induction st as [|x st IH]; intros n s W G.
    - exists s. simpl. split; [reflexivity|split; [assumption|apply extends_refl]].
    - destruct x as [c m|a].
      + destruct n as [|n]; [exists s; simpl; split; [reflexivity|split; [assumption|apply extends_refl]]|].
        cbn [goodl] in G. destruct (is_side m) eqn:Sd.
        * cbn [Crash.run_cut]. rewrite (side_some s m Sd).
          destruct (IH n (apply_side s m)) as [s2 [R [W2 X2]]].
          -- unfold wf. rewrite side_log by assumption. exact W.
          -- rewrite side_log by assumption. exact G.
          -- exists s2. split; [assumption|split; [assumption|]]. destruct X2 as [k Hk]. exists k. rewrite Hk, side_log by assumption. reflexivity.
        * destruct G as [_ [l' [E [C' [X' G']]]]]. cbn [Crash.run_cut]. rewrite apply_mut_log by assumption. rewrite E. simpl.
          destruct (IH n (with_log S Ev Ob s l')) as [s2 [R [W2 X2]]]; [exact C'|exact G'|].
          exists s2. split; [assumption|split; [assumption|]]. destruct X' as [k1 H1], X2 as [k2 H2]. exists (k1 ++ k2).
          rewrite H2. simpl. rewrite H1, app_assoc. reflexivity.
      + destruct G as [W1 G1]. cbn [Crash.run_cut].
        destruct (IH n (set_cache S Ev Ob s a)) as [s2 [R [W2 X2]]]; [exact W1|exact G1|].
        exists s2. split; [assumption|split; [assumption|]]. destruct X2 as [k Hk]. exists k. rewrite Hk. reflexivity.
  Qed.

  Lemma good_run_all st s : wf s -> goodl st (s_log s) -> exists s', run_all st s = Some s' /\ wf s' /\ extends s s'.
  Proof. intros. apply good_run_cut; assumption. Qed.

  Lemma good_fail_at st : forall n s, wf s -> goodl st (s_log s) ->
    exists s', fail_at n st s = Some s' /\ wf s' /\ extends s s'.
  Proof.
    induction st as [|x st IH]; intros n s W G.
    - exists s. simpl. split; [reflexivity|split; [assumption|apply extends_refl]].
    - destruct x as [c m|a].
      + cbn [goodl] in G. destruct (is_side m) eqn:Sd.
        * destruct n as [|n].
          -- cbn [Crash.fail_at]. destruct c; [exists s; split; [reflexivity|split; [assumption|apply extends_refl]]|].
             apply good_run_all; assumption.
          -- cbn [Crash.fail_at]. rewrite (side_some s m Sd).
             destruct (IH n (apply_side s m)) as [s2 [R [W2 X2]]].
             ++ unfold wf. rewrite side_log by assumption. exact W.
             ++ rewrite side_log by assumption. exact G.
             ++ exists s2. split; [assumption|split; [assumption|]]. destruct X2 as [k Hk]. exists k. rewrite Hk, side_log by assumption. reflexivity.
        * destruct G as [Hc [l' [E [C' [X' G']]]]]. subst c. destruct n as [|n].
          -- cbn [Crash.fail_at]. exists s. split; [reflexivity|split; [assumption|apply extends_refl]].
          -- cbn [Crash.fail_at]. rewrite apply_mut_log by assumption. rewrite E. simpl.
             destruct (IH n (with_log S Ev Ob s l')) as [s2 [R [W2 X2]]]; [exact C'|exact G'|].
             exists s2. split; [assumption|split; [assumption|]]. destruct X' as [k1 H1], X2 as [k2 H2]. exists (k1 ++ k2).
             rewrite H2. simpl. rewrite H1, app_assoc. reflexivity.
      + destruct G as [W1 G1]. cbn [Crash.fail_at].
        destruct (IH n (set_cache S Ev Ob s a)) as [s2 [R [W2 X2]]]; [exact W1|exact G1|].
        exists s2. split; [assumption|split; [assumption|]]. destruct X2 as [k Hk]. exists k. rewrite Hk. reflexivity.
  Qed.

  (** ** Every operation's steps keep the invariant *)
  Lemma goodl_side_app b ms rest l : forallb is_side ms = true -> goodl rest l -> goodl (map (Mut S Ev Ob b) ms ++ rest) l.
  Proof.
    induction ms as [|m ms IH]; intros H G; simpl; [assumption|].
    simpl in H. apply andb_true_iff in H as [H1 H2]. rewrite H1. apply IH; assumption.
  Qed.

  Lemma goodl_sides b ms l : forallb is_side ms = true -> goodl (map (Mut S Ev Ob b) ms) l.
  Proof. intros H. rewrite <- (app_nil_r (map _ ms)). apply goodl_side_app; [assumption|exact I]. Qed.

  Lemma cons_append l x : consistent l -> consistent (mkStore S Ev (cmds l ++ [x]) (snap S Ev l) (cache S Ev l)).
  Proof.
    intros [Hc Hs]. split; simpl; intros a Ha; apply prefix_extend; [apply Hc|apply Hs]; assumption.
  Qed.

  Lemma cons_cache_full l a : consistent l -> a = replay (cmds l) -> consistent (with_cache l a).
  Proof.
    intros [Hc Hs] ->. split; simpl; intros a Ha; [inv Ha; apply prefix_full|apply Hs; assumption].
  Qed.

  Lemma cons_snap_full l a : consistent l -> a = replay (cmds l) ->
    consistent (mkStore S Ev (cmds l) (Some a) (cache S Ev l)).
  Proof.
    intros [Hc Hs] ->. split; simpl; intros a Ha; [apply Hc; assumption|inv Ha; apply prefix_full].
  Qed.

  Lemma load_ver l : consistent l -> a_ver S (load l) = N.of_nat (length (cmds l)) + 1.
  Proof. intros H. rewrite (load_is_replay S Ev init apply l H). apply replay_ver. Qed.

  Lemma goodl_store_cmd l x rest :
    consistent l ->
    (forall l', l' = mkStore S Ev (cmds l ++ [x]) (snap S Ev l) (cache S Ev l) -> goodl rest l') ->
    goodl (Mut S Ev Ob true (MCmd (a_ver S (load l)) x) :: rest) l.
  Proof.
    intros C G. cbn [goodl is_side]. split; [reflexivity|].
    exists (mkStore S Ev (cmds l ++ [x]) (snap S Ev l) (cache S Ev l)). split.
    - simpl. rewrite (load_ver l C), N.eqb_refl. reflexivity.
    - split; [apply cons_append; assumption|]. split; [exists [x]; reflexivity|apply G; reflexivity].
  Qed.

  Lemma goodl_cache_after_cmd l x :
    consistent l ->
    consistent (with_cache (mkStore S Ev (cmds l ++ [x]) (snap S Ev l) (cache S Ev l)) (apply_stored S Ev apply (load l) x)).
  Proof.
    intros C. apply cons_cache_full; [apply cons_append; assumption|].
    simpl. rewrite (load_is_replay S Ev init apply l C). symmetry. apply replay_snoc.
  Qed.

  Theorem goodl_steps_of s o : wf s -> goodl (steps_of s o) (s_log s).
  Proof.
    intros W. unfold wf in W. destruct o as [evs| | |o'|t|t|t|t|t|]; cbn [Crash.steps_of].
    - destruct (listen (s_objs s) evs) as [o'|]; [|exact I].
      apply goodl_side_app; [apply side_effects_side|]. cbn [app].
      apply goodl_store_cmd; [assumption|]. intros l' ->.
      apply goodl_side_app; [apply sched_fin_all_side|]. cbn [goodl]. split; [|exact I].
      apply goodl_cache_after_cmd. assumption.
    - apply goodl_store_cmd; [assumption|]. intros l' ->. cbn [goodl]. split; [|exact I].
      apply goodl_cache_after_cmd. assumption.
    - cbn [goodl]. split; [|exact I]. apply cons_cache_full; [assumption|]. apply load_is_replay. assumption.
    - cbn [goodl is_side]. exact I.
    - apply goodl_sides. unfold Crash.sched1. simpl. destruct (t_mem (s_pend s) t); reflexivity.
    - destruct (t_mem (s_pend s) t); cbn [goodl is_side]; exact I.
    - destruct (t_mem (s_run s) t); cbn [goodl is_side]; exact I.
    - destruct (t_mem (s_run s) t); cbn [goodl is_side]; exact I.
    - apply goodl_sides. unfold Crash.sched_fin1. simpl. destruct (t_mem (s_run s) t), (t_mem (s_pend s) t); reflexivity.
    - cbn [goodl is_side]. assert (C1 : consistent (with_cache (s_log s) (load (s_log s)))).
      { apply cons_cache_full; [assumption|]. apply load_is_replay. assumption. }
      split; [exact C1|]. split; [reflexivity|].
      exists (mkStore S Ev (cmds (with_cache (s_log s) (load (s_log s)))) (Some (load (s_log s))) (cache S Ev (with_cache (s_log s) (load (s_log s))))).
      split; [reflexivity|]. split.
      + apply cons_snap_full; [exact C1|]. simpl. apply load_is_replay. assumption.
      + split; [exists []; simpl; rewrite app_nil_r; reflexivity|exact I].
  Qed.

  (** ** C08, first clause: after every cut of every operation everything loads, and what loads is the
      replay of the surviving log *)
  Lemma crash_wf s : wf s -> wf (crash s).
  Proof. intros W. unfold wf. simpl. apply (sstep_consistent S Ev init apply (s_log s) ORestart). exact W. Qed.

  Lemma restart_wf s : wf s -> wf (restart s).
  Proof. intros W. unfold wf. simpl. apply (sstep_consistent S Ev init apply (s_log s) ORestart). exact W. Qed.

  Theorem every_prefix_loads : forall s o n, wf s ->
    exists s', run_cut n (steps_of s o) s = Some s' /\ wf (crash s') /\
      recover S Ev init apply Ob s' = replay (cmds (s_log s')) /\
      extends s s'.
  Proof.
    intros s o n W. destruct (good_run_cut (steps_of s o) n s W (goodl_steps_of s o W)) as [s' [R [W' X]]].
    exists s'. split; [exact R|]. split; [apply crash_wf; exact W'|]. split; [|exact X].
    unfold recover. rewrite (load_is_replay S Ev init apply _ (crash_wf s' W')). reflexivity.
  Qed.

  Theorem every_failed_write_loads : forall s o n, wf s ->
    exists s', fail_at n (steps_of s o) s = Some s' /\ wf s' /\ load (s_log s') = replay (cmds (s_log s')) /\ extends s s'.
  Proof.
    intros s o n W. destruct (good_fail_at (steps_of s o) n s W (goodl_steps_of s o W)) as [s' [R [W' X]]].
    exists s'. split; [exact R|]. split; [exact W'|]. split; [apply load_is_replay; exact W'|exact X].
  Qed.

  (** ** Histories of operations, crashes, failing writes and restarts never damage the log and never shorten it *)
  Lemma hstep_ok s h : wf s -> exists s', hstep s h = Some s' /\ wf s' /\ extends s s'.
  Proof.
    intros W. destruct h as [o|o n|o n|]; cbn [Crash.hstep].
    - apply good_run_all; [exact W|apply goodl_steps_of; exact W].
    - destruct (good_run_cut (steps_of s o) n s W (goodl_steps_of s o W)) as [s' [R [W' X]]]. rewrite R. simpl.
      exists (restart s'). split; [reflexivity|]. split; [apply restart_wf; exact W'|]. destruct X as [k Hk]. exists k. simpl. exact Hk.
    - apply good_fail_at; [exact W|apply goodl_steps_of; exact W].
    - exists (restart s). split; [reflexivity|]. split; [apply restart_wf; exact W|]. exists []. simpl. rewrite app_nil_r. reflexivity.
  Qed.

  Theorem run_hist_ok : forall hs s, wf s -> exists s', run_hist s hs = Some s' /\ wf s' /\ extends s s'.
  Proof.
    induction hs as [|h hs IH]; intros s W.
    - exists s. split; [reflexivity|split; [exact W|apply extends_refl]].
    - cbn [Crash.run_hist]. destruct (hstep_ok s h W) as [s1 [E [W1 X1]]]. rewrite E.
      destruct (IH s1 W1) as [s2 [R [W2 X2]]]. exists s2. split; [exact R|split; [exact W2|eapply extends_trans; eassumption]].
  Qed.

  (** ** An accepted command in detail *)
  Definition is_task (m : mutation) : bool :=
    match m with MTaskDel _ | MTaskPut _ | MTaskFinish _ => true | _ => false end.

  Lemma is_task_side m : is_task m = true -> is_side m = true.
  Proof. destruct m; simpl; auto; discriminate. Qed.

  Lemma forallb_impl {A} (f g : A -> bool) l : (forall x, f x = true -> g x = true) -> forallb f l = true -> forallb g l = true.
  Proof. intros H. induction l as [|x l IH]; simpl; auto. intros E. apply andb_true_iff in E as [E1 E2]. rewrite (H _ E1). auto. Qed.

  Lemma task_objs s m : is_task m = true -> s_objs (apply_side s m) = s_objs s /\ s_log (apply_side s m) = s_log s.
  Proof. unfold apply_side. destruct m; simpl; try discriminate; auto. Qed.

  Lemma run_tasks_objs ms : forall s, forallb is_task ms = true -> s_objs (run_side ms s) = s_objs s /\ s_log (run_side ms s) = s_log s.
  Proof.
    induction ms as [|m ms IH]; intros s H; simpl; [auto|].
    simpl in H. apply andb_true_iff in H as [H1 H2]. unfold run_side in *. simpl.
    destruct (IH (apply_side s m) H2) as [A B]. destruct (task_objs s m H1) as [C D]. rewrite A, B, C, D. auto.
  Qed.

  Lemma sched_all_tasks ts : forall p, forallb is_task (fst (sched_all p ts)) = true.
  Proof.
    induction ts as [|t ts IH]; intros p; simpl; [reflexivity|].
    destruct (sched_all (t_put p t) ts) as [m2 p2] eqn:E. simpl.
    rewrite forallb_app. specialize (IH (t_put p t)). rewrite E in IH. simpl in IH. rewrite IH.
    destruct (t_mem p t); reflexivity.
  Qed.

  Lemma sched_fin_all_tasks ts : forall p r, forallb is_task (sched_fin_all p r ts) = true.
  Proof.
    induction ts as [|t ts IH]; intros p r; simpl; [reflexivity|].
    rewrite !forallb_app, IH. destruct (t_mem r t), (t_mem p t); reflexivity.
  Qed.

  Lemma t_del_idem l t : t_del (t_del l t) t = t_del l t.
  Proof.
    unfold t_del. induction l as [|y l IH]; simpl; [reflexivity|].
    destruct (task_eqb y t) eqn:E; simpl; [exact IH|rewrite E; simpl; rewrite IH; reflexivity].
  Qed.

  Lemma t_del_notin l t : t_mem l t = false -> t_del l t = l.
  Proof.
    unfold t_mem, t_del. induction l as [|y l IH]; simpl; [reflexivity|]. intros H. apply orb_false_iff in H as [H1 H2].
    rewrite task_eqb_sym in H1. rewrite H1. simpl. rewrite IH by assumption. reflexivity.
  Qed.

  Lemma run_side_app a b s : run_side (a ++ b) s = run_side b (run_side a s).
  Proof. unfold run_side. apply fold_left_app. Qed.

  (** The queue after the writes of [schedule] for a list of tasks. *)
  Lemma run_sched_all ts : forall p s, s_pend s = p ->
    s_pend (run_side (fst (sched_all p ts)) s) = snd (sched_all p ts) /\ s_run (run_side (fst (sched_all p ts)) s) = s_run s.
  Proof.
    induction ts as [|t ts IH]; intros p s Hp; simpl; [auto|].
    destruct (sched_all (t_put p t) ts) as [m2 p2] eqn:E. simpl. rewrite run_side_app.
    specialize (IH (t_put p t)). rewrite E in IH. simpl in IH.
    set (s1 := run_side ((if t_mem p t then [MTaskDel t] else []) ++ [MTaskPut t]) s).
    assert (H1 : s_pend s1 = t_put p t /\ s_run s1 = s_run s).
    { unfold s1, run_side, apply_side. destruct (t_mem p t); simpl; rewrite Hp; [|auto].
      unfold t_put. rewrite t_del_idem. auto. }
    destruct H1 as [H1 H2]. destruct (IH s1 H1) as [A B]. rewrite A, B, H2. auto.
  Qed.

  Lemma sched_all_mem ts : forall p x, t_mem (snd (sched_all p ts)) x = t_mem p x || t_mem ts x.
  Proof.
    induction ts as [|t ts IH]; intros p x; [simpl; rewrite orb_false_r; reflexivity|].
    cbn [Crash.sched_all Crash.sched1]. destruct (sched_all (t_put p t) ts) as [m2 p2] eqn:E. cbn [snd].
    specialize (IH (t_put p t) x). rewrite E in IH. cbn [snd] in IH. rewrite IH, t_mem_put.
    change (t_mem (t :: ts) x) with (task_eqb x t || t_mem ts x).
    destruct (task_eqb x t), (t_mem p x); reflexivity.
  Qed.

  Lemma run_sched_fin_all ts : forall p r s, s_pend s = p -> s_run s = r ->
    (forall x, t_mem (s_pend (run_side (sched_fin_all p r ts) s)) x = t_mem p x || t_mem ts x) /\
    (forall x, t_mem (s_run (run_side (sched_fin_all p r ts) s)) x = t_mem r x && negb (t_mem ts x)).
  Proof.
    induction ts as [|t ts IH]; intros p r s Hp Hr; simpl.
    - rewrite Hp, Hr. split; intros x; [rewrite orb_false_r|rewrite andb_true_r]; reflexivity.
    - rewrite run_side_app.
      set (s1 := run_side ((if t_mem r t then [MTaskFinish t] else []) ++ (if t_mem p t then [MTaskDel t] else []) ++ [MTaskPut t]) s).
      assert (H1 : s_pend s1 = t_put p t /\ s_run s1 = t_del r t).
      { unfold s1, run_side, apply_side. destruct (t_mem r t) eqn:Er, (t_mem p t) eqn:Ep; simpl; rewrite ?Hp, ?Hr; unfold t_put; rewrite ?t_del_idem; split; try reflexivity.
        - symmetry. apply t_del_notin. exact Er.
        - symmetry. apply t_del_notin. exact Er. }
      destruct H1 as [H1 H2]. destruct (IH (t_put p t) (t_del r t) s1 H1 H2) as [A B]. split; intros x.
      + rewrite A, t_mem_put. destruct (task_eqb x t), (t_mem p x); reflexivity.
      + rewrite B, t_mem_del. destruct (task_eqb x t), (t_mem r x), (t_mem ts x); reflexivity.
  Qed.

  (** Names outside the scheduled ones are not touched by any prefix of the side effects. *)
  Definition names_in (ts : list task) (m : mutation) : bool :=
    match m with MTaskDel u | MTaskPut u => t_mem ts u | MObjs _ => true | _ => false end.

  Lemma sched_all_names ts' ts : (forall u, t_mem ts u = true -> t_mem ts' u = true) ->
    forall p, forallb (names_in ts') (fst (sched_all p ts)) = true.
  Proof.
    induction ts as [|t ts IH]; intros H p; simpl; [reflexivity|].
    destruct (sched_all (t_put p t) ts) as [m2 p2] eqn:E. simpl. rewrite forallb_app.
    assert (Ht : t_mem ts' t = true). { apply H. simpl. rewrite task_eqb_refl. reflexivity. }
    assert (H' : forall u, t_mem ts u = true -> t_mem ts' u = true). { intros u Hu. apply H. simpl. rewrite Hu. apply orb_true_r. }
    specialize (IH H' (t_put p t)). rewrite E in IH. simpl in IH. rewrite IH.
    destruct (t_mem p t); simpl; rewrite Ht; reflexivity.
  Qed.

  Lemma names_untouched ts ms : forall s, forallb (names_in ts) ms = true ->
    s_run (run_side ms s) = s_run s /\ s_log (run_side ms s) = s_log s /\
    forall x, t_mem ts x = false -> t_mem (s_pend (run_side ms s)) x = t_mem (s_pend s) x.
  Proof.
    induction ms as [|m ms IH]; intros s H; [simpl; auto|].
    cbn [forallb] in H. apply andb_true_iff in H as [H1 H2].
    change (run_side (m :: ms) s) with (run_side ms (apply_side s m)).
    destruct (IH (apply_side s m) H2) as [A [B C]]. rewrite A, B.
    assert (K : s_run (apply_side s m) = s_run s /\ s_log (apply_side s m) = s_log s /\
                forall x, t_mem ts x = false -> t_mem (s_pend (apply_side s m)) x = t_mem (s_pend s) x).
    { unfold apply_side. destruct m; cbn [names_in] in H1; try discriminate;
        cbn [Crash.apply_mut Crash.with_queue Crash.s_run Crash.s_log Crash.s_pend]; (split; [reflexivity|split; [reflexivity|]]); intros x Hx.
      - reflexivity.
      - rewrite t_mem_del. destruct (task_eqb x t) eqn:E; [apply task_eqb_eq in E; subst x; rewrite H1 in Hx; discriminate|apply andb_true_r].
      - rewrite t_mem_put. destruct (task_eqb x t) eqn:E; [apply task_eqb_eq in E; subst x; rewrite H1 in Hx; discriminate|reflexivity]. }
    destruct K as [K1 [K2 K3]]. split; [exact K1|]. split; [exact K2|]. intros x Hx. rewrite C by assumption. apply K3. assumption.
  Qed.

  Lemma side_objs s o' evs n : s_objs (run_side (firstn n (side_effects s o' evs)) s) = match n with O => s_objs s | _ => o' end.
  Proof.
    destruct n as [|n]; [reflexivity|]. unfold Crash.side_effects. simpl firstn. unfold run_side. simpl fold_left.
    fold (run_side (firstn n (fst (sched_all (s_pend s) (pre_tasks evs)))) (apply_side s (MObjs o'))).
    destruct (run_tasks_objs (firstn n (fst (sched_all (s_pend s) (pre_tasks evs)))) (apply_side s (MObjs o'))) as [A _].
    - apply firstn_forallb. apply sched_all_tasks.
    - rewrite A. reflexivity.
  Qed.

  Lemma cmd_index_len s o' evs : cmd_index s evs = length (side_effects s o' evs).
  Proof. reflexivity. Qed.

  (** A cut before the command store, and a failing write up to and including the command store, leave
      exactly the first n side effects - and nothing else. *)
  Lemma cut_before_store s evs o' n : listen (s_objs s) evs = Some o' -> (n <= cmd_index s evs)%nat ->
    run_cut n (steps_of s (OCommand evs)) s = Some (run_side (firstn n (side_effects s o' evs)) s).
  Proof.
    intros L Hn. cbn [Crash.steps_of]. rewrite L. rewrite run_cut_side_app by apply side_effects_side.
    rewrite (cmd_index_len s o' evs) in Hn. destruct (n <? length (side_effects s o' evs))%nat eqn:E; [reflexivity|].
    apply Nat.ltb_ge in E. assert (n = length (side_effects s o' evs)) by lia. subst n.
    rewrite Nat.sub_diag, firstn_all. reflexivity.
  Qed.

  Lemma fail_before_store s evs o' n : listen (s_objs s) evs = Some o' -> (n <= cmd_index s evs)%nat ->
    fail_at n (steps_of s (OCommand evs)) s = Some (run_side (firstn n (side_effects s o' evs)) s).
  Proof.
    intros L Hn. cbn [Crash.steps_of]. rewrite L. rewrite fail_at_side_app by apply side_effects_side.
    rewrite (cmd_index_len s o' evs) in Hn. destruct (n <? length (side_effects s o' evs))%nat eqn:E; [reflexivity|].
    apply Nat.ltb_ge in E. assert (n = length (side_effects s o' evs)) by lia. subst n.
    rewrite Nat.sub_diag, firstn_all. reflexivity.
  Qed.

  (** C08: one failing write before or at the command store: the command is in no log and in no cache (the
      whole stored aggregate - commands, snapshot, cache - is as before, so every reader sees the old state);
      what may remain is exactly the first n of: the listener's write of the published-object store, then the
      deletes/stores of the tasks the events schedule. Tasks of other names and running tasks are untouched. *)
  Theorem failed_write_invisible : forall s evs o' n, wf s -> listen (s_objs s) evs = Some o' -> (n <= cmd_index s evs)%nat ->
    exists s', fail_at n (steps_of s (OCommand evs)) s = Some s' /\
      s' = run_side (firstn n (side_effects s o' evs)) s /\
      s_log s' = s_log s /\ load (s_log s') = load (s_log s) /\
      s_objs s' = match n with O => s_objs s | _ => o' end /\
      s_run s' = s_run s /\
      (forall t, t_mem (pre_tasks evs) t = false -> t_mem (s_pend s') t = t_mem (s_pend s) t).
  Proof.
    intros s evs o' n W L Hn. exists (run_side (firstn n (side_effects s o' evs)) s).
    split; [apply fail_before_store; assumption|]. split; [reflexivity|].
    assert (Hnames : forallb (names_in (pre_tasks evs)) (firstn n (side_effects s o' evs)) = true).
    { apply firstn_forallb. unfold Crash.side_effects. simpl. apply sched_all_names. auto. }
    destruct (names_untouched (pre_tasks evs) _ s Hnames) as [A [B C]].
    split; [exact B|]. split; [rewrite B; reflexivity|]. split; [apply side_objs|]. split; [exact A|exact C].
  Qed.

  (** The same state is what a crash right before mutation n leaves on disk. *)
  Theorem cut_equals_failed_write : forall s evs o' n, listen (s_objs s) evs = Some o' -> (n <= cmd_index s evs)%nat ->
    run_cut n (steps_of s (OCommand evs)) s = fail_at n (steps_of s (OCommand evs)) s.
  Proof. intros. rewrite (cut_before_store s evs o' n), (fail_before_store s evs o' n); auto. Qed.

  (** The completed command. *)
  Lemma run_all_side_cache ms a : forall s, forallb is_side ms = true ->
    run_all (map (Mut S Ev Ob false) ms ++ [CacheSet S Ev Ob a]) s = Some (set_cache S Ev Ob (run_side ms s) a).
  Proof.
    intros s H. unfold Crash.run_all. rewrite run_cut_side_app by assumption.
    rewrite app_length, map_length. simpl length.
    replace (length ms + 1 <? length ms)%nat with false by (symmetry; apply Nat.ltb_ge; lia).
    replace (length ms + 1 - length ms)%nat with 1%nat by lia. reflexivity.
  Qed.

  Lemma run_all_side_app b ms rest s : forallb is_side ms = true ->
    run_all (map (Mut S Ev Ob b) ms ++ rest) s = run_all rest (run_side ms s).
  Proof.
    intros H. unfold Crash.run_all. rewrite run_cut_side_app by assumption. rewrite app_length, map_length.
    replace (length ms + length rest <? length ms)%nat with false by (symmetry; apply Nat.ltb_ge; lia).
    replace (length ms + length rest - length ms)%nat with (length rest) by lia. reflexivity.
  Qed.

  Lemma complete_command s evs o' : wf s -> listen (s_objs s) evs = Some o' ->
    exists s1, complete (OCommand evs) s = Some s1 /\
      cmds (s_log s1) = cmds (s_log s) ++ [SEvents evs] /\ snap S Ev (s_log s1) = snap S Ev (s_log s) /\
      cache S Ev (s_log s1) = Some (replay (cmds (s_log s) ++ [SEvents evs])) /\
      s_objs s1 = o' /\
      (forall x, t_mem (s_pend s1) x = t_mem (s_pend s) x || t_mem (pre_tasks evs) x || t_mem (post_tasks evs) x) /\
      (forall x, t_mem (s_run s1) x = t_mem (s_run s) x && negb (t_mem (post_tasks evs) x)).
  Proof.
    intros W L. unfold Crash.complete. cbn [Crash.steps_of]. rewrite L.
    set (side := side_effects s o' evs).
    set (post := sched_fin_all (snd (sched_all (s_pend s) (pre_tasks evs))) (s_run s) (post_tasks evs)).
    set (a' := apply_stored S Ev apply (load (s_log s)) (SEvents evs)).
    rewrite run_all_side_app by apply side_effects_side.
    set (s0 := run_side side s).
    assert (S0 : s_objs s0 = o' /\ s_log s0 = s_log s /\ s_pend s0 = snd (sched_all (s_pend s) (pre_tasks evs)) /\ s_run s0 = s_run s).
    { unfold s0, side, Crash.side_effects, run_side. simpl fold_left.
      fold (run_side (fst (sched_all (s_pend s) (pre_tasks evs))) (apply_side s (MObjs o'))).
      destruct (run_tasks_objs (fst (sched_all (s_pend s) (pre_tasks evs))) (apply_side s (MObjs o')) (sched_all_tasks _ _)) as [A B].
      destruct (run_sched_all (pre_tasks evs) (s_pend s) (apply_side s (MObjs o')) eq_refl) as [C D].
      rewrite A, B, C, D. auto. }
    destruct S0 as [O0 [L0 [P0 R0]]].
    unfold Crash.run_all. cbn [app length Crash.run_cut]. unfold Crash.apply_mut. rewrite L0.
    rewrite (load_ver (s_log s) W), N.eqb_refl.
    set (s1 := with_log S Ev Ob s0 (mkStore S Ev (cmds (s_log s) ++ [SEvents evs]) (snap S Ev (s_log s)) (cache S Ev (s_log s)))).
    fold (Crash.run_all S Ev Ob (map (Mut S Ev Ob false) post ++ [CacheSet S Ev Ob a']) s1).
    assert (RA : run_all (map (Mut S Ev Ob false) post ++ [CacheSet S Ev Ob a']) s1 = Some (set_cache S Ev Ob (run_side post s1) a')).
    { apply run_all_side_cache. apply sched_fin_all_side. }
    rewrite RA. eexists. split; [reflexivity|].
    destruct (run_tasks_objs post s1 (sched_fin_all_tasks _ _ _)) as [A B].
    destruct (run_sched_fin_all (post_tasks evs) (snd (sched_all (s_pend s) (pre_tasks evs))) (s_run s) s1 P0 R0) as [C D].
    fold post in C, D. simpl. rewrite B. simpl. split; [reflexivity|]. split; [reflexivity|]. split.
    - unfold a'. rewrite (load_is_replay S Ev init apply (s_log s) W). rewrite <- replay_snoc. reflexivity.
    - split; [rewrite A; exact O0|]. split; intros x.
      + rewrite C, sched_all_mem. reflexivity.
      + apply D.
  Qed.

  (** C08: an acknowledged command is never lost: whatever operations, crashes at any mutation, failing
      writes and restarts follow, it stays at its place in the log, and recovery replays that log. *)
  Theorem ack_never_lost : forall s evs s1 hs, wf s -> listen (s_objs s) evs <> None ->
    complete (OCommand evs) s = Some s1 ->
    exists sN, run_hist s1 hs = Some sN /\
      nth_error (cmds (s_log sN)) (length (cmds (s_log s))) = Some (SEvents evs) /\
      recover S Ev init apply Ob sN = replay (cmds (s_log sN)).
  Proof.
    intros s evs s1 hs W L C. destruct (listen (s_objs s) evs) as [o'|] eqn:E; [|congruence].
    destruct (complete_command s evs o' W E) as [s1' [C' [H1 _]]]. rewrite C in C'. inv C'.
    assert (W1 : wf s1').
    { destruct (good_run_all (steps_of s (OCommand evs)) s W (goodl_steps_of s _ W)) as [s2 [R [W2 _]]].
      unfold Crash.complete in C. rewrite C in R. inv R. exact W2. }
    destruct (run_hist_ok hs s1' W1) as [sN [R [WN [k Hk]]]]. exists sN. split; [exact R|]. split.
    - rewrite Hk, H1, <- app_assoc. rewrite nth_error_app2 by lia. rewrite Nat.sub_diag. reflexivity.
    - unfold recover. rewrite (load_is_replay S Ev init apply _ (crash_wf sN WN)). reflexivity.
  Qed.

  Definition names_in_fin (ts : list task) (m : mutation) : bool :=
    match m with MTaskDel u | MTaskPut u | MTaskFinish u => t_mem ts u | _ => false end.

  Lemma sched_fin_all_names ts' ts : (forall u, t_mem ts u = true -> t_mem ts' u = true) ->
    forall p r, forallb (names_in_fin ts') (sched_fin_all p r ts) = true.
  Proof.
    induction ts as [|t ts IH]; intros H p r; simpl; [reflexivity|].
    assert (Ht : t_mem ts' t = true). { apply H. simpl. rewrite task_eqb_refl. reflexivity. }
    assert (H' : forall u, t_mem ts u = true -> t_mem ts' u = true). { intros u Hu. apply H. simpl. rewrite Hu. apply orb_true_r. }
    rewrite !forallb_app, (IH H'). destruct (t_mem r t), (t_mem p t); simpl; rewrite ?Ht; reflexivity.
  Qed.

  Lemma pend_untouched_fin ts ms : forall s, forallb (names_in_fin ts) ms = true ->
    forall x, t_mem ts x = false -> t_mem (s_pend (run_side ms s)) x = t_mem (s_pend s) x.
  Proof.
    induction ms as [|m ms IH]; intros s H; [simpl; auto|].
    cbn [forallb] in H. apply andb_true_iff in H as [H1 H2].
    change (run_side (m :: ms) s) with (run_side ms (apply_side s m)).
    intros x Hx. rewrite (IH (apply_side s m) H2 x Hx).
    unfold apply_side. destruct m; cbn [names_in_fin] in H1; try discriminate;
      cbn [Crash.apply_mut Crash.with_queue Crash.s_pend].
    - rewrite t_mem_del. destruct (task_eqb x t) eqn:E; [apply task_eqb_eq in E; subst x; rewrite H1 in Hx; discriminate|apply andb_true_r].
    - rewrite t_mem_put. destruct (task_eqb x t) eqn:E; [apply task_eqb_eq in E; subst x; rewrite H1 in Hx; discriminate|reflexivity].
    - reflexivity.
  Qed.

  (** ** Cuts and failing writes after the command store *)
  Lemma cut_after_store s evs o' n s' : wf s -> listen (s_objs s) evs = Some o' -> (cmd_index s evs < n)%nat ->
    run_cut n (steps_of s (OCommand evs)) s = Some s' ->
    cmds (s_log s') = cmds (s_log s) ++ [SEvents evs] /\ snap S Ev (s_log s') = snap S Ev (s_log s) /\ s_objs s' = o' /\
    (forall t, t_mem (pre_tasks evs) t = true -> t_mem (post_tasks evs) t = false -> t_mem (s_pend s') t = true).
  Proof.
    intros W L Hn. rewrite (cmd_index_len s o' evs) in Hn. cbn [Crash.steps_of]. rewrite L.
    set (side := side_effects s o' evs) in *.
    set (post := sched_fin_all (snd (sched_all (s_pend s) (pre_tasks evs))) (s_run s) (post_tasks evs)).
    set (a' := apply_stored S Ev apply (load (s_log s)) (SEvents evs)).
    rewrite run_cut_side_app by apply side_effects_side. fold side.
    replace (n <? length side)%nat with false by (symmetry; apply Nat.ltb_ge; lia).
    destruct (n - length side)%nat as [|m] eqn:En; [lia|].
    set (s0 := run_side side s).
    assert (S0 : s_objs s0 = o' /\ s_log s0 = s_log s /\ s_pend s0 = snd (sched_all (s_pend s) (pre_tasks evs)) /\ s_run s0 = s_run s).
    { unfold s0, side, Crash.side_effects, run_side. simpl fold_left.
      fold (run_side (fst (sched_all (s_pend s) (pre_tasks evs))) (apply_side s (MObjs o'))).
      destruct (run_tasks_objs (fst (sched_all (s_pend s) (pre_tasks evs))) (apply_side s (MObjs o')) (sched_all_tasks _ _)) as [A B].
      destruct (run_sched_all (pre_tasks evs) (s_pend s) (apply_side s (MObjs o')) eq_refl) as [C D].
      rewrite A, B, C, D. auto. }
    destruct S0 as [O0 [L0 [P0 R0]]].
    cbn [app Crash.run_cut]. unfold Crash.apply_mut. rewrite L0. rewrite (load_ver (s_log s) W), N.eqb_refl.
    set (s1 := with_log S Ev Ob s0 (mkStore S Ev (cmds (s_log s) ++ [SEvents evs]) (snap S Ev (s_log s)) (cache S Ev (s_log s)))).
    rewrite run_cut_side_app by apply sched_fin_all_side.
    assert (Hnames : forall k, forallb (names_in_fin (post_tasks evs)) (firstn k post) = true).
    { intros k. apply firstn_forallb. apply sched_fin_all_names. auto. }
    assert (Pend1 : forall t, t_mem (pre_tasks evs) t = true -> t_mem (s_pend s1) t = true).
    { intros t Ht. unfold s1. simpl. rewrite P0, sched_all_mem, Ht. apply orb_true_r. }
    destruct (m <? length post)%nat eqn:Em.
    - intros E. injection E as E. subst s'. destruct (run_tasks_objs (firstn m post) s1 (firstn_forallb _ _ _ (sched_fin_all_tasks _ _ _))) as [A B].
      rewrite B, A. simpl. split; [reflexivity|]. split; [reflexivity|]. split; [exact O0|].
      intros t Ht Hp. rewrite (pend_untouched_fin (post_tasks evs) (firstn m post) s1 (Hnames m)) by assumption. apply Pend1. assumption.
    - assert (Hall : forallb (names_in_fin (post_tasks evs)) post = true). { rewrite <- (firstn_all post). apply Hnames. }
      destruct (m - length post)%nat; cbn [Crash.run_cut]; intros E; injection E as E; subst s';
        destruct (run_tasks_objs post s1 (sched_fin_all_tasks _ _ _)) as [A B]; simpl; rewrite B, A; simpl;
        (split; [reflexivity|]; split; [reflexivity|]; split; [exact O0|]);
        intros t Ht Hp; rewrite (pend_untouched_fin (post_tasks evs) post s1 Hall) by assumption; apply Pend1; assumption.
  Qed.

  Lemma fail_besteffort_cache ms a : forall m s1, forallb is_task ms = true ->
    exists s2, fail_at m (map (Mut S Ev Ob false) ms ++ [CacheSet S Ev Ob a]) s1 = Some s2 /\
      s_log s2 = with_cache (s_log s1) a /\ s_objs s2 = s_objs s1.
  Proof.
    induction ms as [|x ms IH]; intros m s1 H.
    - exists (set_cache S Ev Ob s1 a). simpl. auto.
    - cbn [forallb] in H. apply andb_true_iff in H as [H1 H2]. cbn [map app]. destruct m as [|m].
      + cbn [Crash.fail_at]. rewrite run_all_side_cache by (apply (forallb_impl is_task); [apply is_task_side|assumption]).
        eexists. split; [reflexivity|]. destruct (run_tasks_objs ms s1 H2) as [A B]. simpl. rewrite B, A. auto.
      + cbn [Crash.fail_at]. rewrite (side_some s1 x (is_task_side x H1)).
        destruct (IH m (apply_side s1 x) H2) as [s2 [E [A B]]]. exists s2. split; [exact E|].
        destruct (task_objs s1 x H1) as [C D]. rewrite A, B, C, D. auto.
  Qed.

  (** C08: with one failing write the log and the in-memory state move together: either the whole stored
      aggregate is as before, or the command is stored AND cached (the failing write was a best-effort
      post-save task write). *)
  Theorem failed_write_log_and_cache_atomic : forall s evs o' n s', wf s -> listen (s_objs s) evs = Some o' ->
    fail_at n (steps_of s (OCommand evs)) s = Some s' ->
    s_log s' = s_log s
    \/ (cmds (s_log s') = cmds (s_log s) ++ [SEvents evs] /\
        cache S Ev (s_log s') = Some (replay (cmds (s_log s) ++ [SEvents evs])) /\ s_objs s' = o').
  Proof.
    intros s evs o' n s' W L F. destruct (le_lt_dec n (cmd_index s evs)) as [Hn|Hn].
    - left. destruct (failed_write_invisible s evs o' n W L Hn) as [s2 [E [_ [B _]]]]. rewrite F in E. inv E. exact B.
    - right. rewrite (cmd_index_len s o' evs) in Hn. revert F. cbn [Crash.steps_of]. rewrite L.
      set (side := side_effects s o' evs) in *.
      set (post := sched_fin_all (snd (sched_all (s_pend s) (pre_tasks evs))) (s_run s) (post_tasks evs)).
      set (a' := apply_stored S Ev apply (load (s_log s)) (SEvents evs)).
      rewrite fail_at_side_app by apply side_effects_side. fold side.
      replace (n <? length side)%nat with false by (symmetry; apply Nat.ltb_ge; lia).
      destruct (n - length side)%nat as [|m] eqn:En; [lia|].
      set (s0 := run_side side s).
      assert (S0 : s_objs s0 = o' /\ s_log s0 = s_log s).
      { unfold s0, side, Crash.side_effects, run_side. simpl fold_left.
        fold (run_side (fst (sched_all (s_pend s) (pre_tasks evs))) (apply_side s (MObjs o'))).
        destruct (run_tasks_objs (fst (sched_all (s_pend s) (pre_tasks evs))) (apply_side s (MObjs o')) (sched_all_tasks _ _)) as [A B].
        rewrite A, B. auto. }
      destruct S0 as [O0 L0].
      cbn [app Crash.fail_at]. unfold Crash.apply_mut. rewrite L0. rewrite (load_ver (s_log s) W), N.eqb_refl.
      set (s1 := with_log S Ev Ob s0 (mkStore S Ev (cmds (s_log s) ++ [SEvents evs]) (snap S Ev (s_log s)) (cache S Ev (s_log s)))).
      destruct (fail_besteffort_cache post a' m s1 (sched_fin_all_tasks _ _ _)) as [s2 [E [A B]]].
      rewrite E. intros F. injection F as F. subst s'. rewrite A, B. simpl. split; [reflexivity|]. split; [|exact O0].
      unfold a'. rewrite (load_is_replay S Ev init apply (s_log s) W). rewrite <- replay_snoc. reflexivity.
  Qed.

  (** ** The atomicity clause outside the known window *)
  Definition Known (s : sys) (evs : list Ev) (n : nat) : Prop := (1 <= n <= cmd_index s evs)%nat.

  Theorem atomic_alike_except_known : forall s evs o' n s', wf s -> listen (s_objs s) evs = Some o' ->
    run_cut n (steps_of s (OCommand evs)) s = Some s' -> ~ Known s evs n ->
    (cmds (s_log (crash s')) = cmds (s_log s) /\ s_objs s' = s_objs s /\ s_pend s' = s_pend s)
    \/ (cmds (s_log (crash s')) = cmds (s_log s) ++ [SEvents evs] /\ s_objs s' = o').
  Proof.
    intros s evs o' n s' W L R K. unfold Known in K. destruct n as [|n].
    - left. rewrite (cut_before_store s evs o' 0 L) in R by lia. inv R. auto.
    - right. assert (Hn : (cmd_index s evs < Datatypes.S n)%nat) by lia.
      destruct (cut_after_store s evs o' _ s' W L Hn R) as [A [_ [B _]]]. simpl. auto.
  Qed.

  (** The strongest statement that holds at EVERY cut: the audit log (commands and snapshot) is all-or-nothing
      and a surviving process' cache is untouched before the command store; the published-object store and the
      task queue may be ahead of the log by exactly the interrupted command - the listener's output for it and
      entries for the tasks its events schedule, nothing else. *)
  Theorem log_all_or_nothing_objects_may_lead : forall s evs o' n s', wf s -> listen (s_objs s) evs = Some o' ->
    run_cut n (steps_of s (OCommand evs)) s = Some s' ->
    ((n <= cmd_index s evs)%nat /\ s_log s' = s_log s /\ s_objs s' = match n with O => s_objs s | _ => o' end /\
       s_run s' = s_run s /\ (forall t, t_mem (pre_tasks evs) t = false -> t_mem (s_pend s') t = t_mem (s_pend s) t))
    \/ ((cmd_index s evs < n)%nat /\ cmds (s_log s') = cmds (s_log s) ++ [SEvents evs] /\
        snap S Ev (s_log s') = snap S Ev (s_log s) /\ s_objs s' = o' /\
        (forall t, t_mem (pre_tasks evs) t = true -> t_mem (post_tasks evs) t = false -> t_mem (s_pend s') t = true)).
  Proof.
    intros s evs o' n s' W L R. destruct (le_lt_dec n (cmd_index s evs)) as [Hn|Hn].
    - left. split; [exact Hn|]. rewrite (cut_equals_failed_write s evs o' n L Hn) in R.
      destruct (failed_write_invisible s evs o' n W L Hn) as [s2 [E [_ [B [_ [C [D F]]]]]]]. rewrite R in E. inv E. auto.
    - right. split; [exact Hn|]. apply (cut_after_store s evs o' n s' W L Hn R).
  Qed.

  (** ** Resubmission *)
  Variable V : Type.
  Variable obs : Ob -> V.                     (* the observable content of the published-object store *)

  Theorem converges_after_resubmit : forall s evs o' o2 n s' sr,
    wf s -> listen (s_objs s) evs = Some o' ->
    (* the listener accepts the same events on its own output, with the same observable content *)
    listen o' evs = Some o2 -> obs o2 = obs o' ->
    (n <= cmd_index s evs)%nat ->
    (run_cut n (steps_of s (OCommand evs)) s = Some s' \/ fail_at n (steps_of s (OCommand evs)) s = Some s') ->
    (sr = s' \/ sr = crash s') ->
    exists s2 twin, resubmit S Ev init apply Ob listen pre_tasks post_tasks (OCommand evs) sr = Some s2 /\
      complete (OCommand evs) s = Some twin /\
      cmds (s_log s2) = cmds (s_log twin) /\ snap S Ev (s_log s2) = snap S Ev (s_log twin) /\
      cache S Ev (s_log s2) = cache S Ev (s_log twin) /\
      obs (s_objs s2) = obs (s_objs twin) /\
      tset_eq (s_pend s2) (s_pend twin) /\ tset_eq (s_run s2) (s_run twin).
  Proof.
    intros s evs o' o2 n s' sr W L L2 Hobs Hn Hcut Hsr.
    assert (E' : s' = run_side (firstn n (side_effects s o' evs)) s).
    { destruct Hcut as [R|R]; [rewrite (cut_before_store s evs o' n L Hn) in R|rewrite (fail_before_store s evs o' n L Hn) in R]; inv R; reflexivity. }
    destruct (failed_write_invisible s evs o' n W L Hn) as [s2' [_ [E2 [B [_ [C [D F]]]]]]]. rewrite <- E' in E2. subst s2'.
    assert (Wsr : wf sr /\ cmds (s_log sr) = cmds (s_log s) /\ snap S Ev (s_log sr) = snap S Ev (s_log s)
                  /\ s_objs sr = s_objs s' /\ s_pend sr = s_pend s' /\ s_run sr = s_run s').
    { destruct Hsr as [->| ->].
      - split; [unfold wf; rewrite B; exact W|]. rewrite B. repeat split; reflexivity.
      - split; [apply crash_wf; unfold wf; rewrite B; exact W|]. simpl. rewrite B. repeat split; reflexivity. }
    destruct Wsr as [Wsr [Cs [Ss [Os [Ps Rs]]]]].
    assert (Lsr : exists oR, listen (s_objs sr) evs = Some oR /\ obs oR = obs o').
    { rewrite Os, C. destruct n; [exists o'; auto|exists o2; auto]. }
    destruct Lsr as [oR [Lsr HoR]].
    destruct (complete_command sr evs oR Wsr Lsr) as [s2 [C2 [H1 [H2 [H3 [H4 [H5 H6]]]]]]].
    destruct (complete_command s evs o' W L) as [tw [Ct [T1 [T2 [T3 [T4 [T5 T6]]]]]]].
    exists s2, tw. split; [exact C2|]. split; [exact Ct|].
    split; [rewrite H1, T1, Cs; reflexivity|]. split; [rewrite H2, T2, Ss; reflexivity|].
    split; [rewrite H3, T3, Cs; reflexivity|]. split; [rewrite H4, T4; exact HoR|]. split.
    - intros t. rewrite H5, T5, Ps. destruct (t_mem (pre_tasks evs) t) eqn:Et; [rewrite !orb_true_r; reflexivity|].
      rewrite (F t Et). reflexivity.
    - intros t. rewrite H6, T6, Rs, D. reflexivity.
  Qed.
End CrashProofs.

(** * The CA instance: events, [apply] and the pre-save listener of ca/Ca.v *)
Definition ca_state : Type := option ca.
Definition ca_apply (s : ca_state) (e : event) : ca_state := match s with Some c => Ca.apply c e | None => None end.
Definition ca_listen (env : env) (cn : N -> N) (o : objects) (evs : list event) : option objects :=
  match listener env cn o evs with Ok o' => Some o' | Err => None end.
(** mq.rs:441-560 schedule_for_ca_event / 597-628 post-save, for the modelled events of CA [me]. *)
Definition ca_pre (me : N) (evs : list event) : list task :=
  flat_map (fun e => match e with
    | EObjectsUpdated _ _ _ _ | EChildCertsUpdated _ _ _ _ _ | EChildKeyRevoked _ _ _
    | EPendingToNew _ _ | EPendingToActive _ _ | ERollFinished _ | EParentRemoved _ | EClassRemoved _ => [(SYNC_REPO, me)]
    | ERollActivated _ => [(SYNC_PARENT, me); (SYNC_REPO, me)]
    | ECertRequested _ _ | EParentAdded _ => [(SYNC_PARENT, me)]
    | _ => []
    end) evs.
Definition ca_post (evs : list event) : list task :=
  flat_map (fun e => match e with EChildKeyRevoked h _ _ | EChildUpdated h => [(SYNC_PARENT, h)] | _ => [] end) evs.

Definition names_of (o : objects) : list (N * list N) := map (fun '(c, k) => (c, map fst (s_pub (ok_current k)))) o.

Module Witness.
  Definition env0 := mkEnv 1000%Z 0%Z 90000%Z.
  Definition cn (k : N) : N := k + 1000.
  (** CA 2 ("b") with one class under an active key 1; nothing published yet. *)
  Definition ca0 : ca :=
    mkCA [(0, mkRC 1 0 (KActive (mkCK 1 (mkCert 1 15 50) false)) [] [] [] [] [])] [1] [] 1.
  Definition objs0 : objects := [(0, OCur (os_create 1 90000%Z))].
  Definition roa : obj := mkObj 7 100 500000%Z.
  Definition evs : list event := [EObjectsUpdated 0 KRoa [(7, roa)] []].
  Definition s0 : sys ca_state event objects := mkSys ca_state event objects (empty_store ca_state event) objs0 [(SYNC_PARENT, 2)] [].
  Definition steps := steps_of ca_state event (Some ca0) ca_apply objects (ca_listen env0 cn) (ca_pre 2) ca_post s0 (OCommand evs).
  Definition cut n := run_cut ca_state event objects n steps s0.
  Definition objs1 : objects := match ca_listen env0 cn objs0 evs with Some o => o | None => [] end.

  (** Key roll: the class is staged (new key 2 certified), activation is requested. *)
  Definition objs_stg : objects := [(0, OStg (os_create 2 90000%Z) (os_create 1 90000%Z))].
  Definition evs_act : list event := [ERollActivated 0].
  Definition ca_roll : ca :=
    mkCA [(0, mkRC 1 0 (KRollNew (mkCK 2 (mkCert 2 15 51) false) (mkCK 1 (mkCert 1 15 50) false)) [] [] [] [] [])] [1] [] 1.
  Definition s_roll : sys ca_state event objects := mkSys ca_state event objects (empty_store ca_state event) objs_stg [] [].
  (** Parent CA 1 changes the entitlement of its child 2; the child's recurring parent sync is queued. *)
  Definition ca_par : ca := mkCA [(0, mkRC 0 0 (KActive (mkCK 5 (mkCert 5 255 60) false)) [] [] [] [] [])] [0] [(2, mkChild false [] [])] 1.
  Definition evs_child : list event := [EChildUpdated 2].
  Definition s_par : sys ca_state event objects :=
    mkSys ca_state event objects (empty_store ca_state event) [(0, OCur (os_create 5 90000%Z))] [(SYNC_PARENT, 2)] [].
End Witness.

Lemma witness_wf : wf ca_state event (Some Witness.ca0) ca_apply objects Witness.s0.
Proof. unfold wf. simpl. apply empty_consistent. Qed.

(** The trace of the ROA update, as the probe sees it on the real code (listener write, queue write,
    command store): [ShObjects 2; ShTaskPut sync_repo_2; ShCommand 2]. *)
Example witness_trace_shape :
  trace_shape ca_state event (Some Witness.ca0) ca_apply objects (ca_listen Witness.env0 Witness.cn) (ca_pre 2) ca_post 2 Witness.s0 (OCommand Witness.evs)
  = [ShObjects 2; ShTaskPut (SYNC_REPO, 2); ShCommand 2].
Proof. vm_compute. reflexivity. Qed.

(** ** The atomicity clause is refuted: a cut after the listener's writes and before the command store
    leaves the ROA in the published-object store and a SyncRepo task in the queue for a command that is in no log. *)
Example atomic_alike_witness :
  exists s', Witness.cut 2 = Some s' /\
    cmds ca_state event (s_log _ _ _ (crash _ _ _ s')) = [] /\
    names_of (s_objs _ _ _ s') = [(0, [7])] /\ names_of (s_objs _ _ _ Witness.s0) = [(0, [])] /\
    t_mem (s_pend _ _ _ s') (SYNC_REPO, 2) = true /\ t_mem (s_pend _ _ _ Witness.s0) (SYNC_REPO, 2) = false /\
    recover ca_state event (Some Witness.ca0) ca_apply objects s' = initial ca_state (Some Witness.ca0).
Proof. eexists. split; [vm_compute; reflexivity|]. vm_compute. repeat split; reflexivity. Qed.

Theorem atomic_alike_refuted :
  ~ atomic_alike_full ca_state event (Some Witness.ca0) ca_apply objects (ca_listen Witness.env0 Witness.cn) (ca_pre 2) ca_post.
Proof.
  intros H. destruct atomic_alike_witness as [s' [E [C [N1 [N0 _]]]]].
  specialize (H Witness.s0 Witness.evs Witness.objs1 2%nat s' eq_refl E).
  destruct H as [[_ [Ho _]]|[Hc _]].
  - rewrite Ho in N1. rewrite N0 in N1. discriminate N1.
  - rewrite C in Hc. discriminate Hc.
Qed.

(** ** Non-vacuity *)
Example every_prefix_loads_nonvacuous :
  length Witness.steps = 4%nat /\ forall n, (n <= 3)%nat -> exists s', Witness.cut n = Some s'.
Proof.
  split; [vm_compute; reflexivity|]. intros n Hn.
  destruct n as [|[|[|[|n]]]]; try lia; eexists; vm_compute; reflexivity.
Qed.

Example ack_never_lost_nonvacuous :
  exists s1, complete ca_state event (Some Witness.ca0) ca_apply objects (ca_listen Witness.env0 Witness.cn) (ca_pre 2) ca_post (OCommand Witness.evs) Witness.s0 = Some s1
    /\ ca_listen Witness.env0 Witness.cn (s_objs _ _ _ Witness.s0) Witness.evs <> None.
Proof. eexists. split; [vm_compute; reflexivity|]. vm_compute. discriminate. Qed.

Example failed_write_invisible_nonvacuous :
  cmd_index ca_state event objects (ca_pre 2) Witness.s0 Witness.evs = 2%nat /\
  ca_listen Witness.env0 Witness.cn (s_objs _ _ _ Witness.s0) Witness.evs = Some Witness.objs1.
Proof. split; vm_compute; reflexivity. Qed.

(** The listener of ROA / ASPA / router-key updates can be run again on its own output: the published names
    are the same (the object of the interrupted attempt is revoked and replaced). *)
Example converges_after_resubmit_nonvacuous :
  exists o2, ca_listen Witness.env0 Witness.cn Witness.objs1 Witness.evs = Some o2 /\ names_of o2 = names_of Witness.objs1
    /\ (2 <= cmd_index ca_state event objects (ca_pre 2) Witness.s0 Witness.evs)%nat.
Proof. eexists. split; [vm_compute; reflexivity|]. split; [vm_compute; reflexivity|vm_compute; lia]. Qed.

Example atomic_alike_except_known_nonvacuous :
  ~ Known ca_state event objects (ca_pre 2) Witness.s0 Witness.evs 0 /\ ~ Known ca_state event objects (ca_pre 2) Witness.s0 Witness.evs 3
  /\ Known ca_state event objects (ca_pre 2) Witness.s0 Witness.evs 1.
Proof. unfold Known. vm_compute. repeat split; lia. Qed.

(** ** The listener is NOT idempotent for the key life cycle: after a cut between its write and the command
    store of a key-roll activation, the same command can never be stored again - the listener refuses it
    (publishing.rs:720-735 "published resource class in the wrong key state"), so the operation has no steps. *)
Theorem keyroll_activation_not_resubmittable :
  exists o' s',
    ca_listen Witness.env0 Witness.cn (s_objs _ _ _ Witness.s_roll) Witness.evs_act = Some o' /\
    run_cut ca_state event objects 1
      (steps_of ca_state event (Some Witness.ca_roll) ca_apply objects (ca_listen Witness.env0 Witness.cn) (ca_pre 2) ca_post Witness.s_roll (OCommand Witness.evs_act))
      Witness.s_roll = Some s' /\
    cmds ca_state event (s_log _ _ _ s') = [] /\
    forall sr, sr = s' \/ sr = crash _ _ _ s' ->
      steps_of ca_state event (Some Witness.ca_roll) ca_apply objects (ca_listen Witness.env0 Witness.cn) (ca_pre 2) ca_post sr (OCommand Witness.evs_act) = [].
Proof.
  eexists. eexists. split; [vm_compute; reflexivity|]. split; [vm_compute; reflexivity|]. split; [reflexivity|].
  intros sr [->| ->]; vm_compute; reflexivity.
Qed.

(** ** A failing queue store in the best-effort post-save step loses a recurring task: [schedule] deletes the
    pending entry and then stores the new one (queue.rs:108-155); when that store fails after the command was
    stored, the error is only logged (mq.rs:605-620) - the command is acknowledged, and the child's parent-sync
    task is gone from the queue of the running daemon (it comes back only at the next start). *)
Theorem failed_queue_store_loses_task :
  exists s',
    fail_at ca_state event objects 3
      (steps_of ca_state event (Some Witness.ca_par) ca_apply objects (ca_listen Witness.env0 Witness.cn) (ca_pre 1) ca_post Witness.s_par (OCommand Witness.evs_child))
      Witness.s_par = Some s' /\
    cmds ca_state event (s_log _ _ _ s') = [SEvents Witness.evs_child] /\
    t_mem (s_pend _ _ _ Witness.s_par) (SYNC_PARENT, 2) = true /\
    t_mem (s_pend _ _ _ s') (SYNC_PARENT, 2) = false /\ t_mem (s_run _ _ _ s') (SYNC_PARENT, 2) = false.
Proof. eexists. split; [vm_compute; reflexivity|]. vm_compute. repeat split; reflexivity. Qed.

(** ** The publication server's change-set store: a snapshot followed by the deletion of the sets, cut
    anywhere, loads the same revision (sets below the snapshot are ignored). *)
Lemma wal_catch_up_stop f r sets : existsb (N.eqb r) sets = false -> wal_catch_up f r sets = r.
Proof. intros H. destruct f; simpl; [reflexivity|rewrite H; reflexivity]. Qed.

Lemma wal_dels_subset dels : forall w x, In x (w_sets (wal_run w (map WDel dels))) -> In x (w_sets w).
Proof.
  induction dels as [|d dels IH]; intros w x H; simpl in *; [assumption|].
  apply IH in H. simpl in H. apply filter_In in H. tauto.
Qed.

Lemma wal_dels_snap dels : forall w, w_snap (wal_run w (map WDel dels)) = w_snap w.
Proof. induction dels as [|d dels IH]; intros w; simpl; [reflexivity|]. rewrite IH. reflexivity. Qed.

Lemma wal_after_snap w r dels : ~ In r (w_sets w) -> wal_load (wal_run (mkWal r (w_sets w)) (map WDel dels)) = r.
Proof.
  intros H. unfold wal_load. rewrite wal_dels_snap. cbn [w_snap].
  apply wal_catch_up_stop. apply existsb_false. intros x Hx. apply wal_dels_subset in Hx. cbn [w_sets] in Hx.
  apply N.eqb_neq. intros ->. contradiction.
Qed.

Theorem wal_snapshot_every_prefix_loads : forall w n,
  ~ In (wal_load w) (w_sets w) ->
  wal_load (wal_run w (firstn n (wal_snapshot_trace w))) = wal_load w.
Proof.
  intros w n H. destruct n as [|n]; [reflexivity|].
  unfold wal_snapshot_trace. cbn [firstn]. rewrite firstn_map.
  change (wal_run w (WSnap (wal_load w) :: map WDel (firstn n (w_sets w))))
    with (wal_run (mkWal (wal_load w) (w_sets w)) (map WDel (firstn n (w_sets w)))).
  apply wal_after_snap. exact H.
Qed.


(** ** The snapshot update of the change-set store (wal.rs:399-414) at every cut and with one failing write,
    without side condition: the loaded revision is never the revision of a stored set. *)
Lemma wal_filter_ge_lt r sets : In r sets ->
  (length (filter (fun x => (r + 1 <=? x)%N) sets) < length (filter (fun x => (r <=? x)%N) sets))%nat.
Proof.
  induction sets as [|y l IH]; intros H; [destruct H|].
  assert (Hle : (length (filter (fun x => (r + 1 <=? x)%N) l) <= length (filter (fun x => (r <=? x)%N) l))%nat).
  { clear. induction l as [|z l IH]; simpl; [lia|].
    destruct (r + 1 <=? z) eqn:E1; destruct (r <=? z) eqn:E2; simpl; try lia.
    apply N.leb_le in E1. apply N.leb_gt in E2. lia. }
  simpl. destruct H as [->|H].
  - replace (r + 1 <=? r) with false by (symmetry; apply N.leb_gt; lia).
    rewrite N.leb_refl. simpl. lia.
  - specialize (IH H). destruct (r + 1 <=? y) eqn:E1; destruct (r <=? y) eqn:E2; simpl; try lia.
    apply N.leb_le in E1. apply N.leb_gt in E2. lia.
Qed.

Lemma wal_catch_up_not_in : forall f r sets,
  (length (filter (fun x => (r <=? x)%N) sets) <= f)%nat -> ~ In (wal_catch_up f r sets) sets.
Proof.
  induction f as [|f IH]; intros r sets H; simpl.
  - intros Hin. assert (In r (filter (fun x => (r <=? x)%N) sets)) by (apply filter_In; split; [assumption|apply N.leb_refl]).
    destruct (filter (fun x => (r <=? x)%N) sets); [contradiction|simpl in H; lia].
  - destruct (existsb (N.eqb r) sets) eqn:E.
    + apply IH. apply existsb_exists in E. destruct E as [x [Hx Hr]]. apply N.eqb_eq in Hr. subst x.
      pose proof (wal_filter_ge_lt r sets Hx). lia.
    + intros Hin. rewrite existsb_false in E. specialize (E _ Hin). rewrite N.eqb_refl in E. discriminate.
Qed.

Lemma wal_load_not_in w : ~ In (wal_load w) (w_sets w).
Proof.
  unfold wal_load. apply wal_catch_up_not_in.
  induction (w_sets w) as [|y l IH]; simpl; [lia|]. destruct (w_snap w <=? y); simpl; lia.
Qed.

Theorem wal_snapshot_recovers_at_every_cut : forall w n,
  wal_load (wal_run w (firstn n (wal_snapshot_trace w))) = wal_load w.
Proof. intros w n. apply wal_snapshot_every_prefix_loads. apply wal_load_not_in. Qed.

Lemma wal_fail_at_prefix : forall l n w, wal_fail_at n l w = wal_run w (firstn n l).
Proof.
  induction l as [|m l IH]; intros n w; [destruct n; reflexivity|].
  destruct n as [|n]; [reflexivity|]. simpl. apply IH.
Qed.

Theorem wal_snapshot_failed_write_recovers : forall w n,
  wal_load (wal_fail_at n (wal_snapshot_trace w) w) = wal_load w.
Proof. intros w n. rewrite wal_fail_at_prefix. apply wal_snapshot_recovers_at_every_cut. Qed.

Theorem wal_snapshot_keeps_acknowledged : forall w n,
  wal_keeps_acknowledged w (wal_run w (firstn n (wal_snapshot_trace w))) /\
  wal_keeps_acknowledged w (wal_fail_at n (wal_snapshot_trace w) w).
Proof.
  intros w n. unfold wal_keeps_acknowledged.
  rewrite wal_snapshot_failed_write_recovers, wal_snapshot_recovers_at_every_cut. split; lia.
Qed.

(** catch-up never goes below the snapshot *)
Lemma wal_catch_up_ge f : forall r sets, r <= wal_catch_up f r sets.
Proof. induction f as [|f IH]; intros r sets; simpl; [lia|]. destruct (existsb (N.eqb r) sets); [specialize (IH (r + 1) sets)|]; lia. Qed.

Example wal_snapshot_nonvacuous :
  let w := mkWal 15 [17; 15; 16] in
  wal_load w = 18 /\ wal_snapshot_trace w = [WSnap 18; WDel 17; WDel 15; WDel 16] /\
  map (fun n => wal_load (wal_run w (firstn n (wal_snapshot_trace w)))) [0; 1; 2; 3; 4]%nat = [18; 18; 18; 18; 18].
Proof. vm_compute. repeat split; reflexivity. Qed.

(** The swapped order (change sets removed first): regression witness. *)
Lemma wal_dels_not_in dels : forall w x, In x (w_sets (wal_run w (map WDel dels))) -> ~ In x dels.
Proof.
  induction dels as [|d dels IH]; intros w x H; simpl in *; [tauto|].
  intros [->|Hd]; [|exact (IH _ _ H Hd)].
  apply wal_dels_subset in H. simpl in H. apply filter_In in H. destruct H as [_ H]. rewrite N.eqb_refl in H. discriminate.
Qed.

Theorem wal_swapped_failed_snapshot_write_falls_back : forall w,
  wal_load (wal_fail_at (length (w_sets w)) (wal_snapshot_trace_swapped w) w) = w_snap w.
Proof.
  intros w. rewrite wal_fail_at_prefix. unfold wal_snapshot_trace_swapped.
  rewrite <- (map_length WDel (w_sets w)), firstn_app, firstn_all, Nat.sub_diag. cbn [firstn]. rewrite app_nil_r.
  unfold wal_load. rewrite wal_dels_snap. apply wal_catch_up_stop. apply existsb_false. intros x Hx.
  exfalso. pose proof (wal_dels_not_in _ _ _ Hx) as Hn. apply wal_dels_subset in Hx. contradiction.
Qed.

Theorem wal_swapped_loses_acknowledged : forall w, In (w_snap w) (w_sets w) ->
  ~ wal_keeps_acknowledged w (wal_fail_at (length (w_sets w)) (wal_snapshot_trace_swapped w) w).
Proof.
  intros w H. unfold wal_keeps_acknowledged. rewrite wal_swapped_failed_snapshot_write_falls_back.
  assert (w_snap w + 1 <= wal_load w); [|lia].
  unfold wal_load. destruct (w_sets w) as [|y l] eqn:E; [destruct H|]. cbn [length wal_catch_up].
  replace (existsb (N.eqb (w_snap w)) (y :: l)) with true.
  - apply wal_catch_up_ge.
  - symmetry. apply existsb_exists. exists (w_snap w). split; [assumption|apply N.eqb_refl].
Qed.

Definition wal_snapshot_swapped_recovers : Prop := forall w n,
  wal_load (wal_run w (firstn n (wal_snapshot_trace_swapped w))) = wal_load w.
Theorem wal_snapshot_swapped_refuted : ~ wal_snapshot_swapped_recovers.
Proof. intros H. specialize (H (mkWal 15 [17; 15; 16]) 1%nat). vm_compute in H. discriminate. Qed.

Example wal_swapped_witness :
  let w := mkWal 15 [17; 15; 16] in
  map (fun n => wal_load (wal_run w (firstn n (wal_snapshot_trace_swapped w)))) [0; 1; 2; 3; 4]%nat = [18; 17; 15; 15; 18].
Proof. vm_compute. reflexivity. Qed.

(** ** The record of a rejected command (store.rs:418-424): its failing write leaves log and cache untouched;
    written best effort instead, the cache runs ahead of the log, the next accepted command is written behind a
    gap (the log is damaged) - while the restarted instance would have accepted it. *)
Theorem rejected_record_best_effort_refuted :
  let s0 := mkSys unit unit unit (empty_store unit unit) tt [] [] in
  let cmd := complete unit unit tt (fun s _ => s) unit (fun _ _ => Some tt) (fun _ => []) (fun _ => []) (OCommand [tt]) in
  exists s1,
    fail_at unit unit unit 0 (steps_rejected_best_effort unit unit tt (fun s _ => s) unit s0) s0 = Some s1 /\
    cmds unit unit (s_log _ _ _ s1) = [] /\
    cache unit unit (s_log _ _ _ s1) = Some (mkAgg unit 2 tt) /\
    cmd s1 = None /\
    (exists s2, cmd (crash unit unit unit s1) = Some s2 /\ cmds unit unit (s_log _ _ _ s2) = [SEvents [tt]]).
Proof. eexists. split; [vm_compute; reflexivity|]. vm_compute. repeat split; try reflexivity. eexists. split; reflexivity. Qed.

Theorem rejected_record_failed_write_invisible : 
  forall (S Ev : Type) (init : S) (apply : S -> Ev -> S) (Ob : Type) (listen : Ob -> list Ev -> option Ob) (pre post : list Ev -> list task)
    (s : sys S Ev Ob),
  fail_at S Ev Ob 0 (steps_of S Ev init apply Ob listen pre post s ORejected) s = Some s.
Proof. intros. reflexivity. Qed.

(** ** The rsync tree switch at every cut (rsync.rs:72-175, repaired by e1f99c61) *)
Definition rs_clean (cur : option N) : rsyncd := mkRs None cur None.

(** At every cut of a write, [current] holds the old content, nothing (between the two renames) or the new. *)
Theorem rsync_current_at_every_cut : forall c0 c1 n r',
  rsync_run (rs_clean (Some c0)) (firstn n (rsync_write_trace (rs_clean (Some c0)) c1)) = Some r' ->
  r_current r' = Some c0 \/ r_current r' = None \/ r_current r' = Some c1.
Proof.
  intros c0 c1 n r'. destruct n as [|[|[|[|n]]]]; simpl; rewrite ?firstn_nil; simpl; intros H; inv H; simpl; auto.
Qed.

(** Cut between the two renames: [current] is missing, but the next write repairs the tree. *)
Theorem rsync_between_renames_heals : forall c0 c1 c2 r,
  rsync_run (rs_clean (Some c0)) (firstn 2 (rsync_write_trace (rs_clean (Some c0)) c1)) = Some r ->
  r_current r = None /\
  exists r2, rsync_run r (rsync_write_trace r c2) = Some r2 /\ r_current r2 = Some c2 /\ r_old r2 = None.
Proof. intros c0 c1 c2 r H. simpl in H. inv H. split; [reflexivity|]. eexists. simpl. split; [reflexivity|auto]. Qed.

(** The repaired switch: after a cut ANYWHERE in a write (first write or a later one), the next write succeeds,
    [current] holds the new content and the tree is clean again - so this holds for every sequence of cut and
    completed writes. *)
Theorem rsync_next_write_succeeds_after_any_cut : forall cur c1 c2 n r,
  rsync_run (rs_clean cur) (firstn n (rsync_write_trace (rs_clean cur) c1)) = Some r ->
  rsync_run r (rsync_write_trace r c2) = Some (rs_clean (Some c2)).
Proof.
  intros [c0|] c1 c2 n r; destruct n as [|[|[|[|n]]]]; simpl; rewrite ?firstn_nil; simpl; intros H; inv H; reflexivity.
Qed.

(** No cut of the repaired switch fails, from a clean tree or from any state a cut left behind. *)
Theorem rsync_write_never_stuck : forall cur c1 c2 n m r,
  rsync_run (rs_clean cur) (firstn n (rsync_write_trace (rs_clean cur) c1)) = Some r ->
  rsync_run r (firstn m (rsync_write_trace r c2)) <> None.
Proof.
  intros [c0|] c1 c2 n m r; destruct n as [|[|[|[|n]]]]; simpl; rewrite ?firstn_nil; simpl; intros H; inv H;
    destruct m as [|[|[|[|[|m]]]]]; simpl; rewrite ?firstn_nil; simpl; discriminate.
Qed.

(** Regression witness for the originally pinned switch (finding F11c, observed on the real code by the C08 cut
    enumeration before the repair): a cut - or failing removal - after the second rename leaves [old] behind
    and EVERY later write fails at its first rename (ENOTEMPTY). *)
Theorem rsync_stuck_after_cut_pinned : forall c0 c1 r,
  rsync_run (rs_clean (Some c0)) (firstn 3 (rsync_write_trace_pinned (rs_clean (Some c0)) c1)) = Some r ->
  r_current r = Some c1 /\ r_old r = Some c0 /\ forall c2, rsync_run r (rsync_write_trace_pinned r c2) = None.
Proof. intros c0 c1 r H. simpl in H. inv H. split; [reflexivity|]. split; [reflexivity|]. intros c2. reflexivity. Qed.

(** ** Two stores without a common transaction: a request cut after any number of steps and submitted again
    completes iff its first step accepts having been applied already. *)
Definition two_done : two := mkTwo true true.

Theorem two_store_converges : forall o cut, idem_first o = true ->
  two_state (two_resubmit o cut) = two_done /\ ((cut <= 1)%nat -> two_resubmit o cut = TOk two_done).
Proof.
  intros [f s] cut H. simpl in H. subst f. unfold two_resubmit.
  destruct cut as [|[|c]]; simpl; try (split; [reflexivity|intros; reflexivity]).
  destruct s; simpl; split; try reflexivity; intros; lia.
Qed.

Theorem two_store_refuted : forall o, idem_first o = false ->
  two_resubmit o 1 = TRefused (mkTwo true false).
Proof. intros [f s] H. simpl in H. subst f. reflexivity. Qed.

(** remove_publisher as written converges at every cut; with the two stores swapped a cut between them is
    final: every resubmission is refused while the content step never happened; create_publisher (access
    first, duplicate refused) has the same shape. *)
Theorem remove_publisher_converges : forall cut,
  two_state (two_resubmit remove_publisher_op cut) = two_done /\ ((cut <= 1)%nat -> two_resubmit remove_publisher_op cut = TOk two_done).
Proof. intros cut. apply two_store_converges. reflexivity. Qed.

Theorem remove_publisher_swapped_stuck : two_resubmit remove_publisher_swapped 1 = TRefused (mkTwo true false).
Proof. apply two_store_refuted. reflexivity. Qed.

Theorem create_publisher_cut_between_stores_stuck : two_resubmit create_publisher_op 1 = TRefused (mkTwo true false).
Proof. apply two_store_refuted. reflexivity. Qed.
