(** C08 proofs: every cut of every operation leaves a loadable system, acknowledged commands survive every
    later fault, a failing write leaves nothing of the command in the log or the cache, resubmission
    converges; the "atomic alike" clause is refuted (pre-save listeners run ahead of the log) and proved
    outside the known window. *)
From KV Require Import base.Tac es.Es es.EsProofs crash.Crash ca.Ca.
Open Scope N_scope.

(** ** Task sets *)
Lemma task_eqb_refl t : task_eqb t t = true.
Proof. unfold task_eqb. rewrite !N.eqb_refl. reflexivity. Qed.
Lemma task_eqb_sym a b : task_eqb a b = task_eqb b a.
Proof. unfold task_eqb. rewrite (N.eqb_sym (fst a)), (N.eqb_sym (snd a)). reflexivity. Qed.
Lemma task_eqb_eq a b : task_eqb a b = true <-> a = b.
Proof.
  unfold task_eqb. destruct a as [a1 a2], b as [b1 b2]; simpl. rewrite andb_true_iff, !N.eqb_eq.
  split; [intros [-> ->]; reflexivity|intros H; inversion H; auto].
Qed.

Lemma t_mem_del l t x : t_mem (t_del l t) x = t_mem l x && negb (task_eqb x t).
Proof.
  unfold t_mem, t_del. induction l as [|y l IH]; simpl; [reflexivity|].
  destruct (task_eqb y t) eqn:E; simpl.
  - rewrite IH. apply task_eqb_eq in E. subst y. destruct (task_eqb x t); simpl; [rewrite andb_false_r; reflexivity|reflexivity].
  - rewrite IH. destruct (task_eqb x y) eqn:E2; simpl; [|reflexivity].
    apply task_eqb_eq in E2. subst y. rewrite E. reflexivity.
Qed.

Lemma t_mem_put l t x : t_mem (t_put l t) x = task_eqb x t || t_mem l x.
Proof.
  unfold t_put. change (t_mem (t :: t_del l t) x) with (task_eqb x t || t_mem (t_del l t) x).
  rewrite t_mem_del. destruct (task_eqb x t); simpl; [reflexivity|rewrite andb_true_r; reflexivity].
Qed.

Lemma t_mem_app a b x : t_mem (a ++ b) x = t_mem a x || t_mem b x.
Proof. unfold t_mem. apply existsb_app. Qed.

Section CrashProofs.
  Variables (S Ev : Type) (init : S) (apply : S -> Ev -> S).
  Variable Ob : Type.
  Variable listen : Ob -> list Ev -> option Ob.
  Variable pre_tasks post_tasks : list Ev -> list task.

  Notation sys := (sys S Ev Ob).
  Notation mutation := (mutation S Ev Ob).
  Notation step := (step S Ev Ob).
  Notation op := (op Ev Ob).
  Notation steps_of := (steps_of S Ev init apply Ob listen pre_tasks post_tasks).
  Notation apply_mut := (apply_mut S Ev Ob).
  Notation run_cut := (run_cut S Ev Ob).
  Notation run_all := (run_all S Ev Ob).
  Notation fail_at := (fail_at S Ev Ob).
  Notation crash := (crash S Ev Ob).
  Notation restart := (restart S Ev Ob).
  Notation complete := (complete S Ev init apply Ob listen pre_tasks post_tasks).
  Notation run_hist := (run_hist S Ev init apply Ob listen pre_tasks post_tasks).
  Notation hstep := (hstep S Ev init apply Ob listen pre_tasks post_tasks).
  Notation s_log := (s_log S Ev Ob).
  Notation s_objs := (s_objs S Ev Ob).
  Notation s_pend := (s_pend S Ev Ob).
  Notation s_run := (s_run S Ev Ob).
  Notation cmds := (cmds S Ev).
  Notation load := (Es.load S Ev init apply).
  Notation replay := (Es.replay S Ev init apply).
  Notation consistent := (consistent S Ev init apply).
  Notation side_effects := (side_effects S Ev Ob pre_tasks).
  Notation cmd_index := (cmd_index S Ev Ob pre_tasks).
  Notation sched_all := (sched_all S Ev Ob).
  Notation sched_fin_all := (sched_fin_all S Ev Ob).

  (** Well-formed: cache and snapshot are replays of prefixes of the stored commands (C06's invariant). *)
  Definition wf (s : sys) : Prop := consistent (s_log s).

  Definition extends (s s' : sys) : Prop := exists l, cmds (s_log s') = cmds (s_log s) ++ l.

  Lemma extends_refl s : extends s s.
  Proof. exists []. rewrite app_nil_r. reflexivity. Qed.
  Lemma extends_trans a b c : extends a b -> extends b c -> extends a c.
  Proof. intros [l1 H1] [l2 H2]. exists (l1 ++ l2). rewrite H2, H1, app_assoc. reflexivity. Qed.

  (** Mutations that do not touch the audit log. *)
  Definition is_side (m : mutation) : bool :=
    match m with MCmd _ _ | MSnap _ => false | _ => true end.

  Definition apply_side (s : sys) (m : mutation) : sys :=
    match apply_mut s m with Some s' => s' | None => s end.
  Definition run_side (ms : list mutation) (s : sys) : sys := fold_left apply_side ms s.

  Lemma side_some s m : is_side m = true -> apply_mut s m = Some (apply_side s m).
  Proof. unfold apply_side. destruct m; simpl; try discriminate; reflexivity. Qed.

  Lemma side_log s m : is_side m = true -> s_log (apply_side s m) = s_log s.
  Proof.
    unfold apply_side. destruct m; simpl; try discriminate; intros _; try reflexivity.
    - destruct (t_mem (s_pend s) t); reflexivity.
    - destruct (t_mem (s_run s) t); reflexivity.
  Qed.

  Lemma run_side_log ms : forall s, forallb is_side ms = true -> s_log (run_side ms s) = s_log s.
  Proof.
    induction ms as [|m ms IH]; intros s H; simpl; [reflexivity|].
    simpl in H. apply andb_true_iff in H as [H1 H2]. unfold run_side in *. simpl. rewrite IH by assumption. apply side_log. assumption.
  Qed.

  Lemma firstn_forallb {A} (f : A -> bool) n l : forallb f l = true -> forallb f (firstn n l) = true.
  Proof.
    revert l; induction n as [|n IH]; intros [|x l] H; simpl; auto.
    simpl in H. apply andb_true_iff in H as [H1 H2]. rewrite H1. simpl. auto.
  Qed.

  (** Cuts and failing writes inside a block of log-free mutations. *)
  Lemma run_cut_side_app b ms rest : forall n s, forallb is_side ms = true ->
    run_cut n (map (Mut S Ev Ob b) ms ++ rest) s =
      if (n <? length ms)%nat then Some (run_side (firstn n ms) s) else run_cut (n - length ms) rest (run_side ms s).
  Proof.
    induction ms as [|m ms IH]; intros n s H.
    - simpl. replace (n - 0)%nat with n by lia. reflexivity.
    - simpl in H. apply andb_true_iff in H as [H1 H2]. simpl map. simpl app. destruct n as [|n].
      + simpl. reflexivity.
      + cbn [run_cut]. rewrite (side_some s m H1). rewrite IH by assumption.
        change (Datatypes.S n <? length (m :: ms))%nat with (n <? length ms)%nat.
        simpl. reflexivity.
  Qed.

  Lemma fail_at_side_app ms rest : forall n s, forallb is_side ms = true ->
    fail_at n (map (Mut S Ev Ob true) ms ++ rest) s =
      if (n <? length ms)%nat then Some (run_side (firstn n ms) s) else fail_at (n - length ms) rest (run_side ms s).
  Proof.
    induction ms as [|m ms IH]; intros n s H.
    - simpl. replace (n - 0)%nat with n by lia. reflexivity.
    - simpl in H. apply andb_true_iff in H as [H1 H2]. simpl map. simpl app. destruct n as [|n].
      + simpl. reflexivity.
      + cbn [fail_at]. rewrite (side_some s m H1). rewrite IH by assumption.
        change (Datatypes.S n <? length (m :: ms))%nat with (n <? length ms)%nat.
        simpl. reflexivity.
  Qed.

  Lemma sched_all_side ts : forall p, forallb is_side (fst (sched_all p ts)) = true.
  Proof.
    induction ts as [|t ts IH]; intros p; simpl; [reflexivity|].
    destruct (sched_all (t_put p t) ts) as [m2 p2] eqn:E. simpl.
    rewrite forallb_app. specialize (IH (t_put p t)). rewrite E in IH. simpl in IH. rewrite IH.
    destruct (t_mem p t); reflexivity.
  Qed.

  Lemma sched_fin_all_side ts : forall p r, forallb is_side (sched_fin_all p r ts) = true.
  Proof.
    induction ts as [|t ts IH]; intros p r; simpl; [reflexivity|].
    rewrite !forallb_app, IH. destruct (t_mem r t), (t_mem p t); reflexivity.
  Qed.

  Lemma side_effects_side s o' evs : forallb is_side (side_effects s o' evs) = true.
  Proof. unfold Crash.side_effects. simpl. apply sched_all_side. Qed.

  (** ** Invariant along the steps of an operation. Success of a mutation and well-formedness depend on the
      audit log only, so the invariant is stated on the log. *)
  Definition with_cache (l : Es.store S Ev) (a : Es.agg S) : Es.store S Ev := mkStore S Ev (cmds l) (snap S Ev l) (Some a).
  Definition log_mut (l : Es.store S Ev) (m : mutation) : option (Es.store S Ev) :=
    match m with
    | MCmd v x => if v =? N.of_nat (length (cmds l)) + 1 then Some (mkStore S Ev (cmds l ++ [x]) (snap S Ev l) (cache S Ev l)) else None
    | MSnap a => Some (mkStore S Ev (cmds l) (Some a) (cache S Ev l))
    | _ => Some l
    end.
  Definition lext (l l' : Es.store S Ev) : Prop := exists k, cmds l' = cmds l ++ k.

  Fixpoint goodl (st : list step) (l : Es.store S Ev) : Prop :=
    match st with
    | [] => True
    | CacheSet _ _ _ a :: r => consistent (with_cache l a) /\ goodl r (with_cache l a)
    | Mut _ _ _ c m :: r =>
        if is_side m then goodl r l
        else c = true /\ exists l', log_mut l m = Some l' /\ consistent l' /\ lext l l' /\ goodl r l'
    end.

  Lemma apply_mut_log s m : is_side m = false ->
    apply_mut s m = option_map (with_log S Ev Ob s) (log_mut (s_log s) m).
  Proof.
    destruct m; simpl; try discriminate; intros _; [|reflexivity].
    destruct (v =? N.of_nat (length (cmds (s_log s))) + 1); reflexivity.
  Qed.

  Lemma lext_refl l : lext l l.
  Proof. exists []. rewrite app_nil_r. reflexivity. Qed.
  Lemma lext_trans a b c : lext a b -> lext b c -> lext a c.
  Proof. intros [l1 H1] [l2 H2]. exists (l1 ++ l2). rewrite H2, H1, app_assoc. reflexivity. Qed.

  Lemma good_run_cut st : forall n s, wf s -> goodl st (s_log s) ->
    exists s', run_cut n st s = Some s' /\ wf s' /\ extends s s'.
  Proof.
    induction st as [|x st IH]; intros n s W G.
    - exists s. simpl. split; [reflexivity|split; [assumption|apply extends_refl]].
    - destruct x as [c m|a].
      + destruct n as [|n]; [exists s; simpl; split; [reflexivity|split; [assumption|apply extends_refl]]|].
        cbn [goodl] in G. destruct (is_side m) eqn:Sd.
        * cbn [Crash.run_cut]. rewrite (side_some s m Sd).
          destruct (IH n (apply_side s m)) as [s2 [R [W2 X2]]].
          -- unfold wf. rewrite side_log by assumption. exact W.
          -- rewrite side_log by assumption. exact G.
          -- exists s2. split; [assumption|split; [assumption|]]. destruct X2 as [k Hk]. exists k. rewrite Hk, side_log by assumption. reflexivity.
        * destruct G as [_ [l' [E [C' [X' G']]]]]. cbn [Crash.run_cut]. rewrite apply_mut_log by assumption. rewrite E. simpl.
          destruct (IH n (with_log S Ev Ob s l')) as [s2 [R [W2 X2]]]; [exact C'|exact G'|].
          exists s2. split; [assumption|split; [assumption|]]. destruct X' as [k1 H1], X2 as [k2 H2]. exists (k1 ++ k2).
          rewrite H2. simpl. rewrite H1, app_assoc. reflexivity.
      + destruct G as [W1 G1]. cbn [Crash.run_cut].
        destruct (IH n (set_cache S Ev Ob s a)) as [s2 [R [W2 X2]]]; [exact W1|exact G1|].
        exists s2. split; [assumption|split; [assumption|]]. destruct X2 as [k Hk]. exists k. rewrite Hk. reflexivity.
  Qed.

  Lemma good_run_all st s : wf s -> goodl st (s_log s) -> exists s', run_all st s = Some s' /\ wf s' /\ extends s s'.
  Proof. intros. apply good_run_cut; assumption. Qed.

  Lemma good_fail_at st : forall n s, wf s -> goodl st (s_log s) ->
    exists s', fail_at n st s = Some s' /\ wf s' /\ extends s s'.
  Proof.
    induction st as [|x st IH]; intros n s W G.
    - exists s. simpl. split; [reflexivity|split; [assumption|apply extends_refl]].
    - destruct x as [c m|a].
      + cbn [goodl] in G. destruct (is_side m) eqn:Sd.
        * destruct n as [|n].
          -- cbn [Crash.fail_at]. destruct c; [exists s; split; [reflexivity|split; [assumption|apply extends_refl]]|].
             apply good_run_all; assumption.
          -- cbn [Crash.fail_at]. rewrite (side_some s m Sd).
             destruct (IH n (apply_side s m)) as [s2 [R [W2 X2]]].
             ++ unfold wf. rewrite side_log by assumption. exact W.
             ++ rewrite side_log by assumption. exact G.
             ++ exists s2. split; [assumption|split; [assumption|]]. destruct X2 as [k Hk]. exists k. rewrite Hk, side_log by assumption. reflexivity.
        * destruct G as [Hc [l' [E [C' [X' G']]]]]. subst c. destruct n as [|n].
          -- cbn [Crash.fail_at]. exists s. split; [reflexivity|split; [assumption|apply extends_refl]].
          -- cbn [Crash.fail_at]. rewrite apply_mut_log by assumption. rewrite E. simpl.
             destruct (IH n (with_log S Ev Ob s l')) as [s2 [R [W2 X2]]]; [exact C'|exact G'|].
             exists s2. split; [assumption|split; [assumption|]]. destruct X' as [k1 H1], X2 as [k2 H2]. exists (k1 ++ k2).
             rewrite H2. simpl. rewrite H1, app_assoc. reflexivity.
      + destruct G as [W1 G1]. cbn [Crash.fail_at].
        destruct (IH n (set_cache S Ev Ob s a)) as [s2 [R [W2 X2]]]; [exact W1|exact G1|].
        exists s2. split; [assumption|split; [assumption|]]. destruct X2 as [k Hk]. exists k. rewrite Hk. reflexivity.
  Qed.

  (** ** Every operation's steps keep the invariant *)
  Lemma goodl_side_app b ms rest l : forallb is_side ms = true -> goodl rest l -> goodl (map (Mut S Ev Ob b) ms ++ rest) l.
  Proof.
    induction ms as [|m ms IH]; intros H G; simpl; [assumption|].
    simpl in H. apply andb_true_iff in H as [H1 H2]. rewrite H1. apply IH; assumption.
  Qed.

  Lemma goodl_sides b ms l : forallb is_side ms = true -> goodl (map (Mut S Ev Ob b) ms) l.
  Proof. intros H. rewrite <- (app_nil_r (map _ ms)). apply goodl_side_app; [assumption|exact I]. Qed.

  Lemma cons_append l x : consistent l -> consistent (mkStore S Ev (cmds l ++ [x]) (snap S Ev l) (cache S Ev l)).
  Proof.
    intros [Hc Hs]. split; simpl; intros a Ha; apply prefix_extend; [apply Hc|apply Hs]; assumption.
  Qed.

  Lemma cons_cache_full l a : consistent l -> a = replay (cmds l) -> consistent (with_cache l a).
  Proof.
    intros [Hc Hs] ->. split; simpl; intros a Ha; [inv Ha; apply prefix_full|apply Hs; assumption].
  Qed.

  Lemma cons_snap_full l a : consistent l -> a = replay (cmds l) ->
    consistent (mkStore S Ev (cmds l) (Some a) (cache S Ev l)).
  Proof.
    intros [Hc Hs] ->. split; simpl; intros a Ha; [apply Hc; assumption|inv Ha; apply prefix_full].
  Qed.

  Lemma load_ver l : consistent l -> a_ver S (load l) = N.of_nat (length (cmds l)) + 1.
  Proof. intros H. rewrite (load_is_replay S Ev init apply l H). apply replay_ver. Qed.

  Lemma goodl_store_cmd l x rest :
    consistent l ->
    (forall l', l' = mkStore S Ev (cmds l ++ [x]) (snap S Ev l) (cache S Ev l) -> goodl rest l') ->
    goodl (Mut S Ev Ob true (MCmd (a_ver S (load l)) x) :: rest) l.
  Proof.
    intros C G. cbn [goodl is_side]. split; [reflexivity|].
    exists (mkStore S Ev (cmds l ++ [x]) (snap S Ev l) (cache S Ev l)). split.
    - simpl. rewrite (load_ver l C), N.eqb_refl. reflexivity.
    - split; [apply cons_append; assumption|]. split; [exists [x]; reflexivity|apply G; reflexivity].
  Qed.

  Lemma goodl_cache_after_cmd l x :
    consistent l ->
    consistent (with_cache (mkStore S Ev (cmds l ++ [x]) (snap S Ev l) (cache S Ev l)) (apply_stored S Ev apply (load l) x)).
  Proof.
    intros C. apply cons_cache_full; [apply cons_append; assumption|].
    simpl. rewrite (load_is_replay S Ev init apply l C). symmetry. apply replay_snoc.
  Qed.

  Theorem goodl_steps_of s o : wf s -> goodl (steps_of s o) (s_log s).
  Proof.
    intros W. unfold wf in W. destruct o as [evs| | |o'|t|t|t|t|t|]; cbn [Crash.steps_of].
    - destruct (listen (s_objs s) evs) as [o'|]; [|exact I].
      apply goodl_side_app; [apply side_effects_side|]. cbn [app].
      apply goodl_store_cmd; [assumption|]. intros l' ->.
      apply goodl_side_app; [apply sched_fin_all_side|]. cbn [goodl]. split; [|exact I].
      apply goodl_cache_after_cmd. assumption.
    - apply goodl_store_cmd; [assumption|]. intros l' ->. cbn [goodl]. split; [|exact I].
      apply goodl_cache_after_cmd. assumption.
    - cbn [goodl]. split; [|exact I]. apply cons_cache_full; [assumption|]. apply load_is_replay. assumption.
    - cbn [goodl is_side]. exact I.
    - apply goodl_sides. unfold Crash.sched1. simpl. destruct (t_mem (s_pend s) t); reflexivity.
    - destruct (t_mem (s_pend s) t); cbn [goodl is_side]; exact I.
    - destruct (t_mem (s_run s) t); cbn [goodl is_side]; exact I.
    - destruct (t_mem (s_run s) t); cbn [goodl is_side]; exact I.
    - apply goodl_sides. unfold Crash.sched_fin1. simpl. destruct (t_mem (s_run s) t), (t_mem (s_pend s) t); reflexivity.
    - cbn [goodl is_side]. assert (C1 : consistent (with_cache (s_log s) (load (s_log s)))).
      { apply cons_cache_full; [assumption|]. apply load_is_replay. assumption. }
      split; [exact C1|]. split; [reflexivity|].
      exists (mkStore S Ev (cmds (with_cache (s_log s) (load (s_log s)))) (Some (load (s_log s))) (cache S Ev (with_cache (s_log s) (load (s_log s))))).
      split; [reflexivity|]. split.
      + apply cons_snap_full; [exact C1|]. simpl. apply load_is_replay. assumption.
      + split; [exists []; simpl; rewrite app_nil_r; reflexivity|exact I].
  Qed.

  (** ** C08, first clause: after every cut of every operation everything loads, and what loads is the
      replay of the surviving log *)
  Lemma crash_wf s : wf s -> wf (crash s).
  Proof. intros W. unfold wf. simpl. apply (sstep_consistent S Ev init apply (s_log s) ORestart). exact W. Qed.

  Lemma restart_wf s : wf s -> wf (restart s).
  Proof. intros W. unfold wf. simpl. apply (sstep_consistent S Ev init apply (s_log s) ORestart). exact W. Qed.

  Theorem every_prefix_loads : forall s o n, wf s ->
    exists s', run_cut n (steps_of s o) s = Some s' /\ wf (crash s') /\
      recover S Ev init apply Ob s' = replay (cmds (s_log s')) /\
      extends s s'.
  Proof.
    intros s o n W. destruct (good_run_cut (steps_of s o) n s W (goodl_steps_of s o W)) as [s' [R [W' X]]].
    exists s'. split; [exact R|]. split; [apply crash_wf; exact W'|]. split; [|exact X].
    unfold recover. rewrite (load_is_replay S Ev init apply _ (crash_wf s' W')). reflexivity.
  Qed.

  Theorem every_failed_write_loads : forall s o n, wf s ->
    exists s', fail_at n (steps_of s o) s = Some s' /\ wf s' /\ load (s_log s') = replay (cmds (s_log s')) /\ extends s s'.
  Proof.
    intros s o n W. destruct (good_fail_at (steps_of s o) n s W (goodl_steps_of s o W)) as [s' [R [W' X]]].
    exists s'. split; [exact R|]. split; [exact W'|]. split; [apply load_is_replay; exact W'|exact X].
  Qed.

  (** ** Histories of operations, crashes, failing writes and restarts never damage the log and never shorten it *)
  Lemma hstep_ok s h : wf s -> exists s', hstep s h = Some s' /\ wf s' /\ extends s s'.
  Proof.
    intros W. destruct h as [o|o n|o n|]; cbn [Crash.hstep].
    - apply good_run_all; [exact W|apply goodl_steps_of; exact W].
    - destruct (good_run_cut (steps_of s o) n s W (goodl_steps_of s o W)) as [s' [R [W' X]]]. rewrite R. simpl.
      exists (restart s'). split; [reflexivity|]. split; [apply restart_wf; exact W'|]. destruct X as [k Hk]. exists k. simpl. exact Hk.
    - apply good_fail_at; [exact W|apply goodl_steps_of; exact W].
    - exists (restart s). split; [reflexivity|]. split; [apply restart_wf; exact W|]. exists []. simpl. rewrite app_nil_r. reflexivity.
  Qed.

  Theorem run_hist_ok : forall hs s, wf s -> exists s', run_hist s hs = Some s' /\ wf s' /\ extends s s'.
  Proof.
    induction hs as [|h hs IH]; intros s W.
    - exists s. split; [reflexivity|split; [exact W|apply extends_refl]].
    - cbn [Crash.run_hist]. destruct (hstep_ok s h W) as [s1 [E [W1 X1]]]. rewrite E.
      destruct (IH s1 W1) as [s2 [R [W2 X2]]]. exists s2. split; [exact R|split; [exact W2|eapply extends_trans; eassumption]].
  Qed.
End CrashProofs.
